# sourced by every command registered in MANIFEST.json
export GOFLAGS=-mod=mod GOPROXY=off GOSUMDB=off GOTOOLCHAIN=local
unset GOWORK
export PATH="$PATH:/usr/local/go/bin"
