#!/bin/bash
# usage: confirm_seed.sh <seeddir> — confirm a seeded change in a scratch worktree of /repo's HEAD:
# compiles, existing suite passes, demo fails with the change and passes without it.
# On success writes <seeddir>/patch.rebased.diff (git diff against current HEAD) and prints CONFIRMED.
set -u
. /verif/env.sh
sd=$1
wt=/var/tmp/seedwt.$$
git -C /repo worktree add -q --detach $wt HEAD || exit 2
trap 'git -C /repo worktree remove --force '$wt' >/dev/null 2>&1' EXIT
cd $wt
git apply $sd/patch.diff 2>/dev/null || patch -p1 -s -F3 < $sd/patch.diff || { echo "NOAPPLY"; exit 1; }
find . -name '*.orig' -delete; find . -name '*.rej' -delete
git diff > $sd/patch.rebased.diff
go build ./... || { echo "NOBUILD"; exit 1; }
go test -count=1 ./... > /tmp/seedtest.$$ 2>&1 || { echo "SUITE-FAILS"; tail -5 /tmp/seedtest.$$; exit 1; }
cp $sd/demo_test.go ./zz_demo_test.go
if go test -count=1 -run TestSeedDemo . > /tmp/seeddemo.$$ 2>&1; then echo "DEMO-PASSES-WITH-PATCH"; exit 1; fi
git checkout -q -- . 
if ! go test -count=1 -run TestSeedDemo . > /tmp/seeddemo2.$$ 2>&1; then echo "DEMO-FAILS-WITHOUT-PATCH"; tail -5 /tmp/seeddemo2.$$; exit 1; fi
rm -f zz_demo_test.go /tmp/seedtest.$$ /tmp/seeddemo.$$ /tmp/seeddemo2.$$
echo CONFIRMED
