#!/bin/bash
# like seeds.sh, but each seed is applied to its own scratch copy of /repo (safe to run beside other jobs); parallel
dir=${1:-/verif/seeded}
ls -d $dir/C* | xargs -P ${P:-4} -I{} sh -c 'id=$(basename {}); prop=${id%%-*}; r=$(TAIL=1 /verif/tools/try_copy.sh {}/patch.diff $prop 2>&1 | grep -v conda | tr "\n" " "); echo "$id :: $r" | cut -c1-170'
