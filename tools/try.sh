#!/bin/bash
# usage: try.sh <patch.diff> <prop>...   — apply a seeded change to /repo, run the quick checks, undo it.
set -u
. /verif/env.sh
mkdir -p /tmp/ivqtry; cp /verif/known_findings.txt /tmp/ivqtry/ 2>/dev/null
patch=$1; shift
cd /repo || exit 2
if ! git diff --quiet; then echo "repo dirty"; exit 2; fi
git apply "$patch" 2>/dev/null || patch -p1 -s -F3 < "$patch" || { echo "patch does not apply"; git checkout -- .; exit 2; }
trap 'git -C /repo checkout -- . ; find /repo -name "*.orig" -delete; find /repo -name "*.rej" -delete' EXIT
for p in "$@"; do
  IVQ_VERIF=${IVQ_VERIF:-/tmp/ivqtry} ${IVQ_BIN:-/verif/bin/ivq} check -p "$p" 2>&1 | grep -v "^WARNING conda" | tail -${TAIL:-6}
  echo "exit=${PIPESTATUS[0]}"
done
