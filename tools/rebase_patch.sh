#!/bin/bash
# usage: rebase_patch.sh <patch.diff>  — re-create a stored patch against /repo's current HEAD with a 3-way merge
# (the blobs named in the patch's index lines are in /repo's object store); rewrites the file in place on success.
set -u
p=$1
wt=/var/tmp/rebwt.$$
git -C /repo worktree add -q --detach $wt HEAD || exit 2
trap 'git -C /repo worktree remove --force '$wt' >/dev/null 2>&1' EXIT
cd $wt
if git apply --3way "$p" >/dev/null 2>&1 && ! git diff --name-only --diff-filter=U | grep -q .; then
  git diff HEAD > /tmp/rebased.$$ && [ -s /tmp/rebased.$$ ] && . /verif/env.sh && go build ./... >/dev/null 2>&1 && cp /tmp/rebased.$$ "$p" && echo "REBASED $p" || echo "FAILED(build) $p"
else
  echo "FAILED(merge) $p"
fi
rm -f /tmp/rebased.$$
