#!/bin/bash
# usage: mut.sh <prop> <file> <python-regex> <replacement>   — run a check on a scratch copy with one textual edit
set -u
. /verif/env.sh
mkdir -p /tmp/ivqtry; cp /verif/known_findings.txt /tmp/ivqtry/ 2>/dev/null
prop=$1; file=$2; pat=$3; rep=$4
d=/var/tmp/mut.$$
rm -rf $d; mkdir -p $d; rsync -a --exclude .git /repo/ $d/
python3 - "$d/$file" "$pat" "$rep" <<'PY'
import re,sys
f,pat,rep=sys.argv[1:4]
s=open(f).read()
n=len(re.findall(pat,s,flags=re.S))
if n!=1: sys.exit("pattern matches %d times"%n)
open(f,'w').write(re.sub(pat,rep,s,count=1,flags=re.S))
PY
[ $? -eq 0 ] || { rm -rf $d; exit 2; }
(cd $d && go build ./... ) || { echo "does not compile"; rm -rf $d; exit 2; }
IVQ_REPO=$d IVQ_VERIF=/tmp/ivqtry /verif/bin/ivq check -p $prop 2>&1 | grep -v "^WARNING conda" | tail -${TAIL:-4}
rm -rf $d
