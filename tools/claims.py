# One entry per property: claim(...) when a check is built, NA[...] otherwise.
PENDING = "no static rule for this property is built yet in this round (design in DESIGN.md section 4); not claimed until its check exists"
for _i in range(1, 21):
    NA["C%02d" % _i] = PENDING

claim("C13",
  "Every construct that can panic in the non-parser code is decided on every path: index/slice bounds by dominating len guards, integer division by a zero test of the very divisor, dereferences of comma-ok assertion results by a tested ok, single-result assertions by the operand's inferred dynamic type set, explicit panics by exhaustiveness of the sealed type switch in front of them. A panic is a construct, so path-exhaustive guard dominance is the right level; it is not a proof that no panic exists (nil dereferences of optional fields and panics inside the standard library are outside it).",
  "Trusted: go/types, go/ssa, go/cfg; the contract table in checker/rules_totality.go (regexp/syntax shapes, submatch index layout, sort.Interface, ring indices); user-supplied Rewriter/Visitor/Valuer implementations return the node kind they were given and do not mutate the AST. Not covered: general nil dereference, stack depth, standard-library panics.",
  "static analysis: guard-dominance dataflow on go/cfg + sealed-sum exhaustiveness + SSA dynamic-type sets",
  "DESIGN.md 4/C13, 3/E2, 3/E3")

claim("C14",
  "Independence and non-mutation are decided by an interprocedural origin/effect analysis on SSA: every clone function's result is fresh and shares no mutable node with its argument; every clone literal sets every field; after the whole-struct copy every pointer-like field is re-assigned; and every exported operation other than the listed in-place rewrites has no store that reaches memory of any parameter. Sharing and writes are structural, so the absence of a store/flow on every path settles them for all later mutation histories; structural equality of scalar fields copied by a struct assignment is by construction.",
  "Trusted: go/ssa; field-insensitive origins (over-approximates writes, cannot miss one except through the stated callback assumption); the mutators table and immutable-leaf table in checker/rules_effects.go. Assumes user-supplied Visitor/Rewriter/Valuer/TypeMapper/FieldMapper do not mutate the AST. Not covered: value equality of clone and original beyond field coverage.",
  "static analysis: interprocedural write-effect and freshness analysis on SSA with callback-parametric summaries",
  "DESIGN.md 4/C14, 3/E6")

claim("C17",
  "Race freedom and result-independence follow from absence of writes to shared locations: no function outside package initialisation stores to, or calls a mutating method on, global-reachable memory; no global holds a sync primitive or channel; the package starts no goroutine and uses no unsafe/reflect; and the read-only operations on a shared AST write through no parameter. Schedules need not be enumerated because the argument is on locations, not interleavings. The rule is sufficient, not necessary: a correctly locked cache would be reported, since its lock discipline is not decided here.",
  "Trusted: go/ssa, the effect analysis (E6), documented concurrency safety of *regexp.Regexp and *strings.Replacer; user-supplied callbacks do not mutate the AST. GroupByInterval/GroupByOffset (memo) are outside the shared set as the property states.",
  "static analysis: global-write and parameter-write effects on SSA; type scan of package-level variables",
  "DESIGN.md 4/C17, 3/E6")

claim("C20",
  "Decides the clauses with structural form: ColumnNames and everything it reaches are write-free and global-free and range over no map (pure function of the statement); the result is sized by the expanded column list and every store into it is at i+offset with i ranging over that same list; argument slicing is guarded. Uniqueness of generated names (suffix counter arithmetic) is a value property and is NOT covered.",
  "Trusted: go/ssa, go/cfg, effect analysis, guard-dominance engine. Not covered: the de-duplication counter logic, alias-vs-generated clashes, exact naming of nested expressions.",
  "static analysis: write effects + map-iteration order + guard-dominance on index expressions",
  "DESIGN.md 4/C20")

claim("C03",
  "The precedence table is extracted from Token.Precedence by constant propagation for every token constant and compared, by operator spelling, with the five levels the property states; isOperator/IsRegexOp likewise. The insertion loop of ParseExpr is checked on SSA: the only conditions leading to the insertion point are 'right child is not a BinaryExpr' and prec(child) >= prec(new) (left associativity), the inserted node is {LHS: old right child, RHS: new operand, Op: new op}; '(' always yields a ParenExpr; regex operators take their operand from parseRegex and a missing regex is rejected. These are the finite tables and the comparator the grouping of every chain depends on; a different insertion algorithm is reported undecided, not accepted.",
  "Trusted: go/ssa, the SCCP evaluator in checker/sccp.go, the spelling table `tokens` as the link between the property's operator spellings and token constants. Not covered: the scanner's character-level recognition of the 18 spellings; general correctness of the insertion algorithm beyond comparator and node shape; printing (C02).",
  "static analysis: table extraction by sparse conditional constant propagation on SSA + structural check of the insertion loop",
  "DESIGN.md 4/C03, 3/E1")

claim("C08",
  "Unit table of ParseDuration extracted by constant propagation (unit rune and look-ahead bound to each compared constant) equals the nine units the property lists; FormatDuration is verified to be a strictly descending divisibility ladder whose suffixes map back to the same multipliers (necessary for Parse(Format(d)) = d and for 'largest dividing unit'); the accumulation is protected by an error-returning test that depends on number, multiplier and running total; no printer writes a duration through Go's own formatting. Exactness of the int64 arithmetic below the bound is plain machine arithmetic and is not separately proved.",
  "Trusted: go/ssa, SCCP evaluator. Not covered: sufficiency of the overflow comparison for every magnitude (the rule checks which quantities it bounds, not its arithmetic), the MinInt64 exception, the lexer's DURATIONVAL continuation.",
  "static analysis: SCCP table extraction + ladder-shape check + dependence check of the overflow guard on SSA",
  "DESIGN.md 4/C08, 3/E1")

claim("C09",
  "Every `case TOKEN` arm of the constant folder and of the evaluator (about 190 arms) is checked to apply the Go operator or method TOKEN denotes between the left and right operand, in order for non-commutative operators; the negative-integer-versus-unsigned arms are checked for a strict sign test and the right constants; the boolean-literal short-cuts of reduceBinaryExpr are evaluated by constant propagation over all 18 (left kind, right kind, AND/OR) cases and must denote the truth table. Unit tests touch a fraction of the (operator x kind x kind) cells; this visits each arm. It decides operator correspondence, not arithmetic at boundary values.",
  "Trusted: go/types, SCCP evaluator; operands are recognised by the lhs*/rhs* naming the two functions use (a rename drops the instance count under its floor and fails closed). Not covered: overflow/rounding at boundary values, idempotence of Reduce, time-zone handling of zone-less time strings (multiValuer.Zone), exactness of time arithmetic beyond the method used, cell-by-cell agreement of result kinds.",
  "static analysis: per-arm operator correspondence over the type-checked AST + SCCP evaluation of the boolean short-cuts",
  "DESIGN.md 4/C09")

claim("C10",
  "The finite tables the split depends on are extracted by constant propagation and compared with the property: operator -> (bound, +-1ns) in getTimeRange for every token; the operand-swap table and the 'other operand' wiring of both recognisers (case-folded) in conditionExpr; Intersect over all 24 (unset?, unset?, order) scenarios per bound; the four sentinel accessors; the nil/non-nil residual combinations of the AND/OR arm; and the boolean short-cuts of reduce through which the residual is built.",
  "Trusted: go/ssa, SCCP evaluator with symbolic non-nil values. Not covered: literal conversion (ToTimeLiteral, locations), overflow at the sentinels, the meaning of OR between time bounds, parenthesised sub-conditions beyond the shared recursion.",
  "static analysis: table extraction by sparse conditional constant propagation on SSA with call hooks",
  "DESIGN.md 4/C10, 3/E1")

claim("C18",
  "Decides the structural clauses: the stripper recognises every comparison the splitter treats as a time bound (same operand sides, same case folding) - the necessary condition for 'every earlier bound is gone'; the appended window is `time >= start AND time < end` in UTC with RFC3339Nano, joined as `(<previous>) AND <window>` and stored through Reduce; Reduce's boolean short-cuts (which remove the `true` placeholders without touching other operands) form the AND/OR truth table; and the stripper's other arms keep their node (one known finding: every Call is replaced). That the condition does not grow over a sequence of calls is argued from these (placeholders fold away, parentheses are idempotent under Reduce) but is not itself decided.",
  "Trusted: go/ssa, SCCP evaluator. Not covered: semantic equality with 'previous non-time part AND window' for every condition shape, growth over call sequences, OR between time bounds.",
  "static analysis: recogniser comparison and format/flow checks on SSA + SCCP truth table of the fold short-cuts",
  "DESIGN.md 4/C18")

claim("C19",
  "All 45 RequiredPrivileges methods are examined on every return path: the 23 administrative kinds return Admin: true literals; every path yields a non-empty list (a literal, a delegation to another statement, or a delegation to the sources under a dominating non-emptiness guard); the source recursion names every Source implementer, adds read for every measurement with no skipping path, recurses into subqueries with error propagation; SELECT adds write on the INTO target; EXPLAIN delegates on every path; CREATE CONTINUOUS QUERY adds write on its target. Privilege tables are literals in the code, so visiting every return path decides them for every statement and nesting depth.",
  "Trusted: go/types, guard-dominance engine. The parser's guarantee that SELECT has at least one source is checked structurally (parseSelectStatement stores parseSources unconditionally) and otherwise assumed. Not covered: privileges of statement kinds the property does not constrain (e.g. which non-admin privilege SHOW commands use).",
  "static analysis: return-path enumeration over the type-checked AST with guard dominance; sealed-switch exhaustiveness",
  "DESIGN.md 4/C19")

claim("C11",
  "The decision tables of the rewrite are extracted by constant propagation: matchRegex can succeed only for the five operators with finite languages (every regexp/syntax operator is tried); it rejects FoldCase itself, so nested (?i) is rejected at every node; matchExactRegex proceeds only for OpBeginText...OpEndText over every anchor combination tried; every allocation for a product or class expansion and every appended alternation list is dominated by the > 100 test; the rewriter touches only =~/!~, maps them to =/OR and !=/AND and parenthesises a multi-literal result; nothing reachable keeps state in package-level memory. Equality of the two languages in general (what Simplify does to nested concatenations, the product construction itself) is NOT decided - that needs language comparison.",
  "Trusted: go/ssa, SCCP evaluator, the shape contracts of regexp/syntax nodes (Sub arity, Rune pairs). Not covered: that the product/expansion loops enumerate exactly the language; literal rune conversion.",
  "static analysis: SCCP table extraction over regexp/syntax operators + dominance of the cap test + global-effect analysis",
  "DESIGN.md 4/C11")

claim("C07",
  "Decides the structure that makes substitution token-level: every kind of bound value maps to one fixed token regardless of its text (TokenType is a constant function, extracted by constant propagation); the token ring is reachable only through Parser.scan (who-may-call over resolved references, plus field-access sets for the scanner and parameter fields); scan substitutes after the underlying scan on every path (so push-back re-substitutes), only under a non-empty name and a successful lookup, takes token and literal from the same value, and the bound text flows only to the returned literal - it never reaches a scanner or parser; an unresolved placeholder always ends in an error. Equality with the inlined literal for every value (number formatting into the literal text and back) is a value property and is not covered.",
  "Trusted: go/ssa, SCCP evaluator, reference graph (over-approximates calls). Not covered: formatting of float/integer values into literal text, SetTimeRange's re-lexing of a printed condition (quoted through QuoteString/QuoteIdent: C06).",
  "static analysis: SCCP on TokenType methods, who-may-call / field-access sets, dominance and def-use checks in Parser.scan",
  "DESIGN.md 4/C07")

claim("C16",
  "Decides the mechanisms that make layout neutral where they have a structural form: ScanIgnoreWhitespace skips exactly WS and COMMENT for every token constant; isWhitespace is exactly {space, tab, LF} and reader.read folds CR and CRLF to one LF without swallowing the next rune (all look-ahead scenarios); ParseQuery's separator state machine over (EOF / ; / other) x (flag) is the one the property describes and pushes the peeked token back before delegating; and every token any parse function scans is matched, used, pushed back or reported on every path (so no statement swallows the `;` or token that follows it). NOT covered: gap-by-gap neutrality for every grammar position - the parser's rune-level peeks (parseRegex, parseSegmentedIdents) bypass the token-level comment rule, and the known `SELECT a, /*c*/ b` case lives there - and the character-level comment terminator automaton of the scanner.",
  "Trusted: go/ssa, SCCP evaluator. The uncovered clause needs the scanner's character automaton composed with the parser's peeks; no sound and specific structural rule was found for it.",
  "static analysis: SCCP table extraction (skip set, whitespace class, CR folding, separator state machine) + token probe-balance typestate on SSA",
  "DESIGN.md 4/C16")

claim("C12",
  "Decides the determinism and exactness clauses that are structural: every range over a map in the package either has order-insensitive effects or feeds a slice that is sorted before use, and the sort key is total over its element type; the type-precedence relation is a strict total order (extracted over all pairs), and every LessThan-guarded merge keeps the argument, so merged types are maxima independent of visiting order; the schema's field set is never deleted from and the dimension set only without a dimension wildcard; RewriteFields writes only to its clone. Exact equality with an independent expansion model for every schema (which columns a nested call keeps, subquery typing) is not decided.",
  "Trusted: go/ssa, SCCP evaluator, effect analysis; two listed single-iteration/single-caller idioms in checker/maporder.go. Not covered: the wildcard/regex/call filter conditions themselves, aliases generated for expanded calls, subquery type evaluation.",
  "static analysis: map-iteration order analysis + SCCP extraction of the precedence relation + merge-idiom and effect checks on SSA",
  "DESIGN.md 4/C12, 3/E7")

claim("C15",
  "The printing clause is decided completely: the Password fields are stored by the two parse functions and loaded nowhere in the package, and both printers write the constant [REDACTED] - no layout or password content can change that. For Sanitize the structural necessary conditions are decided: offsets are applied to the very text they were computed on and cut exactly capture group 1; each pattern is case-insensitive, demands no whitespace after `=`, and its capture admits a complete quoted literal with blanks and the other quote. Five known findings remain (comments between the keywords, and a quoted user name containing `=`): they need a tokenising Sanitize and are recorded, not repaired.",
  "Trusted: go/types, go/ssa, regexp/syntax (used by the checker to parse the pattern constants). Not covered: full language inclusion between the patterns and the parser's token grammar; multi-statement texts beyond the offset rule.",
  "static analysis: field-access scan (who reads Password), def-use check of match offsets on SSA, structural analysis of the pattern constants' syntax trees",
  "DESIGN.md 4/C15")

claim("C05",
  "The scanner's dispatch is extracted by constant propagation for every first rune (all ASCII plus samples beyond) and every second rune it looks at; on each resulting single path the reads and unreads are counted: the net consumption equals the length of the returned token (so no rune falls between two tokens or into both), and each sub-scanner is entered in one consistent state. The position returned with a token must be captured at its first rune (offset tracking in Scan and every sub-scanner; one known finding: STRING tokens, pinned by the tests). CR / CRLF folding is evaluated over all look-ahead scenarios, and the rune push-back depth stays within the ring on every path. The arithmetic of line/column increments and termination/tiling of the variable-length tokens (identifiers, numbers, strings, comments) are NOT decided.",
  "Trusted: go/ssa, SCCP evaluator with call hooks, push-back typestate summaries. Not covered: reader.read's counter arithmetic, sticky-EOF counting, the loops of the sub-scanners.",
  "static analysis: SCCP extraction of the scanner dispatch with read/unread counting; offset typestate for positions; bounded push-back counter",
  "DESIGN.md 4/C05, 3/E5")

claim("C06",
  "The escape tables of QuoteString/QuoteIdent are read from their strings.NewReplacer constants and compared with the unescape table and the special runes extracted from ScanString by constant propagation: every pair is inverted by the scanner and every rune the scanner treats specially inside that quote (its closing quote, backslash, newline) is escaped, in one simultaneous pass; both helpers route the value through the replacer on every path. IdentNeedsQuotes answers true for every reserved word the lexer knows (true/false/AND/OR included) and uses the lexer's own predicates; the scanner's identifier entry agrees with isIdentFirstChar for every candidate rune. The 'cannot be broken out of' clause for arbitrary byte strings is a language property of the scanner and is not decided beyond these tables.",
  "Trusted: go/ssa, SCCP evaluator. Not covered: CR/NUL (excluded by the property), multi-part name segmentation in QuoteIdent beyond routing, malformed UTF-8.",
  "static analysis: constant extraction of replacer pairs + SCCP extraction of the scanner's unescape/special-rune tables and of the identifier predicates",
  "DESIGN.md 4/C06")

claim("C04",
  "Totality of parsing is decided construct by construct over everything the parser entry points can reach: index/slice bounds, integer divisions, comma-ok results and single-result assertions by guard dominance and dynamic-type sets; every explicit panic shown unreachable (registration conflicts reachable only from init; the sign-branch `unexpected literal` by computing, per admitted first token, the set of node types the recursive call can return); token and rune push-back depth bounded by the 3-slot rings through an interprocedural bounded counter with error-correlated summaries; every loop that reads input has a dead back edge once reads report end of input (constant propagation with reads bound to EOF), other loops are bounded by in-memory data; statement parsers return a statement or an error. Time 'proportional to the input length', stack exhaustion on deep nesting and panics inside the standard library are NOT covered.",
  "Trusted: go/ssa, go/cfg, SCCP evaluator, the contract table of variable-index sites; a pushed-back token re-scans as the same token. Not covered: progress of the recursion cycles (each consumes a token) is argued, not decided; regexp.Compile/strconv behaviour.",
  "static analysis: guard dominance + dynamic-type sets + bounded push-back typestate + SCCP end-of-input loop exit",
  "DESIGN.md 4/C04, 3/E2 E3 E5")

claim("C01",
  "Decides the finite tables and wiring the recursive descent relies on: every statement kind is built by a parse function reachable from the dispatch tree, which is keyed by keyword tokens only; for every (parse function, AST node) pair the keyword consumed in front of each store agrees with the keyword the printer writes for that field (so LIMIT/SLIMIT, OFFSET/SOFFSET, FUTURE/PAST are not cross-wired in the parser); every scanned token is matched, used, pushed back or reported on every path (no clause swallows or drops a token); segmented names fill database/policy/name right-aligned for every arity; the first-token -> node-kind table of unary expressions, the sign multipliers, the boolean value, the cast-name tables and the keyword table are extracted and compared with what the grammar states. Acceptance of every derivable text, numeric literal conversion and nesting are NOT decided.",
  "Trusted: go/types, go/ssa, SCCP evaluator, the slot extraction idioms of checker/slots.go (assignment to a field of the node under construction, composite literals, scan-compare guards, parseTokens, ParseOptionalTokenAndInt) and its exception table. Not covered: the README grammar is not parsed; duplicate-option bookkeeping (e.g. ALTER RETENTION POLICY's option set).",
  "static analysis: parser/printer slot-event extraction over the type-checked AST + token probe-balance typestate + SCCP table extraction",
  "DESIGN.md 4/C01, 3/E4")

claim("C02",
  "For every AST node a parse function builds (about 50 pairs) the parser's stores and the printer's emissions are extracted in source order and compared: every stored field is read by the printer and written (not merely tested); each is printed through the formatter whose output the parser's reader for that slot accepts (QuoteIdent / QuoteString / FormatDuration / integer formatting / the node's own String; raw text and Go duration syntax are violations); the keyword in front of each printed field is one the parser consumes before storing it; shallow clauses are printed in the order they are parsed. Literal formatters are checked against the lexer (decimal point on floats, regex delimiter escape, true/false, RFC3339Nano). Two known findings are recorded (raw call names; the -1 * x form of a signed operand). Equality of values through the round trip (float shortest formatting, pointer-to-zero vs nil options) is not decided.",
  "Trusted: go/types, go/ssa; the extraction idioms and exception table in checker/slots.go and checker/rules_c01_c02.go. Not covered: value-level round trip, nesting depth, conditions under which an optional clause is printed (e.g. > 0 tests).",
  "static analysis: parser/printer slot agreement (coverage, class, keyword, order) over the type-checked AST + dynamic-type set of unary operands",
  "DESIGN.md 4/C02, 3/E4")

# Rules added after the first build (seed rounds 2-3 and the neutral-refactoring
# rounds); appended to the claim text of each property.
ADDED = {
 "C01": "Also: the escapes accepted inside either quote; decimal/64-bit integer and duration literal conversion with an exact overflow test; CR/CRLF look-ahead pushed back; no parse result aliases parser-owned storage.",
 "C02": "Also: no clause printed only under an independently parsed clause; optional pointer-valued clauses printed whenever set; interface-valued slots keep their numeric kind; BinaryExpr and ParenExpr print as their operands/inner text in fixed form; NumberLiteral formatted shortest-exact with no integer detour.",
 "C03": "Also: ParenExpr.String and BinaryExpr.String return only the fixed forms; no bare BinaryExpr is stored as an operand outside the precedence insertion; the comparand of the insertion test is the new operator's own precedence.",
 "C04": "Also: comment skippers end at end of input (automata); no nil test on a freshly boxed pointer; bound values are never the nil interface.",
 "C05": "Also: comment openers fully consumed before the body; column arithmetic is 0 / +1 only; the identifier scanner is entered exactly for runes it accepts.",
 "C06": "Also: no vacuous `index == len` test in the quoting helpers; escape tables compared per quote kind.",
 "C07": "Also: bound values reach their kind verbatim; multi-entry objects rejected before the pick loop; SetParams replaces the map; bound values never nil.",
 "C08": "Also: decimal 64-bit digits (or a hand-written accumulation whose only guard is a sign test is rejected); exact `>` overflow comparison; no package state; no floating-point divisibility in the ladder.",
 "C09": "Also: operands promoted upwards only; no struct equality on instants; re-dispatch keeps left/right; no int64 quotient; copy literals complete.",
 "C10": "Also: the extracted range is returned unmodified; no mutable package state on the way; no integer-to-float detour for integer bounds.",
 "C11": "Also: no loop over sub-expressions is left by break.",
 "C12": "Also: the per-call type filter is recreated per iteration; constant types assigned to the merged type only under `== Unknown`; the filter is selected by the call that holds the wildcard.",
 "C13": "Also: ranging over a slice the body reassigns gives no index fact; pointers returned with an untested error are not used.",
 "C15": "Also: every return of Sanitize is behind both patterns; the lexer's whitespace class is within the patterns' \\s; the escape branch of the password literal is reachable.",
 "C16": "Also: no raw scan right after an explicit whitespace token; the regex gap test equals the lexer's whitespace class; multi-site comment automata; no parse result aliases parser-owned storage.",
 "C18": "Also: the set of condition texts SetTimeRange can build is exactly {window, (prev) AND window}; the generic rewriters store every child back; reducer copy literals are complete; a short-cut returns the operand itself, not a part of it.",
 "C19": "Also: no mutable package state in RequiredPrivileges; EXPLAIN delegation decided on SSA.",
 "C20": "Also: created columns carry no alias; the time-column slot is reserved under the same condition under which it is filled; appending into a shortened slice of the statement's fields counts as a write.",
}
for _p, _t in ADDED.items():
    if _p in CLAIMS:
        CLAIMS[_p]["text"] += " " + _t

ADDED2 = {
 "C01": "Rounds 4-5: cast names matched in any case; =, != and =~ accepted implies !~; clause order judged over all occurrences of a field in the printer.",
 "C02": "Rounds 4-5: float fill values excluded only by the bare ok; printed durations re-read (imports C08 units/overflow/digits/ladder); a group keyword is not left bare when its by-value members are zero.",
 "C03": "Rounds 4-5: an operand-printing helper prints the whole operand; no second precedence comparison decides an insertion; the operator's level is not kept in parser state; parse entry points read no mutable package state; every operand position holds a single operand.",
 "C04": "Rounds 4-5: an index guarded by the length of the text a rune slice was converted from; no recursion on a negated parameter; i+k range facts.",
 "C05": "Rounds 4-5: the reader is not moved after a delimited scan; a position taken after the body was consumed; delegated positions; the ring gets the rune read; strings end at the first unescaped quote; end marker not a character; comment skippers end at end of input; RuneScanner face fails only at the end; a quote after bare text ends the identifier; every ParseError has a position.",
 "C06": "Rounds 4-5: helpers pure and argument-preserving; reader/RuneScanner faithful; strings end at the first unescaped quote.",
 "C07": "Rounds 4-5: Value() renders floats with (-1, 64) and integers in base 10; parseRegex yields a regex only for REGEX and passes other parameters over; the placeholder name is its text minus one `$`; no numeric kind change in the final conversion.",
 "C08": "Rounds 4-5: Round is not a divisibility test; a digit-count limit admits 19 digits; rune positions not advanced by byte lengths; duration literal nodes not interned.",
 "C09": "Rounds 4-5: short-cuts return the reduced operand; asLiteral holds the bound value unconverted; Reduce reads no mutable package state; float-mode zero divisor; a float factor is not truncated before scaling a duration.",
 "C10": "Rounds 4-5: every successful return of the AND/OR arm carries the intersection; exact time operations only; zone-aware parsing of every literal form; first non-nil zone.",
 "C11": "Rounds 4-5: no class member narrowed to a byte; connective not captured from outside the callback; pattern parsed with syntax.Perl.",
 "C12": "Rounds 4-5: subqueries rewritten before references are typed; no loop over sources left by break; tag-argument guard not stricter than the slice; single-entry map idiom through callers.",
 "C14": "Rounds 4-5: nested whole-struct copies re-assign every pointer-like field.",
 "C15": "Rounds 4-5: strings end at the first unescaped quote; one output buffer per pass; backward splicing accepted; keywords matched inside quoted tokens (known finding).",
 "C16": "Rounds 4-5: counted separators; comment openers unconditional; the raw one-rune look-ahead is made only at push-back depth 0 (context-sensitive push-back analysis).",
 "C18": "Rounds 4-5: a paren-stripping helper strips every level; only comparisons with time are stripped.",
 "C19": "Rounds 4-5: the Admin flag is not a predicate over the statement's fields.",
 "C20": "Rounds 4-5: one Field per created column; created columns only without INTO (decided by evaluation with the target present).",
}
for _p, _t in ADDED2.items():
    if _p in CLAIMS:
        CLAIMS[_p]["text"] += " " + _t

ADDED3 = {
 "C01": "Round 7: every strconv call in base 10 / 64 bits without a value-changing conversion; lexer writes characters at full width.",
 "C02": "Round 7: a printer compares a field only with constants; only stored names are quoted; strconv agreement.",
 "C04": "Round 7: x[:len(x)-k] needs len(x) >= k (builder minimum length); a method on a returned error only under a non-nil test.",
 "C05": "Round 7: a rune read by a sub-scanner is written, pushed back or pinned before the reader moves on; only reader.read touches the underlying input; full-width writes.",
 "C06": "Round 7: IdentNeedsQuotes tests every character of the name.",
 "C07": "Round 7: strconv agreement of Value(); BindValue reads no mutable package state.",
 "C08": "Round 7: strconv agreement incl. the signedness of the parsed number; unit letters written at full width.",
 "C09": "Round 7: negated comparisons on floats and UnixNano projections of instants are not the operator they stand for.",
 "C10": "Round 7: the valuer's zone is its Location field; a nil residual only under a nil test of the condition or of a recursive residual.",
 "C12": "Round 7: a looked-up type replaces the accumulator only under LessThan; no source skipped on a memo keyed by one of its fields.",
 "C13": "Round 7: vacuous nil tests on boxed pointers and nil-error method calls in non-parser code; len-k slice bounds.",
 "C15": "Round 7: every occurrence of a pattern is treated (FindAll/-1); Regexp.Longest never called.",
 "C16": "Round 7: the comment body is entered after both runes of its opener (C05.consume imported).",
 "C17": "Round 7: Regexp.Longest (the one mutating, non-concurrent-safe method of a compiled pattern) never called.",
 "C18": "Round 7: the stripper's name test is not wider than equality; the fold SetTimeRange ends with keeps operator meaning and fractional factors (C09.opcorr/promote imported).",
 "C19": "Round 7: RequiredPrivileges makes up no error under a condition on the statement's fields.",
 "C20": "Round 7: a created column is never a copy of another Field; a column is skipped only on a test of its own slot or alias.",
}
for _p, _t in ADDED3.items():
    if _p in CLAIMS:
        CLAIMS[_p]["text"] += " " + _t

ADDED4 = {
 "C01": "Round 8: subqueries allowed at every depth; nothing read after the keyword lookup; every call argument offered to parseRegex first.",
 "C02": "Round 8: format strings are constants.",
 "C03": "Round 8: format strings are constants (a group's text is never the format); nothing read after the keyword lookup.",
 "C04": "Round 8: a Visit method does not walk a child itself and then return a visitor (exponential traversal); the String method of a pointer that Walk may hand on as nil guards its receiver.",
 "C06": "Round 8: a quoted identifier the string scanner accepted is an IDENT; Scanner methods store nothing into the Scanner.",
 "C09": "Round 8: Reduce writes nothing into the tree it is given (C14.readonly imported).",
 "C10": "Round 8: conditionExpr returns no BooleanLiteral of its own making.",
 "C12": "Round 8: the clone RewriteFields works on carries every field (C14.fields imported); no write into a map handed back by an interface call.",
 "C13": "Round 8: no write into a map handed back by an interface call (it may be nil); the String method of a pointer that Walk may hand on as nil guards its receiver.",
 "C14": "Round 8: a pattern is recompiled from its own source, never from the literal's printed form.",
 "C15": "Round 8: no greedy any-character run in front of the password capture.",
 "C16": "Round 8: only reader.read touches the underlying input (C05.rawread imported).",
 "C18": "Round 8: the condition text is never used as a format string; the quoting predicate agrees with the lexer's keyword lookup (C06.bare imported), so the kept condition re-parses.",
 "C19": "Round 8: privilege lists are never copied into a pre-sized slice.",
 "C20": "Round 8: an alias is stored under a test of the alias alone.",
}
for _p, _t in ADDED4.items():
    if _p in CLAIMS:
        CLAIMS[_p]["text"] += " " + _t
