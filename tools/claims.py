# One entry per property: claim(...) when a check is built, NA[...] otherwise.
PENDING = "no static rule for this property is built yet in this round (design in DESIGN.md section 4); not claimed until its check exists"
for _i in range(1, 21):
    NA["C%02d" % _i] = PENDING

claim("C13",
  "Every construct that can panic in the non-parser code is decided on every path: index/slice bounds by dominating len guards, integer division by a zero test of the very divisor, dereferences of comma-ok assertion results by a tested ok, single-result assertions by the operand's inferred dynamic type set, explicit panics by exhaustiveness of the sealed type switch in front of them. A panic is a construct, so path-exhaustive guard dominance is the right level; it is not a proof that no panic exists (nil dereferences of optional fields and panics inside the standard library are outside it).",
  "Trusted: go/types, go/ssa, go/cfg; the contract table in checker/rules_totality.go (regexp/syntax shapes, submatch index layout, sort.Interface, ring indices); user-supplied Rewriter/Visitor/Valuer implementations return the node kind they were given and do not mutate the AST. Not covered: general nil dereference, stack depth, standard-library panics.",
  "static analysis: guard-dominance dataflow on go/cfg + sealed-sum exhaustiveness + SSA dynamic-type sets",
  "DESIGN.md 4/C13, 3/E2, 3/E3")
