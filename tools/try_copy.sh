#!/bin/bash
# usage: try_copy.sh <patch.diff> <prop>... — like try.sh but on a scratch copy of /repo (safe while other runs read /repo)
set -u
. /verif/env.sh
patch=$1; shift
d=/var/tmp/tc.$$; v=/tmp/ivqtc.$$
rm -rf $d $v; mkdir -p $d $v; rsync -a --exclude .git /repo/ $d/; cp /verif/known_findings.txt $v/
trap 'rm -rf $d $v' EXIT
cd $d && patch -p1 -s -F3 < "$patch" >/dev/null 2>&1 || { echo "patch does not apply"; exit 2; }
for p in "$@"; do
  IVQ_REPO=$d IVQ_VERIF=$v ${IVQ_BIN:-/verif/bin/ivq} check -p "$p" 2>&1 | grep -v "^WARNING conda" | tail -${TAIL:-6}
  echo "exit=${PIPESTATUS[0]}"
done
