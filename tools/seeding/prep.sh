#!/bin/bash
# usage: prep.sh <seed|neutral> <root>   — create 20 scratch worktrees of /repo HEAD under <root>, the prompt template and the per-property texts
set -eu
kind=$1; root=$2
mkdir -p $root/out
for i in $(seq -w 1 20); do git -C /repo worktree add -q --detach $root/C$i HEAD; done
sed "s#@ROOT@#$root#g" /verif/tools/seeding/$kind.tmpl > $root/prompt.tmpl
python3 - "$kind" "$root" <<'PY'
import json,os,sys,glob
kind,root=sys.argv[1],sys.argv[2]
for l in open('/verif/properties.jsonl'):
    p=json.loads(l); pid=p['id']
    base="Property %s: %s\n\n%s\n\nQuantifier: %s\n"%(pid,p['title'],p['statement'],p['quantifier']['text'])
    if kind=='hunt':
        known=[l.split(' | ',4) for l in open('/verif/known_findings.txt') if l.startswith(('known |','fixed |')) and (' | %s | '%pid) in l]
        txt=base+'\nAlready known (do not report again):\n'+'\n'.join('- '+k[-1].strip() for k in known)+'\n'
    elif kind=='seed':
        prev=[json.load(open(m))['summary'] for m in sorted(glob.glob('/verif/seeded/%s-*/meta.json'%pid))]
        txt=base+"\nChanges already collected for this property (produce something that works through a DIFFERENT mechanism/function than these):\n"+'\n'.join('- '+s for s in prev)+"\n"
    else:
        anchors='\n'.join('- %s: %s'%(m['name'],m['where']) for m in p['anchors'].get('mechanism',[]))
        prev=[json.load(open(m)).get('summary','') for m in sorted(glob.glob('/verif/neutral/%s-*/meta.json'%pid))]
        txt=base+"\nCode the property is anchored in:\n"+anchors+"\n\nRefactorings already collected (touch DIFFERENT functions or use different transformations than these):\n"+'\n'.join('- '+s for s in prev)+"\n"
    open('%s/%s.property.txt'%(root,pid),'w').write(txt)
PY
echo ready
