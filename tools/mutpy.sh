#!/bin/bash
# usage: mutpy.sh <prop> <file> <python-expr transforming s>  — scratch-copy mutation with an arbitrary python edit
set -u
. /verif/env.sh
mkdir -p /tmp/ivqtry; cp /verif/known_findings.txt /tmp/ivqtry/ 2>/dev/null
prop=$1; file=$2; expr=$3
d=/var/tmp/mut.$$
rm -rf $d; mkdir -p $d; rsync -a --exclude .git /repo/ $d/
python3 - "$d/$file" "$expr" <<'PY'
import sys,re
f,expr=sys.argv[1:3]
s=open(f).read()
t=eval(expr)
if t==s: sys.exit("no change")
open(f,'w').write(t)
PY
[ $? -eq 0 ] || { rm -rf $d; exit 2; }
(cd $d && go build ./... ) || { echo "does not compile"; rm -rf $d; exit 2; }
IVQ_REPO=$d IVQ_VERIF=/tmp/ivqtry /verif/bin/ivq check -p $prop 2>&1 | grep -v "^WARNING conda" | grep -v KNOWN | tail -${TAIL:-4}
rm -rf $d
