#!/usr/bin/env python3
"""Regenerates /verif/MANIFEST.json from the table below (run after editing)."""
import json, sys

CLAIMS = {}   # id -> dict(text, note, technique, design_ref)
NA = {}       # id -> reason

def claim(pid, text, note, technique, ref):
    CLAIMS[pid] = dict(text=text, note=note, technique=technique, ref=ref)

exec(open('/verif/tools/claims.py').read())

ids = ["C%02d" % i for i in range(1, 21)]
checks = []
for pid in ids:
    if pid not in CLAIMS:
        continue
    c = CLAIMS[pid]
    checks.append({
        "property_id": pid,
        "quick_cmd": ". /verif/env.sh && /verif/bin/ivq check -p %s -tier quick" % pid,
        "thorough_cmd": ". /verif/env.sh && /verif/bin/ivq check -p %s -tier thorough" % pid,
        "evidence_file": "/verif/evidence/%s.json" % pid,
        "replay_cmd_template": ". /verif/env.sh && /verif/bin/ivq explain {path}",
        "engine": "ivq",
        "level_claimed": {"category": "other", "text": c["text"], "design_ref": c["ref"]},
        "level_note": c["note"],
        "technique": c["technique"],
    })
m = {
    "version": 1,
    "setup_cmd": ". /verif/env.sh && cd /verif/checker && go build -o /verif/bin/ivq .",
    "hooks": {
        "guard": "verif",
        "enable": "no hooks: the checks are static and read /repo's source as it is (thorough also loads it with -tags verif so a guarded file cannot hide)",
        "baseline_off_cmd": "cd /repo && go test -vet=off -count=1 ./...",
        "source_commits": [],
        "add_only": True,
    },
    "engines": [{
        "name": "ivq", "path": "/verif/checker",
        "serves_properties": [c["property_id"] for c in checks],
        "kind_free_text": "repository-specific static analyser on go/packages + go/ssa + go/cfg (x/tools v0.29.0): guard dominance, sealed-sum exhaustiveness and dynamic type sets, table extraction, write effects, parser/printer slot agreement, push-back typestate",
    }],
    "checks": checks,
    "not_applicable": [{"property_id": p, "reason": NA[p]} for p in ids if p in NA and p not in CLAIMS],
    "notes": "All claims are at level 'other': structural necessary conditions of each property, decided over every path/call site of /repo's current source; none is a proof of the behaviour. See DESIGN.md.",
}
missing = [p for p in ids if p not in CLAIMS and p not in NA]
if missing:
    sys.exit("no claim and no not_applicable reason for: %s" % missing)
json.dump(m, open('/verif/MANIFEST.json', 'w'), indent=1)
print("claimed:", [c["property_id"] for c in checks], "n/a:", sorted(set(NA) - set(CLAIMS)))
