#!/bin/bash
# runs every seed under /verif/seeded (and optionally another dir) against its own property's quick check
dir=${1:-/verif/seeded}
for d in $dir/C*; do id=$(basename $d); prop=${id%%-*}; r=$(TAIL=1 /verif/tools/try.sh $d/patch.diff $prop 2>&1 | grep -v conda | tr '\n' ' '); echo "$id :: $r" | cut -c1-170; done
