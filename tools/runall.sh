#!/bin/bash
# runs every registered quick (or thorough) check in /verif against /repo and validates the evidence
. /verif/env.sh
tier=${1:-quick}
cd /verif
rc=0
for i in $(seq -w 1 20); do
  p=C$i
  out=$(bin/ivq check -p $p -tier $tier 2>&1 | grep -v "^WARNING conda" | grep -v "^selftest: ok" | tail -3)
  code=${PIPESTATUS[0]}
  echo "$out" | tail -1
  echo "$out" | grep -q "^VIOLATION" && rc=1
done
tools/validate.sh 2>&1 | grep -v conda | grep -v " ok$"
exit $rc
