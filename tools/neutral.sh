#!/bin/bash
# usage: neutral.sh <dir-with-patch.diff> — apply a behaviour-preserving patch to a scratch copy and run all 20 quick checks; print alarms
set -u
. /verif/env.sh
sd=$1; id=$(basename $sd)
tag=$(echo "$sd" | md5sum | cut -c1-8)
d=/var/tmp/neut.$id.$tag; v=/tmp/ivqn.$id.$tag
rm -rf $d $v; mkdir -p $d $v; rsync -a --exclude .git /repo/ $d/; cp /verif/known_findings.txt $v/
cd $d
patch -p1 -s -F3 < $sd/patch.diff >/dev/null 2>&1 || { echo "$id NOAPPLY"; rm -rf $d $v; exit 0; }
find . -name '*.orig' -delete; find . -name '*.rej' -delete
go build ./... >/dev/null 2>&1 || { echo "$id NOBUILD"; rm -rf $d $v; exit 0; }
go test -count=1 ./... >/dev/null 2>&1 || { echo "$id TESTFAIL"; rm -rf $d $v; exit 0; }
alarms=""
for i in $(seq -w 1 20); do
  out=$(IVQ_REPO=$d IVQ_VERIF=$v /verif/bin/ivq check -p C$i 2>&1)
  if echo "$out" | grep -q "^VIOLATION\|internal error"; then
    alarms="$alarms C$i"
    echo "$out" | grep "\] \(violated\|undecided\)\|internal error" | head -4 | sed "s/^/    [$id C$i] /" | cut -c1-330
  fi
done
echo "$id alarms:${alarms:- none}"
rm -rf $d $v
