import json, os, shutil, subprocess, re
src='/var/tmp/seed8/out'
asbuilt=set('C05-1 C05-2 C07-1 C07-2 C09-1 C10-2 C11-1 C13-2 C14-1 C16-2 C17-1 C17-2 C19-2 C20-1'.split())
head=subprocess.check_output(['git','-C','/repo','rev-parse','--short','HEAD']).decode().strip()
for d in sorted(os.listdir(src)):
    if not re.match(r'C\d\d-[12]$', d): continue
    prop, n = d.split('-')
    new = f"{prop}-{int(n)+14}"
    dst=f'/verif/seeded/{new}'
    os.makedirs(dst, exist_ok=True)
    patch = os.path.join(src,d,'patch.rebased.diff')
    if not os.path.exists(patch) or os.path.getsize(patch)==0: patch=os.path.join(src,d,'patch.diff')
    shutil.copy(patch, dst+'/patch.diff')
    shutil.copy(os.path.join(src,d,'demo_test.go'), dst+'/demo_test.go')
    m=json.load(open(os.path.join(src,d,'meta.json')))
    out=subprocess.run(['/verif/tools/try_copy.sh', dst+'/patch.diff', prop], capture_output=True, text=True, env=dict(os.environ, TAIL='400')).stdout
    rules=sorted(set(re.findall(r'\[(C\d\d\.[^\]]+)\] violated', out)))
    first=next((l.strip() for l in out.splitlines() if '] violated' in l), '')
    meta={'property':prop,'summary':m.get('summary',''),'needs_to_manifest':m.get('needs',m.get('needs_to_manifest','')),
          'files':m.get('files',[]),'functions':m.get('functions',[]),
          'origin':'independent sub-agent (round 8) given only the property text and a scratch worktree',
          'confirmed':{'repo_head':head,'ran':'tools/confirm_seed.sh: scratch worktree of /repo HEAD; git apply; go build ./...; go test -count=1 ./... (passes); go test -run TestSeedDemo (fails with the change, passes without)'},
          'detected_by_quick_check': 'exit=1' in out, 'reporting_rules':rules,'first_report':first,
          'detected_before_strengthening': d in asbuilt}
    json.dump(meta, open(dst+'/meta.json','w'), indent=1)
    print(new, meta['detected_by_quick_check'], rules[:3])
