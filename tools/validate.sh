#!/bin/bash
# validates MANIFEST.json and every evidence file against the schemas
python3-vt - <<'PY'
import json, jsonschema, glob
jsonschema.validate(json.load(open('/verif/MANIFEST.json')), json.load(open('/root/.vp/MANIFEST.schema.json')))
print('MANIFEST ok')
es = json.load(open('/root/.vp/EVIDENCE.schema.json'))
for f in sorted(glob.glob('/verif/evidence/*.json')):
    jsonschema.validate(json.load(open(f)), es); print(f, 'ok')
PY
