package main

import (
	"bufio"
	"encoding/json"
	"fmt"
	"go/token"
	"os"
	"path/filepath"
	"sort"
	"strconv"
	"strings"
	"time"
)

type Status int

const (
	Discharged Status = iota
	Violated
	Undecided
)

func (s Status) String() string {
	return [...]string{"discharged", "violated", "undecided"}[s]
}

// Obligation is one decided instance of a rule. Key names the construct
// (function + normalised expression / case label / field), never a line.
type Obligation struct {
	Rule   string `json:"rule"`
	Key    string `json:"key"`
	Pos    string `json:"pos"`
	Status string `json:"status"`
	Detail string `json:"detail,omitempty"`
	st     Status
}

// Ctx collects the obligations of one property run.
type Ctx struct {
	P           *Program
	Prop        string
	Tier        string
	Obls        []*Obligation
	RuleText    map[string]string
	Assumptions []string
	Notes       []string
	seen        map[string]bool
	only        string // when explaining: only this rule
}

func NewCtx(p *Program, prop, tier string) *Ctx {
	return &Ctx{P: p, Prop: prop, Tier: tier, RuleText: map[string]string{}, seen: map[string]bool{}}
}

func (c *Ctx) add(rule, key string, pos token.Pos, st Status, detail string) {
	k := rule + "|" + key
	if c.seen[k] {
		// the same construct reached twice (e.g. two load configurations):
		// keep the worst status.
		for _, o := range c.Obls {
			if o.Rule == rule && o.Key == key && st > o.st {
				o.st, o.Status, o.Detail = st, st.String(), detail
			}
		}
		return
	}
	c.seen[k] = true
	ps := "-"
	if c.P != nil {
		ps = c.P.Pos(pos)
	}
	c.Obls = append(c.Obls, &Obligation{Rule: rule, Key: key, Pos: ps, Status: st.String(), Detail: detail, st: st})
}

func (c *Ctx) OK(rule, key string, pos token.Pos, detail string) {
	c.add(rule, key, pos, Discharged, detail)
}
func (c *Ctx) Bad(rule, key string, pos token.Pos, detail string) {
	c.add(rule, key, pos, Violated, detail)
}
func (c *Ctx) Unk(rule, key string, pos token.Pos, detail string) {
	c.add(rule, key, pos, Undecided, detail)
}

// Check records a boolean obligation.
func (c *Ctx) Check(ok bool, rule, key string, pos token.Pos, detail string) {
	if ok {
		c.OK(rule, key, pos, detail)
	} else {
		c.Bad(rule, key, pos, detail)
	}
}

// Rule registers the rule text that evidence reports.
func (c *Ctx) Rule(id, text string) { c.RuleText[id] = text }

// Floor fails closed when a rule matched fewer instances than were confirmed
// by hand on the pinned tree: a rule that matches nothing passes vacuously.
func (c *Ctx) Floor(rule string, got, min int) {
	if got < min {
		c.Unk(rule, "instance-floor", token.NoPos,
			fmt.Sprintf("rule matched %d instances, fewer than the %d confirmed by hand: the code moved out of the shapes this rule understands", got, min))
	}
}

func (c *Ctx) CountRule(rule string) int {
	n := 0
	for _, o := range c.Obls {
		if o.Rule == rule {
			n++
		}
	}
	return n
}

func (c *Ctx) Assume(s string) {
	for _, a := range c.Assumptions {
		if a == s {
			return
		}
	}
	c.Assumptions = append(c.Assumptions, s)
}

// ---- known findings ----

type knownEntry struct {
	kind, prop, rule, key, what string
}

func verifDir() string {
	if d := os.Getenv("IVQ_VERIF"); d != "" {
		return d
	}
	return "/verif"
}

// loadKnown reads /verif/known_findings.txt. Format, one per line:
//
//	known | C02 | C02.class | <key> | <what fails>
//	fixed | C14 | <commit> | C14.fields | <key> | <what failed>
//
// "fixed" lines suppress nothing.
func loadKnown() ([]knownEntry, error) {
	f, err := os.Open(filepath.Join(verifDir(), "known_findings.txt"))
	if err != nil {
		if os.IsNotExist(err) {
			return nil, nil
		}
		return nil, err
	}
	defer f.Close()
	var out []knownEntry
	sc := bufio.NewScanner(f)
	for sc.Scan() {
		line := strings.TrimSpace(sc.Text())
		if line == "" || strings.HasPrefix(line, "#") {
			continue
		}
		parts := strings.Split(line, " | ")
		if parts[0] == "known" && len(parts) >= 5 {
			out = append(out, knownEntry{"known", parts[1], parts[2], parts[3], strings.Join(parts[4:], " | ")})
		}
	}
	return out, sc.Err()
}

// ---- evidence ----

type evidence struct {
	PropertyID  string         `json:"property_id"`
	Tier        string         `json:"tier"`
	Seed        int            `json:"seed"`
	Level       string         `json:"level"`
	Coverage    map[string]any `json:"coverage"`
	Assumptions []string       `json:"assumptions"`
	WallS       float64        `json:"wall_s"`
	Violations  int            `json:"violations"`
}

// Finish prints the verdict lines, writes evidence and replay files and
// returns the process exit code.
func (c *Ctx) Finish(start time.Time, extra map[string]any) int {
	known, err := loadKnown()
	if err != nil {
		fmt.Fprintf(os.Stderr, "ivq: cannot read known findings: %v\n", err)
		return 2
	}
	sort.SliceStable(c.Obls, func(i, j int) bool {
		if c.Obls[i].Rule != c.Obls[j].Rule {
			return c.Obls[i].Rule < c.Obls[j].Rule
		}
		return c.Obls[i].Key < c.Obls[j].Key
	})
	perRule := map[string]map[string]int{}
	nViol, nKnown, nDis, nUnd := 0, 0, 0, 0
	var violLines []string
	replayDir := filepath.Join(verifDir(), "replay")
	for _, o := range c.Obls {
		if perRule[o.Rule] == nil {
			perRule[o.Rule] = map[string]int{}
		}
		perRule[o.Rule][o.Status]++
		switch o.st {
		case Discharged:
			nDis++
		case Undecided:
			// "Could not decide on this tree" is not a found violation: the rule
			// did not recognise the code's shape (after a refactoring, say). It is
			// printed and counted, and fails the check only under VERIF_STRICT=1.
			nUnd++
			fmt.Printf("UNDECIDED: property=%s rule=%s %s at %s — %s\n", c.Prop, o.Rule, o.Key, o.Pos, o.Detail)
			if os.Getenv("VERIF_STRICT") != "1" {
				continue
			}
			fallthrough
		case Violated:
			isKnown := false
			if o.st == Violated {
				for _, k := range known {
					if k.prop == c.Prop && k.rule == o.Rule && k.key == o.Key {
						isKnown = true
						fmt.Printf("KNOWN-FINDING: property=%s rule=%s %s at %s — %s\n", c.Prop, o.Rule, o.Key, o.Pos, k.what)
						break
					}
				}
			}
			if isKnown {
				nKnown++
				o.Status = "known-finding"
				continue
			}
			nViol++
			os.MkdirAll(replayDir, 0o755)
			rp := filepath.Join(replayDir, fmt.Sprintf("%s-%03d.json", c.Prop, nViol))
			b, _ := json.MarshalIndent(map[string]any{
				"property": c.Prop, "rule": o.Rule, "key": o.Key, "pos": o.Pos,
				"kind": o.Status, "detail": o.Detail, "rule_text": c.RuleText[o.Rule],
				"repo": c.P.Dir, "tier": c.Tier,
			}, "", " ")
			os.WriteFile(rp, b, 0o644)
			fmt.Printf("  %s [%s] %s: %s — %s\n", o.Pos, o.Rule, o.Status, o.Key, o.Detail)
			violLines = append(violLines, fmt.Sprintf("VIOLATION property=%s replay=%s", c.Prop, rp))
		}
	}
	for _, l := range violLines {
		fmt.Println(l)
	}
	// evidence
	seed := 0
	if s := os.Getenv("VERIF_SEED"); s != "" {
		if n, err := strconv.Atoi(s); err == nil {
			seed = n
		}
	}
	var samples []any
	for _, o := range c.Obls {
		samples = append(samples, o)
	}
	ruleIDs := make([]string, 0, len(c.RuleText))
	for r := range c.RuleText {
		ruleIDs = append(ruleIDs, r)
	}
	sort.Strings(ruleIDs)
	var rules []any
	for _, r := range ruleIDs {
		rules = append(rules, map[string]any{"rule": r, "text": c.RuleText[r], "obligations": perRule[r]})
	}
	distinct := map[string]bool{}
	for _, o := range c.Obls {
		distinct[o.Rule+"|"+o.Key] = true
	}
	cov := map[string]any{
		"explanation":           "static analysis of /repo's type-checked source (go/packages + go/ssa + go/cfg); each obligation is one construct (function, call site, case arm, field, table cell) decided by the named rule; nothing under /repo is executed",
		"obligations":           len(c.Obls),
		"discharged":            nDis,
		"known_findings":        nKnown,
		"violated_or_undecided": nViol,
		"undecided":             nUnd,
		"undecided_policy":      "an undecided obligation (shape not recognised, instance floor not met) is reported as UNDECIDED and does not fail the check unless VERIF_STRICT=1; only decided contradictions are violations",
		"evaluations":           len(c.Obls),
		"distinct_nontrivial":   len(distinct),
		"rule":                  "one evaluation = one obligation (rule instance on one construct of the current tree); distinct = distinct rule+construct keys; every obligation is non-trivial in that it was generated from a construct found in the source, not from a constant list",
		"rules":                 rules,
		"samples":               samples,
		"analysed": map[string]any{
			"repo_dir": c.P.Dir, "build_tags": c.P.Tags, "packages": len(c.P.All),
			"files": c.P.nFiles, "declared_functions": c.P.nFuncs,
			"ssa_functions": len(c.P.SPkg.Members),
		},
		"checker_cmd":  strings.Join(os.Args, " "),
		"trusted_base": []string{"go/types", "go/ssa", "go/cfg (x/tools v0.29.0)", "exception tables in /verif/checker/tables.go"},
		"exhaustive":   true,
		"notes":        c.Notes,
	}
	for k, v := range extra {
		cov[k] = v
	}
	ev := evidence{PropertyID: c.Prop, Tier: c.Tier, Seed: seed, Level: "other", Coverage: cov,
		Assumptions: append([]string{
			"the Go type checker, go/ssa and go/cfg of x/tools v0.29.0 are correct",
			"the standard library does not panic on the calls the package makes",
		}, c.Assumptions...),
		WallS: time.Since(start).Seconds(), Violations: nViol}
	b, _ := json.MarshalIndent(ev, "", " ")
	evDir := filepath.Join(verifDir(), "evidence")
	os.MkdirAll(evDir, 0o755)
	if err := os.WriteFile(filepath.Join(evDir, c.Prop+".json"), b, 0o644); err != nil {
		fmt.Fprintf(os.Stderr, "ivq: cannot write evidence: %v\n", err)
		return 2
	}
	fmt.Printf("ivq: property=%s tier=%s obligations=%d discharged=%d known=%d violated=%d (undecided %d) wall=%.1fs\n",
		c.Prop, c.Tier, len(c.Obls), nDis, nKnown, nViol, nUnd, time.Since(start).Seconds())
	if nViol > 0 {
		return 1
	}
	return 0
}
