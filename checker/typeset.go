package main

// E2 — dynamic-type sets of interface-typed values, on SSA.
//
// typeSet(v) = set of concrete types a value of interface type may hold:
//   MakeInterface(x)        -> {type of x}
//   Phi                     -> union of edges
//   nil constant            -> {"nil"}
//   call to in-package f    -> result type-set of f (fixpoint over the package)
//   ChangeInterface/Extract -> through
//   anything else           -> TOP (any implementer)

import (
	"go/types"
	"sort"

	"golang.org/x/tools/go/ssa"
)

type tset struct {
	top   bool
	types map[string]types.Type // keyed by type string; "nil" -> nil
}

func newTset() *tset { return &tset{types: map[string]types.Type{}} }

func (s *tset) addAll(o *tset) bool {
	changed := false
	if o.top && !s.top {
		s.top = true
		changed = true
	}
	for k, v := range o.types {
		if _, ok := s.types[k]; !ok {
			s.types[k] = v
			changed = true
		}
	}
	return changed
}

func (s *tset) names() []string {
	var out []string
	for k := range s.types {
		out = append(out, k)
	}
	sort.Strings(out)
	if s.top {
		out = append(out, "<any>")
	}
	return out
}

type typeSets struct {
	p *Program
	// result type-sets per function and result index
	res map[*ssa.Function][]*tset
}

func (p *Program) allSSAFuncs() []*ssa.Function {
	var out []*ssa.Function
	seen := map[*ssa.Function]bool{}
	var add func(f *ssa.Function)
	add = func(f *ssa.Function) {
		if f == nil || seen[f] || f.Blocks == nil {
			return
		}
		seen[f] = true
		out = append(out, f)
		for _, a := range f.AnonFuncs {
			add(a)
		}
	}
	for _, m := range p.SPkg.Members {
		if f, ok := m.(*ssa.Function); ok {
			add(f)
		}
	}
	for f := range p.FuncDecls {
		add(p.SSA.FuncValue(f))
	}
	sort.Slice(out, func(i, j int) bool { return out[i].Pos() < out[j].Pos() })
	return out
}

func (p *Program) newTypeSets() *typeSets {
	ts := &typeSets{p: p, res: map[*ssa.Function][]*tset{}}
	fns := p.allSSAFuncs()
	for _, f := range fns {
		n := f.Signature.Results().Len()
		ts.res[f] = make([]*tset, n)
		for i := range ts.res[f] {
			ts.res[f][i] = newTset()
		}
	}
	for changed := true; changed; {
		changed = false
		for _, f := range fns {
			for _, b := range f.Blocks {
				for _, in := range b.Instrs {
					ret, ok := in.(*ssa.Return)
					if !ok {
						continue
					}
					for i, r := range ret.Results {
						if _, isIface := r.Type().Underlying().(*types.Interface); !isIface {
							continue
						}
						if ts.res[f][i].addAll(ts.of(r, map[ssa.Value]bool{})) {
							changed = true
						}
					}
				}
			}
		}
	}
	return ts
}

// of computes the dynamic-type set of an interface-typed SSA value.
func (ts *typeSets) of(v ssa.Value, seen map[ssa.Value]bool) *tset {
	out := newTset()
	if seen[v] {
		return out
	}
	seen[v] = true
	switch x := v.(type) {
	case *ssa.MakeInterface:
		t := x.X.Type()
		out.types[ts.p.TypeStr(t)] = t
	case *ssa.Const:
		if x.IsNil() {
			out.types["nil"] = nil
		} else {
			out.top = true
		}
	case *ssa.Phi:
		for _, e := range x.Edges {
			out.addAll(ts.of(e, seen))
		}
	case *ssa.ChangeInterface:
		out.addAll(ts.of(x.X, seen))
	case *ssa.Extract:
		if call, ok := x.Tuple.(*ssa.Call); ok {
			out.addAll(ts.callResult(call, x.Index))
		} else {
			out.top = true
		}
	case *ssa.Call:
		out.addAll(ts.callResult(x, 0))
	default:
		out.top = true
	}
	return out
}

func (ts *typeSets) callResult(call *ssa.Call, idx int) *tset {
	out := newTset()
	callee := call.Call.StaticCallee()
	if callee == nil || ts.res[callee] == nil || idx >= len(ts.res[callee]) {
		out.top = true
		return out
	}
	// result declared with a concrete type: that type
	rt := callee.Signature.Results().At(idx).Type()
	if _, isIface := rt.Underlying().(*types.Interface); !isIface {
		out.types[ts.p.TypeStr(rt)] = rt
		return out
	}
	out.addAll(ts.res[callee][idx])
	return out
}

// resultSet returns the inferred type-set of result idx of a declared function.
func (ts *typeSets) resultSet(f *types.Func, idx int) *tset {
	sf := ts.p.SSA.FuncValue(f)
	if sf == nil || ts.res[sf] == nil || idx >= len(ts.res[sf]) {
		t := newTset()
		t.top = true
		return t
	}
	return ts.res[sf][idx]
}
