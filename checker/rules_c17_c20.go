package main

import (
	"fmt"
	"go/ast"
	"go/constant"
	"go/token"
	"go/types"
	"golang.org/x/tools/go/ssa"
	"sort"
	"strings"
)

func isInitFunc(name string) bool {
	return name == "init" || strings.HasPrefix(name, "init#") || strings.HasPrefix(name, "init$")
}

// sharedStateType reports whether a type embeds a synchronisation primitive
// or a channel: shared mutable state by construction.
func sharedStateType(t types.Type, seen map[types.Type]bool) string {
	if t == nil || seen[t] {
		return ""
	}
	seen[t] = true
	if n, ok := t.(*types.Named); ok && n.Obj().Pkg() != nil {
		pp := n.Obj().Pkg().Path()
		if pp == "sync" || pp == "sync/atomic" {
			return pp + "." + n.Obj().Name()
		}
		if pp != pkgPath {
			// library types (regexp.Regexp, strings.Replacer, time.Location)
			// manage their own internals and are documented concurrency-safe
			return ""
		}
	}
	switch u := t.Underlying().(type) {
	case *types.Chan:
		return "chan"
	case *types.Pointer:
		return sharedStateType(u.Elem(), seen)
	case *types.Struct:
		for i := 0; i < u.NumFields(); i++ {
			if s := sharedStateType(u.Field(i).Type(), seen); s != "" {
				return s
			}
		}
	case *types.Slice:
		return sharedStateType(u.Elem(), seen)
	case *types.Array:
		return sharedStateType(u.Elem(), seen)
	case *types.Map:
		if s := sharedStateType(u.Elem(), seen); s != "" {
			return s
		}
		return sharedStateType(u.Key(), seen)
	}
	return ""
}

// globalWrites emits one obligation per function body that touches global
// memory outside package initialisation; returns the number of functions
// examined.
func globalWrites(c *Ctx, rule string, only map[*types.Func]bool) int {
	p := c.P
	e := p.effects()
	n := 0
	initOnly := p.initOnlyFuncs()
	for _, sf := range p.allSSAFuncs() {
		root := sf
		for root.Parent() != nil {
			root = root.Parent()
		}
		if isInitFunc(root.Name()) || initOnly[root] {
			continue
		}
		if only != nil {
			o, _ := root.Object().(*types.Func)
			if o == nil || !only[o] {
				continue
			}
		}
		n++
		s := e.sums[sf]
		var bad []string
		for k, ws := range s.writes {
			if strings.HasPrefix(k, "G:") {
				bad = append(bad, fmt.Sprintf("global %s at %s (%s)", k[2:], p.Pos(ws[0].Pos), ws[0].What))
			}
		}
		sort.Strings(bad)
		if len(bad) > 0 {
			c.Bad(rule, ssaFuncName(sf), sf.Pos(), "mutates package-level state after init: "+strings.Join(bad, "; "))
		}
	}
	return n
}

func init() {
	register("C17", rulesC17)
	register("C20", rulesC20)
}

func rulesC17(c *Ctx) {
	p := c.P
	c.Assume("*regexp.Regexp and *strings.Replacer are documented as safe for concurrent use; reading package-level values that are never written after init is race-free under the Go memory model")
	c.Assume("user-supplied Visitor, Rewriter, Valuer, TypeMapper and FieldMapper implementations do not mutate the AST they are shown")

	c.Rule("C17.globals", "no function other than package initialisation stores to, or calls a mutating method on, memory reachable from a package-level variable (directly, through callees or through resolved callbacks); absence of writes to shared locations is what makes concurrent parses and reads race-free")
	globalAliasRule(c, "C17.globalalias")
	regexConfigRule(c, "C17.regexconfig")
	n := globalWrites(c, "C17.globals", nil)
	c.OK("C17.globals", "all non-init functions", 0, fmt.Sprintf("%d function bodies examined; those with a global write are listed as violations", n))
	c.Floor("C17.globals", n, 500)

	c.Rule("C17.globaltypes", "no package-level variable holds a synchronisation primitive or channel (shared mutable state that the no-write argument cannot cover)")
	sc := p.Types.Scope()
	ng := 0
	for _, name := range sc.Names() {
		v, ok := sc.Lookup(name).(*types.Var)
		if !ok {
			continue
		}
		ng++
		if s := sharedStateType(v.Type(), map[types.Type]bool{}); s != "" {
			c.Bad("C17.globaltypes", name, v.Pos(), "package-level variable of a type containing "+s+": shared mutable state; its locking discipline is not decided")
		} else {
			c.OK("C17.globaltypes", name, v.Pos(), p.TypeStr(v.Type()))
		}
	}
	c.Floor("C17.globaltypes", ng, 15)

	c.Rule("C17.noconc", "the package starts no goroutine and imports neither unsafe nor reflect: every value a parse creates stays with its caller")
	for name, f := range p.Files {
		for _, im := range f.Imports {
			path := strings.Trim(im.Path.Value, `"`)
			if path == "unsafe" || path == "reflect" {
				c.Bad("C17.noconc", name+": import "+path, im.Pos(), "escape hatch from the analysed memory model")
			}
		}
		ast.Inspect(f, func(n ast.Node) bool {
			if g, ok := n.(*ast.GoStmt); ok {
				c.Bad("C17.noconc", name+": go statement", g.Pos(), "the package itself starts a goroutine")
			}
			return true
		})
		c.OK("C17.noconc", name, f.Pos(), "no go statement, no unsafe/reflect import")
	}

	c.Rule("C17.shared", "the operations the property lists for a shared AST (print, clone, walk, evaluate, reduce, expand wildcards, names, privileges) write through none of their parameters; GroupByInterval/GroupByOffset (memo) and the in-place rewrites are outside the shared set")
	m := readonly(c, "C17.shared", nil)
	c.Floor("C17.shared", m, 250)
}

func rulesC20(c *Ctx) {
	p := c.P
	cn := p.Method("SelectStatement", "ColumnNames")
	if cn == nil {
		c.Unk("C20.pure", "(*SelectStatement).ColumnNames", 0, "anchor not found")
		return
	}
	refs := p.refGraph()
	reach := reachable(refs, []*types.Func{cn})
	c.Rule("C20.pure", "ColumnNames and every function it can reach write nothing reachable from the statement, no global and no unknown memory, and range over no map in an order-sensitive way: the result is a function of the statement alone")
	e := p.effects()
	names := []string{}
	for f := range reach {
		names = append(names, FuncName(f))
	}
	sort.Strings(names)
	for f := range reach {
		sf := p.SSA.FuncValue(f)
		if sf == nil || e.sums[sf] == nil {
			continue
		}
		s := e.sums[sf]
		var bad []string
		for k, ws := range s.writes {
			if strings.HasPrefix(k, "G:") || k == "U" {
				bad = append(bad, fmt.Sprintf("%s at %s (%s)", describeOrigin(sf, k), p.Pos(ws[0].Pos), ws[0].What))
			}
		}
		if f == cn {
			for k, ws := range s.writes {
				if strings.HasPrefix(k, "P:") {
					bad = append(bad, fmt.Sprintf("%s at %s (%s)", describeOrigin(sf, k), p.Pos(ws[0].Pos), ws[0].What))
				}
			}
		}
		sort.Strings(bad)
		if len(bad) > 0 {
			c.Bad("C20.pure", FuncName(f), p.FuncDecls[f].Pos(), "writes "+strings.Join(bad, "; "))
		} else {
			c.OK("C20.pure", FuncName(f), p.FuncDecls[f].Pos(), "write-free with respect to the statement, globals and unknown memory")
		}
	}
	c.Floor("C20.pure", len(reach), 5)
	mapOrder(c, "C20.maporder", reach)

	// ---- C20.shape ----
	c.Rule("C20.shape", "the result has one slot per expanded column (fields plus the extra top/bottom arguments) plus the time column, and every store into it is at i+offset for i ranging over that same expanded list; aliases are written in a first pass over the same list, before any generated name")
	t := &totality{c: c, prop: "C20", inScope: func(fb funcBody) bool { return fb.Decl == cn && fb.Lit == nil }}
	t.run()
	shapeC20(c, cn)
	syntheticC20(c, cn)
	c.Rule("C20.parens", "ColumnNames looks through parentheses around a field's expression when it tests for a top()/bottom() call, as Field.Name does when it names the column: `(top(value, host, 2))` is the same selector and yields the same extra tag columns")
	suffixC20(c, cn)
	skipFilledC20(c, cn)
	aliasVerbatimC20(c, cn)
	stripperTotalRule(c, "C20.parens")
	parenTransparencyRule(c, "C20.parens", "(*SelectStatement).ColumnNames: selector call inside parentheses", p.SSAFunc(cn), "*Call", "the field expression is tested for *Call directly: for `SELECT (top(value, host, 2))` the tag argument gets no column, though Field.Name names the field `top` all the same")
}

// syntheticC20: the columns ColumnNames invents for top()/bottom() tag
// arguments take part in conflict resolution like any generated name.
func syntheticC20(c *Ctx, cn *types.Func) {
	p := c.P
	c.Rule("C20.synthetic", "the Field values ColumnNames creates itself (for the tag arguments of top()/bottom()) carry no alias: the alias pass takes names verbatim and without a conflict check, which is right only for the aliases the user wrote and the property assumes distinct; a created column with an alias escapes the numeric-suffix resolution")
	f := p.SSAFunc(cn)
	if f == nil {
		c.Unk("C20.synthetic", "(*SelectStatement).ColumnNames", 0, "no SSA body")
		return
	}
	n := 0
	for _, b := range f.Blocks {
		for _, in := range b.Instrs {
			a, ok := in.(*ssa.Alloc)
			if !ok || p.TypeStr(a.Type()) != "*Field" {
				continue
			}
			n++
			key := fmt.Sprintf("(*SelectStatement).ColumnNames: created Field #%d", n)
			bad := false
			for _, ref := range *a.Referrers() {
				if fa, ok := ref.(*ssa.FieldAddr); ok && fieldNameOf(fa) == "Alias" {
					for _, r2 := range *fa.Referrers() {
						if st, ok := r2.(*ssa.Store); ok && st.Addr == ssa.Value(fa) {
							bad = true
							c.Bad("C20.synthetic", key, st.Pos(), "the created column is given an alias: two top()/bottom() calls naming the same tag, or a tag named like another column, now yield duplicate column names")
						}
					}
				}
			}
			// a whole-struct store copies another Field, alias included
			for _, ref := range *a.Referrers() {
				if st, ok := ref.(*ssa.Store); ok && st.Addr == ssa.Value(a) {
					if _, isLoad := st.Val.(*ssa.UnOp); isLoad {
						bad = true
						c.Bad("C20.synthetic", key, st.Pos(), "the created column starts as a copy of another Field (the call's own), alias included: `top(v, host, 2) AS t` names the tag column t as well")
					}
				}
			}
			// one Field per column: the block that hands the Field on (stores its
			// address into the appended slice) must not run again without the
			// allocation running again
			for _, ref := range *a.Referrers() {
				st, ok := ref.(*ssa.Store)
				if !ok || st.Val != ssa.Value(a) || bad {
					continue
				}
				ub := st.Block()
				seen := map[*ssa.BasicBlock]bool{}
				work := append([]*ssa.BasicBlock{}, ub.Succs...)
				again := false
				for len(work) > 0 {
					x := work[len(work)-1]
					work = work[:len(work)-1]
					if seen[x] || (x == a.Block() && x != ub) {
						continue
					}
					seen[x] = true
					if x == ub {
						again = ub != a.Block()
						break
					}
					work = append(work, x.Succs...)
				}
				if again {
					bad = true
					c.Bad("C20.synthetic", key, st.Pos(), "the created Field is allocated once outside the loop that appends it: every column appended from it is the same Field and carries the name of the last tag argument")
				}
			}
			// only without an INTO target: with one, the tags are written as tags
			// of the target measurement and get no column
			guarded := false
			{
				// evaluate the function with the INTO target present: the block
				// that creates the column must be unreachable
				sc := p.newSCCP()
				sc.override = map[ssa.Value]cval{}
				for _, b2 := range f.Blocks {
					for _, in2 := range b2.Instrs {
						if u, ok := in2.(*ssa.UnOp); ok {
							if _, fld, ok := fieldRef(u); ok && fld == "Target" {
								sc.override[u] = cSym("target")
							}
						}
					}
				}
				if len(sc.override) > 0 {
					r := sc.run(f, nil, 0)
					guarded = !r.execB[b.Index]
				}
			}
			if !guarded && !bad {
				bad = true
				c.Bad("C20.synthetic", key, a.Pos(), "the column is created on a path that does not test that the statement has no INTO target: with INTO, top()/bottom() tags are not result columns, so the names no longer line up with the columns")
			}
			if !bad {
				c.OK("C20.synthetic", key, a.Pos(), "no alias stored; one Field per appended column; only without INTO")
			}
		}
	}
	c.Floor("C20.synthetic", n, 1)
}

// shapeC20 checks the loop structure of ColumnNames.
func shapeC20(c *Ctx, cn *types.Func) {
	p := c.P
	fd := p.FuncDecls[cn]
	ga := p.newGuardAnalysis()
	pe := ga.pe
	// result variable: the identifier returned
	var res types.Object
	ast.Inspect(fd.Body, func(n ast.Node) bool {
		if r, ok := n.(*ast.ReturnStmt); ok && len(r.Results) == 1 {
			if id := identOf(r.Results[0]); id != nil {
				res = p.Info.ObjectOf(id)
			}
		}
		return true
	})
	if res == nil {
		c.Unk("C20.shape", "result variable", fd.Pos(), "ColumnNames does not return a named slice variable")
		return
	}
	// its make(): len(X)+offset
	var lenOfPath string
	var offsetObj types.Object
	ast.Inspect(fd.Body, func(n ast.Node) bool {
		as, ok := n.(*ast.AssignStmt)
		if !ok || len(as.Lhs) != 1 || len(as.Rhs) != 1 {
			return true
		}
		if id := identOf(as.Lhs[0]); id == nil || p.Info.ObjectOf(id) != res {
			return true
		}
		call, ok := as.Rhs[0].(*ast.CallExpr)
		if !ok || len(call.Args) != 2 {
			return true
		}
		if id := identOf(call.Fun); id == nil || id.Name != "make" {
			return true
		}
		if b, ok := call.Args[1].(*ast.BinaryExpr); ok {
			if q, ok := pe.lenArg(b.X, newFacts()); ok {
				lenOfPath = q
				if id := identOf(b.Y); id != nil {
					offsetObj = p.Info.ObjectOf(id)
				}
			}
		}
		return true
	})
	if lenOfPath == "" || offsetObj == nil {
		c.Unk("C20.shape", "result allocation", fd.Pos(), "result is not made with len(<columns>)+offset")
		return
	}
	c.OK("C20.shape", "result allocation", fd.Pos(), "result made with len(expanded columns)+offset")
	nStores := 0
	ga.run(fd.Body, func(n ast.Node, f *facts) {
		ix, ok := n.(*ast.IndexExpr)
		if !ok {
			return
		}
		if id := identOf(ix.X); id == nil || p.Info.ObjectOf(id) != res {
			return
		}
		key := "(*SelectStatement).ColumnNames: " + types.ExprString(ix)
		if _, isConst := pe.constInt(ix.Index); isConst {
			return // the time column slot
		}
		nStores++
		idx := ast.Unparen(ix.Index)
		if id, isId := idx.(*ast.Ident); isId {
			// a local introduced for the repeated i+offset
			if def := singleDef(p, fd.Body, p.Info.ObjectOf(id)); def != nil {
				idx = ast.Unparen(def)
			}
		}
		b, ok := idx.(*ast.BinaryExpr)
		if !ok {
			c.Unk("C20.shape", key, ix.Pos(), "the index is not of the form i+offset (directly or through a local assigned once)")
			return
		}
		ip, ok1 := pe.pathOf(b.X)
		oid := identOf(b.Y)
		if !ok1 || oid == nil || p.Info.ObjectOf(oid) != offsetObj {
			c.Bad("C20.shape", key, ix.Pos(), "result indexed by something other than i+offset")
			return
		}
		if f.inRange[ip] == "" {
			c.Unk("C20.shape", key, ix.Pos(), "the index is not the key of a range over a slice this rule knows (it may come from a list of indices collected earlier)")
			return
		}
		if f.inRange[ip] != lenOfPath {
			c.Bad("C20.shape", key, ix.Pos(), "the index ranges over "+f.inRange[ip]+", not over the expanded column list "+lenOfPath+" the result was sized for: columns shift")
			return
		}
		c.OK("C20.shape", key, ix.Pos(), "index i+offset with i ranging over the expanded column list")
	})
	c.Floor("C20.shape", nStores, 3)
	// the time column: the slot is reserved under the same condition under
	// which it is filled
	var offCond, slotCond ast.Expr
	var walk func(n ast.Node, cond ast.Expr)
	walk = func(n ast.Node, cond ast.Expr) {
		switch x := n.(type) {
		case nil:
			return
		case *ast.IfStmt:
			walk(x.Body, x.Cond)
			if x.Else != nil {
				walk(x.Else, nil)
			}
			return
		case *ast.IncDecStmt:
			if id := identOf(x.X); id != nil && p.Info.ObjectOf(id) == offsetObj && cond != nil {
				offCond = cond
			}
		case *ast.AssignStmt:
			for i, l := range x.Lhs {
				if id := identOf(l); id != nil && p.Info.ObjectOf(id) == offsetObj && cond != nil && x.Tok != token.DEFINE {
					if i < len(x.Rhs) {
						if _, isZero := pe.constInt(x.Rhs[i]); !isZero || types.ExprString(x.Rhs[i]) != "0" {
							offCond = cond
						}
					}
				}
				if ix, ok := ast.Unparen(l).(*ast.IndexExpr); ok {
					if id := identOf(ix.X); id != nil && p.Info.ObjectOf(id) == res {
						if k, isConst := pe.constInt(ix.Index); isConst && k == 0 && cond != nil {
							slotCond = cond
						}
					}
				}
			}
		}
		ast.Inspect(n, func(m ast.Node) bool {
			if m == n || m == nil {
				return true
			}
			walk(m, cond)
			return false
		})
	}
	walk(fd.Body, nil)
	key := "(*SelectStatement).ColumnNames: time column reserved iff filled"
	switch {
	case offCond == nil || slotCond == nil:
		c.Unk("C20.shape", key, fd.Pos(), "the offset increment or the store into slot 0 is not under a plain if")
	case types.ExprString(offCond) == types.ExprString(slotCond):
		c.OK("C20.shape", key, offCond.Pos(), "both under `"+types.ExprString(offCond)+"`")
	default:
		c.Bad("C20.shape", key, offCond.Pos(), "a slot is reserved for the time column under `"+types.ExprString(offCond)+"` but it is filled under `"+types.ExprString(slotCond)+"`: when the conditions differ the result has an extra empty first column (or the first field overwrites the time column)")
	}
}

// initOnlyFuncs: unexported in-package functions every static reference to
// which is inside package initialisation (or inside another such function):
// they run before any caller can share state.
func (p *Program) initOnlyFuncs() map[*ssa.Function]bool {
	if p.initOnlyMemo != nil {
		return p.initOnlyMemo
	}
	out := p.initOnlyFuncsCompute()
	p.initOnlyMemo = out
	return out
}

func (p *Program) initOnlyFuncsCompute() map[*ssa.Function]bool {
	refs := map[*ssa.Function]map[*ssa.Function]bool{} // callee -> referrers (roots)
	for _, sf := range p.allSSAFuncs() {
		root := sf
		for root.Parent() != nil {
			root = root.Parent()
		}
		for _, b := range sf.Blocks {
			for _, in := range b.Instrs {
				for _, op := range in.Operands(nil) {
					if fn, ok := (*op).(*ssa.Function); ok && fn.Pkg == p.SPkg && fn.Parent() == nil {
						if refs[fn] == nil {
							refs[fn] = map[*ssa.Function]bool{}
						}
						refs[fn][root] = true
					}
				}
			}
		}
	}
	out := map[*ssa.Function]bool{}
	for changed := true; changed; {
		changed = false
		for fn, rs := range refs {
			if out[fn] || fn.Object() == nil || fn.Object().Exported() || fn.Signature.Recv() != nil {
				continue
			}
			all := len(rs) > 0
			for r := range rs {
				if !isInitFunc(r.Name()) && !out[r] {
					all = false
				}
			}
			if all {
				out[fn] = true
				changed = true
			}
		}
	}
	return out
}

// singleDef returns the defining expression of a local that is assigned
// exactly once in body (nil otherwise).
func singleDef(p *Program, body *ast.BlockStmt, obj types.Object) ast.Expr {
	if obj == nil {
		return nil
	}
	var def ast.Expr
	n := 0
	ast.Inspect(body, func(m ast.Node) bool {
		switch x := m.(type) {
		case *ast.AssignStmt:
			for i, l := range x.Lhs {
				if id, ok := l.(*ast.Ident); ok && p.Info.ObjectOf(id) == obj {
					n++
					if len(x.Rhs) == len(x.Lhs) {
						def = x.Rhs[i]
					}
				}
			}
		case *ast.IncDecStmt:
			if id, ok := x.X.(*ast.Ident); ok && p.Info.ObjectOf(id) == obj {
				n += 2
			}
		case *ast.ValueSpec:
			for i, nm := range x.Names {
				if p.Info.ObjectOf(nm) == obj {
					n++
					if i < len(x.Values) {
						def = x.Values[i]
					}
				}
			}
		}
		return true
	})
	if n != 1 {
		return nil
	}
	return def
}

// suffixC20: the clash resolution consults and feeds the table of taken names.
func suffixC20(c *Ctx, cn *types.Func) {
	p := c.P
	c.Rule("C20.taken", "in ColumnNames every generated candidate name (`name_N`) is looked up in the map of taken names before it is used, and every final name is entered into that map on every path that stores it as a column: a candidate checked only against the columns to its left can equal an alias further right, and a name that is not registered (the empty one, say) is handed out again")
	f := p.SSAFunc(cn)
	if f == nil {
		c.Unk("C20.taken", "(*SelectStatement).ColumnNames", 0, "no SSA body")
		return
	}
	// candidates: strings built from a name and a counter
	var cands []ssa.Value
	for _, b := range f.Blocks {
		for _, in := range b.Instrs {
			switch x := in.(type) {
			case *ssa.Call:
				if cal := x.Call.StaticCallee(); cal != nil && cal.Name() == "Sprintf" && len(x.Call.Args) > 0 {
					if k, ok := x.Call.Args[0].(*ssa.Const); ok && k.Value != nil && strings.Contains(constant.StringVal(k.Value), "_%d") {
						cands = append(cands, x)
					}
				}
			case *ssa.BinOp:
				if x.Op == token.ADD && isStringType(x.Type()) {
					if call, ok := x.Y.(*ssa.Call); ok && call.Call.StaticCallee() != nil && (call.Call.StaticCallee().Name() == "Itoa" || call.Call.StaticCallee().Name() == "FormatInt") {
						cands = append(cands, x)
					}
				}
			}
		}
	}
	lookedUp := func(v ssa.Value) bool {
		for _, b := range f.Blocks {
			for _, in := range b.Instrs {
				if lk, ok := in.(*ssa.Lookup); ok && lk.CommaOk {
					if _, isMap := lk.X.Type().Underlying().(*types.Map); isMap && lk.Index == v {
						return true
					}
				}
			}
		}
		return false
	}
	for i, cand := range cands {
		key := fmt.Sprintf("(*SelectStatement).ColumnNames: candidate #%d looked up", i+1)
		handedOn := false
		if refs := cand.Referrers(); refs != nil {
			for _, r := range *refs {
				if call, ok := r.(*ssa.Call); ok {
					if _, isBuiltin := call.Call.Value.(*ssa.Builtin); !isBuiltin {
						handedOn = true
					}
				}
			}
		}
		if lookedUp(cand) {
			c.OK("C20.taken", key, cand.Pos(), "tested against the map of taken names")
		} else if handedOn {
			c.Unk("C20.taken", key, cand.Pos(), "the generated name is handed to a function (a local `taken` helper?) rather than looked up here; that function is not followed")
		} else {
			c.Bad("C20.taken", key, cand.Pos(), "the generated name is not looked up in the map of taken names: it can coincide with an alias that is registered there")
		}
	}
	if len(cands) == 0 {
		c.Unk("C20.taken", "(*SelectStatement).ColumnNames: candidates", f.Pos(), "no generated `name_N` candidate found")
	}
	// stores of generated/default names into the result: the last loop's store
	n := 0
	for _, b := range f.Blocks {
		for _, in := range b.Instrs {
			st, ok := in.(*ssa.Store)
			if !ok || !isStringType(st.Val.Type()) {
				continue
			}
			if _, ok := st.Addr.(*ssa.IndexAddr); !ok {
				continue
			}
			phi, ok := st.Val.(*ssa.Phi)
			if !ok {
				continue // aliases and the time column are stored as they are
			}
			involves := false
			for _, e := range phi.Edges {
				for _, cand := range cands {
					if e == cand {
						involves = true
					}
				}
				if p2, ok := e.(*ssa.Phi); ok {
					for _, e2 := range p2.Edges {
						for _, cand := range cands {
							if e2 == cand {
								involves = true
							}
						}
					}
				}
			}
			if !involves {
				continue
			}
			n++
			key := fmt.Sprintf("(*SelectStatement).ColumnNames: final name #%d registered", n)
			registered := false
			for _, b2 := range f.Blocks {
				for _, in2 := range b2.Instrs {
					if mu, ok := in2.(*ssa.MapUpdate); ok && mu.Key == ssa.Value(phi) && (b2 == b || b2.Dominates(b)) {
						registered = true
					}
				}
			}
			if registered {
				c.OK("C20.taken", key, st.Pos(), "entered into the map on every path to the store")
			} else {
				c.Bad("C20.taken", key, st.Pos(), "the name is stored as a column on a path that does not enter it into the map of taken names")
			}
		}
	}
	c.Floor("C20.taken", n+len(cands), 2)
}
