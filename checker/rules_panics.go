package main

import (
	"fmt"
	"go/ast"
	"go/token"
	"go/types"
	"strings"
)

// nilGuarded reports whether stmts[:idx] contains `if x == nil { return ... }`
// for the identifier x.
func (p *Program) nilGuarded(stmts []ast.Stmt, idx int, x *ast.Ident) bool {
	if x == nil {
		return false
	}
	for _, s := range stmts[:idx] {
		is, ok := s.(*ast.IfStmt)
		if !ok || is.Init != nil || len(is.Body.List) == 0 {
			continue
		}
		b, ok := ast.Unparen(is.Cond).(*ast.BinaryExpr)
		if !ok || b.Op != token.EQL {
			continue
		}
		l, r := identOf(b.X), identOf(b.Y)
		if l == nil || r == nil {
			continue
		}
		if r.Name != "nil" {
			l, r = r, l
		}
		if r.Name != "nil" || p.Info.Uses[l] != p.Info.Uses[x] {
			continue
		}
		if _, ok := is.Body.List[len(is.Body.List)-1].(*ast.ReturnStmt); ok {
			return true
		}
	}
	return false
}

// panics classifies every explicit panic call in scope, and checks the
// sealed-interface type switches whose miss leads to one.
func (t *totality) panics(reachFromOps func(f *types.Func) bool) {
	c, p := t.c, t.c.P
	rule, srule := t.prop+".panics", t.prop+".switch"
	c.Rule(srule, "a type switch over a sealed interface whose miss falls through to panic (or to a silent drop in a function whose contract is 'every node') names every implementer of that interface, and a nil operand is returned before the switch")
	refs := p.refGraph()
	nP, nS := 0, 0
	for _, fb := range p.funcBodies() {
		if !t.inScope(fb) {
			continue
		}
		fb := fb
		var lists [][]ast.Stmt
		defaultOf := map[ast.Stmt]*ast.TypeSwitchStmt{}
		enclosing := map[*ast.TypeSwitchStmt][]ast.Stmt{}
		ast.Inspect(fb.Body, func(n ast.Node) bool {
			if fl, ok := n.(*ast.FuncLit); ok && fl != fb.Lit {
				return false
			}
			switch n := n.(type) {
			case *ast.BlockStmt:
				lists = append(lists, n.List)
				for _, s := range n.List {
					if ts, ok := s.(*ast.TypeSwitchStmt); ok {
						enclosing[ts] = n.List
					}
				}
			case *ast.TypeSwitchStmt:
				for _, cl := range n.Body.List {
					if cc := cl.(*ast.CaseClause); cc.List == nil {
						for _, s := range cc.Body {
							defaultOf[s] = n
						}
					}
				}
			case *ast.CaseClause:
				lists = append(lists, n.Body)
			}
			return true
		})
		for _, list := range lists {
			for i, st := range list {
				if !p.isPanicCall(st) {
					continue
				}
				nP++
				key := fb.Name + ": " + types.ExprString(st.(*ast.ExprStmt).X)
				// (1) falls out of an exhaustive sealed type switch
				if i > 0 {
					if ts, ok := list[i-1].(*ast.TypeSwitchStmt); ok && everyClauseTerminates(ts) {
						op := typeSwitchOperand(ts)
						iface := ""
						if op != nil {
							iface = p.sealedOf(p.Info.TypeOf(op))
						}
						if iface != "" {
							nS++
							skey := fb.Name + ": switch " + types.ExprString(op) + ".(type) over " + iface
							missing, hasDefault, cases := p.switchCoverage(ts, iface)
							nilOK := p.nilGuarded(list, i-1, identOf(op)) || caseNilReturns(ts)
							switch {
							case hasDefault:
								c.OK(srule, skey, ts.Pos(), "default clause handles the rest")
							case len(missing) > 0:
								c.Bad(srule, skey, ts.Pos(), fmt.Sprintf("%d cases; implementers of %s not handled: %s — they reach panic", cases, iface, joinShort(missing)))
							case !nilOK:
								c.Bad(srule, skey, ts.Pos(), "a nil "+iface+" matches no case and reaches the panic; no `== nil` return precedes the switch")
							default:
								c.OK(srule, skey, ts.Pos(), fmt.Sprintf("%d cases cover all %d implementers of %s; nil returned before the switch", cases, len(p.Implementers(iface)), iface))
							}
							if len(missing) == 0 && nilOK && !hasDefault {
								c.OK(rule, key, st.Pos(), "unreachable: follows an exhaustive type switch over "+iface+" whose clauses all return")
							} else {
								c.Bad(rule, key, st.Pos(), "reachable: the preceding type switch does not cover every "+iface)
							}
							continue
						}
					}
				}
				// (1b) the panic is the default clause of a sealed type switch
				if ts, ok := defaultOf[st]; ok {
					op := typeSwitchOperand(ts)
					iface := ""
					if op != nil {
						iface = p.sealedOf(p.Info.TypeOf(op))
					}
					if iface != "" {
						nS++
						skey := fb.Name + ": switch " + types.ExprString(op) + ".(type) over " + iface
						missing, _, cases := p.switchCoverage(ts, iface)
						nilOK := p.nilGuarded(enclosing[ts], indexOf(enclosing[ts], ts), identOf(op)) || caseNilReturns(ts)
						if t.switchReach != nil {
							switch verdict, why := t.switchReach(fb, ts, missing); verdict {
							case 1:
								c.OK(srule, skey, ts.Pos(), why)
								c.OK(rule, key, st.Pos(), "unreachable: "+why)
								continue
							case -1:
								c.Bad(srule, skey, ts.Pos(), why)
								c.Bad(rule, key, st.Pos(), "reachable: "+why)
								continue
							}
						}
						// a missing case is a reachable panic when the operand is input data;
						// for a local that a helper produced, which kinds can arrive is the
						// helper's business and not decided here
						if (len(missing) > 0 || !nilOK) && !p.newDataRoots(fb).rooted(op, 0) {
							c.Unk(srule, skey, ts.Pos(), fmt.Sprintf("%d cases do not cover every %s, but the operand is a local computed by a helper, not input data: which kinds reach the default panic is not decided", cases, iface))
							c.Unk(rule, key, st.Pos(), "default clause of a non-exhaustive type switch over a helper's result")
							continue
						}
						switch {
						case len(missing) > 0:
							c.Bad(srule, skey, ts.Pos(), fmt.Sprintf("%d cases; implementers of %s that reach the default panic: %s", cases, iface, joinShort(missing)))
							c.Bad(rule, key, st.Pos(), "reachable: default clause of a type switch that does not name every "+iface)
						case !nilOK:
							c.Bad(srule, skey, ts.Pos(), "a nil "+iface+" reaches the default panic; no `== nil` return precedes the switch")
							c.Bad(rule, key, st.Pos(), "reachable for a nil "+iface)
						default:
							c.OK(srule, skey, ts.Pos(), fmt.Sprintf("%d cases cover all %d implementers of %s; nil returned before the switch", cases, len(p.Implementers(iface)), iface))
							c.OK(rule, key, st.Pos(), "unreachable: default clause of an exhaustive type switch over "+iface)
						}
						continue
					}
				}
				// (2) Must* helpers: documented to panic, outside the property's operations
				if fb.Lit == nil && strings.HasPrefix(fb.Decl.Name(), "Must") {
					c.OK(rule, key, st.Pos(), "Must* helper: panicking on error is its documented contract; not one of the property's operations")
					continue
				}
				// (3) registration-time panics: only init may reach them
				if fb.Lit == nil && recvTypeName(fb.Decl) == "ParseTree" {
					bad := ""
					for f, cs := range refs {
						for _, callee := range cs {
							if callee == fb.Decl && f != fb.Decl && f.Name() != "init" && recvTypeName(f) != "ParseTree" {
								bad = FuncName(f)
							}
						}
					}
					if bad == "" {
						c.OK(rule, key, st.Pos(), "registration conflict panic: "+FuncName(fb.Decl)+" is referenced only from init (and ParseTree's own registration helpers)")
					} else {
						c.Bad(rule, key, st.Pos(), "registration panic reachable after init through "+bad)
					}
					continue
				}
				if t.extraPanic != nil && t.extraPanic(fb, list, i, key) {
					continue
				}
				c.Unk(rule, key, st.Pos(), "explicit panic whose reachability this rule cannot decide (not behind a sealed type switch, not a registration or Must* helper)")
			}
		}
	}
	c.Notes = append(c.Notes, fmt.Sprintf("%s: %d explicit panics, %d guarding sealed switches", t.prop, nP, nS))
}

func indexOf(list []ast.Stmt, s ast.Stmt) int {
	for i, x := range list {
		if x == s {
			return i
		}
	}
	return 0
}

// caseNilReturns: the switch has a `case nil:` clause that returns.
func caseNilReturns(ts *ast.TypeSwitchStmt) bool {
	for _, cl := range ts.Body.List {
		cc := cl.(*ast.CaseClause)
		for _, e := range cc.List {
			if id, ok := e.(*ast.Ident); ok && id.Name == "nil" && len(cc.Body) > 0 {
				if _, ok := cc.Body[len(cc.Body)-1].(*ast.ReturnStmt); ok {
					return true
				}
			}
		}
	}
	return false
}
