package main

import (
	"fmt"
	"go/ast"
	"go/types"
)

// noFreshErrorRule: the methods named mname fail only when a callee failed.
func noFreshErrorRule(c *Ctx, rule, mname string) {
	p := c.P
	c.Rule(rule, "every return of a non-nil error from a "+mname+" method either hands on the error a callee returned, or stands where no implementer of the sealed interface arrives (the default clause of the type switch, the final else of a chain of type assertions): an error made up under a condition on the statement's own fields (an INTO inside a subquery, an empty name) turns a statement the parser accepts into one without a privilege list")
	n := 0
	for _, f := range p.SortedFuncs() {
		fd := p.FuncDecls[f]
		if fd == nil || fd.Body == nil || f.Name() != mname || fd.Recv == nil {
			continue
		}
		sig := f.Type().(*types.Signature)
		if sig.Results().Len() == 0 || p.TypeStr(sig.Results().At(sig.Results().Len()-1).Type()) != "error" {
			continue
		}
		fname := recvTypeName(f) + "." + mname
		ord := 0
		mentionsField := func(e ast.Expr) bool {
			found := false
			ast.Inspect(e, func(m ast.Node) bool {
				if sel, ok := m.(*ast.SelectorExpr); ok {
					if sl := p.Info.Selections[sel]; sl != nil {
						found = true
					}
				}
				return !found
			})
			return found
		}
		// ctx: "" none, "default" (no implementer arrives), "data" (under a condition on a field)
		var walk func(nd ast.Node, ctx string)
		walkList := func(list []ast.Stmt, ctx string) {
			for _, st := range list {
				walk(st, ctx)
			}
		}
		walk = func(nd ast.Node, ctx string) {
			switch x := nd.(type) {
			case *ast.ReturnStmt:
				if len(x.Results) == 0 {
					return
				}
				e := ast.Unparen(x.Results[len(x.Results)-1])
				if tv, ok := p.Info.Types[e]; ok {
					if _, isTuple := tv.Type.(*types.Tuple); isTuple {
						return // `return x.RequiredPrivileges()`: the callee's answer as it is
					}
				}
				if id, ok := e.(*ast.Ident); ok && id.Name == "nil" {
					return
				}
				ord++
				n++
				key := fmt.Sprintf("%s: error return #%d", fname, ord)
				switch ee := e.(type) {
				case *ast.Ident:
					c.OK(rule, key, x.Pos(), "hands on "+ee.Name)
				case *ast.CallExpr:
					switch ctx {
					case "default":
						c.OK(rule, key, x.Pos(), "stands where no implementer of the interface arrives")
					case "data":
						c.Bad(rule, key, x.Pos(), "a new error ("+types.ExprString(ee.Fun)+") is returned under a condition on the statement's own fields")
					default:
						c.Unk(rule, key, x.Pos(), "a new error whose condition this rule does not classify")
					}
				default:
					c.Unk(rule, key, x.Pos(), "error expression not recognised")
				}
			case *ast.BlockStmt:
				walkList(x.List, ctx)
			case *ast.IfStmt:
				bodyCtx := ctx
				if mentionsField(x.Cond) && ctx != "default" {
					bodyCtx = "data"
				}
				walk(x.Body, bodyCtx)
				if x.Else != nil {
					elseCtx := ctx
					if isAssertOK(p, x) {
						// a chain of `v, ok := x.(T); ok` ends in an else that plays the default clause
						if _, chain := x.Else.(*ast.IfStmt); !chain {
							elseCtx = "default"
						}
					}
					walk(x.Else, elseCtx)
				}
			case *ast.ForStmt:
				walk(x.Body, ctx)
			case *ast.RangeStmt:
				walk(x.Body, ctx)
			case *ast.TypeSwitchStmt:
				for _, cl := range x.Body.List {
					cc := cl.(*ast.CaseClause)
					cctx := ctx
					if cc.List == nil {
						cctx = "default"
					}
					walkList(cc.Body, cctx)
				}
			case *ast.SwitchStmt:
				for _, cl := range x.Body.List {
					walkList(cl.(*ast.CaseClause).Body, ctx)
				}
			case *ast.LabeledStmt:
				walk(x.Stmt, ctx)
			}
		}
		walk(fd.Body, "")
	}
	c.Floor(rule, n, 3)
}

// isAssertOK: `if v, ok := x.(T); ok`.
func isAssertOK(p *Program, is *ast.IfStmt) bool {
	as, ok := is.Init.(*ast.AssignStmt)
	if !ok || len(as.Rhs) != 1 || len(as.Lhs) != 2 {
		return false
	}
	if _, ok := ast.Unparen(as.Rhs[0]).(*ast.TypeAssertExpr); !ok {
		return false
	}
	id := identOf(is.Cond)
	okID := identOf(as.Lhs[1])
	return id != nil && okID != nil && p.Info.ObjectOf(id) == p.Info.ObjectOf(okID)
}
