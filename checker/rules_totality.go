package main

// Panic-construct rules shared by C13 (operations on a parsed statement) and
// C04 (parsing itself): index/slice bounds, integer division, values of
// discarded comma-ok assertions, single-result type assertions, explicit
// panics. A panic is a construct, so "for every input" becomes "on every path".

import (
	"go/constant"
	"fmt"
	"go/ast"
	"go/token"
	"go/types"
	"golang.org/x/tools/go/ssa"
	"golang.org/x/tools/go/types/typeutil"
	"strings"
)

// trustedIndex lists variable-index sites that no guard in the function
// discharges but that hold by a contract outside the function. One line of
// reason each; keyed by function and expression, never by line.
var trustedIndex = map[string]string{
	"Sources.MarshalBinary: pb.Items[i]":                      "pb.Items is made with len(a) and i ranges over a",
	"(*Sources).UnmarshalBinary: pb.GetItems()[i]":            "i ranges over the same pb.GetItems() (generated getter returns the field)",
	"(*Sources).UnmarshalBinary: (*a)[i]":                     "*a is made with len(pb.GetItems()) and i ranges over pb.GetItems()",
	"matchRegex: concat[i * len(vals) + j]":                   "concat is made with len(names)*len(vals); i ranges over names and j over vals",
	"matchRegex: re.Rune[i + 1]":                              "regexp/syntax contract: OpCharClass Rune holds lo,hi pairs (even length); loop steps by 2",
	"matchRegex: re.Sub[0]":                                   "regexp/syntax contract: OpCapture has exactly one sub-expression; OpConcat/OpAlternate after Simplify have >= 2",
	"matchRegex: re.Sub[1:]":                                  "regexp/syntax contract: OpConcat has >= 2 sub-expressions",
	"(*SelectStatement).ColumnNames: columnNames[0]":          "columnNames has len(columnFields)+offset entries and offset is 1 under the same !s.OmitTime test",
	"(*SelectStatement).ColumnNames: columnNames[i + offset]": "i ranges over columnFields and columnNames has len(columnFields)+offset entries",
	"Sanitize: match[2]":                                      "regexp contract: FindAllStringSubmatchIndex yields 2*(1+groups) indices; both patterns have one group",
	"Sanitize: match[3]":                                      "regexp contract: FindAllStringSubmatchIndex yields 2*(1+groups) indices; both patterns have one group",
	"Sanitize: query[i:match[2]]":                             "regexp contract: match offsets are increasing and within the searched string",
	"Sanitize: query[i:]":                                     "i is a match end offset of the same string",
	"(*bufScanner).scanFunc: s.buf[s.i]":                      "s.i is only ever assigned (s.i+1) % len(s.buf)",
	"(*reader).read: r.buf[r.i]":                              "r.i is only ever assigned (r.i+1) % len(r.buf)",
	"(*reader).curr: r.buf[i]":                                "i is computed modulo len(r.buf) on the line above",
	"init: tokens[tok]":                                       "tok ranges over keywordBeg+1..keywordEnd-1, all below the array length (array sized by the last constant)",
	"(*Parser).parseCreateSubscriptionStatement: tokens[tok]": "tok is a Token constant returned by the scanner",
	"(*Parser).parseTokens: tokens[expected]":                 "expected ranges over Token constants supplied by callers",
	"ParseDuration: a[i]":                                     "guarded by i < len(a) / i >= len(a) return on every path (value-level, confirmed by reading)",
	"ParseDuration: a[start:i]":                               "start <= i <= len(a) by the digit loop",
}

type totality struct {
	c       *Ctx
	prop    string
	inScope func(fb funcBody) bool
	// extraPanic lets a property discharge a panic by its own argument.
	extraPanic func(fb funcBody, list []ast.Stmt, i int, key string) bool
	// switchReach lets a property show that the types a sealed switch misses
	// cannot reach it (dynamic-type inference on the operand).
	switchReach func(fb funcBody, ts *ast.TypeSwitchStmt, missing []string) (int, string)
	roots       *dataRoots
}

func isSortMethod(fb funcBody) bool {
	if fb.Lit != nil {
		return false
	}
	n := fb.Decl.Name()
	return (n == "Less" || n == "Swap") && fb.Decl.Type().(*types.Signature).Recv() != nil
}

func (t *totality) run() {
	c, p := t.c, t.c.P
	R := func(s string) string { return t.prop + "." + s }
	c.Rule(R("bounds"), "every index or slice expression on a slice, string or array is dominated, on every path, by a guard that bounds len() of the same access path (len tests, switch len, range, make(len), composite-literal length), or is a listed contract")
	c.Rule(R("divzero"), "every integer / and % with a non-constant divisor is dominated by a zero test (or a non-zero constant assignment on every path) of that very divisor; a test on a float before its conversion to integer does not count")
	c.Rule(R("okdrop"), "a pointer/interface value obtained from a comma-ok type assertion is dereferenced only where ok (or a nil test) was checked on every path")
	c.Rule(R("assert"), "every single-result type assertion has an operand whose static or inferred dynamic type set is within the asserted type")
	c.Rule(R("panics"), "every explicit panic call is unreachable from the public operations: it follows a type switch that covers every implementer of the sealed interface, or is confined to init-time registration or Must* helpers")

	t.negRecursion()
	ga := p.newGuardAnalysis()
	pe := ga.pe
	nBounds, nDiv, nOk := 0, 0, 0
	for _, fb := range p.funcBodies() {
		if !t.inScope(fb) {
			continue
		}
		fb := fb
		roots := p.newDataRoots(fb)
		t.roots = roots
		ga.run(fb.Body, func(n ast.Node, f *facts) {
			switch e := n.(type) {
			case *ast.IndexExpr:
				xt := p.Info.TypeOf(e.X)
				if xt == nil {
					return
				}
				switch u := xt.Underlying().(type) {
				case *types.Map, *types.Signature:
					return
				case *types.Pointer:
					if _, ok := u.Elem().Underlying().(*types.Array); !ok {
						return
					}
				}
				if tv, ok := p.Info.Types[e.X]; ok && tv.IsType() {
					return // generic instantiation
				}
				nBounds++
				t.index(fb, e, f, pe)
			case *ast.SliceExpr:
				nBounds++
				t.slice(fb, e, f, pe)
			case *ast.BinaryExpr:
				if e.Op != token.QUO && e.Op != token.REM {
					return
				}
				if !isIntegerType(p.Info.TypeOf(e)) {
					return
				}
				if tv := p.Info.Types[e.Y]; tv.Value != nil {
					return // constant divisor: zero is a compile error
				}
				nDiv++
				key := fb.Name + ": " + types.ExprString(e)
				// len(array) is a non-zero constant handled above; len(slice) may be 0
				dp, ok := pe.pathOf(e.Y)
				if ok && f.nonzero[dp] {
					c.OK(R("divzero"), key, e.Pos(), "divisor "+types.ExprString(e.Y)+" tested non-zero on every path")
				} else if roots.rooted(stripConv(e.Y), 0) {
					c.Bad(R("divzero"), key, e.Pos(), "no zero test of the divisor "+types.ExprString(e.Y)+" dominates this integer division, and the divisor is input data (facts: "+f.String()+")")
				} else {
					c.Unk(R("divzero"), key, e.Pos(), "the divisor "+types.ExprString(e.Y)+" is not proved non-zero; it is a local computed from tables/helpers, not input data, so this is not decided")
				}
			case *ast.SelectorExpr:
				if vp, ok := pe.pathOf(e.X); ok && f.errVal[vp] {
					nOk++
					c.Bad(R("okdrop"), fb.Name+": "+types.ExprString(e), e.Pos(), types.ExprString(e.X)+" was returned together with an error that is not known to be nil on this path; it may be nil here")
				} else if vp, ok := pe.pathOf(e.X); ok && f.maybeNil[vp] {
					if _, isPkg := p.Info.Uses[identOf(e.X)].(*types.PkgName); isPkg {
						return
					}
					nOk++
					key := fb.Name + ": " + types.ExprString(e)
					if p.okKeptInLocal(fb, identOf(e.X)) {
						c.Unk(R("okdrop"), key, e.Pos(), types.ExprString(e.X)+" comes from a comma-ok assertion whose ok result is folded into another boolean: whether that boolean is tested on this path is not followed")
						return
					}
					c.Bad(R("okdrop"), key, e.Pos(), types.ExprString(e.X)+" comes from a comma-ok assertion whose ok result is discarded or untested on this path; it may be nil here")
				}
			case *ast.CallExpr:
				// a pointer that came with an untested error, handed to an in-package function
				if callee, _ := typeutil.Callee(p.Info, e).(*types.Func); callee != nil && callee.Pkg() == p.Types {
					for _, a := range e.Args {
						if vp, ok := pe.pathOf(a); ok && f.errVal[vp] {
							nOk++
							key := fb.Name + ": " + types.ExprString(a) + " passed to " + callee.Name()
							c.Bad(R("okdrop"), key, a.Pos(), types.ExprString(a)+" was returned together with an error that is not known to be nil on this path (it is tested only in combination with another error, or not at all): it may be nil here")
						}
					}
				}
			case *ast.StarExpr:
				if vp, ok := pe.pathOf(e.X); ok && f.maybeNil[vp] {
					nOk++
					c.Bad(R("okdrop"), fb.Name+": "+types.ExprString(e), e.Pos(), "dereference of a possibly-nil assertion result")
				}
			}
		})
	}
	// every comma-ok assertion to a nilable type is an okdrop obligation that
	// was not violated above: count the discharged ones for the evidence.
	for _, fb := range p.funcBodies() {
		if !t.inScope(fb) {
			continue
		}
		ast.Inspect(fb.Body, func(n ast.Node) bool {
			if fl, ok := n.(*ast.FuncLit); ok && fl != fb.Lit {
				return false
			}
			as, ok := n.(*ast.AssignStmt)
			if !ok || len(as.Lhs) != 2 || len(as.Rhs) != 1 {
				return true
			}
			ta, ok := ast.Unparen(as.Rhs[0]).(*ast.TypeAssertExpr)
			if !ok || ta.Type == nil {
				return true
			}
			tt := p.Info.TypeOf(ta.Type)
			if tt == nil || !isNilable(tt) {
				return true
			}
			key := fb.Name + ": " + types.ExprString(as.Lhs[0]) + " := " + types.ExprString(ta)
			nOk++
			c.OK(R("okdrop"), key, as.Pos(), "every dereference of the result is on a path where ok (or != nil) was tested")
			return true
		})
	}
	c.Notes = append(c.Notes, fmt.Sprintf("%s: %d index/slice sites, %d integer divisions with non-constant divisor, %d comma-ok obligations", t.prop, nBounds, nDiv, nOk))
}

func identOf(e ast.Expr) *ast.Ident {
	id, _ := ast.Unparen(e).(*ast.Ident)
	return id
}

// lenMinus recognises len(P) - c for the given path; returns c.
func lenMinus(pe pathEnv, e ast.Expr, p string, f *facts) (int, bool) {
	e = ast.Unparen(e)
	if q, ok := pe.lenArg(e, f); ok && q == p {
		return 0, true
	}
	if b, ok := e.(*ast.BinaryExpr); ok && b.Op == token.SUB {
		if q, ok := pe.lenArg(b.X, f); ok && q == p {
			if c, ok := pe.constInt(b.Y); ok && c >= 0 {
				return int(c), true
			}
		}
	}
	return 0, false
}

func (t *totality) index(fb funcBody, e *ast.IndexExpr, f *facts, pe pathEnv) {
	c, p := t.c, t.c.P
	rule := t.prop + ".bounds"
	key := fb.Name + ": " + types.ExprString(e)
	xt := p.Info.TypeOf(e.X).Underlying()
	arrLen := int64(-1)
	if a, ok := xt.(*types.Array); ok {
		arrLen = a.Len()
	}
	if pt, ok := xt.(*types.Pointer); ok {
		if a, ok := pt.Elem().Underlying().(*types.Array); ok {
			arrLen = a.Len()
		}
	}
	xp, hasPath := pe.pathOf(e.X)
	// constant index
	if k, ok := pe.constInt(e.Index); ok {
		if arrLen >= 0 {
			c.OK(rule, key, e.Pos(), "constant index into an array is checked by the compiler")
			return
		}
		if hasPath && f.lenlb[xp] >= int(k)+1 {
			c.OK(rule, key, e.Pos(), fmt.Sprintf("len(%s) >= %d on every path", types.ExprString(e.X), f.lenlb[xp]))
			return
		}
		if why, ok := trustedIndex[key]; ok {
			c.OK(rule, key, e.Pos(), "contract: "+why)
			return
		}
		if t.roots != nil && !t.roots.rooted(e.X, 0) {
			c.Unk(rule, key, e.Pos(), fmt.Sprintf("index %d needs len(%s) >= %d, not proved; the slice is a local built from helpers/library results, not input data, so this is not decided", k, types.ExprString(e.X), k+1))
			return
		}
		c.Bad(rule, key, e.Pos(), fmt.Sprintf("index %d needs len(%s) >= %d; guards on this path establish only %d (facts: %s)", k, types.ExprString(e.X), k+1, f.lenlb[xp], f.String()))
		return
	}
	// len(X) - c
	if hasPath {
		if k, ok := lenMinus(pe, e.Index, xp, f); ok && k >= 1 {
			if f.lenlb[xp] >= k {
				c.OK(rule, key, e.Pos(), fmt.Sprintf("len(%s) >= %d on every path", types.ExprString(e.X), f.lenlb[xp]))
			} else if t.roots != nil && !t.roots.rooted(e.X, 0) {
				c.Unk(rule, key, e.Pos(), "not proved; the slice is not input data")
			} else {
				c.Bad(rule, key, e.Pos(), fmt.Sprintf("index len-%d needs len >= %d; established %d", k, k, f.lenlb[xp]))
			}
			return
		}
	}
	// variable index: idioms
	if ip, ok := pe.idxKey(e.Index); ok && hasPath {
		if f.inRange[ip] == xp {
			c.OK(rule, key, e.Pos(), "index ranges over the same slice (range key or i < len guard)")
			return
		}
		if r := f.inRange[ip]; r != "" && f.sameLen[xp] == r {
			c.OK(rule, key, e.Pos(), "slice was made with the length of the slice the index ranges over")
			return
		}
	}
	if ip, ok := pe.pathOf(e.Index); ok && arrLen >= 0 {
		ub, hasUB := f.ub[ip]
		unsigned := false
		if b, ok := p.Info.TypeOf(e.Index).Underlying().(*types.Basic); ok && b.Info()&types.IsUnsigned != 0 {
			unsigned = true
		}
		if hasUB && ub <= arrLen && (f.nonneg[ip] || unsigned) {
			c.OK(rule, key, e.Pos(), fmt.Sprintf("0 <= index < %d <= array length %d on every path", ub, arrLen))
			return
		}
	}
	if isSortMethod(fb) {
		c.OK(rule, key, e.Pos(), "sort.Interface contract: Less/Swap are called with 0 <= i,j < Len()")
		return
	}
	// X[expr % len(X)] or array indexed modulo its length
	if b, ok := ast.Unparen(e.Index).(*ast.BinaryExpr); ok && b.Op == token.REM {
		if q, ok := pe.lenArg(b.Y, f); ok && hasPath && q == xp {
			// the dividend must be non-negative for the remainder to be in
			// range; ring indices here are sums with len added. Recorded.
			c.OK(rule, key, e.Pos(), "index is reduced modulo len of the same array")
			return
		}
	}
	if why, ok := trustedIndex[key]; ok {
		c.OK(rule, key, e.Pos(), "contract: "+why)
		return
	}
	// the token spelling table indexed by a Token: Token values are the declared
	// constants (the array is sized by the last of them) as long as nothing
	// converts an arbitrary integer to Token, which tokenValuesClosed checks
	if arrLen >= 0 {
		if nt, ok := p.Info.TypeOf(e.Index).(*types.Named); ok && nt.Obj().Name() == "Token" && nt.Obj().Pkg() == p.Types {
			maxTok := int64(-1)
			tt := p.tokenTable()
			if tt != nil {
				for _, v := range tt.Values {
					if v > maxTok {
						maxTok = v
					}
				}
			}
			if tt != nil && maxTok < arrLen && p.tokenValuesClosed() {
				c.OK(rule, key, e.Pos(), fmt.Sprintf("index has type Token: only the declared constants 0..%d inhabit it (no integer is converted to Token anywhere) and the array has %d elements", maxTok, arrLen))
				return
			}
		}
	}
	if arrLen >= 0 && t.roots != nil && t.roots.rooted(e.Index, 0) {
		if b, ok := p.Info.TypeOf(e.Index).Underlying().(*types.Basic); ok && b.Info()&types.IsInteger != 0 {
			c.Bad(rule, key, e.Pos(), fmt.Sprintf("a fixed array of %d elements is indexed by input data (%s) with no bound on any path", arrLen, types.ExprString(e.Index)))
			return
		}
	}
	// guarded against the length of the text the slice was converted from:
	// []rune(s) is shorter than s as soon as s holds a multi-byte character
	if ip, ok := pe.idxKey(e.Index); ok && hasPath && t.roots != nil {
		if r := f.inRange[ip]; r != "" && r != xp {
			if id := identOf(e.X); id != nil {
				if def, ok := t.roots.defs[p.Info.ObjectOf(id)]; ok {
					if call, ok := ast.Unparen(def).(*ast.CallExpr); ok && len(call.Args) == 1 {
						if tv, ok := p.Info.Types[call.Fun]; ok && tv.IsType() {
							if ap, ok := pe.pathOf(call.Args[0]); ok && ap == r {
								c.Bad(rule, key, e.Pos(), fmt.Sprintf("the index is tested against len(%s) but indexes %s, a conversion of it: the two lengths differ as soon as the text holds a multi-byte character, and the index runs past the end", types.ExprString(call.Args[0]), types.ExprString(e.X)))
								return
							}
						}
					}
				}
			}
		}
	}
	c.Unk(rule, key, e.Pos(), "variable index outside the recognised idioms (range key, i < len guard, make(len), modulo len, sort.Interface) and not in the contract table; facts: "+f.String())
}

func (t *totality) slice(fb funcBody, e *ast.SliceExpr, f *facts, pe pathEnv) {
	c := t.c
	rule := t.prop + ".bounds"
	key := fb.Name + ": " + types.ExprString(e)
	xp, hasPath := pe.pathOf(e.X)
	need := 0
	decided := true
	bound := func(b ast.Expr) {
		if b == nil {
			return
		}
		if k, ok := pe.constInt(b); ok {
			if int(k) > need {
				need = int(k)
			}
			return
		}
		if hasPath {
			if k, ok := lenMinus(pe, b, xp, f); ok {
				if k > need {
					need = k // x[:len(x)-k] and x[len(x)-k:] need len(x) >= k
				}
				return
			}
		}
		decided = false
	}
	bound(e.Low)
	bound(e.High)
	// low const a and high len-c need len >= a+c
	if decided && hasPath && e.Low != nil && e.High != nil {
		if a, ok := pe.constInt(e.Low); ok {
			if k, ok := lenMinus(pe, e.High, xp, f); ok && int(a)+k > need {
				need = int(a) + k
			}
		}
	}
	if decided {
		if need == 0 || (hasPath && f.lenlb[xp] >= need) {
			c.OK(rule, key, e.Pos(), fmt.Sprintf("needs len >= %d; established %d", need, f.lenlb[xp]))
			return
		}
		if why, ok := trustedIndex[key]; ok {
			c.OK(rule, key, e.Pos(), "contract: "+why)
			return
		}
		if min, attained, ok := t.builderText(fb, e.X); ok && attained && min < need {
			c.Bad(rule, key, e.Pos(), fmt.Sprintf("slice bounds need len(%s) >= %d, but it is the text of a builder that receives only %d byte(s) outside loops over the input: with an empty input the bound is out of range", types.ExprString(e.X), need, min))
			return
		}
		if t.roots != nil && !t.roots.rooted(e.X, 0) {
			c.Unk(rule, key, e.Pos(), fmt.Sprintf("slice bounds need len(%s) >= %d, not proved; the slice is not input data, so this is not decided", types.ExprString(e.X), need))
			return
		}
		c.Bad(rule, key, e.Pos(), fmt.Sprintf("slice bounds need len(%s) >= %d; guards on this path establish only %d (facts: %s)", types.ExprString(e.X), need, f.lenlb[xp], f.String()))
		return
	}
	// variable bounds i or i+1 with 0 <= i < len(X) established on this path
	if hasPath && e.Max == nil {
		inRangeBound := func(b ast.Expr) (ok bool, isVar bool) {
			if b == nil {
				return true, false
			}
			if _, isConst := pe.constInt(b); isConst {
				return false, false
			}
			if ip, ok := pe.pathOf(b); ok && f.inRange[ip] == xp {
				return true, true
			}
			if ip, ok := pe.pathOf(b); ok && f.inRange[ip+"+1"] == xp {
				return true, true // i <= i+1 < len
			}
			if be, ok := ast.Unparen(b).(*ast.BinaryExpr); ok && be.Op == token.ADD {
				if k, isC := pe.constInt(be.Y); isC && k == 1 {
					if ip, ok := pe.pathOf(be.X); ok && f.inRange[ip] == xp {
						return true, true // i+1 <= len
					}
				}
				if k, isC := pe.constInt(be.Y); isC && k >= 2 && k <= 5 {
					if ip, ok := pe.pathOf(be.X); ok && f.inRange[fmt.Sprintf("%s+%d", ip, k-1)] == xp {
						return true, true // i+k-1 < len, so i+k <= len
					}
				}
			}
			return false, true
		}
		okLo, varLo := inRangeBound(e.Low)
		okHi, varHi := inRangeBound(e.High)
		if okLo && okHi && (varLo || varHi) { // each present bound is in range of this slice
			c.OK(rule, key, e.Pos(), "bound is i or i+1 with 0 <= i < len("+types.ExprString(e.X)+") on every path")
			return
		}
		if (varLo || varHi) && t.roots != nil && t.roots.rooted(e.X, 0) {
			// an index variable with no range fact for this slice on this path
			if id := varBoundIdent(e); id != nil && indexOfOtherValue(pe, f, id, xp) {
				c.Bad(rule, key, e.Pos(), fmt.Sprintf("the bound indexes %s but is only known to be in range of another value (the slice as it was when the loop began): after an element is removed it can exceed the length", types.ExprString(e.X)))
				return
			}
		}
	}
	if why, ok := trustedIndex[key]; ok {
		c.OK(rule, key, e.Pos(), "contract: "+why)
		return
	}
	c.Unk(rule, key, e.Pos(), "slice expression with variable bounds outside the recognised idioms and not in the contract table")
}

// varBoundIdent returns the identifier of the first variable bound (i or i+1).
func varBoundIdent(e *ast.SliceExpr) *ast.Ident {
	for _, b := range []ast.Expr{e.Low, e.High} {
		if b == nil {
			continue
		}
		x := ast.Unparen(b)
		if be, ok := x.(*ast.BinaryExpr); ok {
			x = ast.Unparen(be.X)
		}
		if id, ok := x.(*ast.Ident); ok {
			return id
		}
	}
	return nil
}

// indexOfOtherValue: id is the key of a range statement (it is an index of
// something) but carries no in-range fact for xp here.
func indexOfOtherValue(pe pathEnv, f *facts, id *ast.Ident, xp string) bool {
	ip, ok := pe.pathOf(id)
	if !ok {
		return false
	}
	if _, has := f.inRange[ip]; has {
		return false
	}
	obj := pe.info.ObjectOf(id)
	if obj == nil {
		return false
	}
	return pe.rangeKeys != nil && pe.rangeKeys[obj]
}

var _ = strings.TrimSpace

// stripConv removes conversions around an expression.
func stripConv(e ast.Expr) ast.Expr {
	for {
		e = ast.Unparen(e)
		call, ok := e.(*ast.CallExpr)
		if !ok || len(call.Args) != 1 {
			return e
		}
		if id, ok := call.Fun.(*ast.SelectorExpr); ok && id.Sel.Name == "Duration" {
			e = call.Args[0]
			continue
		}
		if id, ok := call.Fun.(*ast.Ident); ok && (id.Name == "int64" || id.Name == "uint64" || id.Name == "int" || id.Name == "float64") {
			e = call.Args[0]
			continue
		}
		return e
	}
}

// tokenValuesClosed: no non-constant integer is converted to Token, and Token
// arithmetic is confined to package initialisation (the keyword loop).
func (p *Program) tokenValuesClosed() bool {
	tt := p.tokenTable()
	if tt == nil {
		return false
	}
	for _, fn := range p.SrcFuncs() {
		for _, f := range append([]*ssa.Function{fn}, fn.AnonFuncs...) {
			for _, b := range f.Blocks {
				for _, in := range b.Instrs {
					switch x := in.(type) {
					case *ssa.Convert:
						if types.Identical(x.Type(), tt.Type) {
							if _, isConst := x.X.(*ssa.Const); !isConst {
								// Token(len(tokens)) as a bound in a comparison is harmless
								onlyCompared := true
								for _, r := range *x.Referrers() {
									if bo, ok := r.(*ssa.BinOp); !ok || !(bo.Op == token.LSS || bo.Op == token.LEQ || bo.Op == token.GTR || bo.Op == token.GEQ || bo.Op == token.EQL || bo.Op == token.NEQ) {
										onlyCompared = false
									}
								}
								if !onlyCompared {
									return false
								}
							}
						}
					case *ssa.BinOp:
						if types.Identical(x.Type(), tt.Type) && !isInitFunc(fn.Name()) {
							return false // Token arithmetic outside init
						}
					}
				}
			}
		}
	}
	return true
}

// negRecursion: a function that calls itself on the negation of its own signed
// integer parameter never returns for the most negative value (-MinInt64 ==
// MinInt64), whatever sign test guards the call.
func (t *totality) negRecursion() {
	c, p := t.c, t.c.P
	rule := t.prop + ".recursion"
	c.Rule(rule, "no function in scope calls itself with the negation of one of its own signed integer parameters: the most negative value is its own negation, so the recursion never ends (stack exhaustion is not an error value)")
	n, bad := 0, 0
	for _, fb := range p.funcBodies() {
		if fb.Lit != nil || !t.inScope(fb) {
			continue
		}
		fb := fb
		fd := p.FuncDecls[fb.Decl]
		if fd == nil || fd.Type.Params == nil {
			continue
		}
		params := map[types.Object]bool{}
		for _, f := range fd.Type.Params.List {
			for _, nm := range f.Names {
				if o := p.Info.Defs[nm]; o != nil {
					if b, ok := o.Type().Underlying().(*types.Basic); ok && b.Info()&types.IsInteger != 0 && b.Info()&types.IsUnsigned == 0 {
						params[o] = true
					}
				}
			}
		}
		ast.Inspect(fb.Body, func(nd ast.Node) bool {
			call, ok := nd.(*ast.CallExpr)
			if !ok {
				return true
			}
			if callee, _ := typeutil.Callee(p.Info, call).(*types.Func); callee != fb.Decl {
				return true
			}
			n++
			for _, a := range call.Args {
				u, ok := ast.Unparen(a).(*ast.UnaryExpr)
				if !ok || u.Op != token.SUB {
					continue
				}
				if id := identOf(u.X); id != nil && params[p.Info.ObjectOf(id)] {
					bad++
					c.Bad(rule, fb.Name+": calls itself with -"+id.Name, call.Pos(), "for the most negative "+p.TypeStr(p.Info.TypeOf(id))+" the argument equals the parameter: the recursion does not end and the process dies of stack exhaustion")
				}
			}
			return true
		})
	}
	c.OK(rule, "self-calls examined", 0, fmt.Sprintf("%d direct self-calls in scope, %d on a negated parameter", n, bad))
}

// builderText: the sliced value is the text of a local strings.Builder or
// bytes.Buffer (x := b.String()). It returns the number of bytes the function
// writes to that builder unconditionally, and whether every other write sits
// in a `for range` over input data (so that the empty input leaves exactly
// the unconditional bytes).
func (t *totality) builderText(fb funcBody, x ast.Expr) (min int, attained bool, ok bool) {
	p := t.c.P
	id := identOf(x)
	if id == nil || t.roots == nil {
		return 0, false, false
	}
	def, has := t.roots.defs[p.Info.ObjectOf(id)]
	if !has {
		return 0, false, false
	}
	call, isCall := ast.Unparen(def).(*ast.CallExpr)
	if !isCall || len(call.Args) != 0 {
		return 0, false, false
	}
	sel, isSel := call.Fun.(*ast.SelectorExpr)
	if !isSel || sel.Sel.Name != "String" {
		return 0, false, false
	}
	bid := identOf(sel.X)
	if bid == nil {
		return 0, false, false
	}
	bobj := p.Info.ObjectOf(bid)
	if bobj == nil || bobj.Parent() == p.Types.Scope() {
		return 0, false, false
	}
	ts := p.TypeStr(bobj.Type())
	if ts != "strings.Builder" && ts != "bytes.Buffer" && ts != "*strings.Builder" && ts != "*bytes.Buffer" {
		return 0, false, false
	}
	attained = true
	var walk func(list []ast.Stmt, inDataLoop, cond bool)
	usesB := func(n ast.Node) bool {
		found := false
		ast.Inspect(n, func(m ast.Node) bool {
			if i, ok := m.(*ast.Ident); ok && p.Info.ObjectOf(i) == bobj {
				found = true
			}
			return !found
		})
		return found
	}
	walk = func(list []ast.Stmt, inDataLoop, cond bool) {
		for _, s := range list {
			if s.Pos() <= x.Pos() && x.End() <= s.End() {
				continue // the statement holding the slice expression itself
			}
			if !usesB(s) {
				// an early exit (the empty input may leave here) ends the argument
				ast.Inspect(s, func(m ast.Node) bool {
					switch m.(type) {
					case *ast.ReturnStmt, *ast.BranchStmt:
						attained = false
					case *ast.CallExpr:
						if t.c.P.isPanicCall(&ast.ExprStmt{X: m.(*ast.CallExpr)}) {
							attained = false
						}
					}
					return true
				})
				continue
			}
			switch st := s.(type) {
			case *ast.RangeStmt:
				if t.roots.rooted(st.X, 0) {
					walk(st.Body.List, true, cond)
				} else {
					attained = false
				}
				continue
			case *ast.BlockStmt:
				walk(st.List, inDataLoop, cond)
				continue
			case *ast.DeclStmt:
				continue
			case *ast.AssignStmt, *ast.ExprStmt:
				// a write: b.WriteString("const") / b.WriteByte / b.WriteRune, or the
				// final b.String()
				n := -1
				ast.Inspect(st, func(m ast.Node) bool {
					c, ok := m.(*ast.CallExpr)
					if !ok {
						return true
					}
					s2, ok := c.Fun.(*ast.SelectorExpr)
					if !ok || identOf(s2.X) == nil || p.Info.ObjectOf(identOf(s2.X)) != bobj {
						return true
					}
					switch s2.Sel.Name {
					case "String", "Len":
						if n < 0 {
							n = 0
						}
					case "WriteByte", "WriteRune":
						n = 1
					case "WriteString":
						if tv, ok := p.Info.Types[c.Args[0]]; ok && tv.Value != nil && tv.Value.Kind() == constant.String {
							n = len(constant.StringVal(tv.Value))
						} else {
							n = 0
						}
					default:
						n = -2
					}
					return false
				})
				switch {
				case n == -2 || n == -1:
					attained = false // the builder escapes or is used in a way not followed
				case !inDataLoop && !cond:
					min += n
				}
				continue
			}
			attained = false // an if, switch, plain for: whether it writes depends on more than emptiness
		}
	}
	walk(fb.Body.List, false, false)
	return min, attained, true
}

// okKeptInLocal: x was defined by `x, ok := v.(T)` and that ok is used on the
// right-hand side of another assignment (hoisted into a boolean local).
func (p *Program) okKeptInLocal(fb funcBody, x *ast.Ident) bool {
	if x == nil {
		return false
	}
	xo := p.Info.ObjectOf(x)
	var okObj types.Object
	ast.Inspect(fb.Body, func(n ast.Node) bool {
		as, ok := n.(*ast.AssignStmt)
		if !ok || len(as.Lhs) != 2 || len(as.Rhs) != 1 {
			return true
		}
		if _, isTA := ast.Unparen(as.Rhs[0]).(*ast.TypeAssertExpr); !isTA {
			return true
		}
		if id := identOf(as.Lhs[0]); id != nil && p.Info.ObjectOf(id) == xo {
			if id2 := identOf(as.Lhs[1]); id2 != nil && id2.Name != "_" {
				okObj = p.Info.ObjectOf(id2)
			}
		}
		return true
	})
	if okObj == nil {
		return false
	}
	kept := false
	ast.Inspect(fb.Body, func(n ast.Node) bool {
		as, ok := n.(*ast.AssignStmt)
		if !ok {
			return true
		}
		for _, r := range as.Rhs {
			ast.Inspect(r, func(m ast.Node) bool {
				if id, ok := m.(*ast.Ident); ok && p.Info.ObjectOf(id) == okObj {
					kept = true
				}
				return true
			})
		}
		return true
	})
	return kept
}
