package main

import (
	"fmt"
	"go/ast"
	"go/token"
	"go/types"

	"golang.org/x/tools/go/ssa"
)

// trustedAssert lists single-result assertions that hold by a package
// invariant rather than by local flow; one line of reason each.
var trustedAssert = map[string]string{
	// (empty: the one entry this table had — RewriteRegexConditions' be.RHS.(*RegexLiteral),
	// trusted on the belief that the operand of =~ is always a regex — was wrong:
	// `host =~ /x/ + 1` parses with the arithmetic as the operand. Fixed in /repo.)
}

// kindPreserving reports whether f is a function whose type switch on its
// first parameter returns, in every single-type case clause, a value of
// exactly that case's type (CloneExpr): then f(x).(T) holds for x of type T.
func (t *totality) kindPreserving(f *types.Func) (bool, []string) {
	p := t.c.P
	fd := p.FuncDecls[f]
	if fd == nil || fd.Body == nil || fd.Type.Params == nil || len(fd.Type.Params.List) == 0 {
		return false, nil
	}
	var bad []string
	found := false
	for _, st := range fd.Body.List {
		ts, ok := st.(*ast.TypeSwitchStmt)
		if !ok {
			continue
		}
		op := typeSwitchOperand(ts)
		id := identOf(op)
		if id == nil {
			continue
		}
		if v, ok := p.Info.Uses[id].(*types.Var); !ok || v != p.Info.Defs[fd.Type.Params.List[0].Names[0]] {
			continue
		}
		found = true
		for _, cl := range ts.Body.List {
			cc := cl.(*ast.CaseClause)
			if len(cc.List) != 1 {
				continue
			}
			ct := p.Info.TypeOf(cc.List[0])
			ast.Inspect(cc, func(n ast.Node) bool {
				if _, ok := n.(*ast.FuncLit); ok {
					return false
				}
				if r, ok := n.(*ast.ReturnStmt); ok && len(r.Results) == 1 {
					rt := p.Info.TypeOf(r.Results[0])
					if rt == nil || !types.Identical(rt, ct) {
						bad = append(bad, fmt.Sprintf("case %s returns %s", p.TypeStr(ct), p.TypeStr(rt)))
					}
				}
				return true
			})
		}
	}
	return found && len(bad) == 0, bad
}

// asserts decides every single-result type assertion in scope.
func (t *totality) asserts(inScopeFn func(f *ssa.Function) bool) {
	c, p := t.c, t.c.P
	rule := t.prop + ".assert"
	ts := p.newTypeSets()
	n := 0
	// source-level keys: Lparen position -> "func: expr"
	srcKey := map[token.Pos]string{}
	for _, fb := range p.funcBodies() {
		fb := fb
		ast.Inspect(fb.Body, func(n ast.Node) bool {
			if fl, ok := n.(*ast.FuncLit); ok && fl != fb.Lit {
				return false
			}
			if ta, ok := n.(*ast.TypeAssertExpr); ok && ta.Type != nil {
				srcKey[ta.Lparen] = fb.Name + ": " + types.ExprString(ta)
			}
			return true
		})
	}
	for _, f := range p.allSSAFuncs() {
		if !inScopeFn(f) {
			continue
		}
		for _, b := range f.Blocks {
			for _, in := range b.Instrs {
				ta, ok := in.(*ssa.TypeAssert)
				if !ok || ta.CommaOk {
					continue
				}
				if !ta.Pos().IsValid() {
					// type-switch lowering yields comma-ok asserts only;
					// a position-less single-result assert is synthetic.
					continue
				}
				n++
				key, ok := srcKey[ta.Pos()]
				if !ok {
					key = ssaFuncName(f) + ": " + ta.String()
				}
				at := ta.AssertedType
				// rewriter contract
				if call, ok := stripValue(ta.X).(*ssa.Call); ok {
					if callee := call.Call.StaticCallee(); callee != nil && callee.Object() == p.Func("Rewrite") {
						c.Assume("user-supplied Rewriter implementations return a node of the kind they were given (Rewrite asserts the result back to the slot type)")
						c.OK(rule, key, ta.Pos(), "result of Rewrite: holds when the Rewriter returns the kind it was given (assumption); the package's own rewriters are checked by "+t.prop+".rewriters")
						continue
					}
					// kind-preserving clone
					if callee := call.Call.StaticCallee(); callee != nil && len(call.Call.Args) == 1 {
						if fo, ok := callee.Object().(*types.Func); ok {
							if kp, _ := t.kindPreserving(fo); kp {
								arg := ts.of(call.Call.Args[0], map[ssa.Value]bool{})
								if !arg.top && len(arg.types) == 1 {
									if _, ok := arg.types[p.TypeStr(at)]; ok {
										c.OK(rule, key, ta.Pos(), fo.Name()+" returns its argument's kind in every case clause and the argument is a "+p.TypeStr(at))
										continue
									}
								}
							}
						}
					}
				}
				set := ts.of(ta.X, map[ssa.Value]bool{})
				if !set.top {
					ok := true
					for k, ty := range set.types {
						if ty == nil {
							ok = false // nil interface fails any assertion
							_ = k
							continue
						}
						if ai, isIface := at.Underlying().(*types.Interface); isIface {
							if !types.Implements(ty, ai) {
								ok = false
							}
						} else if !types.Identical(ty, at) {
							ok = false
						}
					}
					if ok && len(set.types) > 0 {
						c.OK(rule, key, ta.Pos(), fmt.Sprintf("operand can only hold %v", set.names()))
						continue
					}
					c.Bad(rule, key, ta.Pos(), fmt.Sprintf("operand may hold %v, asserted %s", set.names(), p.TypeStr(at)))
					continue
				}
				if why, ok := trustedAssert[key]; ok {
					c.OK(rule, key, ta.Pos(), "invariant: "+why)
					continue
				}
				c.Bad(rule, key, ta.Pos(), "single-result type assertion on a value whose dynamic type is not bounded by flow; it panics for any other implementer")
			}
		}
	}
	c.Notes = append(c.Notes, fmt.Sprintf("%s.assert: %d single-result assertions", t.prop, n))
}

func stripValue(v ssa.Value) ssa.Value {
	for {
		switch x := v.(type) {
		case *ssa.ChangeInterface:
			v = x.X
		default:
			return v
		}
	}
}

func ssaFuncName(f *ssa.Function) string {
	if f.Parent() != nil {
		// closures: parent + "$n" as ssa names them
		return ssaFuncName(f.Parent()) + f.Name()[len(f.Parent().Name()):]
	}
	if o, ok := f.Object().(*types.Func); ok {
		return FuncName(o)
	}
	return f.Name()
}

// rewriters checks the package's own Rewriter closures: a node of kind T may
// only be replaced by something assignable to every slot type T can occupy.
func (t *totality) rewriters() {
	c, p := t.c, t.c.P
	rule := t.prop + ".rewriters"
	c.Rule(rule, "every function literal the package passes to RewriteFunc/RewriteExpr returns, for an argument of kind T, a value assignable to every slot type that Rewrite asserts for T (Expr, Statement, *Field, ...)")
	slots := []types.Type{}
	for _, n := range []string{"Expr", "Statement", "Source"} {
		if nt := p.Named(n); nt != nil {
			slots = append(slots, nt)
		}
	}
	for _, n := range []string{"Field", "Dimension", "SelectStatement"} {
		if nt := p.Named(n); nt != nil {
			slots = append(slots, types.NewPointer(nt))
		}
	}
	for _, n := range []string{"Fields", "Dimensions", "Sources", "Statements"} {
		if nt := p.Named(n); nt != nil {
			slots = append(slots, nt)
		}
	}
	count := 0
	for _, fb := range p.funcBodies() {
		if fb.Lit != nil {
			continue
		}
		ast.Inspect(fb.Body, func(n ast.Node) bool {
			call, ok := n.(*ast.CallExpr)
			if !ok || len(call.Args) != 2 {
				return true
			}
			id := identOf(call.Fun)
			if id == nil {
				return true
			}
			fn, _ := p.Info.Uses[id].(*types.Func)
			if fn == nil || (fn != p.Func("RewriteFunc") && fn != p.Func("RewriteExpr")) {
				return true
			}
			lit, ok := call.Args[1].(*ast.FuncLit)
			if !ok {
				return true
			}
			// walk the literal's type switch on its parameter
			param := p.Info.Defs[lit.Type.Params.List[0].Names[0]]
			ast.Inspect(lit.Body, func(m ast.Node) bool {
				ts, ok := m.(*ast.TypeSwitchStmt)
				if !ok {
					return true
				}
				opid := identOf(typeSwitchOperand(ts))
				if opid == nil || p.Info.Uses[opid] != param {
					return true
				}
				for _, cl := range ts.Body.List {
					cc := cl.(*ast.CaseClause)
					if len(cc.List) != 1 {
						continue
					}
					ct := p.Info.TypeOf(cc.List[0])
					ast.Inspect(cc, func(r ast.Node) bool {
						ret, ok := r.(*ast.ReturnStmt)
						if !ok || len(ret.Results) != 1 {
							return true
						}
						rt := p.Info.TypeOf(ret.Results[0])
						count++
						key := fb.Name + "$lit: case " + p.TypeStr(ct) + " returns " + p.TypeStr(rt)
						okAll := true
						for _, s := range slots {
							if types.AssignableTo(ct, s) && !types.AssignableTo(rt, s) {
								okAll = false
								c.Bad(rule, key, ret.Pos(), fmt.Sprintf("a %s can sit in a %s slot but the replacement %s cannot; Rewrite's assertion panics", p.TypeStr(ct), p.TypeStr(s), p.TypeStr(rt)))
							}
						}
						if okAll {
							c.OK(rule, key, ret.Pos(), "replacement fits every slot the original can occupy")
						}
						return true
					})
				}
				return false
			})
			return true
		})
	}
	c.Notes = append(c.Notes, fmt.Sprintf("%s: %d rewriter return sites", rule, count))
}
