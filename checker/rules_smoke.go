package main

func init() {
	register("C00", func(c *Ctx) {
		c.Rule("C00.smoke", "loader smoke test")
		c.Check(len(c.P.Implementers("Expr")) >= 17, "C00.smoke", "Expr implementers", 0, "")
		c.Check(len(c.P.Implementers("Statement")) >= 45, "C00.smoke", "Statement implementers", 0, "")
	})
}
