package main

// E5 — push-back typestate. Both look-ahead buffers are rings of len(buf)
// slots with an unchecked n++ on push-back. The push-back depth is tracked as
// a bounded counter {0..cap, over}: push-back = +1, a read = max(n-1, 0).
// Each function gets a summary "entry depth -> exit depths" split by whether
// the function returns a nil or a non-nil error, so that the idiom
//     if err := p.parseTokens(...); err != nil { p.Unscan() }
// is judged with "an error means a token was scanned". Summaries are iterated
// to a fixpoint over the (mutually recursive) parser.

import (
	"fmt"
	"go/constant"
	"go/token"
	"go/types"

	"golang.org/x/tools/go/ssa"
)

type pbSpec struct {
	p         *Program
	cap       int
	inc, dec  map[*ssa.Function]bool
	incInvoke map[string]bool
	decInvoke map[string]bool
	scope     map[*ssa.Function]bool
	// dynamic call targets by signature string
	bySig map[string][]*ssa.Function
}

type pbSum struct {
	ok, err []uint32 // per entry depth: bitset of exit depths
	max     []int    // per entry depth: highest depth reached inside
	done    []bool
}

type pbState map[string]uint32 // tag -> bitset of depths; tag "" = untagged

func (s pbState) add(tag string, bits uint32) bool {
	old := s[tag]
	if old|bits == old {
		return false
	}
	s[tag] = old | bits
	return true
}

type pbAnalysis struct {
	spec *pbSpec
	sums map[*ssa.Function]*pbSum
	over int
	// site of the first overflow found
	overAt string
	// recording pass (after the fixpoint): which depths each function is
	// entered with, and the depths at calls of watched functions
	rec      bool
	watch    map[*ssa.Function]bool
	ctx      map[*ssa.Function]uint32
	watchHit map[*ssa.Call]uint32
	callHit  map[*ssa.Call]uint32 // static calls into scope functions: depths at the call
	// freshEntry: entry points are entered at depth 0 only
	freshEntry bool
}

// contexts propagates the reachable entry depths from the entry points (any
// order, starting from an empty ring) and records the depths at watched calls.
func (a *pbAnalysis) contexts(entries []*ssa.Function, watch map[*ssa.Function]bool) map[*ssa.Call]uint32 {
	a.rec, a.watch = true, watch
	a.ctx = map[*ssa.Function]uint32{}
	a.watchHit = map[*ssa.Call]uint32{}
	// depths between two entry-point calls
	D := bitsOf(0)
	for changed := true; changed; {
		changed = false
		for _, f := range entries {
			if s := a.sums[f]; s != nil {
				for d := 0; d <= a.over; d++ {
					if D&(1<<uint(d)) != 0 {
						if nd := D | s.ok[d] | s.err[d]; nd != D {
							D, changed = nd, true
						}
					}
				}
			}
		}
	}
	if a.freshEntry {
		D = bitsOf(0) // every entry point starts on a parser with nothing pushed back
	}
	for _, f := range entries {
		a.ctx[f] |= D
	}
	for round := 0; round < 40; round++ {
		before := map[*ssa.Function]uint32{}
		for f, b := range a.ctx {
			before[f] = b
		}
		for f, bits := range before {
			for d := 0; d <= a.over; d++ {
				if bits&(1<<uint(d)) != 0 {
					a.analyse(f, d)
				}
			}
		}
		same := len(before) == len(a.ctx)
		for f, b := range a.ctx {
			if before[f] != b {
				same = false
			}
		}
		if same {
			break
		}
	}
	a.rec = false
	return a.watchHit
}

func newPB(spec *pbSpec) *pbAnalysis {
	a := &pbAnalysis{spec: spec, sums: map[*ssa.Function]*pbSum{}, over: spec.cap + 1}
	for f := range spec.scope {
		n := spec.cap + 2
		a.sums[f] = &pbSum{ok: make([]uint32, n), err: make([]uint32, n), max: make([]int, n), done: make([]bool, n)}
	}
	return a
}

func bitsOf(ds ...int) uint32 {
	var b uint32
	for _, d := range ds {
		b |= 1 << uint(d)
	}
	return b
}

func (a *pbAnalysis) shift(bits uint32, delta int) (out uint32, maxd int) {
	for d := 0; d <= a.over; d++ {
		if bits&(1<<uint(d)) == 0 {
			continue
		}
		nd := d
		switch {
		case d == a.over:
		case delta > 0:
			nd = d + 1
		case delta < 0 && d > 0:
			nd = d - 1
		}
		if nd > maxd {
			maxd = nd
		}
		out |= 1 << uint(nd)
	}
	return
}

// errClass: 0 = nil error, 1 = non-nil, 2 = either.
func errClass(ret *ssa.Return) int {
	if len(ret.Results) == 0 {
		return 0
	}
	last := ret.Results[len(ret.Results)-1]
	if it, ok := last.Type().Underlying().(*types.Interface); !ok || it.NumMethods() != 1 || it.Method(0).Name() != "Error" {
		return 0
	}
	switch x := last.(type) {
	case *ssa.Const:
		if x.IsNil() {
			return 0
		}
		return 1
	case *ssa.MakeInterface:
		return 1
	case *ssa.Call:
		return 1 // error constructors
	}
	// dominated by `v != nil`?
	b := ret.Block()
	for d := b.Idom(); d != nil; d = d.Idom() {
		ifi, ok := d.Instrs[len(d.Instrs)-1].(*ssa.If)
		if !ok {
			continue
		}
		bo, ok := ifi.Cond.(*ssa.BinOp)
		if !ok || (bo.Op != token.NEQ && bo.Op != token.EQL) || !sameOrSameLoad(bo.X, last) {
			continue
		}
		if k, ok := bo.Y.(*ssa.Const); !ok || !k.IsNil() {
			continue
		}
		t, f := d.Succs[0], d.Succs[1]
		if bo.Op == token.EQL {
			t, f = f, t
		}
		if t == b || t.Dominates(b) {
			return 1
		}
		if f == b || f.Dominates(b) {
			return 0
		}
	}
	return 2
}

// run computes all summaries to a fixpoint.
func (a *pbAnalysis) run() {
	for round := 0; round < 60; round++ {
		changed := false
		for f := range a.spec.scope {
			for d := 0; d <= a.over; d++ {
				if a.analyse(f, d) {
					changed = true
				}
			}
		}
		if !changed {
			return
		}
	}
}

func (a *pbAnalysis) callees(c *ssa.CallCommon) (fs []*ssa.Function, delta int, opaque bool) {
	if c.IsInvoke() {
		if a.spec.incInvoke[c.Method.Name()] {
			return nil, +1, false
		}
		if a.spec.decInvoke[c.Method.Name()] {
			return nil, -1, false
		}
		return nil, 0, true
	}
	if callee := c.StaticCallee(); callee != nil {
		if a.spec.inc[callee] {
			return nil, +1, false
		}
		if a.spec.dec[callee] {
			return nil, -1, false
		}
		if a.spec.scope[callee] {
			return []*ssa.Function{callee}, 0, false
		}
		return nil, 0, true
	}
	if _, isBuiltin := c.Value.(*ssa.Builtin); isBuiltin {
		return nil, 0, true
	}
	// dynamic call: every in-scope function of that signature
	sig := sigKey(c.Signature())
	return a.spec.bySig[sig], 0, len(a.spec.bySig[sig]) == 0
}

func (a *pbAnalysis) analyse(f *ssa.Function, entry int) bool {
	sum := a.sums[f]
	in := make([]pbState, len(f.Blocks))
	for i := range in {
		in[i] = pbState{}
	}
	in[0].add("", bitsOf(entry))
	edge := map[[2]int]pbState{} // what flowed along each CFG edge
	flow := func(from, to int, src pbState) {
		k := [2]int{from, to}
		if edge[k] == nil {
			edge[k] = pbState{}
		}
		for tag, bits := range src {
			edge[k].add(tag, bits)
		}
	}
	maxd := entry
	var okBits, errBits uint32
	work := []int{0}
	inWork := map[int]bool{0: true}
	for len(work) > 0 {
		bi := work[0]
		work = work[1:]
		inWork[bi] = false
		b := f.Blocks[bi]
		st := pbState{}
		for k, v := range in[bi] {
			st[k] = v
		}
		for _, instr := range b.Instrs {
			var common *ssa.CallCommon
			var callv *ssa.Call
			switch x := instr.(type) {
			case *ssa.Call:
				common, callv = &x.Call, x
			case *ssa.Defer:
				common = &x.Call
			case *ssa.Go:
				common = &x.Call
			}
			if common == nil {
				continue
			}
			if a.rec && callv != nil && a.watch[common.StaticCallee()] {
				var bitsNow uint32
				for _, bits := range st {
					bitsNow |= bits
				}
				a.watchHit[callv] |= bitsNow
			}
			fs, delta, opaque := a.callees(common)
			if opaque {
				continue
			}
			if delta != 0 {
				ns := pbState{}
				for tag, bits := range st {
					nb, m := a.shift(bits, delta)
					if m > maxd {
						maxd = m
					}
					if nb&(1<<uint(a.over)) != 0 && bits&(1<<uint(a.over)) == 0 && a.overAt == "" {
						a.overAt = fmt.Sprintf("%s at %s", ssaFuncName(f), a.spec.p.Pos(instr.Pos()))
					}
					ns.add(tag, nb)
				}
				st = ns
				continue
			}
			// summarised callees; tag results by the error value when the call has one
			errTag := ""
			if callv != nil {
				for _, ref := range *callv.Referrers() {
					if ex, ok := ref.(*ssa.Extract); ok {
						if it, ok := ex.Type().Underlying().(*types.Interface); ok && it.NumMethods() == 1 && it.Method(0).Name() == "Error" {
							errTag = ex.Name()
						}
					}
				}
				if errTag == "" {
					if it, ok := callv.Type().Underlying().(*types.Interface); ok && it.NumMethods() == 1 && it.Method(0).Name() == "Error" {
						errTag = callv.Name()
					}
				}
			}
			var allBits uint32
			for _, bits := range st {
				allBits |= bits
			}
			if a.rec {
				for _, callee := range fs {
					a.ctx[callee] |= allBits
				}
				if callv != nil && len(fs) == 1 {
					if a.callHit == nil {
						a.callHit = map[*ssa.Call]uint32{}
					}
					a.callHit[callv] |= allBits
				}
			}
			ns := pbState{}
			for d := 0; d <= a.over; d++ {
				if allBits&(1<<uint(d)) == 0 {
					continue
				}
				for _, callee := range fs {
					cs := a.sums[callee]
					if cs.max[d] > maxd {
						maxd = cs.max[d]
					}
					if errTag != "" {
						ns.add(errTag+":N", cs.ok[d])
						ns.add(errTag+":E", cs.err[d])
					} else {
						ns.add("", cs.ok[d]|cs.err[d])
					}
				}
			}
			st = ns
		}
		// out edges
		last := b.Instrs[len(b.Instrs)-1]
		switch x := last.(type) {
		case *ssa.Return:
			var bits uint32
			for _, v := range st {
				bits |= v
			}
			switch errClass(x) {
			case 0:
				okBits |= bits
			case 1:
				errBits |= bits
			default:
				okBits |= bits
				errBits |= bits
			}
		case *ssa.If:
			tSt, fSt := st, st
			if bo, ok := x.Cond.(*ssa.BinOp); ok && (bo.Op == token.NEQ || bo.Op == token.EQL) {
				if k, ok := bo.Y.(*ssa.Const); ok && k.IsNil() {
					name := bo.X.Name()
					if _, tagged := st[name+":N"]; tagged || st[name+":E"] != 0 {
						errSide, nilSide := pbState{}, pbState{}
						for tag, bits := range st {
							switch tag {
							case name + ":E":
								errSide.add("", bits)
							case name + ":N":
								nilSide.add("", bits)
							default:
								errSide.add(tag, bits)
								nilSide.add(tag, bits)
							}
						}
						if bo.Op == token.NEQ {
							tSt, fSt = errSide, nilSide
						} else {
							tSt, fSt = nilSide, errSide
						}
					}
				}
			}
			// `for more := true; more; { ... }`: the test is a loop variable whose
			// value on the way in is the constant true, and the header holds
			// nothing but that variable: what arrives from outside the loop cannot
			// leave through the exit edge
			if phi, ok := x.Cond.(*ssa.Phi); ok && phi.Block() == b && headerOnlyPhis(b) {
				constTrue := -1
				for i, e := range phi.Edges {
					if k, ok := e.(*ssa.Const); ok && k.Value != nil && k.Value.Kind() == constant.Bool && constant.BoolVal(k.Value) {
						constTrue = i
					}
				}
				if constTrue >= 0 && len(b.Preds) >= 2 {
					others := pbState{}
					for i, pb := range b.Preds {
						if i == constTrue {
							continue
						}
						for tag, bits := range edge[[2]int{pb.Index, b.Index}] {
							others.add(tag, bits)
						}
					}
					fSt = others
				}
			}
			for i, s := range b.Succs {
				src := tSt
				if i == 1 {
					src = fSt
				}
				flow(b.Index, s.Index, src)
				ch := false
				for tag, bits := range src {
					if in[s.Index].add(tag, bits) {
						ch = true
					}
				}
				if ch && !inWork[s.Index] {
					work = append(work, s.Index)
					inWork[s.Index] = true
				}
			}
			continue
		}
		for _, s := range b.Succs {
			flow(b.Index, s.Index, st)
			ch := false
			for tag, bits := range st {
				// tags do not survive a join with other paths reliably; keep them (sound: both sides retained)
				if in[s.Index].add(tag, bits) {
					ch = true
				}
			}
			if ch && !inWork[s.Index] {
				work = append(work, s.Index)
				inWork[s.Index] = true
			}
		}
	}
	changed := false
	if sum.ok[entry]|okBits != sum.ok[entry] {
		sum.ok[entry] |= okBits
		changed = true
	}
	if sum.err[entry]|errBits != sum.err[entry] {
		sum.err[entry] |= errBits
		changed = true
	}
	if maxd > sum.max[entry] {
		sum.max[entry] = maxd
		changed = true
	}
	return changed
}

// closure computes the maximum depth reachable from the entry functions when
// they are called in any order starting from an empty ring.
func (a *pbAnalysis) closure(entries []*ssa.Function) int {
	D := bitsOf(0)
	maxd := 0
	for changed := true; changed; {
		changed = false
		for _, f := range entries {
			s := a.sums[f]
			if s == nil {
				continue
			}
			for d := 0; d <= a.over; d++ {
				if D&(1<<uint(d)) == 0 {
					continue
				}
				if s.max[d] > maxd {
					maxd = s.max[d]
				}
				nd := D | s.ok[d] | s.err[d]
				if nd != D {
					D = nd
					changed = true
				}
			}
		}
	}
	return maxd
}

// pushbackDepth analyses the rune ring of the scanner.
func pushbackDepth(p *Program, ringType, readName, unreadName string, entries []string, owner string) (int, bool, string) {
	read := p.SSAFunc(p.Method(ringType, readName))
	unread := p.SSAFunc(p.Method(ringType, unreadName))
	if read == nil || unread == nil {
		return 0, false, "ring primitives not found"
	}
	spec := &pbSpec{p: p, cap: ringCap(p, ringType), inc: map[*ssa.Function]bool{unread: true}, dec: map[*ssa.Function]bool{read: true},
		incInvoke: map[string]bool{"UnreadRune": true}, decInvoke: map[string]bool{"ReadRune": true},
		scope: map[*ssa.Function]bool{}, bySig: map[string][]*ssa.Function{}}
	if spec.cap == 0 {
		return 0, false, "ring capacity not found"
	}
	// wrappers ReadRune/UnreadRune of the ring type are the primitives too
	if w := p.SSAFunc(p.Method(ringType, "ReadRune")); w != nil {
		spec.dec[w] = true
	}
	if w := p.SSAFunc(p.Method(ringType, "UnreadRune")); w != nil {
		spec.inc[w] = true
	}
	for _, f := range p.allSSAFuncs() {
		if spec.inc[f] || spec.dec[f] || f == p.SSAFunc(p.Method(ringType, "curr")) {
			continue
		}
		root := f
		for root.Parent() != nil {
			root = root.Parent()
		}
		o, _ := root.Object().(*types.Func)
		if o == nil {
			continue
		}
		rn := recvTypeName(o)
		if rn == owner || (rn == "" && (o.Name() == "ScanDelimited" || o.Name() == "ScanString" || o.Name() == "ScanBareIdent")) || FuncName(o) == "(*Parser).peekRune" {
			spec.scope[f] = true
		}
	}
	a := newPB(spec)
	a.run()
	var es []*ssa.Function
	for _, n := range entries {
		if f := p.SSAFunc(p.Method(owner, n)); f != nil {
			es = append(es, f)
		}
	}
	if f := p.SSAFunc(p.Method("Parser", "peekRune")); f != nil {
		es = append(es, f)
	}
	if len(es) == 0 {
		return 0, false, "no entry functions"
	}
	return a.closure(es), true, ""
}

// sameOrSameLoad: identical values, or two loads of the same address (a
// variable captured by a closure is re-loaded at each use).
func sameOrSameLoad(a, b ssa.Value) bool {
	if a == b {
		return true
	}
	ua, ok1 := a.(*ssa.UnOp)
	ub, ok2 := b.(*ssa.UnOp)
	return ok1 && ok2 && ua.Op == token.MUL && ub.Op == token.MUL && ua.X == ub.X
}

// sigKey identifies a function type by its parameter and result types only
// (parameter names differ between a closure and the type of the variable it is
// called through).
func sigKey(sig *types.Signature) string {
	k := "func("
	for i := 0; i < sig.Params().Len(); i++ {
		if i > 0 {
			k += ","
		}
		k += sig.Params().At(i).Type().String()
	}
	k += ")("
	for i := 0; i < sig.Results().Len(); i++ {
		if i > 0 {
			k += ","
		}
		k += sig.Results().At(i).Type().String()
	}
	if sig.Variadic() {
		k += "..."
	}
	return k + ")"
}

func headerOnlyPhis(b *ssa.BasicBlock) bool {
	for _, in := range b.Instrs[:len(b.Instrs)-1] {
		switch in.(type) {
		case *ssa.Phi, *ssa.DebugRef:
		default:
			return false
		}
	}
	return true
}
