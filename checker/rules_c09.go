package main

import (
	"fmt"
	"go/ast"
	"go/constant"
	"go/token"
	"go/types"
	"sort"
	"strings"

	"golang.org/x/tools/go/ssa"
)

func init() { register("C09", rulesC09) }

// allowed Go operators per InfluxQL operator token; "primary" ones first.
// A trailing "~" marks a commutative operator (operand order free).
var opSpec = map[string]struct {
	primary, also []string
	commutes      bool
}{
	"+":   {[]string{"+", "Add"}, nil, true},
	"-":   {[]string{"-", "Sub", "Add-"}, nil, false},
	"*":   {[]string{"*"}, nil, true},
	"/":   {[]string{"/"}, nil, false},
	"%":   {[]string{"%", "Mod"}, nil, false},
	"&":   {[]string{"&", "&&"}, nil, true},
	"|":   {[]string{"|", "||"}, nil, true},
	"^":   {[]string{"^", "!="}, nil, true},
	"AND": {[]string{"&&"}, nil, true},
	"OR":  {[]string{"||"}, nil, true},
	"=":   {[]string{"==", "Equal"}, nil, true},
	"!=":  {[]string{"!=", "!Equal"}, nil, true},
	"<":   {[]string{"<", "Before"}, nil, false},
	"<=":  {[]string{"<=", "Before"}, []string{"Equal", "=="}, false},
	">":   {[]string{">", "After"}, nil, false},
	">=":  {[]string{">=", "After"}, []string{"Equal", "=="}, false},
	"=~":  {[]string{"MatchString"}, nil, false},
	"!~":  {[]string{"!MatchString"}, nil, false},
}

type sideInfo struct{ l, r bool }

// mentions reports whether e mentions an identifier named lhs*/rhs*.
func mentions(e ast.Expr) sideInfo {
	var s sideInfo
	ast.Inspect(e, func(n ast.Node) bool {
		if id, ok := n.(*ast.Ident); ok {
			if strings.HasPrefix(id.Name, "lhs") {
				s.l = true
			}
			if strings.HasPrefix(id.Name, "rhs") {
				s.r = true
			}
		}
		return true
	})
	return s
}

type foundOp struct {
	op    string
	order string // "LR" or "RL"
	pos   token.Pos
}

// relInfo, when set, lets relOps look at operand types.
var relInfo *types.Info

// relOps collects operators applied between a pure-left and a pure-right operand.
func relOps(e ast.Expr, negated bool, out *[]foundOp) {
	switch x := e.(type) {
	case *ast.ParenExpr:
		relOps(x.X, negated, out)
	case *ast.UnaryExpr:
		if x.Op == token.NOT {
			relOps(x.X, !negated, out)
		} else {
			relOps(x.X, negated, out)
		}
	case *ast.BinaryExpr:
		a, b := mentions(x.X), mentions(x.Y)
		pureL := func(s sideInfo) bool { return s.l && !s.r }
		pureR := func(s sideInfo) bool { return s.r && !s.l }
		opStr := x.Op.String()
		if negated {
			// !(a == b) is a != b, !(a < b) is a >= b, ...
			if n, ok := map[token.Token]token.Token{token.EQL: token.NEQ, token.NEQ: token.EQL, token.LSS: token.GEQ, token.GEQ: token.LSS, token.GTR: token.LEQ, token.LEQ: token.GTR}[x.Op]; ok {
				opStr = n.String()
			}
		}
		if relInfo != nil && (pureL(a) && pureR(b) || pureR(a) && pureL(b)) {
			isFloat := func(e ast.Expr) bool {
				t := relInfo.TypeOf(e)
				if t == nil {
					return false
				}
				bt, ok := t.Underlying().(*types.Basic)
				return ok && bt.Info()&types.IsFloat != 0
			}
			if negated && opStr != x.Op.String() && (x.Op == token.LSS || x.Op == token.GTR || x.Op == token.LEQ || x.Op == token.GEQ) && (isFloat(x.X) || isFloat(x.Y)) {
				// on floats !(a < b) is not a >= b: it is also true when either is NaN
				opStr = "!(" + x.Op.String() + ") on floats"
			}
			// both operands are time.Time projected onto an integer
			proj := func(e ast.Expr) string {
				call, ok := ast.Unparen(e).(*ast.CallExpr)
				if !ok {
					return ""
				}
				sel, ok := call.Fun.(*ast.SelectorExpr)
				if !ok {
					return ""
				}
				if t := relInfo.TypeOf(sel.X); t == nil || t.String() != "time.Time" {
					return ""
				}
				switch sel.Sel.Name {
				case "UnixNano", "Unix", "UnixMilli", "UnixMicro":
					return sel.Sel.Name
				}
				return ""
			}
			if pa, pb := proj(x.X), proj(x.Y); pa != "" && pb != "" {
				opStr = opStr + " of " + pa + "()"
			}
		}
		if pureL(a) && pureR(b) {
			*out = append(*out, foundOp{opStr, "LR", x.Pos()})
			return
		}
		if pureR(a) && pureL(b) {
			*out = append(*out, foundOp{opStr, "RL", x.Pos()})
			return
		}
		relOps(x.X, negated, out)
		relOps(x.Y, negated, out)
	case *ast.CallExpr:
		if sel, ok := x.Fun.(*ast.SelectorExpr); ok && len(x.Args) >= 1 {
			recv := mentions(sel.X)
			arg := mentions(x.Args[len(x.Args)-1])
			name := sel.Sel.Name
			if id, ok := sel.X.(*ast.Ident); ok && id.Name == "math" && len(x.Args) == 2 {
				recv = mentions(x.Args[0])
				arg = mentions(x.Args[1])
			}
			// Add(-x): subtraction
			if name == "Add" {
				if u, ok := ast.Unparen(x.Args[0]).(*ast.UnaryExpr); ok && u.Op == token.SUB {
					name = "Add-"
				}
			}
			if negated && (name == "Equal" || name == "MatchString") {
				name = "!" + name
			}
			if recv.l && !recv.r && arg.r && !arg.l {
				*out = append(*out, foundOp{name, "LR", x.Pos()})
				return
			}
			if recv.r && !recv.l && arg.l && !arg.r {
				*out = append(*out, foundOp{name, "RL", x.Pos()})
				return
			}
		}
		for _, a := range x.Args {
			relOps(a, negated, out)
		}
	case *ast.CompositeLit:
		for _, el := range x.Elts {
			if kv, ok := el.(*ast.KeyValueExpr); ok {
				relOps(kv.Value, negated, out)
			} else {
				relOps(el, negated, out)
			}
		}
	case *ast.KeyValueExpr:
		relOps(x.Value, negated, out)
	}
}

func rulesC09(c *Ctx) {
	p := c.P
	tt := p.tokenTable()
	if tt == nil {
		c.Unk("C09.opcorr", "Token", 0, "token table not found")
		return
	}
	c.Rule("C09.opcorr", "in every `case TOKEN:` arm of the constant folder (reduceBinaryExpr*LHS) and of the evaluator (evalBinaryExpr) the Go operator or method applied between the left and the right operand is the one TOKEN denotes, operands in order for non-commutative operators")
	c.Rule("C09.signtest", "the negative-integer-versus-unsigned arms test strict negativity (< 0) of the signed side and return: negative left: < <= true, > >= false; negative right: < <= false, > >= true — the same constants in folder and evaluator")
	nArms, nSign := 0, 0
	signOps := map[string]map[string]bool{}
	for _, fb := range p.funcBodies() {
		if fb.Lit != nil {
			continue
		}
		name := fb.Decl.Name()
		if !(strings.HasPrefix(name, "reduceBinaryExpr") || name == "evalBinaryExpr") {
			continue
		}
		fb := fb
		// every switch on a Token-typed tag
		ast.Inspect(fb.Body, func(n ast.Node) bool {
			sw, ok := n.(*ast.SwitchStmt)
			if !ok || sw.Tag == nil {
				return true
			}
			if t := p.Info.TypeOf(sw.Tag); t == nil || !types.Identical(t, tt.Type) {
				return true
			}
			for _, cl := range sw.Body.List {
				cc := cl.(*ast.CaseClause)
				for _, te := range cc.List {
					tv := p.Info.Types[te]
					if tv.Value == nil {
						continue
					}
					v, _ := constant.Int64Val(constant.ToInt(tv.Value))
					sp := tt.Spelling[v]
					spec, known := opSpec[sp]
					// returns directly in this clause
					ast.Inspect(cc, func(m ast.Node) bool {
						if _, isLit := m.(*ast.FuncLit); isLit {
							return false
						}
						if inner, isSw := m.(*ast.SwitchStmt); isSw && inner != sw && m != ast.Node(cc) {
							return false
						}
						ret, ok := m.(*ast.ReturnStmt)
						if !ok || len(ret.Results) != 1 {
							return true
						}
						var ops []foundOp
						relInfo = p.Info
						relOps(ret.Results[0], false, &ops)
						if len(ops) == 0 {
							return true // constant result or delegation
						}
						nArms++
						key := fmt.Sprintf("%s: case %s: %s [%s]", fb.Name, tt.Name[v], types.ExprString(ret.Results[0]), operandTypes(p, ret.Results[0]))
						if !known {
							c.Unk("C09.opcorr", key, ret.Pos(), "no operator table entry for token "+sp)
							return true
						}
						hasPrimary := false
						bad := ""
						for _, o := range ops {
							isPrim, isAlso := false, false
							for _, a := range spec.primary {
								if a == o.op {
									isPrim = true
								}
							}
							for _, a := range spec.also {
								if a == o.op {
									isAlso = true
								}
							}
							if !isPrim && !isAlso {
								bad = fmt.Sprintf("applies %q between the operands, %q denotes %v", o.op, sp, spec.primary)
								break
							}
							if strings.HasSuffix(o.op, "MatchString") {
								// regexp.MatchString(subject): the pattern is the right operand
								if o.order != "RL" {
									bad = "the regular expression must be the right operand and the subject the left"
									break
								}
							} else if o.order == "RL" && !spec.commutes {
								bad = fmt.Sprintf("applies %q with the operands swapped (right %s left) for the non-commutative operator %q", o.op, o.op, sp)
								break
							}
							if isPrim {
								hasPrimary = true
							}
						}
						switch {
						case bad != "":
							c.Bad("C09.opcorr", key, ret.Pos(), bad)
						case !hasPrimary:
							c.Bad("C09.opcorr", key, ret.Pos(), fmt.Sprintf("none of %v is applied between the operands", spec.primary))
						default:
							c.OK("C09.opcorr", key, ret.Pos(), sp)
						}
						return true
					})
				}
			}
			return true
		})
		// sign tests
		type ctxTok struct{ toks []int64 }
		var walk func(n ast.Node, enclosing []int64)
		walk = func(n ast.Node, enclosing []int64) {
			ast.Inspect(n, func(m ast.Node) bool {
				switch x := m.(type) {
				case *ast.CaseClause:
					var toks []int64
					tokClause := len(x.List) > 0
					for _, te := range x.List {
						tv := p.Info.Types[te]
						if tv.Value == nil || !types.Identical(p.Info.TypeOf(te), tt.Type) {
							tokClause = false
							break
						}
						v, _ := constant.Int64Val(constant.ToInt(tv.Value))
						toks = append(toks, v)
					}
					if tokClause {
						for _, s := range x.Body {
							walk(s, toks)
						}
						return false
					}
				case *ast.IfStmt:
					b, ok := ast.Unparen(x.Cond).(*ast.BinaryExpr)
					if !ok {
						return true
					}
					zero, isZ := p.Info.Types[b.Y]
					if !isZ || zero.Value == nil || constant.Sign(constant.ToInt(zero.Value)) != 0 || zero.Value.Kind() != constant.Int {
						return true
					}
					if b.Op == token.EQL || b.Op == token.NEQ {
						return true // zero-divisor guards
					}
					side := mentions(b.X)
					if side.l == side.r {
						return true
					}
					bt, isBasic := p.Info.TypeOf(b.X).Underlying().(*types.Basic)
					if !isBasic || bt.Info()&types.IsInteger == 0 || bt.Info()&types.IsUnsigned != 0 {
						return true
					}
					// collect (token, bool const) pairs returned under this test
					pairs := map[int64]bool{}
					collect := func(toks []int64, body []ast.Stmt) {
						for _, s := range body {
							if r, ok := s.(*ast.ReturnStmt); ok && len(r.Results) == 1 {
								if bv, ok := boolConstOf(p, r.Results[0]); ok {
									for _, t := range toks {
										pairs[t] = bv
									}
								}
							}
						}
					}
					collect(enclosing, x.Body.List)
					for _, s := range x.Body.List {
						if sw, ok := s.(*ast.SwitchStmt); ok {
							for _, cl := range sw.Body.List {
								cc := cl.(*ast.CaseClause)
								var toks []int64
								for _, te := range cc.List {
									if tv := p.Info.Types[te]; tv.Value != nil {
										v, _ := constant.Int64Val(constant.ToInt(tv.Value))
										toks = append(toks, v)
									}
								}
								collect(toks, cc.Body)
							}
						}
					}
					if len(pairs) == 0 {
						return true
					}
					nSign++
					who := "left"
					if side.r {
						who = "right"
					}
					key := fmt.Sprintf("%s: %s", fb.Name, types.ExprString(x.Cond))
					var tnames []string
					for t := range pairs {
						tnames = append(tnames, tt.Name[t])
						place := "folder"
						if strings.Contains(fb.Name, "evalBinaryExpr") {
							place = "evaluator"
						}
						if signOps[place+" "+who] == nil {
							signOps[place+" "+who] = map[string]bool{}
						}
						signOps[place+" "+who][tt.Name[t]] = true
					}
					// canonical operator order (the folder's: LT LTE GT GTE, then the rest)
					rank := map[string]int{"LT": 0, "LTE": 1, "GT": 2, "GTE": 3, "EQ": 4, "NEQ": 5}
					sort.Slice(tnames, func(i, j int) bool { return rank[tnames[i]] < rank[tnames[j]] })
					for _, tn := range tnames {
						key += " " + tn
					}
					if b.Op != token.LSS {
						c.Bad("C09.signtest", key, x.Pos(), "the signed side must be tested with `< 0`; "+b.Op.String()+" 0 also diverts zero, which compares like any other number")
						return true
					}
					bad := ""
					for t, got := range pairs {
						sp := tt.Spelling[t]
						var want, has bool
						switch sp {
						case "<", "<=":
							want, has = who == "left", true
						case ">", ">=":
							want, has = who == "right", true
						case "=":
							want, has = false, true
						case "!=":
							want, has = true, true
						}
						if has && got != want {
							bad = fmt.Sprintf("negative %s operand %s unsigned returns %v, must be %v", who, sp, got, want)
						}
					}
					if bad != "" {
						c.Bad("C09.signtest", key, x.Pos(), bad)
					} else {
						c.OK("C09.signtest", key, x.Pos(), "strict sign test, constants match")
					}
				}
				return true
			})
		}
		walk(fb.Body, nil)
	}
	// folder and evaluator divert a negative operand for the same operators
	for _, who := range []string{"left", "right"} {
		ev, fo := signOps["evaluator "+who], signOps["folder "+who]
		var only []string
		for op := range ev {
			if !fo[op] {
				only = append(only, op+" (evaluator only)")
			}
		}
		for op := range fo {
			if !ev[op] {
				only = append(only, op+" (folder only)")
			}
		}
		sort.Strings(only)
		key := "sign test on the " + who + " operand: same operators in folder and evaluator"
		if len(ev) == 0 && len(fo) == 0 {
			continue
		}
		if len(ev) == 0 || len(fo) == 0 {
			c.Unk("C09.signtest", key, 0, "the sign test of one of the two was not recognised in its present form: nothing to compare")
			continue
		}
		if len(only) > 0 {
			c.Bad("C09.signtest", key, 0, "a negative integer against an unsigned is diverted for "+strings.Join(only, ", ")+": with both operands bound at Reduce time the fold and the evaluation take different arms (e.g. -1 = 18446744073709551615)")
		} else {
			c.OK("C09.signtest", key, 0, fmt.Sprintf("%d operators", len(ev)))
		}
	}
	c.Floor("C09.opcorr", nArms, 150)
	c.Floor("C09.signtest", nSign, 10)
	shortcutsC09(c, tt, "C09.shortcuts")
	promoteC09(c)
	dispatchC09(c)
	bindKindsC09(c)
	bindExactC09(c)
	floatModeZeroC09(c)
	c.Rule("C09.pure", "Reduce and everything it calls in the package read no mutable package-level state: the fold of an expression depends on the expression and the valuer only (a memo of parsed time strings, say, would answer with the instant computed for another zone)")
	pureRule(c, "C09.pure", "Reduce", "reduce")
	// a fold that writes into the tree it was handed changes what the next fold (another clock, other bindings) sees
	importRules(c, rulesC14, "C14.", "C09.input-", func(r string) bool { return r == "C14.readonly" })
	copyLiteralRule(c, "C09.copylit", func(name string) bool { return strings.HasPrefix(name, "reduce") || name == "Reduce" })
	zoneC09(c)
}

func boolConstOf(p *Program, e ast.Expr) (bool, bool) {
	if tv := p.Info.Types[e]; tv.Value != nil && tv.Value.Kind() == constant.Bool {
		return constant.BoolVal(tv.Value), true
	}
	// &BooleanLiteral{Val: true}
	if u, ok := e.(*ast.UnaryExpr); ok && u.Op == token.AND {
		if cl, ok := u.X.(*ast.CompositeLit); ok && len(cl.Elts) == 1 {
			if kv, ok := cl.Elts[0].(*ast.KeyValueExpr); ok {
				return boolConstOf(p, kv.Value)
			}
		}
	}
	return false, false
}

// shortcutsC09: the AND/OR literal short-cuts of reduceBinaryExpr form the
// truth table of AND/OR.
func shortcutsC09(c *Ctx, tt *tokenTable, rule string) {
	p := c.P
	c.Rule(rule, "the boolean-literal short-cuts of reduceBinaryExpr, evaluated for every combination of (left: true literal / false literal / other) x (right: likewise) x {AND, OR}, denote l AND r / l OR r: false AND x = false, true AND x = x, x AND true = x, true OR x = true, false OR x = x, x OR false = x")
	f := p.SSAFunc(p.Func("reduceBinaryExpr"))
	red := p.SSAFunc(p.Func("reduce"))
	isT := p.SSAFunc(p.Func("isTrueLiteral"))
	isF := p.SSAFunc(p.Func("isFalseLiteral"))
	if f == nil || red == nil || isT == nil || isF == nil {
		c.Unk(rule, "anchors", 0, "reduceBinaryExpr/reduce/isTrueLiteral/isFalseLiteral not found")
		return
	}
	// the short-cuts may live in a helper that receives (operator, left, right)
	// and answers nil for "no short-cut": then the helper is what is evaluated
	callsPred := func(g *ssa.Function) bool {
		for _, b := range g.Blocks {
			for _, in := range b.Instrs {
				if call, ok := in.(*ssa.Call); ok {
					if cal := call.Call.StaticCallee(); cal == isT || cal == isF {
						return true
					}
				}
			}
		}
		return false
	}
	var helperArgs func(opName string) []cval
	if !callsPred(f) {
		var helper *ssa.Function
		for _, b := range f.Blocks {
			for _, in := range b.Instrs {
				if call, ok := in.(*ssa.Call); ok {
					if cal := call.Call.StaticCallee(); cal != nil && cal.Pkg == f.Pkg && len(cal.Blocks) > 0 && callsPred(cal) {
						helper = cal
					}
				}
			}
		}
		if helper == nil {
			c.Unk(rule, "reduceBinaryExpr: boolean short-cuts", f.Pos(), "isTrueLiteral/isFalseLiteral are not consulted in reduceBinaryExpr or in a helper it calls directly")
			return
		}
		nTok, nExpr := 0, 0
		for _, prm := range helper.Params {
			if types.Identical(prm.Type(), tt.Type) {
				nTok++
			} else if p.TypeStr(prm.Type()) == "Expr" {
				nExpr++
			}
		}
		if nTok != 1 || nExpr != 2 || len(helper.Params) != 3 {
			c.Unk(rule, "reduceBinaryExpr: boolean short-cuts", helper.Pos(), "the helper holding the short-cuts does not take (operator, left, right)")
			return
		}
		f = helper
		helperArgs = func(opName string) []cval {
			var out []cval
			nE := 0
			for _, prm := range helper.Params {
				if types.Identical(prm.Type(), tt.Type) {
					out = append(out, tt.cv(opName))
				} else {
					out = append(out, cSym([]string{"L", "R"}[nE]))
					nE++
				}
			}
			return out
		}
	}
	var opLoads []ssa.Value
	for _, b := range f.Blocks {
		for _, in := range b.Instrs {
			if u, ok := in.(*ssa.UnOp); ok {
				if _, fld, ok := fieldRef(u); ok && fld == "Op" {
					opLoads = append(opLoads, u)
				}
			}
		}
	}
	kinds := []string{"T", "F", "x"}
	for _, opName := range []string{"AND", "OR"} {
		for _, lk := range kinds {
			for _, rk := range kinds {
				s := p.newSCCP()
				s.override = map[ssa.Value]cval{}
				for _, l := range opLoads {
					s.override[l] = tt.cv(opName)
				}
				s.hook = func(call *ssa.Call, args []cval) ([]cval, bool) {
					switch call.Call.StaticCallee() {
					case red:
						if _, fld, ok := fieldRef(call.Call.Args[0]); ok {
							if fld == "LHS" {
								return []cval{cSym("L")}, true
							}
							if fld == "RHS" {
								return []cval{cSym("R")}, true
							}
						}
					case isT, isF:
						k := ""
						if args[0].sym == "L" {
							k = lk
						} else if args[0].sym == "R" {
							k = rk
						} else {
							return nil, false
						}
						want := "T"
						if call.Call.StaticCallee() == isF {
							want = "F"
						}
						return []cval{cConst(constant.MakeBool(k == want))}, true
					}
					return nil, false
				}
				var runArgs []cval
				if helperArgs != nil {
					runArgs = helperArgs(opName)
				}
				r := s.run(f, runArgs, 0)
				var rets []*ssa.Return
				for _, b := range f.Blocks {
					if r.execB[b.Index] {
						if ret, ok := b.Instrs[len(b.Instrs)-1].(*ssa.Return); ok {
							if helperArgs != nil {
								if k, isC := ret.Results[0].(*ssa.Const); isC && k.Value == nil {
									continue // the helper's "no short-cut" answer
								}
							}
							rets = append(rets, ret)
						}
					}
				}
				// denotation of each reachable return
				denote := func(rt *ssa.Return) string {
					v := r.get(rt.Results[0])
					switch {
					case v.sym == "L":
						if lk == "x" {
							return "L"
						}
						return lk
					case v.sym == "R":
						if rk == "x" {
							return "R"
						}
						return rk
					}
					// a field of the operand (its inner expression, say) is not the operand
					var base func(x ssa.Value, d int) string
					base = func(x ssa.Value, d int) string {
						if d > 6 {
							return ""
						}
						if sv := r.get(x); sv.sym == "L" || sv.sym == "R" {
							return sv.sym
						}
						switch y := x.(type) {
						case *ssa.TypeAssert:
							return base(y.X, d+1)
						case *ssa.Extract:
							return base(y.Tuple, d+1)
						case *ssa.MakeInterface:
							return base(y.X, d+1)
						case *ssa.ChangeInterface:
							return base(y.X, d+1)
						}
						return ""
					}
					res := rt.Results[0]
					if mi, ok := res.(*ssa.MakeInterface); ok {
						res = mi.X
					}
					if ld, ok := res.(*ssa.UnOp); ok {
						if fa, ok := ld.X.(*ssa.FieldAddr); ok {
							// the operand as it stood before the recursive fold
							if _, fld, ok := fieldRef(ld); ok && (fld == "LHS" || fld == "RHS") && p.TypeStr(fa.X.Type()) == "*BinaryExpr" {
								if _, isParam := fa.X.(*ssa.Parameter); isParam {
									return "the unreduced " + fld + " (folds inside that operand are dropped)"
								}
							}
							if b := base(fa.X, 0); b != "" {
								return "part of " + b
							}
						}
					}
					return describeBoolLit(p, rt.Results[0])
				}
				got := "fallthrough"
				var gots []string
				if len(rets) >= 1 && len(rets) <= 3 {
					for _, rt := range rets {
						gots = append(gots, denote(rt))
					}
					got = gots[0]
				}
				// expected denotation
				want := "fallthrough"
				dom, neutral := "F", "T" // AND: F dominates, T is neutral
				if opName == "OR" {
					dom, neutral = "T", "F"
				}
				switch {
				case lk == dom || rk == dom:
					want = dom
				case lk == neutral:
					want = rk
					if rk == "x" {
						want = "R"
					}
				case rk == neutral:
					want = lk
					if lk == "x" {
						want = "L"
					}
				}
				key := fmt.Sprintf("reduceBinaryExpr: %s %s %s", lk, opName, rk)
				if want == "fallthrough" && got != "fallthrough" && got != "?" {
					c.Bad(rule, key, f.Pos(), "short-cut taken with no boolean literal on either side: yields "+got)
				} else if want != "fallthrough" && got == "fallthrough" {
					// no short-cut: the general arms fold literal pairs; acceptable only
					// when both sides are literals
					if lk != "x" && rk != "x" {
						c.OK(rule, key, f.Pos(), "no short-cut; both sides are literals and reach the boolean arm")
					} else {
						c.Bad(rule, key, f.Pos(), "a literal on one side is not folded: expected "+want)
					}
				} else if len(gots) > 0 && allAcceptable(gots, want, lk, rk) {
					c.OK(rule, key, f.Pos(), fmt.Sprintf("yields %v", gots))
				} else if got != want {
					c.Bad(rule, key, f.Pos(), fmt.Sprintf("yields %s, the truth table needs %s (T/F = literal, L/R = the other operand)", got, want))
				} else {
					c.OK(rule, key, f.Pos(), got)
				}
			}
		}
	}
}

func describeBoolLit(p *Program, v ssa.Value) string {
	if mi, ok := v.(*ssa.MakeInterface); ok {
		v = mi.X
	}
	a, ok := v.(*ssa.Alloc)
	if !ok || p.TypeStr(a.Type()) != "*BooleanLiteral" {
		return "?"
	}
	for _, ref := range *a.Referrers() {
		if fa, ok := ref.(*ssa.FieldAddr); ok {
			for _, r2 := range *fa.Referrers() {
				if st, ok := r2.(*ssa.Store); ok {
					if k, ok := st.Val.(*ssa.Const); ok && k.Value != nil && k.Value.Kind() == constant.Bool {
						if constant.BoolVal(k.Value) {
							return "T"
						}
						return "F"
					}
				}
			}
		}
	}
	// zero-valued literal: Val false
	return "F"
}

// operandTypes renders the static types of the lhs/rhs identifiers in e.
func operandTypes(p *Program, e ast.Expr) string {
	lt, rt := "", ""
	ast.Inspect(e, func(n ast.Node) bool {
		if id, ok := n.(*ast.Ident); ok {
			if t := p.Info.TypeOf(id); t != nil {
				if strings.HasPrefix(id.Name, "lhs") && lt == "" {
					lt = p.TypeStr(t)
				}
				if strings.HasPrefix(id.Name, "rhs") && rt == "" {
					rt = p.TypeStr(t)
				}
			}
		}
		return true
	})
	return lt + "," + rt
}

// allAcceptable: every short-cut return denotes want; a value derived from an
// operand (a copy, an unwrapped form: "?") is accepted where an operand is wanted.
func allAcceptable(gots []string, want, lk, rk string) bool {
	for _, g := range gots {
		if g == want {
			continue
		}
		if g == "?" && (want == "L" || want == "R" || want == lk || want == rk) {
			continue
		}
		return false
	}
	return true
}

// promoteC09: mixed-kind operands are only ever promoted up the numeric
// tower, and instants are compared as instants.
func promoteC09(c *Ctx) {
	p := c.P
	c.Rule("C09.promote", "in the constant folder and the evaluator a numeric operand is converted only upwards: integer or unsigned to float, integer to unsigned (behind the sign test C09.signtest decides); never unsigned or float to integer, never float to unsigned — those wrap or truncate values the other kind can hold")
	c.Rule("C09.timeeq", "no time.Time value is compared with == or != anywhere in the package: Go's struct equality also compares the location pointer and the monotonic reading, so equal instants compare unequal; instants are compared with Equal / Before / After")
	nConv, nEq := 0, 0
	for _, fn := range p.SrcFuncs() {
		inFold := strings.HasPrefix(fn.Name(), "reduceBinaryExpr") || fn.Name() == "evalBinaryExpr"
		for _, f := range append([]*ssa.Function{fn}, fn.AnonFuncs...) {
			seen := map[string]int{}
			for _, b := range f.Blocks {
				for _, in := range b.Instrs {
					switch x := in.(type) {
					case *ssa.BinOp:
						if (x.Op == token.EQL || x.Op == token.NEQ) && p.TypeStr(x.X.Type()) == "time.Time" {
							nEq++
							c.Bad("C09.timeeq", fmt.Sprintf("%s: time.Time %s time.Time", fn.Name(), x.Op), x.Pos(), "struct comparison of two instants: the same instant in two locations (or with a monotonic reading) compares unequal")
						}
					case *ssa.Convert:
						if !inFold {
							continue
						}
						fb, ok1 := x.X.Type().Underlying().(*types.Basic)
						tb, ok2 := x.Type().Underlying().(*types.Basic)
						if !ok1 || !ok2 || fb.Info()&types.IsNumeric == 0 || tb.Info()&types.IsNumeric == 0 {
							continue
						}
						if _, isConst := x.X.(*ssa.Const); isConst {
							continue
						}
						if _, named := x.Type().(*types.Named); named {
							// scaling a duration: a float *factor* must not be cut to whole
							// nanosecond counts before the arithmetic (1h * 1.5 would fold to
							// 1h); converting the float *result* is the only rounding there is
							if fb.Info()&types.IsFloat != 0 && tb.Info()&types.IsInteger != 0 {
								if _, isResult := x.X.(*ssa.BinOp); !isResult {
									nConv++
									seen["float factor"]++
									c.Bad("C09.promote", fmt.Sprintf("%s: float factor -> %s #%d", fn.Name(), p.TypeStr(x.Type()), seen["float factor"]), x.Pos(), "a fractional factor or divisor is truncated to a whole number before the duration is scaled: 1h * 1.5 folds to 1h, 1h / 0.5 to a division by zero")
								}
							}
							continue
						}
						nConv++
						dir := fb.Name() + " -> " + tb.Name()
						seen[dir]++
						key := fmt.Sprintf("%s: %s #%d", fn.Name(), dir, seen[dir])
						fFloat, tFloat := fb.Info()&types.IsFloat != 0, tb.Info()&types.IsFloat != 0
						fUns, tUns := fb.Info()&types.IsUnsigned != 0, tb.Info()&types.IsUnsigned != 0
						switch {
						case fFloat && !tFloat:
							c.Bad("C09.promote", key, x.Pos(), "a float operand is truncated to an integer kind before folding")
						case fUns && !tUns && !tFloat:
							c.Bad("C09.promote", key, x.Pos(), "an unsigned operand is reinterpreted as signed: values above MaxInt64 become negative before folding")
						default:
							c.OK("C09.promote", key, x.Pos(), "upwards")
						}
					}
				}
			}
		}
	}
	c.OK("C09.timeeq", "time.Time comparisons examined", 0, fmt.Sprintf("%d struct comparisons of instants in the package", nEq))
	c.Floor("C09.promote", nConv, 15)
}

// dispatchC09: when the folder re-dispatches on converted operands, left
// stays left and right stays right; and integer folding never takes an
// integer quotient.
func dispatchC09(c *Ctx) {
	p := c.P
	c.Rule("C09.dispatch", "every call from one reduceBinaryExpr*LHS function to another passes as left operand a value computed from its own left operand only and as right operand a value computed from its own right operand only: a converted copy of the wrong side compares or combines an operand with itself")
	c.Rule("C09.intdiv", "no reduceBinaryExpr* function divides two int64 values with Go's integer `/`: the property's integer division is float division (the integer quotient truncates, and MinInt64 / -1 wraps)")
	nCalls, nDiv := 0, 0
	for _, fn := range p.SrcFuncs() {
		if !strings.HasPrefix(fn.Name(), "reduceBinaryExpr") || len(fn.Params) < 3 {
			continue
		}
		var lhsP, rhsP *ssa.Parameter
		for _, prm := range fn.Params {
			switch prm.Name() {
			case "lhs":
				lhsP = prm
			case "rhs":
				rhsP = prm
			}
		}
		for _, b := range fn.Blocks {
			for _, in := range b.Instrs {
				if bo, ok := in.(*ssa.BinOp); ok && bo.Op == token.QUO {
					if bt, ok := bo.X.Type().(*types.Basic); ok && bt.Kind() == types.Int64 {
						nDiv++
						c.Bad("C09.intdiv", fmt.Sprintf("%s: int64 / int64 #%d", fn.Name(), nDiv), bo.Pos(), "an integer quotient is folded where the evaluator divides as floats: the result is truncated, differs beyond 2^53 and wraps for MinInt64 / -1")
					}
				}
				call, ok := in.(*ssa.Call)
				if !ok || lhsP == nil || rhsP == nil {
					continue
				}
				cal := call.Call.StaticCallee()
				if cal == nil || !strings.HasPrefix(cal.Name(), "reduceBinaryExpr") || !strings.HasSuffix(cal.Name(), "LHS") || len(call.Call.Args) < 3 {
					continue
				}
				nCalls++
				key := fmt.Sprintf("%s: call #%d of %s", fn.Name(), nCalls, cal.Name())
				src := func(v ssa.Value) (l, r bool) {
					seen := map[ssa.Value]bool{}
					var walk func(v ssa.Value, d int)
					walk = func(v ssa.Value, d int) {
						if v == nil || seen[v] || d > 12 {
							return
						}
						seen[v] = true
						if v == ssa.Value(lhsP) {
							l = true
							return
						}
						if v == ssa.Value(rhsP) {
							r = true
							return
						}
						if a, ok := v.(*ssa.Alloc); ok {
							// a literal built here: what is stored into its fields
							for _, ref := range *a.Referrers() {
								if fa, ok := ref.(*ssa.FieldAddr); ok {
									for _, r2 := range *fa.Referrers() {
										if st, ok := r2.(*ssa.Store); ok && st.Addr == ssa.Value(fa) {
											walk(st.Val, d+1)
										}
									}
								}
							}
							return
						}
						if in, ok := v.(ssa.Instruction); ok {
							for _, op := range in.Operands(nil) {
								if *op != nil {
									if _, isFn := (*op).(*ssa.Function); !isFn {
										walk(*op, d+1)
									}
								}
							}
						}
					}
					walk(v, 0)
					return
				}
				al, ar := src(call.Call.Args[1])
				bl, br := src(call.Call.Args[2])
				switch {
				case ar && !al:
					c.Bad("C09.dispatch", key, call.Pos(), "the left operand handed on is computed from this function's right operand")
				case bl && !br:
					c.Bad("C09.dispatch", key, call.Pos(), "the right operand handed on is computed from this function's left operand: the operator is applied between an operand and (a conversion of) itself")
				case al && !ar && br && !bl:
					c.OK("C09.dispatch", key, call.Pos(), "left from left, right from right")
				default:
					c.Unk("C09.dispatch", key, call.Pos(), fmt.Sprintf("operand origins not separable (left arg from lhs=%v rhs=%v; right arg from lhs=%v rhs=%v)", al, ar, bl, br))
				}
			}
		}
	}
	c.OK("C09.intdiv", "int64 quotients in the folder", 0, fmt.Sprintf("%d", nDiv))
	c.Floor("C09.dispatch", nCalls, 8)
}

// bindKindsC09: every kind of value the evaluator computes with can also be
// substituted by the folder.
func bindKindsC09(c *Ctx) {
	p := c.P
	c.Rule("C09.bindkinds", "asLiteral (which turns a variable's bound value into a literal when Reduce substitutes it) has a case for every value kind evalBinaryExpr dispatches on for its left operand: a kind the evaluator handles and asLiteral does not is replaced by nil when the binding is given to Reduce, so splitting the bindings between Reduce and the evaluator changes the result")
	kindsOf := func(fn *types.Func, operand string) (map[string]bool, token.Pos) {
		fd := p.FuncDecls[fn]
		out := map[string]bool{}
		var pos token.Pos
		if fd == nil || fd.Body == nil {
			return nil, 0
		}
		ast.Inspect(fd.Body, func(n ast.Node) bool {
			ts, ok := n.(*ast.TypeSwitchStmt)
			if !ok {
				return true
			}
			op := typeSwitchOperand(ts)
			if id := identOf(op); id == nil || id.Name != operand {
				return true
			}
			if pos == 0 {
				pos = ts.Pos()
			}
			for _, cl := range ts.Body.List {
				for _, e := range cl.(*ast.CaseClause).List {
					if t := p.Info.TypeOf(e); t != nil {
						out[p.TypeStr(t)] = true
					}
				}
			}
			return false // outermost switch on that operand only
		})
		return out, pos
	}
	al := p.Func("asLiteral")
	ev := p.Method("ValuerEval", "evalBinaryExpr")
	if al == nil || ev == nil {
		c.Unk("C09.bindkinds", "asLiteral / evalBinaryExpr", 0, "anchor not found")
		return
	}
	a, apos := kindsOf(al, "v")
	e, _ := kindsOf(ev, "lhs")
	if len(a) == 0 || len(e) == 0 {
		c.Unk("C09.bindkinds", "asLiteral / evalBinaryExpr", apos, "type switches over the value not recognised")
		return
	}
	var kinds []string
	for k := range e {
		kinds = append(kinds, k)
	}
	sort.Strings(kinds)
	for _, k := range kinds {
		if k == "untyped nil" {
			continue
		}
		key := "asLiteral: a bound " + k
		if a[k] {
			c.OK("C09.bindkinds", key, apos, "substituted as a literal of its kind")
		} else {
			c.Bad("C09.bindkinds", key, apos, "the evaluator computes with "+k+" values, but Reduce substitutes a variable bound to one by nil: Reduce(x = 5) with x bound to uint64(5) folds to false")
		}
	}
}

// bindExactC09: each literal asLiteral builds holds the bound value itself —
// the type-asserted parameter, unconverted — so the literal's kind is the kind
// the evaluator would compute with for the same binding.
func bindExactC09(c *Ctx) {
	p := c.P
	f := p.SSAFunc(p.Func("asLiteral"))
	if f == nil || len(f.Params) != 1 {
		c.Unk("C09.bindkinds", "asLiteral: literal kinds", 0, "anchor not found")
		return
	}
	fromParam := func(v ssa.Value) (types.Type, bool) {
		if ex, ok := v.(*ssa.Extract); ok && ex.Index == 0 {
			v = ex.Tuple
		}
		ta, ok := v.(*ssa.TypeAssert)
		if !ok || ta.X != ssa.Value(f.Params[0]) {
			return nil, false
		}
		return ta.AssertedType, true
	}
	n := 0
	for _, b := range f.Blocks {
		ret, ok := b.Instrs[len(b.Instrs)-1].(*ssa.Return)
		if !ok || len(ret.Results) != 1 {
			continue
		}
		mi, ok := ret.Results[0].(*ssa.MakeInterface)
		if !ok {
			continue
		}
		a, ok := mi.X.(*ssa.Alloc)
		if !ok {
			continue
		}
		lit := p.TypeStr(a.Type())
		for _, ref := range *a.Referrers() {
			fa, ok := ref.(*ssa.FieldAddr)
			if !ok || fieldNameOf(fa) != "Val" {
				continue
			}
			for _, r2 := range *fa.Referrers() {
				st, ok := r2.(*ssa.Store)
				if !ok || st.Addr != ssa.Value(fa) {
					continue
				}
				n++
				key := fmt.Sprintf("asLiteral: %s.Val #%d", lit, n)
				if t, ok := fromParam(st.Val); ok {
					c.OK("C09.bindkinds", key, st.Pos(), "holds the bound "+p.TypeStr(t)+" as it is")
					continue
				}
				if cv, ok := st.Val.(*ssa.Convert); ok {
					if t, ok := fromParam(cv.X); ok {
						c.Bad("C09.bindkinds", key, st.Pos(), "a bound "+p.TypeStr(t)+" is substituted as a "+lit+" holding a converted value: the fold then computes with another kind than the evaluator does for the same binding (unsigned division, overflow and comparison rules differ)")
						continue
					}
				}
				c.Unk("C09.bindkinds", key, st.Pos(), "the stored value is not the type-asserted parameter")
			}
		}
	}
	c.Floor("C09.bindkinds", n, 5)
}

// floatModeZeroC09: in float-division mode the evaluator answers a zero
// divisor with a float, as the folder does.
func floatModeZeroC09(c *Ctx) {
	p := c.P
	c.Rule("C09.floatmode", "in evalBinaryExpr every test of the integer divisor for zero that precedes the IntegerFloatDivision branch returns a float64 (the folder, which always divides integers as floats, answers x / 0 with the float 0): an integer zero there makes the unfolded and the folded expression differ in kind as soon as the quotient feeds further arithmetic")
	f := p.SSAFunc(p.Method("ValuerEval", "evalBinaryExpr"))
	if f == nil {
		c.Unk("C09.floatmode", "(*ValuerEval).evalBinaryExpr", 0, "anchor not found")
		return
	}
	n := 0
	for _, m := range f.Blocks {
		ifi, ok := m.Instrs[len(m.Instrs)-1].(*ssa.If)
		if !ok {
			continue
		}
		if _, fld, ok := fieldRef(ifi.Cond); !ok || fld != "IntegerFloatDivision" {
			continue
		}
		// the float quotient under the mode and its integer divisor
		var divisor ssa.Value
		for _, b := range f.Blocks {
			if b != m.Succs[0] && !(m.Succs[0].Dominates(b) && len(m.Succs[0].Preds) == 1) {
				continue
			}
			for _, in := range b.Instrs {
				if q, ok := in.(*ssa.BinOp); ok && q.Op == token.QUO {
					if cv, ok := q.Y.(*ssa.Convert); ok && isIntegerType(cv.X.Type()) {
						divisor = cv.X
					}
				}
			}
		}
		if divisor == nil {
			continue
		}
		n++
		key := fmt.Sprintf("evalBinaryExpr: float-mode integer division #%d", n)
		bad := false
		for d := m.Idom(); d != nil; d = d.Idom() {
			di, ok := d.Instrs[len(d.Instrs)-1].(*ssa.If)
			if !ok {
				continue
			}
			bo, ok := di.Cond.(*ssa.BinOp)
			if !ok || bo.Op != token.EQL || bo.X != divisor {
				continue
			}
			if k, ok := bo.Y.(*ssa.Const); !ok || k.Value == nil || constant.Sign(k.Value) != 0 {
				continue
			}
			if ret, ok := d.Succs[0].Instrs[len(d.Succs[0].Instrs)-1].(*ssa.Return); ok && len(ret.Results) == 1 {
				if mi, ok := ret.Results[0].(*ssa.MakeInterface); ok {
					if bt, ok := mi.X.Type().Underlying().(*types.Basic); ok && bt.Info()&types.IsFloat == 0 {
						bad = true
						c.Bad("C09.floatmode", key, ret.Pos(), "a zero divisor is answered with "+p.TypeStr(mi.X.Type())+"(0) before the mode is looked at; in float-division mode the folder answers with the float 0")
					}
				}
			}
		}
		if !bad {
			c.OK("C09.floatmode", key, ifi.Pos(), "no integer answer for a zero divisor ahead of the mode test")
		}
	}
	c.Floor("C09.floatmode", n, 1)
}
