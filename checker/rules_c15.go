package main

import (
	"fmt"
	"go/ast"
	"go/constant"
	"go/token"
	"go/types"
	"regexp/syntax"
	"sort"
	"strings"

	"golang.org/x/tools/go/ssa"
	"golang.org/x/tools/go/types/typeutil"
)

func init() { register("C15", rulesC15) }

var passwordTypes = map[string]bool{"CreateUserStatement": true, "SetPasswordUserStatement": true}

func rulesC15(c *Ctx) {
	p := c.P
	// the patterns find the end of the quoted password at the first unescaped quote
	stringEndRule(c, "C15.strend")
	wholeTextC15(c)
	allMatchesRule(c, "C15.allmatches", "Sanitize")
	regexConfigRule(c, "C15.regexconfig")
	freshBufC15(c)
	// ---- no reader ----
	c.Rule("C15.noreader", "the Password fields of CreateUserStatement and SetPasswordUserStatement are stored by their parse functions and read nowhere in the package: no printer, formatter or encoder can leak what it never loads; statements holding a password are never handed to fmt by value")
	nStore, nRead := 0, 0
	for _, fb := range p.funcBodies() {
		if fb.Lit != nil {
			continue
		}
		fb := fb
		stores := map[*ast.SelectorExpr]bool{}
		ast.Inspect(fb.Body, func(n ast.Node) bool {
			if as, ok := n.(*ast.AssignStmt); ok {
				for _, l := range as.Lhs {
					if sel, ok := l.(*ast.SelectorExpr); ok {
						stores[sel] = true
					}
				}
			}
			return true
		})
		ast.Inspect(fb.Body, func(n ast.Node) bool {
			switch x := n.(type) {
			case *ast.SelectorExpr:
				if x.Sel.Name != "Password" {
					return true
				}
				s := p.Info.Selections[x]
				if s == nil || s.Kind() != types.FieldVal || !passwordTypes[strings.TrimPrefix(p.TypeStr(s.Recv()), "*")] {
					return true
				}
				key := fb.Name + ": " + types.ExprString(x)
				if stores[x] {
					nStore++
					c.OK("C15.noreader", key+" (store)", x.Pos(), "assignment target")
				} else {
					nRead++
					c.Bad("C15.noreader", key+" (read)", x.Pos(), "the password field is read here; whatever this value flows to can expose it")
				}
			case *ast.CallExpr:
				callee, _ := typeutil.Callee(p.Info, x).(*types.Func)
				if callee == nil || callee.Pkg() == nil || (callee.Pkg().Path() != "fmt" && callee.Pkg().Path() != "encoding/json") {
					return true
				}
				for _, a := range x.Args {
					t := p.Info.TypeOf(a)
					if t == nil {
						continue
					}
					if passwordTypes[p.TypeStr(t)] {
						c.Bad("C15.noreader", fb.Name+": "+types.ExprString(a)+" formatted by value", a.Pos(), "a statement struct holding a password is handed to "+callee.FullName()+" by value: its fields are printed reflectively")
					}
				}
			}
			return true
		})
	}
	c.Floor("C15.noreader", nStore, 2)

	// ---- redacting printers ----
	c.Rule("C15.redact", "both password statements print the constant [REDACTED] in the password slot")
	for tn := range passwordTypes {
		m := p.Method(tn, "String")
		if m == nil {
			c.Unk("C15.redact", tn+".String", 0, "anchor not found")
			continue
		}
		found := false
		ast.Inspect(p.FuncDecls[m].Body, func(n ast.Node) bool {
			if e, ok := n.(ast.Expr); ok {
				if tv := p.Info.Types[e]; tv.Value != nil && tv.Value.Kind() == constant.String && strings.Contains(constant.StringVal(tv.Value), "[REDACTED]") {
					found = true
				}
			}
			return true
		})
		c.Check(found, "C15.redact", FuncName(m), m.Pos(), "the printer does not write [REDACTED]")
	}

	// ---- Sanitize: every text goes through every pattern ----
	c.Rule("C15.allpaths", "every return of Sanitize is dominated by a match attempt of each redaction pattern: no path (fast path, length or substring pre-filter) hands the text back before the case-insensitive patterns have looked at it")
	if sf0 := p.SSAFunc(p.Func("Sanitize")); sf0 == nil {
		c.Unk("C15.allpaths", "Sanitize", 0, "anchor not found")
	} else {
		finds := map[string][]*ssa.BasicBlock{}
		for _, b := range sf0.Blocks {
			for _, in := range b.Instrs {
				call, ok := in.(*ssa.Call)
				if !ok || call.Call.StaticCallee() == nil || !strings.HasPrefix(call.Call.StaticCallee().Name(), "Find") || len(call.Call.Args) == 0 {
					continue
				}
				if ld, ok := call.Call.Args[0].(*ssa.UnOp); ok {
					if g, ok := ld.X.(*ssa.Global); ok {
						finds[g.Name()] = append(finds[g.Name()], b)
					}
				}
			}
		}
		if len(finds) < 2 {
			c.Unk("C15.allpaths", "Sanitize", sf0.Pos(), fmt.Sprintf("match attempts on %d package-level patterns found, expected 2", len(finds)))
		} else {
			nr := 0
			for _, b := range sf0.Blocks {
				ret, ok := b.Instrs[len(b.Instrs)-1].(*ssa.Return)
				if !ok {
					continue
				}
				nr++
				var missing []string
				for g, blocks := range finds {
					dom := false
					for _, fb := range blocks {
						if fb.Dominates(b) {
							dom = true
						}
					}
					if !dom {
						missing = append(missing, g)
					}
				}
				sort.Strings(missing)
				key := fmt.Sprintf("Sanitize: return #%d", nr)
				if len(missing) > 0 {
					c.Bad("C15.allpaths", key, ret.Pos(), "reached without a match attempt of "+strings.Join(missing, ", ")+": a statement that takes this path is returned with its password")
				} else {
					c.OK("C15.allpaths", key, ret.Pos(), "after both patterns")
				}
			}
		}
	}

	// ---- Sanitize: offsets belong to the text they cut ----
	c.Rule("C15.span", "Sanitize replaces exactly the span of capture group 1 of each match (offsets 2 and 3), and the offsets are applied to the very text they were computed on: offsets found in one version of the text and applied to a rewritten one cut the wrong bytes")
	sf := p.SSAFunc(p.Func("Sanitize"))
	if sf == nil {
		c.Unk("C15.span", "Sanitize", 0, "anchor not found")
	} else {
		nFind := 0
		for _, b := range sf.Blocks {
			for _, in := range b.Instrs {
				call, ok := in.(*ssa.Call)
				if !ok {
					continue
				}
				callee := call.Call.StaticCallee()
				if callee == nil || !strings.HasPrefix(callee.Name(), "FindAll") {
					continue
				}
				nFind++
				text := call.Call.Args[1]
				key := fmt.Sprintf("Sanitize: match set #%d", nFind)
				// every slice of a string indexed by an element of this match set
				okAll, nSl := true, 0
				idxOK := true
				for _, b2 := range sf.Blocks {
					for _, in2 := range b2.Instrs {
						sl, ok := in2.(*ssa.Slice)
						if !ok || !isStringType(sl.X.Type()) {
							continue
						}
						for _, bound := range []ssa.Value{sl.Low, sl.High} {
							if bound == nil || !fromMatches(bound, call, 0) {
								continue
							}
							nSl++
							if !sameText(sl.X, text) && !backwardSplice(sl.X, text, bound) {
								okAll = false
							}
							if !matchIndexOK(bound, 0) {
								idxOK = false
							}
						}
					}
				}
				switch {
				case nSl == 0:
					c.Unk("C15.span", key, call.Pos(), "no slice of the text uses these match offsets")
				case !okAll:
					c.Bad("C15.span", key, call.Pos(), "offsets computed on one text are used to cut a different (already rewritten) text: the redacted span is misplaced and part of a password survives")
				case !idxOK:
					c.Bad("C15.span", key, call.Pos(), "the cut does not use offsets 2 and 3 (capture group 1)")
				default:
					c.OK("C15.span", key, call.Pos(), fmt.Sprintf("%d cuts, all on the searched text, at the capture's offsets", nSl))
				}
			}
		}
		c.Floor("C15.span", nFind, 2)
	}

	// ---- patterns ----
	patternsC15(c)
}

func isStringType(t types.Type) bool {
	b, ok := t.Underlying().(*types.Basic)
	return ok && b.Info()&types.IsString != 0
}

// fromMatches: v is an element of an element of the result of call.
func fromMatches(v ssa.Value, call *ssa.Call, depth int) bool {
	if depth > 6 {
		return false
	}
	switch x := v.(type) {
	case *ssa.UnOp:
		return fromMatches(x.X, call, depth+1)
	case *ssa.IndexAddr:
		return fromMatches(x.X, call, depth+1)
	case *ssa.Extract:
		return fromMatches(x.Tuple, call, depth+1)
	case *ssa.Next:
		return fromMatches(x.Iter, call, depth+1)
	case *ssa.Range:
		return fromMatches(x.X, call, depth+1)
	case *ssa.Phi:
		for _, e := range x.Edges {
			if fromMatches(e, call, depth+1) {
				return true
			}
		}
	case *ssa.Call:
		return x == call
	}
	return false
}

func matchIndexConst(v ssa.Value) int64 {
	if u, ok := v.(*ssa.UnOp); ok {
		if ia, ok := u.X.(*ssa.IndexAddr); ok {
			if k, ok := ia.Index.(*ssa.Const); ok && k.Value != nil {
				n, _ := constant.Int64Val(constant.ToInt(k.Value))
				return n
			}
		}
	}
	return -1
}

// freshBufC15: each redaction pass writes into an empty buffer.
func freshBufC15(c *Ctx) {
	p := c.P
	c.Rule("C15.freshbuf", "the buffer a redaction pass of Sanitize assembles its output in is created (or Reset) after that pass's search: a buffer shared by both passes still holds the first pass's output, in which the second clause's password is in the clear, and the result is that text followed by the redacted one")
	sf := p.SSAFunc(p.Func("Sanitize"))
	if sf == nil {
		c.Unk("C15.freshbuf", "Sanitize", 0, "anchor not found")
		return
	}
	var finds []*ssa.Call
	for _, b := range sf.Blocks {
		for _, in := range b.Instrs {
			if call, ok := in.(*ssa.Call); ok && call.Call.StaticCallee() != nil && strings.HasPrefix(call.Call.StaticCallee().Name(), "FindAll") {
				finds = append(finds, call)
			}
		}
	}
	// builders and the blocks that write into them / reset them
	type buf struct {
		alloc  *ssa.Alloc
		writes []*ssa.BasicBlock
		resets []*ssa.BasicBlock
	}
	var bufs []*buf
	for _, b := range sf.Blocks {
		for _, in := range b.Instrs {
			a, ok := in.(*ssa.Alloc)
			if !ok {
				continue
			}
			ts := a.Type().(*types.Pointer).Elem().String()
			if ts != "strings.Builder" && ts != "bytes.Buffer" {
				continue
			}
			bf := &buf{alloc: a}
			for _, ref := range *a.Referrers() {
				if call, ok := ref.(*ssa.Call); ok && call.Call.StaticCallee() != nil {
					switch nm := call.Call.StaticCallee().Name(); {
					case strings.HasPrefix(nm, "Write"):
						bf.writes = append(bf.writes, call.Block())
					case nm == "Reset":
						bf.resets = append(bf.resets, call.Block())
					}
				}
			}
			bufs = append(bufs, bf)
		}
	}
	n := 0
	for _, bf := range bufs {
		if len(bf.writes) == 0 {
			continue
		}
		// the passes that write into this buffer: a pass owns the writes its
		// search dominates and that no later search dominates
		passes := map[*ssa.Call]bool{}
		for _, w := range bf.writes {
			var owner *ssa.Call
			for _, f := range finds {
				if f.Block().Dominates(w) {
					if owner == nil || owner.Block().Dominates(f.Block()) {
						owner = f
					}
				}
			}
			if owner != nil {
				passes[owner] = true
			}
		}
		n++
		key := fmt.Sprintf("Sanitize: output buffer #%d", n)
		bad := false
		for f := range passes {
			fresh := f.Block().Dominates(bf.alloc.Block()) && f.Block() != bf.alloc.Block() || f.Block() == bf.alloc.Block()
			if !fresh {
				for _, r := range bf.resets {
					if f.Block().Dominates(r) {
						fresh = true
					}
				}
			}
			if !fresh && len(passes) > 1 {
				bad = true
			}
		}
		if bad {
			c.Bad("C15.freshbuf", key, bf.alloc.Pos(), "one buffer collects the output of more than one pass and is neither created nor reset after the later search: that pass's output is appended to the earlier one's")
		} else {
			c.OK("C15.freshbuf", key, bf.alloc.Pos(), "created for one pass")
		}
	}
	if n == 0 {
		c.OK("C15.freshbuf", "Sanitize: output buffers", sf.Pos(), "no buffer is written (the text is spliced in place)")
	}
}

// backwardSplice: the sliced string is the searched text as rewritten by
// earlier iterations of a loop that walks the matches from the last to the
// first (a loop-carried string whose first value is the searched text, cut at
// matches[n] with n counting down): the part in front of a match is never
// touched before that match is cut, so its offsets still hold.
func backwardSplice(sliced, text, bound ssa.Value) bool {
	phi, ok := sliced.(*ssa.Phi)
	if !ok {
		return false
	}
	initial := false
	for _, e := range phi.Edges {
		if e == text {
			initial = true
		}
	}
	if !initial {
		return false
	}
	// the index the match is taken at: matches[n]
	var idx ssa.Value
	var find func(v ssa.Value, d int)
	find = func(v ssa.Value, d int) {
		if d > 6 || idx != nil {
			return
		}
		switch x := v.(type) {
		case *ssa.UnOp:
			find(x.X, d+1)
		case *ssa.IndexAddr:
			if _, isConst := x.Index.(*ssa.Const); !isConst {
				idx = x.Index
				return
			}
			find(x.X, d+1)
		}
	}
	find(bound, 0)
	ip, ok := idx.(*ssa.Phi)
	if !ok {
		return false
	}
	down := false
	for _, e := range ip.Edges {
		if bo, ok := e.(*ssa.BinOp); ok && bo.X == ssa.Value(ip) {
			k, isC := bo.Y.(*ssa.Const)
			if !isC || k.Value == nil {
				return false
			}
			n, _ := constant.Int64Val(constant.ToInt(k.Value))
			switch {
			case bo.Op == token.SUB && n > 0, bo.Op == token.ADD && n < 0:
				down = true
			default:
				return false
			}
		}
	}
	return down
}

// sameText: the sliced string is the searched string (same SSA value).
func sameText(a, b ssa.Value) bool {
	return a == b
}

func patternsC15(c *Ctx) {
	p := c.P
	// ---- the lexer's separators are the patterns' separators ----
	c.Rule("C15.wsclass", "every rune the lexer's isWhitespace accepts as a separator (evaluated by constant propagation over U+0000..U+3000, unicode predicates folded) is matched by the `\\s` the redaction patterns use between words (RE2: tab, line feed, form feed, carriage return, space): a separator the parser accepts and the patterns do not leaves a valid password statement unredacted")
	if isWS := p.Func("isWhitespace"); isWS == nil {
		c.Unk("C15.wsclass", "isWhitespace", 0, "anchor not found")
	} else {
		s := p.newSCCP()
		var outside []string
		undec := 0
		for ch := rune(0); ch <= 0x3000; ch++ {
			got, ok := s.evalConstBool(isWS, cConst(constant.MakeInt64(int64(ch))))
			if !ok {
				undec++
				continue
			}
			re2 := ch == '\t' || ch == '\n' || ch == '\f' || ch == '\r' || ch == ' '
			if got && !re2 && len(outside) < 6 {
				outside = append(outside, fmt.Sprintf("%U", ch))
			}
		}
		switch {
		case len(outside) > 0:
			c.Bad("C15.wsclass", "isWhitespace within \\s", isWS.Pos(), "the lexer also separates tokens at "+strings.Join(outside, ", ")+" ..., which `\\s` does not match: `SET PASSWORD` laid out with such a separator parses but is returned by Sanitize with the password in it")
		case undec > 0:
			c.Unk("C15.wsclass", "isWhitespace within \\s", isWS.Pos(), fmt.Sprintf("isWhitespace is not a constant function of the rune for %d runes", undec))
		default:
			c.OK("C15.wsclass", "isWhitespace within \\s", isWS.Pos(), "12289 runes evaluated")
		}
	}
	c.Rule("C15.patterns", "each raw-text redaction pattern is case-insensitive and admits, around and inside the password, what the parser admits: (a) no whitespace is demanded after a self-delimiting `=`; (b) separators admit what ScanIgnoreWhitespace skips, comments included; (c) the captured password admits any quoted string literal, blanks and double quotes inside it included")
	for _, gname := range []string{"sanitizeSetPassword", "sanitizeCreatePassword"} {
		g := p.Global(gname)
		if g == nil {
			c.Unk("C15.patterns", gname, 0, "pattern variable not found")
			continue
		}
		pat := ""
		var pos = g.Pos()
		for _, f := range p.Pkg.Syntax {
			ast.Inspect(f, func(n ast.Node) bool {
				vs, ok := n.(*ast.ValueSpec)
				if !ok {
					return true
				}
				for i, name := range vs.Names {
					if p.Info.Defs[name] == g && i < len(vs.Values) {
						if call, ok := vs.Values[i].(*ast.CallExpr); ok {
							pat = p.compiledPatternText(call, map[types.Object]string{}, 0)
						}
					}
				}
				return true
			})
		}
		if pat == "" {
			c.Unk("C15.patterns", gname, pos, "pattern is not a constant compiled at package level")
			continue
		}
		re, err := syntax.Parse(pat, syntax.Perl)
		if err != nil {
			c.Unk("C15.patterns", gname, pos, "pattern does not parse: "+err.Error())
			continue
		}
		// (d) case-insensitive
		fold := true
		var walk func(r *syntax.Regexp)
		walk = func(r *syntax.Regexp) {
			if r.Op == syntax.OpLiteral && r.Flags&syntax.FoldCase == 0 {
				for _, ch := range r.Rune {
					if (ch >= 'a' && ch <= 'z') || (ch >= 'A' && ch <= 'Z') {
						fold = false
					}
				}
			}
			for _, s := range r.Sub {
				walk(s)
			}
		}
		walk(re)
		c.Check(fold, "C15.patterns", gname+": case-insensitive", pos, "keywords are matched case-sensitively; the parser accepts any case")
		// top-level sequence
		seq := []*syntax.Regexp{re}
		if re.Op == syntax.OpConcat {
			seq = re.Sub
		}
		// (q) the pattern starts with its keyword and is searched for anywhere in
		// the raw text: nothing makes a match start outside a quoted string or
		// identifier (a tokenising pattern would first consume those as
		// alternatives)
		if len(seq) > 0 && seq[0].Op == syntax.OpLiteral {
			c.Bad("C15.patterns", gname+": (q) keywords matched inside quoted tokens", pos, "the keyword is looked for in the raw text, quoted strings and identifiers included: a match that starts inside a quoted token takes the wrong span (the quote that closes the real password is cut off) or rewrites text that holds no password")
		}
		isWS := func(r *syntax.Regexp) (bool, bool) { // (is a whitespace separator, admits empty)
			switch r.Op {
			case syntax.OpPlus, syntax.OpStar, syntax.OpQuest:
				inner := r.Sub[0]
				if inner.Op == syntax.OpCharClass && classHas(inner, ' ') && classHas(inner, '\n') && !classHas(inner, 'a') {
					return true, r.Op != syntax.OpPlus
				}
			}
			return false, false
		}
		for i, el := range seq {
			ws, empty := isWS(el)
			if !ws {
				continue
			}
			// (a) after a literal ending in '='
			if i > 0 && seq[i-1].Op == syntax.OpLiteral && len(seq[i-1].Rune) > 0 && seq[i-1].Rune[len(seq[i-1].Rune)-1] == '=' {
				key := gname + ": (a) whitespace after `=`"
				c.Check(empty, "C15.patterns", key, pos, "the pattern demands whitespace after `=`, the parser does not: SET PASSWORD FOR u='pw' is left unredacted")
			}
			// (a') in front of the captured literal: a quoted literal delimits itself
			if i+1 < len(seq) && seq[i+1].Op == syntax.OpCapture {
				key := gname + ": (a') whitespace before the quoted password"
				c.Check(empty, "C15.patterns", key, pos, "the pattern demands whitespace between the keyword and the password literal; a quoted literal needs none and the parser accepts WITH PASSWORD'pw', which is then left unredacted")
			}
			// (b) comments
			key := fmt.Sprintf("%s: (b) separator #%d admits comments", gname, i)
			c.Bad("C15.patterns", key, pos, "the separator admits blanks only; the parser also skips -- and /* */ comments there, so a comment in front of the password defeats the pattern")
		}
		// (c) capture body
		var capt *syntax.Regexp
		for _, el := range seq {
			if el.Op == syntax.OpCapture {
				capt = el
			}
		}
		if capt == nil {
			c.Unk("C15.patterns", gname+": (c) password capture", pos, "no capture group")
			continue
		}
		if len(seq) > 0 && seq[len(seq)-1] != capt {
			c.Unk("C15.patterns", gname+": (c) password capture", pos, "the capture group is not the last element of the pattern: it need not be the password (the text in front of it may be captured and kept instead)")
			continue
		}
		// repeated character classes inside the capture: a quoted alternative
		// whose body admits blanks / the other quote redacts such passwords whole
		var bodies []*syntax.Regexp
		var find func(r *syntax.Regexp)
		find = func(r *syntax.Regexp) {
			if (r.Op == syntax.OpPlus || r.Op == syntax.OpStar) && len(r.Sub) == 1 {
				var classes func(x *syntax.Regexp)
				classes = func(x *syntax.Regexp) {
					if x.Op == syntax.OpCharClass {
						bodies = append(bodies, x)
					}
					if x.Op == syntax.OpAlternate || x.Op == syntax.OpCapture {
						for _, s := range x.Sub {
							classes(s)
						}
					}
				}
				classes(r.Sub[0])
			}
			for _, s := range r.Sub {
				find(s)
			}
		}
		find(capt)
		if len(bodies) == 0 {
			c.Unk("C15.patterns", gname+": (c) password capture", pos, "capture has no repeated character class")
			continue
		}
		blank, dq := false, false
		for _, b := range bodies {
			if classHas(b, ' ') {
				blank = true
			}
			if classHas(b, '"') && classHas(b, ' ') {
				dq = true
			}
		}
		c.Check(blank, "C15.patterns", gname+": (c) password may contain blanks", pos, "the captured span stops at the first blank: WITH PASSWORD 'my secret' leaks ` secret'`")
		c.Check(dq, "C15.patterns", gname+": (c) password may contain double quotes", pos, "the captured span stops at a double quote inside a single-quoted password")
		// (g) where the literal's body has an escape branch (backslash + any
		// character), the plain branch must leave the backslash to it
		var stars func(r *syntax.Regexp)
		nEsc := 0
		stars = func(r *syntax.Regexp) {
			if (r.Op == syntax.OpStar || r.Op == syntax.OpPlus) && len(r.Sub) == 1 {
				alt := r.Sub[0]
				for alt.Op == syntax.OpCapture && len(alt.Sub) == 1 {
					alt = alt.Sub[0]
				}
				if alt.Op == syntax.OpAlternate {
					var plain *syntax.Regexp
					hasEsc := false
					for _, br := range alt.Sub {
						switch {
						case br.Op == syntax.OpCharClass:
							plain = br
						case br.Op == syntax.OpConcat && len(br.Sub) == 2 && br.Sub[0].Op == syntax.OpLiteral && len(br.Sub[0].Rune) == 1 && br.Sub[0].Rune[0] == '\\':
							hasEsc = true
						}
					}
					if plain != nil && hasEsc {
						nEsc++
						key := fmt.Sprintf("%s: (g) escape branch #%d is reachable", gname, nEsc)
						if classHas(plain, '\\') {
							c.Bad("C15.patterns", key, pos, "the plain branch of the quoted literal also matches a backslash, so the escape branch never fires: an escaped quote ends the match and the rest of the password stays in the text")
						} else {
							c.OK("C15.patterns", key, pos, "the plain branch excludes the backslash")
						}
					}
				}
			}
			for _, sub := range r.Sub {
				stars(sub)
			}
		}
		stars(capt)
		// (h) a greedy any-character run in front of the password runs to the last `=` of the line
		for i, el := range seq {
			if (el.Op == syntax.OpStar || el.Op == syntax.OpPlus) && (el.Sub[0].Op == syntax.OpAnyChar || el.Sub[0].Op == syntax.OpAnyCharNotNL) && el.Flags&syntax.NonGreedy == 0 && el != capt {
				c.Bad("C15.patterns", fmt.Sprintf("%s: (h) greedy any-character run #%d before the password", gname, i), pos, "a greedy `.*` in front of the `=` takes the match to the last `=` of the line: in `set password for u = 'a=b'` the head of the password stays, and of two statements on one line the first password is left untouched while some later value is redacted")
			}
		}
		// (f) what lies between the keywords and `=` must admit a quoted name containing `=`
		for i, el := range seq {
			if (el.Op == syntax.OpStar || el.Op == syntax.OpPlus) && el.Sub[0].Op == syntax.OpCharClass && !classHas(el.Sub[0], '=') && classHas(el.Sub[0], 'a') {
				c.Bad("C15.patterns", fmt.Sprintf("%s: (f) user name part #%d admits `=`", gname, i), pos, "the user name is matched as a run of non-`=` characters; a quoted name containing `=` (\"a=b\") ends it early and the real password is left in the text")
			}
		}
	}
}

func classHas(r *syntax.Regexp, ch rune) bool {
	for i := 0; i+1 < len(r.Rune); i += 2 {
		if r.Rune[i] <= ch && ch <= r.Rune[i+1] {
			return true
		}
	}
	return false
}

// matchIndexOK: every match-derived source of a cut bound is element 2 or 3
// of a match (constants such as the initial 0 are fine).
func matchIndexOK(v ssa.Value, depth int) bool {
	if depth > 6 {
		return false
	}
	switch x := v.(type) {
	case *ssa.Const:
		return true
	case *ssa.Phi:
		for _, e := range x.Edges {
			if !matchIndexOK(e, depth+1) {
				return false
			}
		}
		return true
	}
	k := matchIndexConst(v)
	return k == 2 || k == 3
}

// compiledPatternText returns the constant text handed to regexp.MustCompile /
// regexp.Compile by call — directly, or inside an in-package helper that
// builds the text from its (constant) arguments; "" when it is not constant.
func (p *Program) compiledPatternText(call *ast.CallExpr, env map[types.Object]string, depth int) string {
	if depth > 3 {
		return ""
	}
	callee, _ := typeutil.Callee(p.Info, call).(*types.Func)
	if callee == nil {
		return ""
	}
	var evalStr func(e ast.Expr) (string, bool)
	evalStr = func(e ast.Expr) (string, bool) {
		e = ast.Unparen(e)
		if tv := p.Info.Types[e]; tv.Value != nil && tv.Value.Kind() == constant.String {
			return constant.StringVal(tv.Value), true
		}
		switch x := e.(type) {
		case *ast.Ident:
			if v, ok := env[p.Info.ObjectOf(x)]; ok {
				return v, true
			}
		case *ast.BinaryExpr:
			if x.Op.String() == "+" {
				a, ok1 := evalStr(x.X)
				b, ok2 := evalStr(x.Y)
				if ok1 && ok2 {
					return a + b, true
				}
			}
		}
		return "", false
	}
	if callee.Pkg() != nil && callee.Pkg().Path() == "regexp" && (callee.Name() == "MustCompile" || callee.Name() == "Compile") && len(call.Args) == 1 {
		if s, ok := evalStr(call.Args[0]); ok {
			return s
		}
		return ""
	}
	fd := p.FuncDecls[callee]
	if callee.Pkg() != p.Types || fd == nil || fd.Body == nil || fd.Type.Params == nil {
		return ""
	}
	// bind the helper's parameters to the constant arguments
	inner := map[types.Object]string{}
	i := 0
	for _, f := range fd.Type.Params.List {
		for _, n := range f.Names {
			if i < len(call.Args) {
				if s, ok := evalStr(call.Args[i]); ok {
					inner[p.Info.Defs[n]] = s
				}
			}
			i++
		}
	}
	// locals assigned once from constant expressions
	for pass := 0; pass < 3; pass++ {
		ast.Inspect(fd.Body, func(n ast.Node) bool {
			as, ok := n.(*ast.AssignStmt)
			if !ok || len(as.Lhs) != 1 || len(as.Rhs) != 1 {
				return true
			}
			if id, ok := as.Lhs[0].(*ast.Ident); ok {
				saved := env
				env = inner
				if s, ok := evalStr(as.Rhs[0]); ok {
					inner[p.Info.ObjectOf(id)] = s
				}
				env = saved
			}
			return true
		})
	}
	out := ""
	ast.Inspect(fd.Body, func(n ast.Node) bool {
		c2, ok := n.(*ast.CallExpr)
		if !ok || out != "" {
			return true
		}
		if s := p.compiledPatternText(c2, inner, depth+1); s != "" {
			out = s
		}
		return true
	})
	return out
}

// wholeTextC15: the patterns see the text in one piece.
func wholeTextC15(c *Ctx) {
	p := c.P
	c.Rule("C15.wholetext", "Sanitize (and what it calls in the package) does not cut the text into pieces at raw characters (strings.Split, Fields, Cut ...) before the patterns are applied: a `;`, blank or quote inside a password or a quoted name is then a cutting point, the clause is split across two pieces and neither piece matches")
	sf := p.SSAFunc(p.Func("Sanitize"))
	if sf == nil {
		c.Unk("C15.wholetext", "Sanitize", 0, "anchor not found")
		return
	}
	seen := map[*ssa.Function]bool{}
	n := 0
	var visit func(f *ssa.Function)
	visit = func(f *ssa.Function) {
		if f == nil || seen[f] || f.Pkg != p.SPkg {
			return
		}
		seen[f] = true
		for _, a := range f.AnonFuncs {
			visit(a)
		}
		for _, b := range f.Blocks {
			for _, in := range b.Instrs {
				call, ok := in.(*ssa.Call)
				if !ok || call.Call.StaticCallee() == nil {
					continue
				}
				cal := call.Call.StaticCallee()
				visit(cal)
				if cal.Pkg != nil && cal.Pkg.Pkg.Path() == "strings" {
					switch cal.Name() {
					case "Split", "SplitN", "SplitAfter", "SplitAfterN", "Fields", "FieldsFunc", "Cut":
						n++
						c.Bad("C15.wholetext", fmt.Sprintf("%s: strings.%s #%d", ssaFuncName(f), cal.Name(), n), call.Pos(), "the text is cut at a raw character before redaction")
					}
				}
			}
		}
	}
	visit(sf)
	c.OK("C15.wholetext", "functions examined", sf.Pos(), fmt.Sprintf("%d functions, %d cuts", len(seen), n))
}
