package main

import (
	"fmt"
	"go/ast"
	"go/constant"
	"go/token"
	"go/types"
	"sort"

	"golang.org/x/tools/go/ssa"
)

func init() {
	register("C12", rulesC12)
}

func rulesC12(c *Ctx) {
	p := c.P
	n := mapOrder(c, "C12.order", nil)
	c.Floor("C12.order", n, 8)

	// ---- sort key total ----
	c.Rule("C12.sortkey", "the sort that fixes the expansion order compares every field of its element type (VarRefs.Less looks at both Val and Type): equal keys are equal elements, so the sorted order does not depend on the order the map was iterated in")
	if less := p.Method("VarRefs", "Less"); less != nil {
		sf := p.SSAFunc(less)
		elem := p.Named("VarRef")
		st, _ := elem.Underlying().(*types.Struct)
		seen := map[string]bool{}
		if sf != nil && st != nil {
			for _, b := range sf.Blocks {
				for _, in := range b.Instrs {
					if fa, ok := in.(*ssa.FieldAddr); ok {
						if t, ok := fa.X.Type().Underlying().(*types.Pointer); ok && types.Identical(t.Elem(), elem) {
							seen[st.Field(fa.Field).Name()] = true
						}
					}
				}
			}
			for i := 0; i < st.NumFields(); i++ {
				f := st.Field(i).Name()
				c.Check(seen[f], "C12.sortkey", "VarRefs.Less compares VarRef."+f, less.Pos(), "field "+f+" is not part of the sort key: two columns that differ only in it sort in map-iteration order")
			}
		}
	} else {
		c.Unk("C12.sortkey", "VarRefs.Less", 0, "anchor not found")
	}

	// ---- type precedence is a strict chain ----
	c.Rule("C12.precedence", "DataType.LessThan, extracted by constant propagation over all pairs of data types, is a strict total order on the known types (irreflexive, antisymmetric, transitive, total) with Unknown below everything: only then is `if cur.LessThan(t) { cur = t }` a maximum, independent of the order sources and map entries are visited in")
	lt := p.Method("DataType", "LessThan")
	dt := p.Named("DataType")
	if lt == nil || dt == nil {
		c.Unk("C12.precedence", "DataType.LessThan", 0, "anchor not found")
	} else {
		type dtc struct {
			name string
			v    int64
		}
		var dts []dtc
		sc := p.Types.Scope()
		for _, n := range sc.Names() {
			if k, ok := sc.Lookup(n).(*types.Const); ok && types.Identical(k.Type(), dt) {
				v, _ := constant.Int64Val(k.Val())
				dts = append(dts, dtc{n, v})
			}
		}
		sort.Slice(dts, func(i, j int) bool { return dts[i].v < dts[j].v })
		s := p.newSCCP()
		less := map[[2]string]bool{}
		okAll := true
		for _, a := range dts {
			for _, b := range dts {
				r, ok := s.evalConstBool(lt, cConst(constant.MakeInt64(a.v)), cConst(constant.MakeInt64(b.v)))
				if !ok {
					c.Unk("C12.precedence", fmt.Sprintf("%s.LessThan(%s)", a.name, b.name), lt.Pos(), "not a constant function of the two types")
					okAll = false
				}
				less[[2]string{a.name, b.name}] = r
			}
		}
		if okAll {
			var known []string
			for _, a := range dts {
				if a.name != "Unknown" {
					known = append(known, a.name)
				}
			}
			for _, a := range known {
				c.Check(!less[[2]string{a, a}], "C12.precedence", "irreflexive: "+a, lt.Pos(), a+".LessThan("+a+") is true: a type would replace itself")
				c.Check(less[[2]string{"Unknown", a}] && !less[[2]string{a, "Unknown"}], "C12.precedence", "Unknown below "+a, lt.Pos(), "Unknown must have the lowest precedence")
				for _, b := range known {
					if a >= b {
						continue
					}
					ab, ba := less[[2]string{a, b}], less[[2]string{b, a}]
					c.Check(ab != ba, "C12.precedence", "total and antisymmetric: "+a+" / "+b, lt.Pos(), fmt.Sprintf("%s<%s=%v and %s<%s=%v: the merge result depends on which is seen first", a, b, ab, b, a, ba))
				}
			}
			// transitivity
			bad := ""
			for _, a := range known {
				for _, b := range known {
					for _, d := range known {
						if less[[2]string{a, b}] && less[[2]string{b, d}] && !less[[2]string{a, d}] {
							bad = a + " < " + b + " < " + d + " but not " + a + " < " + d
						}
					}
				}
			}
			c.Check(bad == "", "C12.precedence", "transitive", lt.Pos(), bad)
		}
		c.Floor("C12.precedence", len(dts), 9)
	}

	// ---- merge idiom ----
	c.Rule("C12.merge", "wherever a type is merged with `x.LessThan(y)`, the value kept on the true branch is the argument y, written to the place x was read from (a maximum); keeping the receiver, or testing the candidate as receiver, keeps the lowest type instead")
	nMerge := 0
	ltSSA := p.SSAFunc(lt)
	for _, f := range p.allSSAFuncs() {
		for _, b := range f.Blocks {
			ifi, ok := b.Instrs[len(b.Instrs)-1].(*ssa.If)
			if !ok {
				continue
			}
			call, ok := ifi.Cond.(*ssa.Call)
			if !ok || call.Call.StaticCallee() != ltSSA || ltSSA == nil {
				continue
			}
			recv, arg := call.Call.Args[0], call.Call.Args[1]
			tb := b.Succs[0]
			// what does the true branch store?
			for _, in := range tb.Instrs {
				var stored ssa.Value
				var sameLoc bool
				switch x := in.(type) {
				case *ssa.MapUpdate:
					stored = x.Value
					if lk, ok := recv.(*ssa.Lookup); ok && lk.X == x.Map && lk.Index == x.Key {
						sameLoc = true
					}
				case *ssa.Store:
					stored = x.Val
					if ld, ok := recv.(*ssa.UnOp); ok && ld.X == x.Addr {
						sameLoc = true
					}
				default:
					continue
				}
				nMerge++
				key := fmt.Sprintf("%s: LessThan-guarded store #%d", ssaFuncName(f), nMerge)
				switch {
				case stored == arg && sameLoc:
					c.OK("C12.merge", key, call.Pos(), "keeps the argument when the current value is lower")
				case stored == recv:
					c.Bad("C12.merge", key, call.Pos(), "keeps the receiver of LessThan on the true branch: the lower type wins")
				case stored == arg && !sameLoc:
					c.Bad("C12.merge", key, call.Pos(), "tests one location and overwrites another: the candidate is the receiver, so the lower type wins")
				default:
					c.Unk("C12.merge", key, call.Pos(), "a LessThan-guarded store this rule does not understand")
				}
			}
		}
	}
	// phi-style merges: cur = t under cur.LessThan(t) on a local variable
	for _, f := range p.allSSAFuncs() {
		for _, b := range f.Blocks {
			for _, in := range b.Instrs {
				phi, ok := in.(*ssa.Phi)
				if !ok || dt == nil || !types.Identical(phi.Type(), dt) {
					continue
				}
				for i, e := range phi.Edges {
					pred := b.Preds[i]
					// the edge comes from the true branch of a LessThan test?
					for _, pp := range pred.Preds {
						ifi, ok := pp.Instrs[len(pp.Instrs)-1].(*ssa.If)
						if !ok || pp.Succs[0] != pred {
							continue
						}
						call, ok := ifi.Cond.(*ssa.Call)
						if !ok || call.Call.StaticCallee() != ltSSA || ltSSA == nil {
							continue
						}
						nMerge++
						key := fmt.Sprintf("%s: LessThan-guarded assignment #%d", ssaFuncName(f), nMerge)
						if e == call.Call.Args[1] {
							c.OK("C12.merge", key, call.Pos(), "keeps the argument when the current value is lower")
						} else if e == call.Call.Args[0] {
							c.Bad("C12.merge", key, call.Pos(), "keeps the receiver of LessThan on the true branch: the lower type wins")
						}
					}
				}
			}
		}
	}
	c.Floor("C12.merge", nMerge, 2)

	// ---- every accumulation of a looked-up type goes through LessThan ----
	c.Rule("C12.mergeguard", "where a local of type DataType takes, on one branch, a type that a call just returned (the mapper's answer for one source, the evaluated type of a subquery column) and keeps its old value on the other, the branch is decided by old.LessThan(new): a test of the old value against a constant (`typ == Unknown`) keeps whatever the first source said, so the type of a field held as integer in one measurement and float in another depends on the order of the FROM list")
	nGuard := 0
	for _, f := range p.allSSAFuncs() {
		ord := 0
		for _, b := range f.Blocks {
			for _, in := range b.Instrs {
				phi, ok := in.(*ssa.Phi)
				if !ok || dt == nil || !types.Identical(phi.Type(), dt) {
					continue
				}
				for i, e := range phi.Edges {
					switch e.(type) {
					case *ssa.Call, *ssa.Extract:
					default:
						continue
					}
					// the other edges carry the old value (a phi or the zero constant)
					var old ssa.Value
					for j, o := range phi.Edges {
						if j != i {
							if _, isPhi := o.(*ssa.Phi); isPhi {
								old = o
							}
						}
					}
					if old == nil {
						continue
					}
					pred := b.Preds[i]
					if len(pred.Preds) != 1 {
						continue
					}
					pp := pred.Preds[0]
					ifi, ok := pp.Instrs[len(pp.Instrs)-1].(*ssa.If)
					if !ok {
						continue
					}
					ord++
					nGuard++
					key := fmt.Sprintf("%s: looked-up type kept #%d", ssaFuncName(f), ord)
					switch cnd := ifi.Cond.(type) {
					case *ssa.Call:
						if cnd.Call.StaticCallee() == ltSSA && ltSSA != nil {
							c.OK("C12.mergeguard", key, cnd.Pos(), "decided by LessThan")
						} else {
							c.Unk("C12.mergeguard", key, ifi.Cond.Pos(), "decided by a call this rule does not evaluate")
						}
					case *ssa.BinOp:
						_, cy := cnd.Y.(*ssa.Const)
						_, cx := cnd.X.(*ssa.Const)
						isOld := func(v ssa.Value) bool {
							if v == old || v == ssa.Value(phi) {
								return true
							}
							for j, o := range phi.Edges {
								if j != i && o == v {
									return true
								}
							}
							// the accumulator as it stood at the loop head
							if ph, ok := v.(*ssa.Phi); ok {
								for _, o := range ph.Edges {
									if o == ssa.Value(phi) {
										return true
									}
								}
							}
							return false
						}
						if (isOld(cnd.X) && cy) || (isOld(cnd.Y) && cx) {
							c.Bad("C12.mergeguard", key, cnd.Pos(), "the new type is kept only when the old one "+cnd.Op.String()+" a constant: the first source that knows the field decides, not the precedence order")
						} else {
							c.Unk("C12.mergeguard", key, cnd.Pos(), "decided by a comparison this rule does not evaluate")
						}
					default:
						c.Unk("C12.mergeguard", key, pp.Instrs[len(pp.Instrs)-1].Pos(), "decided by a condition this rule does not evaluate")
					}
				}
			}
		}
	}
	c.Floor("C12.mergeguard", nGuard, 2)

	// ---- the field set is only ever read ----
	c.Rule("C12.fieldset", "RewriteFields never removes entries from the schema's field set; it removes entries from the dimension set only when there is no dimension wildcard (tags the statement already groups by are left out of the fields)")
	rf := p.SSAFunc(p.Method("SelectStatement", "RewriteFields"))
	fdim := p.SSAFunc(p.Func("FieldDimensions"))
	if rf == nil || fdim == nil {
		c.Unk("C12.fieldset", "(*SelectStatement).RewriteFields", 0, "anchor not found")
	} else {
		nDel := 0
		for _, b := range rf.Blocks {
			for _, in := range b.Instrs {
				call, ok := in.(*ssa.Call)
				if !ok {
					continue
				}
				bi, ok := call.Call.Value.(*ssa.Builtin)
				if !ok || bi.Name() != "delete" {
					continue
				}
				which := "?"
				var src ssa.Value = call.Call.Args[0]
				for hops := 0; hops < 4; hops++ {
					if phi, ok := src.(*ssa.Phi); ok && len(phi.Edges) > 0 {
						src = phi.Edges[0]
						continue
					}
					break
				}
				if _, isLocal := src.(*ssa.MakeMap); isLocal {
					continue // a map built by this call
				}
				if ex, ok := src.(*ssa.Extract); ok {
					if cc, ok := ex.Tuple.(*ssa.Call); ok && cc.Call.StaticCallee() == fdim {
						which = []string{"field set", "dimension set", "error"}[ex.Index]
					}
				}
				nDel++
				key := fmt.Sprintf("(*SelectStatement).RewriteFields: delete #%d from the %s", nDel, which)
				c.Check(which == "dimension set", "C12.fieldset", key, call.Pos(), "entries are deleted from the "+which+": a schema column disappears from the expansion")
			}
		}
		c.Floor("C12.fieldset", nDel, 1)
	}

	// ---- clone first ----
	// the clone RewriteFields works on must carry every field of every node (a wildcard without its ::field / ::tag restriction expands to more columns)
	importRules(c, rulesC14, "C14.", "C12.clone-", func(r string) bool { return r == "C14.fields" })
	c.Rule("C12.clonefirst", "RewriteFields works on a clone: no store reaches memory of its receiver or of the mapper")
	readonly(c, "C12.clonefirst", func(f *types.Func) bool { return FuncName(f) == "(*SelectStatement).RewriteFields" })
	callScopeC12(c)
	mergeConstC12(c, p.SSAFunc(lt))
	wildcardCallC12(c)
	phaseOrderC12(c)
	tagArgsC12(c)
	c.Rule("C12.allsources", "in RewriteFields no loop over the statement's sources is left by `break`: a loop that stops at the first source of another kind leaves the subqueries after it unexpanded and untyped, and the result depends on the order the sources are written in")
	loopNoBreak(c, "C12.allsources", p.Method("SelectStatement", "RewriteFields"), "(*SelectStatement).RewriteFields", "Sources", "the loop over the sources is left by break: sources after that point are not rewritten")
	sourceMemoRule(c, "C12.sourcememo")
	handedMapRule(c, "C12.handedmap")
}

// phaseOrderC12: subqueries are rewritten before the outer statement's
// references are typed from them.
func phaseOrderC12(c *Ctx) {
	p := c.P
	c.Rule("C12.phaseorder", "in RewriteFields the recursive rewrite of subquery sources comes before the pass that writes types into the statement's references (the closure handed to WalkFunc that stores VarRef.Type): a reference to a subquery's wildcard column is typed from the subquery's expanded, typed fields; typed first, it stays untyped or takes the type of a like-named tag")
	f := p.SSAFunc(p.Method("SelectStatement", "RewriteFields"))
	if f == nil {
		c.Unk("C12.phaseorder", "(*SelectStatement).RewriteFields", 0, "anchor not found")
		return
	}
	storesType := func(g *ssa.Function) bool {
		for _, b := range g.Blocks {
			for _, in := range b.Instrs {
				if st, ok := in.(*ssa.Store); ok {
					if fa, ok := st.Addr.(*ssa.FieldAddr); ok && fieldNameOf(fa) == "Type" && p.TypeStr(fa.X.Type()) == "*VarRef" {
						return true
					}
				}
			}
		}
		return false
	}
	var recs, walks []*ssa.Call
	for _, b := range f.Blocks {
		for _, in := range b.Instrs {
			call, ok := in.(*ssa.Call)
			if !ok {
				continue
			}
			if call.Call.StaticCallee() == f {
				recs = append(recs, call)
				continue
			}
			for _, a := range call.Call.Args {
				if mc, ok := a.(*ssa.MakeClosure); ok {
					if g, ok := mc.Fn.(*ssa.Function); ok && storesType(g) {
						walks = append(walks, call)
					}
				}
			}
		}
	}
	if len(recs) == 0 || len(walks) == 0 {
		c.Unk("C12.phaseorder", "(*SelectStatement).RewriteFields: phases", f.Pos(), fmt.Sprintf("%d recursive rewrites and %d typing passes found", len(recs), len(walks)))
		return
	}
	for i, w := range walks {
		key := fmt.Sprintf("(*SelectStatement).RewriteFields: typing pass #%d", i+1)
		// is a recursive rewrite still ahead of this pass?
		seen := map[*ssa.BasicBlock]bool{}
		work := append([]*ssa.BasicBlock{}, w.Block().Succs...)
		ahead := false
		for _, r := range recs {
			if r.Block() == w.Block() {
				for _, in := range w.Block().Instrs {
					if in == ssa.Instruction(w) {
						break
					}
					if in == ssa.Instruction(r) {
						goto next
					}
				}
				ahead = true
			}
		next:
		}
		for len(work) > 0 && !ahead {
			x := work[len(work)-1]
			work = work[:len(work)-1]
			if seen[x] {
				continue
			}
			seen[x] = true
			for _, r := range recs {
				if r.Block() == x {
					ahead = true
				}
			}
			work = append(work, x.Succs...)
		}
		if ahead {
			c.Bad("C12.phaseorder", key, w.Pos(), "references are typed while a subquery source is still to be rewritten: a reference to a column the subquery's wildcard produces gets no field type")
		} else {
			c.OK("C12.phaseorder", key, w.Pos(), "every subquery source is rewritten before")
		}
	}
}

// wildcardCallC12: the types a wildcard may expand to are chosen by the
// function that directly holds the wildcard.
func wildcardCallC12(c *Ctx) {
	p := c.P
	c.Rule("C12.wildcardcall", "in RewriteFields the function name that selects the supported types is read from the same call node whose first argument was found to be the wildcard or regex (the innermost call): the name of an enclosing call admits or drops the wrong column types")
	f := p.SSAFunc(p.Method("SelectStatement", "RewriteFields"))
	if f == nil {
		c.Unk("C12.wildcardcall", "(*SelectStatement).RewriteFields", 0, "anchor not found")
		return
	}
	callT := p.Named("Call")
	isCallPtr := func(t types.Type) bool {
		pt, ok := t.(*types.Pointer)
		return ok && callT != nil && types.Identical(pt.Elem(), callT)
	}
	wild := map[ssa.Value]bool{}
	for _, b := range f.Blocks {
		for _, in := range b.Instrs {
			ta, ok := in.(*ssa.TypeAssert)
			if !ok {
				continue
			}
			if t := p.TypeStr(ta.AssertedType); t != "*Wildcard" && t != "*RegexLiteral" {
				continue
			}
			// ta.X = *IndexAddr(*FieldAddr(base, Args), 0)
			ld, ok := ta.X.(*ssa.UnOp)
			if !ok {
				continue
			}
			ia, ok := ld.X.(*ssa.IndexAddr)
			if !ok {
				continue
			}
			ld2, ok := ia.X.(*ssa.UnOp)
			if !ok {
				continue
			}
			fa, ok := ld2.X.(*ssa.FieldAddr)
			if !ok || fieldNameOf(fa) != "Args" || !isCallPtr(fa.X.Type()) {
				continue
			}
			wild[fa.X] = true
		}
	}
	if len(wild) == 0 {
		c.Unk("C12.wildcardcall", "(*SelectStatement).RewriteFields: wildcard argument", f.Pos(), "no assertion of a call's first argument to *Wildcard / *RegexLiteral found")
		return
	}
	n := 0
	for _, b := range f.Blocks {
		for _, in := range b.Instrs {
			bo, ok := in.(*ssa.BinOp)
			if !ok || bo.Op != token.EQL {
				continue
			}
			k, ok := bo.Y.(*ssa.Const)
			if !ok || k.Value == nil || k.Value.Kind() != constant.String {
				continue
			}
			ld, ok := bo.X.(*ssa.UnOp)
			if !ok {
				continue
			}
			fa, ok := ld.X.(*ssa.FieldAddr)
			if !ok || fieldNameOf(fa) != "Name" || !isCallPtr(fa.X.Type()) {
				continue
			}
			n++
			if n > 1 {
				continue // one obligation per switch: all its comparisons read the same load
			}
			key := "(*SelectStatement).RewriteFields: function name that selects the types"
			if wild[fa.X] {
				c.OK("C12.wildcardcall", key, bo.Pos(), "read from the call that holds the wildcard")
			} else {
				c.Bad("C12.wildcardcall", key, bo.Pos(), "read from another call node than the one whose first argument is the wildcard (an enclosing call): count(*) inside cumulative_sum() is expanded with cumulative_sum's types")
			}
		}
	}
	if n == 0 {
		c.Unk("C12.wildcardcall", "(*SelectStatement).RewriteFields: function name that selects the types", f.Pos(), "no comparison of a call's name with a constant found")
	}
}

// callScopeC12: the per-call type filter does not outlive the call it is for.
func callScopeC12(c *Ctx) {
	p := c.P
	c.Rule("C12.callscope", "a set of data types that RewriteFields creates and then adjusts inside a loop (types added or removed for the function being expanded) is created in the same iteration: no cycle of the control-flow graph passes through an adjustment without passing through the creation, so one call's adjustments cannot leak into the expansion of a later field")
	f := p.SSAFunc(p.Method("SelectStatement", "RewriteFields"))
	if f == nil {
		c.Unk("C12.callscope", "(*SelectStatement).RewriteFields", 0, "anchor not found")
		return
	}
	n := 0
	for _, b := range f.Blocks {
		for _, in := range b.Instrs {
			mk, ok := in.(*ssa.MakeMap)
			if !ok {
				continue
			}
			mt := mk.Type().Underlying().(*types.Map)
			if p.TypeStr(mt.Key()) != "DataType" {
				continue
			}
			// adjustment sites
			var sites []ssa.Instruction
			for _, ref := range *mk.Referrers() {
				switch r := ref.(type) {
				case *ssa.MapUpdate:
					if r.Map == ssa.Value(mk) && r.Block() != mk.Block() {
						sites = append(sites, r)
					}
				case *ssa.Call:
					if bi, ok := r.Call.Value.(*ssa.Builtin); ok && bi.Name() == "delete" && len(r.Call.Args) > 0 && r.Call.Args[0] == ssa.Value(mk) {
						sites = append(sites, r)
					}
				}
			}
			n++
			key := fmt.Sprintf("(*SelectStatement).RewriteFields: set of data types #%d", n)
			leak := ""
			for _, s := range sites {
				// can the site's block reach itself without passing the creation?
				start := s.Block()
				seen := map[*ssa.BasicBlock]bool{mk.Block(): true}
				var dfs func(b *ssa.BasicBlock) bool
				dfs = func(b *ssa.BasicBlock) bool {
					for _, nx := range b.Succs {
						if nx == start {
							return true
						}
						if !seen[nx] {
							seen[nx] = true
							if dfs(nx) {
								return true
							}
						}
					}
					return false
				}
				if dfs(start) {
					leak = p.Pos(s.Pos())
					break
				}
			}
			if leak != "" {
				c.Bad("C12.callscope", key, mk.Pos(), "adjusted at "+leak+" inside a loop that does not recreate it: the types added or removed for one function call stay in force for every later field of the statement")
			} else {
				c.OK("C12.callscope", key, mk.Pos(), fmt.Sprintf("%d adjustment sites, each iteration starts from a fresh set", len(sites)))
			}
		}
	}
	c.Floor("C12.callscope", n, 1)
}

// mergeConstC12: a constant type may replace the merged type only when no
// type has been found yet.
func mergeConstC12(c *Ctx, ltSSA *ssa.Function) {
	p := c.P
	c.Rule("C12.mergeconst", "where the type of a reference is accumulated over sources with LessThan, a constant type (Tag for a GROUP BY key of a subquery) is assigned to the accumulator only on a branch where the accumulator was just tested equal to Unknown: otherwise a field type found in one source is overwritten by a like-named tag of a later one, and the answer depends on source order")
	if ltSSA == nil {
		c.Unk("C12.mergeconst", "DataType.LessThan", 0, "anchor not found")
		return
	}
	dt := p.Named("DataType")
	n := 0
	for _, f := range p.allSSAFuncs() {
		// accumulators: DataType phis used as receiver of LessThan
		accs := map[*ssa.Phi]bool{}
		for _, b := range f.Blocks {
			for _, in := range b.Instrs {
				if call, ok := in.(*ssa.Call); ok && call.Call.StaticCallee() == ltSSA && len(call.Call.Args) == 2 {
					if phi, ok := call.Call.Args[0].(*ssa.Phi); ok {
						accs[phi] = true
					}
				}
			}
		}
		if len(accs) == 0 {
			continue
		}
		// all DataType phis that feed an accumulator (the variable's other versions)
		for _, b := range f.Blocks {
			for _, in := range b.Instrs {
				phi, ok := in.(*ssa.Phi)
				if !ok || dt == nil || !types.Identical(phi.Type(), dt) {
					continue
				}
				for i, e := range phi.Edges {
					k, ok := e.(*ssa.Const)
					if !ok || k.Value == nil || constant.Sign(k.Value) == 0 {
						continue // Unknown (zero) is the initial value
					}
					pred := phi.Block().Preds[i]
					n++
					key := fmt.Sprintf("%s: accumulator := %s", ssaFuncName(f), k.Value.String())
					guarded := false
					for d := pred; d != nil; d = d.Idom() {
						ifi, ok := d.Instrs[len(d.Instrs)-1].(*ssa.If)
						if !ok {
							continue
						}
						bo, ok := ifi.Cond.(*ssa.BinOp)
						if !ok || (bo.Op != token.EQL && bo.Op != token.NEQ) || !types.Identical(bo.X.Type(), dt) {
							continue
						}
						z, ok := bo.Y.(*ssa.Const)
						if !ok || z.Value == nil || constant.Sign(z.Value) != 0 {
							continue
						}
						if _, isPhi := bo.X.(*ssa.Phi); !isPhi {
							continue // a test of something other than the accumulating variable
						}
						succ := d.Succs[0] // typ == Unknown: true branch
						if bo.Op == token.NEQ {
							succ = d.Succs[1] // typ != Unknown: false branch
						}
						if succ == pred || succ.Dominates(pred) {
							guarded = true
						}
					}
					if guarded {
						c.OK("C12.mergeconst", key, phi.Pos(), "assigned only where the accumulator was tested == Unknown")
					} else {
						c.Bad("C12.mergeconst", key, phi.Pos(), "a constant type is assigned to the merged type without a test that nothing was found yet: a type found in an earlier source is overwritten")
					}
				}
			}
		}
	}
	c.Floor("C12.mergeconst", n, 1)
}

// tagArgsC12: the guard in front of the loop over top()/bottom()'s tag
// arguments admits every call that has a tag argument.
func tagArgsC12(c *Ctx) {
	p := c.P
	c.Rule("C12.tagargs", "in FieldExprByName the loop over a call's tag arguments (Args[1:len(Args)-1]) runs whenever that slice is non-empty: the length test guarding it is not stricter than `more than two arguments`, otherwise top(value, host, 2) — exactly one tag — is skipped and an outer reference to host stays untyped")
	fn := p.Method("SelectStatement", "FieldExprByName")
	fd := p.FuncDecls[fn]
	if fd == nil || fd.Body == nil {
		c.Unk("C12.tagargs", "(*SelectStatement).FieldExprByName", 0, "anchor not found")
		return
	}
	n := 0
	var visit func(nd ast.Node, conds []ast.Expr)
	visit = func(nd ast.Node, conds []ast.Expr) {
		switch x := nd.(type) {
		case nil:
			return
		case *ast.IfStmt:
			var walkElse func(e ast.Stmt)
			visit(x.Body, append(append([]ast.Expr{}, conds...), x.Cond))
			walkElse = func(e ast.Stmt) {
				if e != nil {
					visit(e, conds)
				}
			}
			walkElse(x.Else)
			return
		case *ast.RangeStmt:
			if sl, ok := ast.Unparen(x.X).(*ast.SliceExpr); ok && sl.Low != nil && sl.High != nil {
				lo, okLo := p.Info.Types[sl.Low]
				hb, okHi := ast.Unparen(sl.High).(*ast.BinaryExpr)
				if okLo && lo.Value != nil && okHi && hb.Op == token.SUB {
					if lc, ok := hb.X.(*ast.CallExpr); ok && len(lc.Args) == 1 && types.ExprString(lc.Fun) == "len" && types.ExprString(lc.Args[0]) == types.ExprString(sl.X) {
						if hv := p.Info.Types[hb.Y]; hv.Value != nil {
							l, _ := constant.Int64Val(constant.ToInt(lo.Value))
							h, _ := constant.Int64Val(constant.ToInt(hv.Value))
							need := l + h + 1 // shortest length with a non-empty slice
							n++
							key := fmt.Sprintf("FieldExprByName: guard of the loop over %s", types.ExprString(x.X))
							minLen := int64(-1)
							for _, cnd := range conds {
								ast.Inspect(cnd, func(m ast.Node) bool {
									be, ok := m.(*ast.BinaryExpr)
									if !ok || (be.Op != token.GTR && be.Op != token.GEQ) {
										return true
									}
									if cc, ok := be.X.(*ast.CallExpr); ok && len(cc.Args) == 1 && types.ExprString(cc.Fun) == "len" && types.ExprString(cc.Args[0]) == types.ExprString(sl.X) {
										if kv := p.Info.Types[be.Y]; kv.Value != nil {
											k, _ := constant.Int64Val(constant.ToInt(kv.Value))
											if be.Op == token.GTR {
												k++
											}
											if k > minLen {
												minLen = k
											}
										}
									}
									return true
								})
							}
							switch {
							case minLen < 0:
								c.Unk("C12.tagargs", key, x.Pos(), "no length test of the argument list guards the loop")
							case minLen > need:
								c.Bad("C12.tagargs", key, x.Pos(), fmt.Sprintf("the guard asks for at least %d arguments, the slice is non-empty from %d on: a call with exactly %d arguments (one tag) is skipped", minLen, need, need))
							default:
								c.OK("C12.tagargs", key, x.Pos(), fmt.Sprintf("guard: at least %d arguments; first non-empty slice at %d", minLen, need))
							}
						}
					}
				}
			}
			visit(x.Body, conds)
			return
		case *ast.BlockStmt:
			for _, st := range x.List {
				visit(st, conds)
			}
			return
		case *ast.ForStmt:
			visit(x.Body, conds)
			return
		}
	}
	visit(fd.Body, nil)
	c.Floor("C12.tagargs", n, 1)
}
