package main

func init() {
	register("C12", rulesC12)
}

func rulesC12(c *Ctx) {
	n := mapOrder(c, "C12.order", nil)
	c.Floor("C12.order", n, 8)
}
