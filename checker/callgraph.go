package main

import (
	"go/ast"
	"go/types"
)

// refGraph: f -> every in-package function or method that f's body (closures
// included) mentions — called, passed as a value or taken as a method value.
// Interface method mentions resolve to all in-package implementations (CHA).
// This over-approximates "may call".
func (p *Program) refGraph() map[*types.Func][]*types.Func {
	byName := map[string][]*types.Func{}
	for f := range p.FuncDecls {
		if f.Type().(*types.Signature).Recv() != nil {
			byName[f.Name()] = append(byName[f.Name()], f)
		}
	}
	g := map[*types.Func][]*types.Func{}
	for f, fd := range p.FuncDecls {
		if fd.Body == nil {
			continue
		}
		seen := map[*types.Func]bool{}
		add := func(c *types.Func) {
			if c == nil || c.Pkg() != p.Types || seen[c] {
				return
			}
			if _, declared := p.FuncDecls[c]; declared {
				seen[c] = true
				g[f] = append(g[f], c)
				return
			}
			// interface method
			for _, m := range byName[c.Name()] {
				if !seen[m] {
					seen[m] = true
					g[f] = append(g[f], m)
				}
			}
		}
		ast.Inspect(fd.Body, func(n ast.Node) bool {
			switch n := n.(type) {
			case *ast.Ident:
				if c, ok := p.Info.Uses[n].(*types.Func); ok {
					add(c)
				}
			case *ast.SelectorExpr:
				if c, ok := p.Info.Uses[n.Sel].(*types.Func); ok {
					add(c)
				}
			}
			return true
		})
		// fmt-style reflective String() calls: a node handed to fmt reaches
		// every String method; approximated by byName["String"] when the
		// function calls into fmt with a package type. (Handled by callers
		// that need it.)
	}
	return g
}

// reachable returns the set of functions reachable from roots in g.
func reachable(g map[*types.Func][]*types.Func, roots []*types.Func) map[*types.Func]bool {
	seen := map[*types.Func]bool{}
	var stack []*types.Func
	for _, r := range roots {
		if r != nil && !seen[r] {
			seen[r] = true
			stack = append(stack, r)
		}
	}
	for len(stack) > 0 {
		f := stack[len(stack)-1]
		stack = stack[:len(stack)-1]
		for _, c := range g[f] {
			if !seen[c] {
				seen[c] = true
				stack = append(stack, c)
			}
		}
	}
	return seen
}

// recvTypeName returns the receiver's named type, or "".
func recvTypeName(f *types.Func) string {
	r := f.Type().(*types.Signature).Recv()
	if r == nil {
		return ""
	}
	t := r.Type()
	if pt, ok := t.(*types.Pointer); ok {
		t = pt.Elem()
	}
	if n, ok := t.(*types.Named); ok {
		return n.Obj().Name()
	}
	return ""
}

// parserEntryPoints are the roots of "parsing" for C04.
func (p *Program) parserEntryPoints() []*types.Func {
	var roots []*types.Func
	for _, n := range []string{"ParseQuery", "ParseStatement", "ParseExpr", "MustParseStatement", "MustParseExpr", "NewParser", "ParseDuration", "FormatDuration"} {
		if f := p.Func(n); f != nil {
			roots = append(roots, f)
		}
	}
	for _, n := range []string{"ParseQuery", "ParseStatement", "ParseExpr", "SetParams"} {
		if f := p.Method("Parser", n); f != nil {
			roots = append(roots, f)
		}
	}
	for _, n := range []string{"Scan", "ScanRegex"} {
		if f := p.Method("Scanner", n); f != nil {
			roots = append(roots, f)
		}
	}
	return roots
}

// funcBodies enumerates every function body of the package: declared
// functions and, separately, each function literal (named after its
// enclosing declaration).
type funcBody struct {
	Name string
	Decl *types.Func // enclosing declared function
	Body *ast.BlockStmt
	Lit  *ast.FuncLit // nil for the declaration itself
}

func (p *Program) funcBodies() []funcBody {
	var out []funcBody
	for _, f := range p.SortedFuncs() {
		fd := p.FuncDecls[f]
		if fd.Body == nil {
			continue
		}
		out = append(out, funcBody{Name: FuncName(f), Decl: f, Body: fd.Body})
		ast.Inspect(fd.Body, func(n ast.Node) bool {
			if fl, ok := n.(*ast.FuncLit); ok {
				out = append(out, funcBody{Name: FuncName(f) + "$lit", Decl: f, Body: fl.Body, Lit: fl})
			}
			return true
		})
	}
	return out
}
