package main

// Probe balance — a token typestate rule for the recursive-descent parser.
//
// Every token the parser scans must be accounted for on every path before the
// next token is scanned or the function returns successfully: matched against
// a token constant on the taken branch, classified by a predicate whose
// positive branch uses it, stored or passed on (its tok/lit/pos value is used),
// pushed back with Unscan, or reported through an error return. A path on
// which none of these happens silently drops a token: the optional-clause
// probe that forgets its `else { p.Unscan() }`.

import (
	"fmt"
	"go/token"
	"go/types"

	"golang.org/x/tools/go/ssa"
)

func (p *Program) scanFamily() map[*ssa.Function]bool {
	out := map[*ssa.Function]bool{}
	for _, n := range []string{"Scan", "ScanRegex", "ScanIgnoreWhitespace"} {
		if f := p.SSAFunc(p.Method("Parser", n)); f != nil {
			out[f] = true
		}
	}
	return out
}

// mayScan: declared functions from which (*Parser).scan is reachable.
func (p *Program) mayScan() map[*types.Func]bool {
	refs := p.refGraph()
	target := p.Method("Parser", "scan")
	out := map[*types.Func]bool{}
	for f := range p.FuncDecls {
		if reachable(refs, []*types.Func{f})[target] {
			out[f] = true
		}
	}
	return out
}

func probeBalance(c *Ctx, rule string) int {
	p := c.P
	c.Rule(rule, "every token a parse function scans is, on every path before the next scan or a successful return, either matched against a token constant on the branch taken, used (stored, passed on or returned), pushed back with Unscan, or reported by an error return; a path on which a scanned token is simply dropped makes the statement swallow the token that follows it (e.g. the `;` of the next statement)")
	scans := p.scanFamily()
	may := p.mayScan()
	unscan := p.SSAFunc(p.Method("Parser", "Unscan"))
	nSites := 0
	for _, f := range p.allSSAFuncs() {
		root := f
		for root.Parent() != nil {
			root = root.Parent()
		}
		ro, _ := root.Object().(*types.Func)
		if ro == nil || recvTypeName(ro) != "Parser" {
			continue
		}
		if scans[f] || ro.Name() == "scan" || ro.Name() == "peekRune" {
			continue // the scan primitives themselves hand the token to their caller
		}
		for _, b := range f.Blocks {
			for idx, in := range b.Instrs {
				call, ok := in.(*ssa.Call)
				if !ok || !scans[call.Call.StaticCallee()] {
					continue
				}
				nSites++
				// the three result values
				vals := map[ssa.Value]bool{}
				var tokv ssa.Value
				for _, ref := range *call.Referrers() {
					if ex, ok := ref.(*ssa.Extract); ok {
						vals[ex] = true
						if ex.Index == 0 {
							tokv = ex
						}
					}
				}
				key := fmt.Sprintf("%s: token scanned at %s", ssaFuncName(f), exprAt(p, call))
				bad := probeWalk(p, f, b, idx+1, vals, tokv, scans, may, unscan)
				if bad == "" {
					c.OK(rule, key, call.Pos(), "accounted for on every path")
				} else {
					c.Bad(rule, key, call.Pos(), bad)
				}
			}
		}
	}
	return nSites
}

func exprAt(p *Program, call *ssa.Call) string {
	// stable description: the n-th scan of its function by source order
	f := call.Parent()
	n, k := 0, 0
	for _, b := range f.Blocks {
		for _, in := range b.Instrs {
			if c2, ok := in.(*ssa.Call); ok && c2.Call.StaticCallee() == call.Call.StaticCallee() {
				n++
				if c2.Pos() < call.Pos() {
					k++
				}
			}
		}
	}
	return fmt.Sprintf("%s #%d of %d", call.Call.StaticCallee().Name(), k+1, n)
}

// usesAny: does instr use one of vals other than as a pure comparison?
func usesAny(in ssa.Instruction, vals map[ssa.Value]bool) bool {
	var rands []*ssa.Value
	for _, r := range in.Operands(rands) {
		if r != nil && *r != nil && vals[*r] {
			return true
		}
	}
	return false
}

// probeWalk explores paths from (blk, start). Returns "" when every path
// accounts for the token, else a description of a dropping path.
func probeWalk(p *Program, f *ssa.Function, blk *ssa.BasicBlock, start int, vals map[ssa.Value]bool, tokv ssa.Value, scans map[*ssa.Function]bool, may map[*types.Func]bool, unscan *ssa.Function) string {
	type item struct {
		b     *ssa.BasicBlock
		start int
	}
	seen := map[int]bool{}
	work := []item{{blk, start}}
	// values derived from the token through phis / conversions count too
	derived := map[ssa.Value]bool{}
	for v := range vals {
		derived[v] = true
	}
	for changed := true; changed; {
		changed = false
		for _, b := range f.Blocks {
			for _, in := range b.Instrs {
				switch x := in.(type) {
				case *ssa.Phi:
					for _, e := range x.Edges {
						if derived[e] && !derived[x] {
							derived[x] = true
							changed = true
						}
					}
				case *ssa.ChangeType:
					if derived[x.X] && !derived[x] {
						derived[x] = true
						changed = true
					}
				case *ssa.Convert:
					if derived[x.X] && !derived[x] {
						derived[x] = true
						changed = true
					}
				}
			}
		}
	}
	isTok := func(v ssa.Value) bool { return derived[v] }
	// the result of comparing the token with a constant, kept in a boolean
	// (possibly a loop variable): branching on it is the match test
	cmpOp := map[ssa.Value]token.Token{}
	for _, b := range f.Blocks {
		for _, in := range b.Instrs {
			if bo, ok := in.(*ssa.BinOp); ok && (bo.Op == token.EQL || bo.Op == token.NEQ) && (isTok(bo.X) != isTok(bo.Y)) {
				cmpOp[bo] = bo.Op
			}
		}
	}
	for changed := true; changed; {
		changed = false
		for _, b := range f.Blocks {
			for _, in := range b.Instrs {
				phi, ok := in.(*ssa.Phi)
				if !ok {
					continue
				}
				if _, has := cmpOp[phi]; has {
					continue
				}
				var op token.Token
				okAll := true
				for _, e := range phi.Edges {
					if o, has := cmpOp[e]; has {
						if op != 0 && op != o {
							okAll = false
						}
						op = o
					} else if _, isC := e.(*ssa.Const); !isC && e != ssa.Value(phi) {
						okAll = false
					}
				}
				if okAll && op != 0 {
					cmpOp[phi] = op
					changed = true
				}
			}
		}
	}
	for len(work) > 0 {
		it := work[len(work)-1]
		work = work[:len(work)-1]
		if it.start == 0 {
			if seen[it.b.Index] {
				continue
			}
			seen[it.b.Index] = true
		}
		accounted := false
	instrs:
		for i := it.start; i < len(it.b.Instrs); i++ {
			switch x := it.b.Instrs[i].(type) {
			case *ssa.Extract, *ssa.DebugRef, *ssa.Phi:
				continue
			case *ssa.BinOp:
				// comparisons of the token with a constant are tests, not uses
				if (x.Op == token.EQL || x.Op == token.NEQ) && (isTok(x.X) || isTok(x.Y)) {
					continue
				}
				if usesAny(x, derived) {
					accounted = true
					break instrs
				}
			case *ssa.Call:
				callee := x.Call.StaticCallee()
				if callee == unscan {
					accounted = true
					break instrs
				}
				if usesAny(x, derived) {
					// a predicate on the token (tok.isOperator(), IsRegexOp(tok)) is
					// a classification, not yet a use: keep walking both branches
					if bt, ok := x.Type().Underlying().(*types.Basic); ok && bt.Kind() == types.Bool {
						derived[x] = true
						continue
					}
					accounted = true
					break instrs
				}
				if (scans[callee] || callee != nil) && (usedLater(it.b, i+1, derived) || onlyErrorsFollow(it.b, i+1)) {
					// the token is kept in a variable and used further down this path
					continue
				}
				if scans[callee] {
					return fmt.Sprintf("the next token is scanned at %s with this one neither matched, used, pushed back nor reported", p.Pos(x.Pos()))
				}
				if callee != nil {
					if o, ok := callee.Object().(*types.Func); ok && may[o] && recvTypeName(o) == "Parser" {
						return fmt.Sprintf("%s (which scans) is called at %s with this token neither matched, used, pushed back nor reported", FuncName(o), p.Pos(x.Pos()))
					}
				}
			case *ssa.Return:
				if usesAny(x, derived) {
					accounted = true
					break instrs
				}
				// error return? (a value that may be nil on this path is not one)
				if len(x.Results) >= 1 && errClass(x) == 1 {
					accounted = true
					break instrs
				}
				if len(x.Results) >= 2 {
					last := x.Results[len(x.Results)-1]
					if _, isErr := last.Type().Underlying().(*types.Interface); isErr {
						if phi, isPhi := last.(*ssa.Phi); isPhi {
							mayNil := false
							for _, e := range phi.Edges {
								if k, ok := e.(*ssa.Const); ok && k.IsNil() {
									mayNil = true
								}
							}
							if !mayNil {
								accounted = true
								break instrs
							}
						} else if k, ok := last.(*ssa.Const); !ok || !k.IsNil() {
							accounted = true
							break instrs
						}
					}
				}
				return fmt.Sprintf("the function returns successfully at %s with this token neither matched, used, pushed back nor reported: the caller's next scan skips it", p.Pos(x.Pos()))
			case *ssa.If:
				if bo, ok := x.Cond.(*ssa.BinOp); ok && (bo.Op == token.EQL || bo.Op == token.NEQ) && (isTok(bo.X) || isTok(bo.Y)) {
					// a comparison with anything that is not itself the token
					// (a constant, a parameter naming the expected token) is a match test
					if !(isTok(bo.X) && isTok(bo.Y)) {
						matched, other := it.b.Succs[0], it.b.Succs[1]
						if bo.Op == token.NEQ {
							matched, other = other, matched
						}
						_ = matched // matched against a constant: accounted on that edge
						work = append(work, item{other, 0})
						accounted = true
						break instrs
					}
				}
				if op, ok := cmpOp[x.Cond]; ok {
					if _, direct := x.Cond.(*ssa.BinOp); !direct {
						other := it.b.Succs[1]
						if op == token.NEQ {
							other = it.b.Succs[0]
						}
						work = append(work, item{other, 0})
						accounted = true
						break instrs
					}
				}
				if derived[x.Cond] {
					// classification by predicate: the positive edge must use the
					// token later; both edges are explored
					work = append(work, item{it.b.Succs[0], 0}, item{it.b.Succs[1], 0})
					accounted = true
					break instrs
				}
				if u, ok := x.Cond.(*ssa.UnOp); ok && u.Op == token.NOT && derived[u.X] {
					work = append(work, item{it.b.Succs[0], 0}, item{it.b.Succs[1], 0})
					accounted = true
					break instrs
				}
			default:
				if v, ok := x.(ssa.Instruction); ok && usesAny(v, derived) {
					accounted = true
					break instrs
				}
			}
		}
		if accounted {
			continue
		}
		for _, s := range it.b.Succs {
			work = append(work, item{s, 0})
		}
	}
	return ""
}

// usedLater: is a token-derived value used (other than in a comparison) by
// any instruction reachable from (b, start)?
func usedLater(b *ssa.BasicBlock, start int, derived map[ssa.Value]bool) bool {
	seen := map[int]bool{}
	var walk func(blk *ssa.BasicBlock, from int) bool
	walk = func(blk *ssa.BasicBlock, from int) bool {
		if from == 0 {
			if seen[blk.Index] {
				return false
			}
			seen[blk.Index] = true
		}
		for i := from; i < len(blk.Instrs); i++ {
			in := blk.Instrs[i]
			switch x := in.(type) {
			case *ssa.BinOp:
				if x.Op == token.EQL || x.Op == token.NEQ {
					continue
				}
			case *ssa.If, *ssa.DebugRef, *ssa.Phi, *ssa.Extract:
				continue
			}
			if usesAny(in, derived) {
				if c, ok := in.(*ssa.Call); ok {
					if bt, ok := c.Type().Underlying().(*types.Basic); ok && bt.Kind() == types.Bool {
						continue // predicate
					}
				}
				return true
			}
		}
		for _, s := range blk.Succs {
			if walk(s, 0) {
				return true
			}
		}
		return false
	}
	return walk(b, start)
}

// onlyErrorsFollow: every return reachable from (b, start) carries a non-nil error.
func onlyErrorsFollow(b *ssa.BasicBlock, start int) bool {
	seen := map[int]bool{}
	ok := true
	any := false
	var walk func(blk *ssa.BasicBlock, from int)
	walk = func(blk *ssa.BasicBlock, from int) {
		if from == 0 {
			if seen[blk.Index] {
				return
			}
			seen[blk.Index] = true
		}
		for i := from; i < len(blk.Instrs); i++ {
			if r, isRet := blk.Instrs[i].(*ssa.Return); isRet {
				any = true
				if len(r.Results) == 0 {
					ok = false
					return
				}
				last := r.Results[len(r.Results)-1]
				if _, isErr := last.Type().Underlying().(*types.Interface); !isErr {
					ok = false
					return
				}
				if k, isC := last.(*ssa.Const); isC && k.IsNil() {
					ok = false
				}
				return
			}
		}
		for _, s := range blk.Succs {
			walk(s, 0)
		}
	}
	walk(b, start)
	return ok && any
}
