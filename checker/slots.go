package main

// E4 — parser/printer slot agreement. For every AST struct T that a parse
// function builds and that has a String method, two event sequences are
// extracted from the type-checked syntax, in source order:
//
//   parse side:  KW(token)  — a token constant the scanned token is compared
//                             with, listed in parseTokens, or handed to
//                             ParseOptionalTokenAndInt
//                STORE(field, class) — an assignment to a field of the T
//                             under construction, classed by its producer
//   print side:  KW(word)   — an upper-case word in a constant text written
//                EMIT(field, class) — a field of the receiver reaching the
//                             output, classed by the formatter it goes through
//
// and compared: coverage, class, keyword, order.

import (
	"go/ast"
	"go/constant"
	"go/token"
	"go/types"
	"sort"
	"strings"

	"golang.org/x/tools/go/types/typeutil"
)

type slotEvent struct {
	kind   string // "KW", "STORE", "EMIT", "READ"
	field  string
	class  string
	word   string // for KW
	pos    token.Pos
	inLoop bool
	cond   bool // EMIT/READ inside an if condition only
}

// producerClass maps a parser helper to the class of value it yields.
var producerClass = map[string]string{
	"ParseIdent": "IDENT", "ParseIdentList": "IDENTLIST", "parseSegmentedIdents": "IDENTLIST",
	"parseString": "STRING", "parseStringList": "STRINGLIST",
	"ParseDuration": "DURATION", "parseWriteLimit": "DURATION", "parseResample": "DURATION",
	"ParseInt": "INT", "ParseOptionalTokenAndInt": "INT", "ParseUInt64": "UINT",
	"ParseExpr": "NODE", "parseCondition": "NODE", "parseSources": "NODE", "parseSource": "NODE",
	"parseDimensions": "NODE", "parseFields": "NODE", "parseOrderBy": "NODE", "parseTarget": "NODE",
	"parseRegex": "NODE", "parsePrivilege": "PRIVILEGE", "parseTagKeyExpr": "NODE", "parseFill": "FILL",
	"parseLocation": "LOCATION", "parseSelectStatement": "NODE", "ParseVarRef": "NODE", "parseAlias": "IDENT",
	"parseSortFields": "NODE", "parseMeasurement": "NODE", "ParseStatement": "NODE", "parseCall": "NODE",
	"parseUnaryExpr": "NODE", "parseField": "NODE", "parseDimension": "NODE", "parseSortField": "NODE",
}

// printerClass maps a formatter to the class it prints.
var printerClass = map[string]string{
	"QuoteIdent": "IDENT", "QuoteString": "STRING", "FormatDuration": "DURATION",
	"Itoa": "INT", "FormatInt": "INT", "FormatUint": "UINT", "String": "NODE",
}

func (p *Program) tokenConst(e ast.Expr, tt *tokenTable) (int64, bool) {
	tv, ok := p.Info.Types[e]
	if !ok || tv.Value == nil || !types.Identical(tv.Type, tt.Type) {
		return 0, false
	}
	v, _ := constant.Int64Val(constant.ToInt(tv.Value))
	return v, true
}

// parseEvents extracts the parse-side events of fn for struct type T.
func (p *Program) parseEvents(fn *types.Func, T *types.Named, tt *tokenTable) []slotEvent {
	fd := p.FuncDecls[fn]
	if fd == nil || fd.Body == nil {
		return nil
	}
	var ev []slotEvent
	isT := func(t types.Type) bool {
		if pt, ok := t.(*types.Pointer); ok {
			t = pt.Elem()
		}
		return types.Identical(t, T)
	}
	// local definitions for producer resolution: ident object -> defining call name / literal class
	localClass := map[types.Object]string{}
	localPos := map[types.Object]token.Pos{}
	// defPos: where the value of e was produced (definition of a local, else e itself)
	defPos := func(e ast.Expr) token.Pos {
		e = ast.Unparen(e)
		if u, ok := e.(*ast.UnaryExpr); ok && u.Op == token.AND {
			e = ast.Unparen(u.X)
		}
		if id, ok := e.(*ast.Ident); ok {
			if pos, ok := localPos[p.Info.ObjectOf(id)]; ok {
				return pos
			}
		}
		return token.NoPos
	}
	classOfExpr := func(e ast.Expr) string {
		e = ast.Unparen(e)
		switch x := e.(type) {
		case *ast.CallExpr:
			if callee, ok := typeutil.Callee(p.Info, x).(*types.Func); ok {
				if c, ok := producerClass[callee.Name()]; ok {
					return c
				}
				if callee.Name() == "ParseDuration" {
					return "DURATION"
				}
				return "CALL:" + callee.Name()
			}
			// conversion
			if len(x.Args) == 1 {
				if tv, ok := p.Info.Types[x.Fun]; ok && tv.IsType() {
					return "CONV"
				}
			}
		case *ast.Ident:
			if c, ok := localClass[p.Info.ObjectOf(x)]; ok {
				return c
			}
			if x.Name == "true" || x.Name == "false" {
				return "FLAG"
			}
			if x.Name == "lit" {
				return "LIT"
			}
		case *ast.UnaryExpr:
			if x.Op == token.AND {
				if id := identOf(x.X); id != nil {
					if c, ok := localClass[p.Info.ObjectOf(id)]; ok {
						return c
					}
				}
				return "NODE"
			}
		case *ast.BasicLit:
			return "CONST"
		case *ast.CompositeLit:
			return "NODE"
		case *ast.IndexExpr:
			return "KEYWORD"
		}
		if tv := p.Info.Types[e]; tv.Value != nil {
			return "CONST"
		}
		return "?"
	}
	var walk func(n ast.Node, inLoop bool)
	addKW := func(e ast.Expr, inLoop bool) {
		if v, ok := p.tokenConst(e, tt); ok {
			if sp := tt.Spelling[v]; isWord(sp) {
				ev = append(ev, slotEvent{kind: "KW", word: sp, pos: e.Pos(), inLoop: inLoop})
			}
		}
	}
	condKWs := func(e ast.Expr, inLoop bool) {
		ast.Inspect(e, func(m ast.Node) bool {
			if b, ok := m.(*ast.BinaryExpr); ok && (b.Op == token.EQL || b.Op == token.NEQ) {
				addKW(b.Y, inLoop)
				addKW(b.X, inLoop)
			}
			return true
		})
	}
	recordAssign := func(lhs []ast.Expr, rhs []ast.Expr, pos token.Pos, inLoop bool) {
		for i, l := range lhs {
			var r ast.Expr
			if len(rhs) == len(lhs) {
				r = rhs[i]
			} else if len(rhs) == 1 {
				r = rhs[0]
			}
			// local definitions
			if id := identOf(l); id != nil && r != nil {
				if obj := p.Info.ObjectOf(id); obj != nil {
					localClass[obj] = classOfExpr(r)
					localPos[obj] = pos
				}
			}
			sel, ok := ast.Unparen(l).(*ast.SelectorExpr)
			if !ok {
				continue
			}
			if t := p.Info.TypeOf(sel.X); t == nil || !isT(t) {
				continue
			}
			cls := "?"
			spos := pos
			if r != nil {
				cls = classOfExpr(r)
				if dp := defPos(r); dp.IsValid() {
					spos = dp
				}
			}
			if ft := p.Info.TypeOf(sel); ft != nil {
				if types.Identical(ft, tt.Type) && cls != "CONST" {
					cls = "OP"
				}
			}
			ev = append(ev, slotEvent{kind: "STORE", field: sel.Sel.Name, class: cls, pos: spos, inLoop: inLoop})
		}
	}
	walk = func(n ast.Node, inLoop bool) {
		switch x := n.(type) {
		case nil:
			return
		case *ast.BlockStmt:
			for _, s := range x.List {
				walk(s, inLoop)
			}
		case *ast.IfStmt:
			walk(x.Init, inLoop)
			condKWs(x.Cond, inLoop)
			walk(x.Body, inLoop)
			walk(x.Else, inLoop)
		case *ast.ForStmt:
			walk(x.Init, true)
			if x.Cond != nil {
				condKWs(x.Cond, true)
			}
			walk(x.Body, true)
		case *ast.RangeStmt:
			walk(x.Body, true)
		case *ast.LabeledStmt:
			walk(x.Stmt, inLoop)
		case *ast.SwitchStmt:
			walk(x.Init, inLoop)
			for _, cl := range x.Body.List {
				cc := cl.(*ast.CaseClause)
				for _, e := range cc.List {
					addKW(e, inLoop)
				}
				for _, s := range cc.Body {
					walk(s, inLoop)
				}
			}
		case *ast.TypeSwitchStmt:
			for _, cl := range x.Body.List {
				for _, s := range cl.(*ast.CaseClause).Body {
					walk(s, inLoop)
				}
			}
		case *ast.AssignStmt:
			// calls with token arguments
			for _, r := range x.Rhs {
				p.callKWs(r, tt, &ev, inLoop)
			}
			recordAssign(x.Lhs, x.Rhs, x.End(), inLoop)
			// composite literal of T on the right
			for _, r := range x.Rhs {
				p.litStores(r, isT, classOfExpr, defPos, &ev, inLoop)
			}
		case *ast.DeclStmt:
		case *ast.ExprStmt:
			p.callKWs(x.X, tt, &ev, inLoop)
		case *ast.ReturnStmt:
			for _, r := range x.Results {
				p.callKWs(r, tt, &ev, inLoop)
				p.litStores(r, isT, classOfExpr, defPos, &ev, inLoop)
			}
		}
	}
	walk(fd.Body, false)
	sort.SliceStable(ev, func(i, j int) bool { return ev[i].pos < ev[j].pos })
	return ev
}

// callKWs records token constants passed to parser helpers.
func (p *Program) callKWs(e ast.Expr, tt *tokenTable, ev *[]slotEvent, inLoop bool) {
	ast.Inspect(e, func(n ast.Node) bool {
		call, ok := n.(*ast.CallExpr)
		if !ok {
			return true
		}
		callee, _ := typeutil.Callee(p.Info, call).(*types.Func)
		if callee == nil {
			return true
		}
		switch callee.Name() {
		case "ParseOptionalTokenAndInt":
			for _, a := range call.Args {
				if v, ok := p.tokenConst(a, tt); ok && isWord(tt.Spelling[v]) {
					*ev = append(*ev, slotEvent{kind: "KW", word: tt.Spelling[v], pos: a.Pos(), inLoop: inLoop})
				}
			}
		case "parseTokens":
			for _, a := range call.Args {
				if cl, ok := a.(*ast.CompositeLit); ok {
					for _, el := range cl.Elts {
						if v, ok := p.tokenConst(el, tt); ok && isWord(tt.Spelling[v]) {
							*ev = append(*ev, slotEvent{kind: "KW", word: tt.Spelling[v], pos: el.Pos(), inLoop: inLoop})
						}
					}
				}
			}
		}
		return true
	})
}

// litStores records the fields set by a composite literal of T.
func (p *Program) litStores(e ast.Expr, isT func(types.Type) bool, classOf func(ast.Expr) string, defPos func(ast.Expr) token.Pos, ev *[]slotEvent, inLoop bool) {
	ast.Inspect(e, func(n ast.Node) bool {
		cl, ok := n.(*ast.CompositeLit)
		if !ok {
			return true
		}
		if t := p.Info.TypeOf(cl); t == nil || !isT(t) {
			return true
		}
		for _, el := range cl.Elts {
			if kv, ok := el.(*ast.KeyValueExpr); ok {
				if id, ok := kv.Key.(*ast.Ident); ok {
					spos := kv.Pos()
					if dp := defPos(kv.Value); dp.IsValid() {
						spos = dp
					}
					*ev = append(*ev, slotEvent{kind: "STORE", field: id.Name, class: classOf(kv.Value), pos: spos, inLoop: inLoop})
				}
			}
		}
		return false
	})
}

// printEvents extracts the print-side events of T.String().
func (p *Program) printEvents(str *types.Func) []slotEvent {
	return p.printEventsDepth(str, 0)
}

func (p *Program) printEventsDepth(str *types.Func, depth int) []slotEvent {
	fd := p.FuncDecls[str]
	if fd == nil || fd.Body == nil || fd.Recv == nil || len(fd.Recv.List) == 0 || len(fd.Recv.List[0].Names) == 0 {
		return nil
	}
	recv := p.Info.Defs[fd.Recv.List[0].Names[0]]
	var ev []slotEvent
	// value locals: string variables that are only ever assigned whole (never
	// grown with +=): what they hold is written where they are used, not where
	// they are assigned
	grown := map[types.Object]bool{}
	assigned := map[types.Object]bool{}
	ast.Inspect(fd.Body, func(n ast.Node) bool {
		as, ok := n.(*ast.AssignStmt)
		if !ok {
			return true
		}
		for _, l := range as.Lhs {
			id, ok := l.(*ast.Ident)
			if !ok {
				continue
			}
			o := p.Info.ObjectOf(id)
			if o == nil {
				continue
			}
			if b, ok := o.Type().Underlying().(*types.Basic); !ok || b.Info()&types.IsString == 0 {
				continue
			}
			if as.Tok == token.ADD_ASSIGN {
				grown[o] = true
			} else {
				assigned[o] = true
				// only locals that hold constant words are deferred; a local that
				// holds the text built so far is written where it is assigned
				constRHS := false
				if len(as.Lhs) == len(as.Rhs) {
					for i, l2 := range as.Lhs {
						if l2 == l {
							if tv := p.Info.Types[as.Rhs[i]]; tv.Value != nil && tv.Value.Kind() == constant.String {
								constRHS = true
							}
						}
					}
				}
				if !constRHS {
					grown[o] = true
				}
			}
		}
		return true
	})
	pending := map[types.Object][]slotEvent{}
	var deferredInto []types.Object // value locals assigned since the enclosing if began
	// fieldOf: e is recv.F / *recv.F / recv.F.G...: returns top-level field name
	alias := map[types.Object]string{}   // range variables over a receiver field
	subst := map[types.Object]ast.Expr{} // parameters of an inlined writer helper -> the arguments
	var fieldOf func(e ast.Expr) string
	fieldOf = func(e ast.Expr) string {
		switch x := ast.Unparen(e).(type) {
		case *ast.Ident:
			if f, ok := alias[p.Info.ObjectOf(x)]; ok {
				return f
			}
			if a, ok := subst[p.Info.ObjectOf(x)]; ok {
				return fieldOf(a)
			}
		case *ast.SelectorExpr:
			if id := identOf(x.X); id != nil && p.Info.ObjectOf(id) == recv {
				if s := p.Info.Selections[x]; s != nil && s.Kind() == types.FieldVal {
					return x.Sel.Name
				}
				return ""
			}
			return fieldOf(x.X)
		case *ast.StarExpr:
			return fieldOf(x.X)
		case *ast.CallExpr:
			if sel, ok := x.Fun.(*ast.SelectorExpr); ok {
				if f := fieldOf(sel.X); f != "" {
					return f
				}
			}
			for _, a := range x.Args {
				if f := fieldOf(a); f != "" {
					return f
				}
			}
		case *ast.IndexExpr:
			return fieldOf(x.X)
		case *ast.UnaryExpr:
			return fieldOf(x.X)
		}
		return ""
	}
	words := func(s string, pos token.Pos) {
		for _, w := range strings.FieldsFunc(s, func(r rune) bool { return !(r == '_' || (r >= 'A' && r <= 'Z') || (r >= 'a' && r <= 'z')) }) {
			if w == strings.ToUpper(w) && len(w) > 1 {
				ev = append(ev, slotEvent{kind: "KW", word: w, pos: pos})
			}
		}
	}
	// emit: classify an expression written to the output
	var emit func(e ast.Expr)
	emit = func(e ast.Expr) {
		e = ast.Unparen(e)
		if tv := p.Info.Types[e]; tv.Value != nil && tv.Value.Kind() == constant.String {
			words(constant.StringVal(tv.Value), e.Pos())
			return
		}
		if id, ok := e.(*ast.Ident); ok {
			if evs, ok := pending[p.Info.ObjectOf(id)]; ok {
				ev = append(ev, evs...)
				return
			}
			if a, ok := subst[p.Info.ObjectOf(id)]; ok {
				if tv := p.Info.Types[a]; tv.Value != nil {
					emit(a)
					return
				}
			}
		}
		switch x := e.(type) {
		case *ast.CompositeLit:
			// pieces collected in a []string and joined later
			if st, ok := p.Info.TypeOf(x).Underlying().(*types.Slice); ok {
				if b, ok := st.Elem().Underlying().(*types.Basic); ok && b.Info()&types.IsString != 0 {
					for _, el := range x.Elts {
						emit(el)
					}
					return
				}
			}
		case *ast.BinaryExpr:
			if x.Op == token.ADD {
				emit(x.X)
				emit(x.Y)
				return
			}
		case *ast.CallExpr:
			callee, _ := typeutil.Callee(p.Info, x).(*types.Func)
			name := ""
			if callee != nil {
				name = callee.Name()
			}
			// a helper method on the same receiver that builds part of the text
			if callee != nil && depth < 2 && callee.Pkg() == p.Types && callee != str && name != "String" {
				if sel, ok := x.Fun.(*ast.SelectorExpr); ok {
					if id := identOf(sel.X); id != nil && p.Info.ObjectOf(id) == recv && p.FuncDecls[callee] != nil {
						if sig, ok := callee.Type().(*types.Signature); ok && sig.Results().Len() == 1 {
							if b, ok := sig.Results().At(0).Type().Underlying().(*types.Basic); ok && b.Info()&types.IsString != 0 {
								ev = append(ev, p.printEventsDepth(callee, depth+1)...)
								return
							}
						}
					}
				}
			}
			if id := identOf(x.Fun); id != nil && id.Name == "append" && len(x.Args) >= 1 {
				if _, isBuiltin := p.Info.Uses[id].(*types.Builtin); isBuiltin {
					for _, a := range x.Args[1:] {
						emit(a)
					}
					return
				}
			}
			switch {
			case name == "Sprintf" || name == "Fprintf":
				args := x.Args
				if name == "Fprintf" {
					args = args[1:]
				}
				if len(args) > 0 {
					if tv := p.Info.Types[args[0]]; tv.Value != nil {
						// interleave format pieces and arguments
						f := constant.StringVal(tv.Value)
						ai := 1
						piece := ""
						for i := 0; i < len(f); i++ {
							if f[i] == '%' && i+1 < len(f) {
								if f[i+1] == '%' {
									piece += "%"
									i++
									continue
								}
								words(piece, args[0].Pos())
								piece = ""
								// skip flags/width
								j := i + 1
								for j < len(f) && strings.ContainsRune("+-# 0123456789.", rune(f[j])) {
									j++
								}
								if ai < len(args) {
									verb := byte('v')
									if j < len(f) {
										verb = f[j]
									}
									if id, ok := ast.Unparen(args[ai]).(*ast.Ident); ok {
										if evs, ok := pending[p.Info.ObjectOf(id)]; ok {
											ev = append(ev, evs...)
											ai++
											i = j
											continue
										}
									}
									p.emitArg(args[ai], verb, fieldOf, &ev)
									ai++
								}
								i = j
								continue
							}
							piece += string(f[i])
						}
						words(piece, args[0].Pos())
						return
					}
				}
			case name == "Join" && len(x.Args) == 2:
				emit(x.Args[0])
				return
			}
			if c, ok := printerClass[name]; ok {
				var arg ast.Expr
				if name == "String" {
					if sel, ok := x.Fun.(*ast.SelectorExpr); ok {
						arg = sel.X
					}
				} else if len(x.Args) > 0 {
					arg = x.Args[0]
					if name == "FormatInt" || name == "FormatUint" {
						arg = x.Args[0]
					}
				}
				if arg != nil {
					if f := fieldOf(arg); f != "" {
						if name == "String" && p.TypeStr(p.Info.TypeOf(arg)) == "time.Duration" {
							c = "GODURATION"
						}
						if name == "String" && p.TypeStr(p.Info.TypeOf(arg)) == "Token" {
							c = "KEYWORD"
						}
						ev = append(ev, slotEvent{kind: "EMIT", field: f, class: c, pos: x.Pos()})
						return
					}
				}
			}
			// helper on the receiver or unknown call: count contained fields as emitted with class CALL
			if f := fieldOf(x); f != "" {
				ev = append(ev, slotEvent{kind: "EMIT", field: f, class: "CALL:" + name, pos: x.Pos()})
				return
			}
			for _, a := range x.Args {
				if f := fieldOf(a); f != "" {
					ev = append(ev, slotEvent{kind: "EMIT", field: f, class: "CALL:" + name, pos: x.Pos()})
				}
			}
			return
		}
		if f := fieldOf(e); f != "" {
			cls := "RAW"
			if t := p.Info.TypeOf(e); t != nil {
				if b, ok := t.Underlying().(*types.Basic); ok && b.Info()&types.IsString == 0 {
					cls = "RAWNUM"
				}
			}
			ev = append(ev, slotEvent{kind: "EMIT", field: f, class: cls, pos: e.Pos()})
		}
	}
	var walk func(n ast.Node)
	isWrite := func(call *ast.CallExpr) bool {
		if sel, ok := call.Fun.(*ast.SelectorExpr); ok {
			switch sel.Sel.Name {
			case "WriteString", "WriteByte", "WriteRune", "Fprintf", "Write":
				return true
			}
		}
		return false
	}
	walk = func(n ast.Node) {
		switch x := n.(type) {
		case nil:
		case *ast.BlockStmt:
			for _, s := range x.List {
				walk(s)
			}
		case *ast.IfStmt:
			walk(x.Init)
			condStart := len(ev)
			savedDeferred := deferredInto
			deferredInto = nil
			defer func(start int) {
				// nothing written directly under this if, only value locals set:
				// the condition belongs to where those locals are written
				if start <= len(ev) && len(deferredInto) > 0 {
					onlyCond := true
					for _, e := range ev[start:] {
						if !(e.kind == "READ" && e.cond) {
							onlyCond = false
						}
					}
					if onlyCond {
						conds := append([]slotEvent{}, ev[start:]...)
						ev = ev[:start]
						for _, o := range deferredInto {
							pending[o] = append(append([]slotEvent{}, conds...), pending[o]...)
						}
					}
				}
				deferredInto = append(savedDeferred, deferredInto...)
			}(condStart)
			ast.Inspect(x.Cond, func(m ast.Node) bool {
				if e, ok := m.(ast.Expr); ok {
					if f := fieldOf(e); f != "" {
						_, isSel := ast.Unparen(e).(*ast.SelectorExpr)
						if id, isId := ast.Unparen(e).(*ast.Ident); isId {
							_, isSel = alias[p.Info.ObjectOf(id)]
						}
						if isSel {
							ev = append(ev, slotEvent{kind: "READ", field: f, pos: e.Pos(), cond: true})
							return false
						}
					}
				}
				return true
			})
			walk(x.Body)
			walk(x.Else)
		case *ast.ForStmt:
			walk(x.Body)
		case *ast.RangeStmt:
			if f := fieldOf(x.X); f != "" {
				if id := identOf(x.Value); id != nil {
					alias[p.Info.ObjectOf(id)] = f
				}
				ev = append(ev, slotEvent{kind: "READ", field: f, pos: x.X.Pos(), cond: true})
			}
			walk(x.Body)
		case *ast.SwitchStmt:
			if x.Tag != nil {
				if f := fieldOf(x.Tag); f != "" {
					ev = append(ev, slotEvent{kind: "READ", field: f, pos: x.Tag.Pos(), cond: true})
				}
			}
			for _, cl := range x.Body.List {
				for _, s := range cl.(*ast.CaseClause).Body {
					walk(s)
				}
			}
		case *ast.TypeSwitchStmt:
			// switch key := recv.F.(type): key names the field in every clause
			if as, ok := x.Assign.(*ast.AssignStmt); ok && len(as.Rhs) == 1 {
				if ta, ok := ast.Unparen(as.Rhs[0]).(*ast.TypeAssertExpr); ok {
					if f := fieldOf(ta.X); f != "" {
						ev = append(ev, slotEvent{kind: "READ", field: f, pos: ta.X.Pos(), cond: true})
						for _, cl := range x.Body.List {
							if o := p.Info.Implicits[cl]; o != nil {
								alias[o] = f
							}
						}
					}
				}
			}
			for _, cl := range x.Body.List {
				for _, s := range cl.(*ast.CaseClause).Body {
					walk(s)
				}
			}
		case *ast.AssignStmt:
			// x := recv.F (or *recv.F): a local name for the field, not output
			if x.Tok == token.DEFINE && len(x.Lhs) == 1 && len(x.Rhs) == 1 {
				if id, ok := x.Lhs[0].(*ast.Ident); ok {
					rhs := ast.Unparen(x.Rhs[0])
					if st, ok := rhs.(*ast.StarExpr); ok {
						rhs = ast.Unparen(st.X)
					}
					if _, isSel := rhs.(*ast.SelectorExpr); isSel {
						if f := fieldOf(rhs); f != "" {
							if o := p.Info.ObjectOf(id); o != nil {
								alias[o] = f
								return
							}
						}
					}
				}
			}
			if len(x.Lhs) == len(x.Rhs) && (x.Tok == token.DEFINE || x.Tok == token.ASSIGN) {
				all := true
				for _, l := range x.Lhs {
					id, ok := l.(*ast.Ident)
					if !ok || !assigned[p.Info.ObjectOf(id)] || grown[p.Info.ObjectOf(id)] {
						all = false
					}
				}
				if all {
					for i, l := range x.Lhs {
						o := p.Info.ObjectOf(l.(*ast.Ident))
						saved := ev
						ev = nil
						emit(x.Rhs[i])
						captured := ev
						ev = saved
						pending[o] = append(pending[o], captured...)
						deferredInto = append(deferredInto, o)
					}
					return
				}
			}
			for _, r := range x.Rhs {
				if call, ok := r.(*ast.CallExpr); ok && isWrite(call) {
					args := call.Args
					if sel := call.Fun.(*ast.SelectorExpr); sel.Sel.Name == "Fprintf" {
						emit(call)
						continue
					}
					for _, a := range args {
						emit(a)
					}
				} else if call, ok := r.(*ast.CallExpr); ok && len(call.Args) == 1 && strings.HasSuffix(types.ExprString(call.Fun), "NewBufferString") {
					emit(call.Args[0])
				} else {
					// str := ... / str += ...
					emit(r)
				}
			}
		case *ast.ExprStmt:
			if call, ok := x.X.(*ast.CallExpr); ok {
				// a package helper that writes into the same buffer: its body is
				// part of the printer, with the arguments in place of its parameters
				if callee, _ := typeutil.Callee(p.Info, call).(*types.Func); callee != nil && !isWrite(call) && callee.Pkg() == p.Types && callee != str && depth < 2 {
					if hd := p.FuncDecls[callee]; hd != nil && hd.Body != nil && hd.Type.Params != nil && len(subst) == 0 {
						takesBuf := false
						var params []*ast.Ident
						for _, f := range hd.Type.Params.List {
							params = append(params, f.Names...)
						}
						if len(params) == len(call.Args) {
							for i, a := range call.Args {
								t := p.Info.TypeOf(a)
								if t != nil && (strings.HasSuffix(t.String(), "strings.Builder") || strings.HasSuffix(t.String(), "bytes.Buffer")) {
									takesBuf = true
								}
								if o := p.Info.Defs[params[i]]; o != nil {
									subst[o] = a
								}
							}
						}
						if takesBuf {
							walk(hd.Body)
							for k := range subst {
								delete(subst, k)
							}
							return
						}
						for k := range subst {
							delete(subst, k)
						}
					}
				}
				if isWrite(call) {
					if sel := call.Fun.(*ast.SelectorExpr); sel.Sel.Name == "Fprintf" {
						emit(call)
					} else {
						for _, a := range call.Args {
							emit(a)
						}
					}
				}
			}
		case *ast.ReturnStmt:
			for _, r := range x.Results {
				emit(r)
			}
		case *ast.DeclStmt:
		}
	}
	walk(fd.Body)
	return ev
}

func (p *Program) emitArg(a ast.Expr, verb byte, fieldOf func(ast.Expr) string, ev *[]slotEvent) {
	a = ast.Unparen(a)
	if call, ok := a.(*ast.CallExpr); ok {
		if callee, _ := typeutil.Callee(p.Info, call).(*types.Func); callee != nil {
			if c, ok := printerClass[callee.Name()]; ok {
				var arg ast.Expr
				if callee.Name() == "String" {
					if sel, ok := call.Fun.(*ast.SelectorExpr); ok {
						arg = sel.X
					}
				} else if len(call.Args) > 0 {
					arg = call.Args[0]
				}
				if arg != nil {
					if f := fieldOf(arg); f != "" {
						*ev = append(*ev, slotEvent{kind: "EMIT", field: f, class: c, pos: a.Pos()})
						return
					}
				}
			}
		}
	}
	if f := fieldOf(a); f != "" {
		cls := "RAW"
		t := p.Info.TypeOf(a)
		switch {
		case verb == 'd':
			cls = "INT"
		case t != nil && p.TypeStr(t) == "time.Duration":
			cls = "GODURATION"
		case t != nil && types.Implements(t, p.Named("Node").Underlying().(*types.Interface)):
			cls = "NODE"
		case verb == 'v' || verb == 's':
			if t != nil {
				if b, ok := t.Underlying().(*types.Basic); ok && b.Info()&types.IsString != 0 {
					cls = "RAW"
				} else {
					cls = "RAWVAL"
				}
			}
		}
		*ev = append(*ev, slotEvent{kind: "EMIT", field: f, class: cls, pos: a.Pos()})
	}
}
