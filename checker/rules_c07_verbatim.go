package main

import (
	"fmt"
	"go/constant"
	"go/types"

	"golang.org/x/tools/go/ssa"
)

// verbatimC07: the value bound to a placeholder is the caller's value, not a
// rewrite of it.
func verbatimC07(c *Ctx) {
	p := c.P
	c.Rule("C07.verbatim", "in BindValue and bindObjectValue every conversion to a bound-value kind takes the caller's value as obtained by type assertions only; the only computations allowed on the way are jsonNumberToValue, int64->float64 for the float kind and FormatDuration(time.Duration(n)) for a duration given as an integer; jsonNumberToValue returns the results of json.Number's own Int64 / Float64 unconverted")
	kinds := map[string]bool{"Identifier": true, "StringValue": true, "RegexValue": true, "NumberValue": true, "IntegerValue": true, "BooleanValue": true, "DurationValue": true}
	n := 0
	for _, name := range []string{"BindValue", "bindObjectValue"} {
		f := p.SSAFunc(p.Func(name))
		if f == nil {
			c.Unk("C07.verbatim", name, 0, "anchor not found")
			continue
		}
		seen := map[string]int{}
		for _, b := range f.Blocks {
			for _, in := range b.Instrs {
				var x ssa.Value
				var to types.Type
				switch v := in.(type) {
				case *ssa.ChangeType:
					x, to = v.X, v.Type()
				case *ssa.Convert:
					x, to = v.X, v.Type()
				default:
					continue
				}
				kind := p.TypeStr(to)
				if !kinds[kind] {
					continue
				}
				n++
				seen[kind]++
				key := fmt.Sprintf("%s: %s #%d", name, kind, seen[kind])
				why, st := traceVerbatim(p, x, kind, 0)
				// the conversion into the kind itself must not change the numeric kind
				if cv, isConv := in.(*ssa.Convert); isConv && st == 0 {
					fb, _ := cv.X.Type().Underlying().(*types.Basic)
					tb, _ := cv.Type().Underlying().(*types.Basic)
					if fb != nil && tb != nil && fb.Kind() != tb.Kind() && fb.Info()&types.IsNumeric != 0 && tb.Info()&types.IsNumeric != 0 {
						if !(fb.Kind() == types.Int64 && tb.Kind() == types.Float64 && kind == "NumberValue") {
							why, st = fmt.Sprintf("a %s is converted to the %s underlying %s", fb.Name(), tb.Name(), kind), 1
						}
					}
				}
				switch st {
				case 0:
					c.OK("C07.verbatim", key, in.Pos(), why)
				case 1:
					c.Bad("C07.verbatim", key, in.Pos(), why+": the node built for the placeholder no longer carries exactly the bound value")
				default:
					c.Unk("C07.verbatim", key, in.Pos(), why)
				}
			}
		}
	}
	c.Floor("C07.verbatim", n, 12)
	// jsonNumberToValue
	if f := p.SSAFunc(p.Func("jsonNumberToValue")); f == nil {
		c.Unk("C07.verbatim", "jsonNumberToValue", 0, "anchor not found")
	} else {
		i := 0
		for _, b := range f.Blocks {
			ret, ok := b.Instrs[len(b.Instrs)-1].(*ssa.Return)
			if !ok || len(ret.Results) != 2 {
				continue
			}
			if k, ok := ret.Results[0].(*ssa.Const); ok && k.Value == nil {
				continue // error return
			}
			i++
			key := fmt.Sprintf("jsonNumberToValue: value return #%d", i)
			mi, ok := ret.Results[0].(*ssa.MakeInterface)
			if !ok {
				c.Unk("C07.verbatim", key, ret.Pos(), "result is not a boxed value")
				continue
			}
			v := mi.X
			if _, isConv := v.(*ssa.Convert); isConv {
				c.Bad("C07.verbatim", key, ret.Pos(), "the number is converted between numeric types after parsing: integers beyond 2^53 are rounded or out-of-range values wrap instead of being reported")
				continue
			}
			ex, ok := v.(*ssa.Extract)
			var call *ssa.Call
			if ok {
				call, _ = ex.Tuple.(*ssa.Call)
			}
			if call == nil || call.Call.StaticCallee() == nil {
				c.Unk("C07.verbatim", key, ret.Pos(), "result does not come straight from a call")
				continue
			}
			cal := call.Call.StaticCallee().String()
			isInt := types.Identical(v.Type(), types.Typ[types.Int64])
			switch {
			case isInt && cal == "(encoding/json.Number).Int64", !isInt && cal == "(encoding/json.Number).Float64":
				c.OK("C07.verbatim", key, ret.Pos(), cal)
			default:
				c.Bad("C07.verbatim", key, ret.Pos(), fmt.Sprintf("a %s is produced by %s, not by json.Number's own exact parser for that kind", v.Type(), cal))
			}
		}
		if i < 2 {
			c.Unk("C07.verbatim", "jsonNumberToValue", f.Pos(), "fewer than two value returns recognised")
		}
	}
}

// traceVerbatim follows a value back to the caller's input.
// status: 0 verbatim, 1 rewritten, 2 unknown.
func traceVerbatim(p *Program, v ssa.Value, kind string, depth int) (string, int) {
	return traceVerbatimV(p, v, kind, map[ssa.Value]bool{})
}

func traceVerbatimV(p *Program, v ssa.Value, kind string, seen map[ssa.Value]bool) (string, int) {
	if seen[v] {
		return "the caller's value", 0 // a cycle through a loop phi adds nothing
	}
	seen[v] = true
	depth := 0
	traceVerbatim := func(p *Program, v ssa.Value, kind string, _ int) (string, int) {
		return traceVerbatimV(p, v, kind, seen)
	}
	switch x := v.(type) {
	case *ssa.Parameter:
		return "the caller's value", 0
	case *ssa.TypeAssert:
		return traceVerbatim(p, x.X, kind, depth+1)
	case *ssa.Extract:
		return traceVerbatim(p, x.Tuple, kind, depth+1)
	case *ssa.MakeInterface:
		return traceVerbatim(p, x.X, kind, depth+1)
	case *ssa.ChangeType:
		return traceVerbatim(p, x.X, kind, depth+1)
	case *ssa.ChangeInterface:
		return traceVerbatim(p, x.X, kind, depth+1)
	case *ssa.Next:
		return traceVerbatim(p, x.Iter, kind, depth+1)
	case *ssa.Range:
		return traceVerbatim(p, x.X, kind, depth+1)
	case *ssa.Phi:
		worst, why := 0, "the caller's value on every path"
		for _, e := range x.Edges {
			if e == ssa.Value(x) {
				continue
			}
			if k, ok := e.(*ssa.Const); ok && k.Value == nil {
				continue // zero value before the range loop
			}
			w, st := traceVerbatim(p, e, kind, depth+1)
			if st > 0 && (worst == 0 || st == 1) {
				worst, why = st, w
			}
		}
		return why, worst
	case *ssa.Convert:
		from, to := x.X.Type().Underlying(), x.Type().Underlying()
		fb, _ := from.(*types.Basic)
		tb, _ := to.(*types.Basic)
		if fb != nil && tb != nil {
			switch {
			case fb.Kind() == tb.Kind():
				return traceVerbatim(p, x.X, kind, depth+1)
			case fb.Kind() == types.Int64 && tb.Kind() == types.Float64 && kind == "NumberValue":
				return traceVerbatim(p, x.X, kind, depth+1)
			case fb.Kind() == types.Int64 && tb.Kind() == types.Int64:
				return traceVerbatim(p, x.X, kind, depth+1)
			}
			return fmt.Sprintf("numeric conversion %s -> %s on the way", fb.Name(), tb.Name()), 1
		}
		return "conversion of unknown kind", 2
	case *ssa.Call:
		cal := x.Call.StaticCallee()
		if cal == nil {
			return "dynamic call on the way", 2
		}
		switch {
		case cal.Name() == "jsonNumberToValue" && cal.Pkg == p.SPkg:
			return traceVerbatim(p, x.Call.Args[0], kind, depth+1)
		case cal.Name() == "FormatDuration" && cal.Pkg == p.SPkg && kind == "DurationValue":
			return traceVerbatim(p, x.Call.Args[0], kind, depth+1)
		}
		if cal.Pkg == p.SPkg && len(cal.Blocks) > 0 && len(seen) < 200 {
			// an in-package helper: what it returns must itself be verbatim,
			// and so must what it is given
			worst, why := 0, "through "+cal.Name()
			for _, b := range cal.Blocks {
				ret, ok := b.Instrs[len(b.Instrs)-1].(*ssa.Return)
				if !ok {
					continue
				}
				for _, res := range ret.Results {
					if k, ok := res.(*ssa.Const); ok && k.Value == nil {
						continue
					}
					if !types.Identical(res.Type(), x.Type()) {
						if tup, ok := x.Type().(*types.Tuple); !ok || tup.Len() == 0 || !types.Identical(res.Type(), tup.At(0).Type()) {
							continue
						}
					}
					w, st := traceVerbatim(p, res, kind, 0)
					if st > 0 && (worst == 0 || st == 1) {
						worst, why = st, w
					}
				}
			}
			for _, a := range x.Call.Args {
				w, st := traceVerbatim(p, a, kind, 0)
				if st > 0 && (worst == 0 || st == 1) {
					worst, why = st, w
				}
			}
			return why, worst
		}
		return "the value passes through " + cal.String(), 1
	}
	return fmt.Sprintf("value of shape %T", v), 2
}

// singleEntryC07: an object-valued parameter names its kind with exactly one
// key; with any other number of entries the choice would depend on Go's map
// iteration order.
func singleEntryC07(c *Ctx) {
	p := c.P
	c.Rule("C07.singleentry", "bindObjectValue, evaluated with the number of entries of the object bound to 0, 2 and 3, never reaches the loop that picks the (kind, value) pair and returns only an ErrorValue: the pair is taken from the map only when it is the only one")
	f := p.SSAFunc(p.Func("bindObjectValue"))
	if f == nil || len(f.Params) != 1 {
		c.Unk("C07.singleentry", "bindObjectValue", 0, "anchor not found")
		return
	}
	var lens []ssa.Value
	var ranges []*ssa.Range
	for _, b := range f.Blocks {
		for _, in := range b.Instrs {
			switch x := in.(type) {
			case *ssa.Call:
				if bi, ok := x.Call.Value.(*ssa.Builtin); ok && bi.Name() == "len" && len(x.Call.Args) == 1 && x.Call.Args[0] == ssa.Value(f.Params[0]) {
					lens = append(lens, x)
				}
			case *ssa.Range:
				if x.X == ssa.Value(f.Params[0]) {
					ranges = append(ranges, x)
				}
			}
		}
	}
	if len(lens) == 0 {
		c.Bad("C07.singleentry", "bindObjectValue: entry count", f.Pos(), "the number of entries of the object is never looked at: with several entries the kind is whichever key Go's map iteration yields last")
		return
	}
	if len(ranges) == 0 {
		c.Unk("C07.singleentry", "bindObjectValue: entry loop", f.Pos(), "no range over the object found")
		return
	}
	for _, n := range []int64{0, 2, 3} {
		s := p.newSCCP()
		s.override = map[ssa.Value]cval{}
		for _, l := range lens {
			s.override[l] = cConst(constant.MakeInt64(n))
		}
		r := s.run(f, nil, 0)
		key := fmt.Sprintf("bindObjectValue: object with %d entries", n)
		reached := false
		for _, rg := range ranges {
			if r.execB[rg.Block().Index] {
				reached = true
			}
		}
		if reached {
			c.Bad("C07.singleentry", key, ranges[0].Pos(), "the pair-picking loop is reached: the bound kind and value depend on map iteration order (or on nothing, for an empty object)")
		} else {
			c.OK("C07.singleentry", key, ranges[0].Pos(), "rejected before the loop")
		}
	}
}

// bindNonNilRule: a bound value is never the nil interface.
func bindNonNilRule(c *Ctx, rule string) {
	p := c.P
	c.Rule(rule, "BindValue and bindObjectValue return a non-nil Value on every path (a concrete kind or an ErrorValue): Parser.scan calls TokenType and Value on whatever the parameter map holds, so a nil entry is a nil-interface method call, a panic, the first time the placeholder is scanned")
	n := 0
	for _, name := range []string{"BindValue", "bindObjectValue"} {
		f := p.SSAFunc(p.Func(name))
		if f == nil {
			c.Unk(rule, name, 0, "anchor not found")
			continue
		}
		i := 0
		for _, b := range f.Blocks {
			ret, ok := b.Instrs[len(b.Instrs)-1].(*ssa.Return)
			if !ok || len(ret.Results) != 1 {
				continue
			}
			i++
			n++
			key := fmt.Sprintf("%s: return #%d", name, i)
			switch v := ret.Results[0].(type) {
			case *ssa.Const:
				if v.Value == nil {
					c.Bad(rule, key, ret.Pos(), "returns the nil Value: scanning a placeholder bound to it calls a method on a nil interface")
				} else {
					c.OK(rule, key, ret.Pos(), "constant value")
				}
			case *ssa.MakeInterface:
				c.OK(rule, key, ret.Pos(), "a concrete "+p.TypeStr(v.X.Type()))
			case *ssa.Call:
				if cal := v.Call.StaticCallee(); cal != nil && cal.Pkg == p.SPkg {
					c.OK(rule, key, ret.Pos(), "delegates to "+cal.Name()+", decided there")
				} else {
					c.Unk(rule, key, ret.Pos(), "result of a call this rule does not follow")
				}
			default:
				c.Unk(rule, key, ret.Pos(), fmt.Sprintf("result of shape %T", v))
			}
		}
	}
	c.Floor(rule, n, 10)
}

// setParamsC07: SetParams replaces the bindings, it does not add to them.
func setParamsC07(c *Ctx) {
	p := c.P
	c.Rule("C07.setparams", "Parser.SetParams stores a freshly made map into Parser.params in a block that dominates every entry it then writes: the bindings in force are exactly those of the last call, so a name the caller no longer binds is unbound (an error), not silently substituted from an earlier call")
	f := p.SSAFunc(p.Method("Parser", "SetParams"))
	if f == nil {
		c.Unk("C07.setparams", "(*Parser).SetParams", 0, "anchor not found")
		return
	}
	var fresh []*ssa.Store
	var updates []*ssa.MapUpdate
	for _, b := range f.Blocks {
		for _, in := range b.Instrs {
			switch x := in.(type) {
			case *ssa.Store:
				if fa, ok := x.Addr.(*ssa.FieldAddr); ok && fieldNameOf(fa) == "params" {
					if _, ok := x.Val.(*ssa.MakeMap); ok {
						fresh = append(fresh, x)
					}
				}
			case *ssa.MapUpdate:
				updates = append(updates, x)
			}
		}
	}
	key := "(*Parser).SetParams: bindings replaced"
	switch {
	case len(updates) == 0:
		c.Unk("C07.setparams", key, f.Pos(), "no map update found")
	case len(fresh) == 0:
		// building a local map and assigning it afterwards is the same thing
		local := false
		for _, u := range updates {
			if _, ok := u.Map.(*ssa.MakeMap); ok {
				local = true
			}
		}
		if local {
			c.OK("C07.setparams", key, f.Pos(), "entries are written into a map made in this call")
		} else {
			c.Bad("C07.setparams", key, f.Pos(), "no fresh map is stored into Parser.params: bindings of earlier calls stay in force")
		}
	default:
		ok := true
		for _, u := range updates {
			if _, isLocal := u.Map.(*ssa.MakeMap); isLocal {
				continue
			}
			dom := false
			for _, st := range fresh {
				if st.Block() == u.Block() || st.Block().Dominates(u.Block()) {
					dom = true
				}
			}
			if !dom {
				ok = false
			}
		}
		c.Check(ok, "C07.setparams", key, fresh[0].Pos(), "the fresh map is stored only on some paths (when none exists yet): a second call merges into the first call's bindings, so a name bound only earlier is still substituted")
	}
}
