package main

import (
	"fmt"
	"go/ast"
	"go/constant"
	"go/token"
	"go/types"
	"golang.org/x/tools/go/ssa"
	"golang.org/x/tools/go/types/typeutil"
	"strings"
)

func init() { register("C19", rulesC19) }

// adminStatements: the statement kinds the property names as administrative.
var adminStatements = []string{
	"CreateUserStatement", "DropUserStatement", "GrantStatement", "GrantAdminStatement",
	"RevokeStatement", "RevokeAdminStatement", "SetPasswordUserStatement",
	"ShowGrantsForUserStatement", "ShowUsersStatement",
	"CreateDatabaseStatement", "DropDatabaseStatement",
	"CreateRetentionPolicyStatement", "AlterRetentionPolicyStatement",
	"CreateSubscriptionStatement", "DropSubscriptionStatement", "ShowSubscriptionsStatement",
	"DropShardStatement", "DropMeasurementStatement", "KillQueryStatement",
	"ShowShardsStatement", "ShowShardGroupsStatement", "ShowStatsStatement", "ShowDiagnosticsStatement",
}

// privLiteral describes a composite literal ExecutionPrivileges{{...}, ...}.
type privElem struct {
	admin     string // "true", "false", "?" (non-constant)
	privilege string
	name      string
}

func (p *Program) privLiteral(e ast.Expr) ([]privElem, bool) {
	return p.privLiteralDepth(e, 0)
}

// privLiteralDepth also follows a call to an in-package helper whose body is
// one `return <literal>` and a package-level variable initialised with a
// literal (the list is then shared, which C17 decides, not this rule).
func (p *Program) privLiteralDepth(e ast.Expr, depth int) ([]privElem, bool) {
	e = ast.Unparen(e)
	if depth < 3 {
		if call, ok := e.(*ast.CallExpr); ok {
			if fn, ok := typeutil.Callee(p.Info, call).(*types.Func); ok {
				if fd := p.FuncDecls[fn]; fd != nil && fd.Body != nil && len(fd.Body.List) == 1 {
					if r, ok := fd.Body.List[0].(*ast.ReturnStmt); ok && len(r.Results) >= 1 {
						return p.privLiteralDepth(r.Results[0], depth+1)
					}
				}
			}
			return nil, false
		}
		if id, ok := e.(*ast.Ident); ok {
			if v, ok := p.Info.ObjectOf(id).(*types.Var); ok && v.Parent() == p.Pkg.Types.Scope() {
				if init := p.globalInit(v); init != nil {
					return p.privLiteralDepth(init, depth+1)
				}
			}
			return nil, false
		}
	}
	cl, ok := e.(*ast.CompositeLit)
	if !ok {
		return nil, false
	}
	if t := p.Info.TypeOf(cl); t == nil || p.TypeStr(t) != "ExecutionPrivileges" {
		return nil, false
	}
	var out []privElem
	for _, el := range cl.Elts {
		inner, ok := el.(*ast.CompositeLit)
		if !ok {
			if id, isId := ast.Unparen(el).(*ast.Ident); isId {
				if pe, ok := p.localPrivElem(id); ok {
					out = append(out, pe)
					continue
				}
			}
			out = append(out, privElem{admin: "?"})
			continue
		}
		out = append(out, p.privElem(inner))
	}
	return out, true
}

func (p *Program) privElem(inner *ast.CompositeLit) privElem {
	pe := privElem{admin: "false"}
	for _, f := range inner.Elts {
		kv, ok := f.(*ast.KeyValueExpr)
		if !ok {
			pe.admin = "?"
			continue
		}
		k := kv.Key.(*ast.Ident).Name
		switch k {
		case "Admin":
			if tv := p.Info.Types[kv.Value]; tv.Value != nil && tv.Value.Kind() == constant.Bool {
				pe.admin = fmt.Sprint(constant.BoolVal(tv.Value))
			} else if p.fieldPredicate(kv.Value) {
				pe.admin = "varies"
			} else {
				pe.admin = "?"
			}
		case "Privilege":
			pe.privilege = types.ExprString(kv.Value)
		case "Name":
			pe.name = types.ExprString(kv.Value)
		}
	}
	return pe
}

func rulesC19(c *Ctx) {
	p := c.P
	stmts := p.Implementers("Statement")
	c.Rule("C19.admin", "every return path of RequiredPrivileges of each administrative statement kind the property names yields a literal list whose entries all have Admin: true")
	c.Rule("C19.nonempty", "every return path of every statement's RequiredPrivileges yields a non-empty list: a literal with at least one entry, a delegation to another statement, or a delegation to the sources dominated by a guard that the sources are non-empty (or, for SELECT, made mandatory by the parser)")
	c.Rule("C19.recursion", "Sources.RequiredPrivileges handles every Source implementer; a measurement always contributes read on its database (no skip); a subquery contributes its statement's privileges and propagates its error; SELECT adds write on the INTO target's database; EXPLAIN delegates to its statement on every path; CREATE CONTINUOUS QUERY adds write on the target database")
	isAdmin := map[string]bool{}
	for _, a := range adminStatements {
		isAdmin[a] = true
	}
	ga := p.newGuardAnalysis()
	pe := ga.pe
	nMethods := 0
	for _, st := range stmts {
		tn := strings.TrimPrefix(p.TypeStr(st), "*")
		m := p.Method(tn, "RequiredPrivileges")
		if m == nil {
			c.Unk("C19.nonempty", tn, 0, "Statement implementer without RequiredPrivileges")
			continue
		}
		fd := p.FuncDecls[m]
		if fd == nil || fd.Body == nil {
			continue
		}
		nMethods++
		name := FuncName(m)
		// local slices built from literals/append: var -> provably non-empty?
		nret := 0
		ga.run(fd.Body, func(n ast.Node, f *facts) {
			// returns are visited as their result expressions; find the enclosing return
		})
		// walk returns with facts: use a second pass keyed by ReturnStmt
		type retInfo struct {
			r *ast.ReturnStmt
			f *facts
		}
		var rets []retInfo
		ga2 := p.newGuardAnalysis()
		seenRet := map[*ast.ReturnStmt]bool{}
		retOf := map[ast.Expr]*ast.ReturnStmt{}
		ast.Inspect(fd.Body, func(n ast.Node) bool {
			if _, ok := n.(*ast.FuncLit); ok {
				return false
			}
			if r, ok := n.(*ast.ReturnStmt); ok && (len(r.Results) == 2 || len(r.Results) == 1) {
				retOf[r.Results[0]] = r
			}
			return true
		})
		ga2.run(fd.Body, func(n ast.Node, f *facts) {
			if e, ok := n.(ast.Expr); ok {
				if r, ok := retOf[e]; ok && !seenRet[r] {
					seenRet[r] = true
					rets = append(rets, retInfo{r, f.clone()})
				}
			}
		})
		for _, ri := range rets {
			r := ri.r
			nret++
			// error return: second result non-nil
			if len(r.Results) == 2 {
				if id := identOf(r.Results[1]); id == nil || id.Name != "nil" {
					continue
				}
			}
			key := fmt.Sprintf("%s: return %s", name, types.ExprString(r.Results[0]))
			res := ast.Unparen(r.Results[0])
			if elems, ok := p.privLiteral(res); ok {
				c.Check(len(elems) >= 1, "C19.nonempty", key, r.Pos(), "an empty literal privilege list")
				if isAdmin[tn] {
					allAdmin := len(elems) >= 1
					for _, e := range elems {
						if e.admin != "true" {
							allAdmin = false
						}
					}
					unknown := false
					for _, e := range elems {
						if e.admin == "?" {
							unknown = true
						}
					}
					varies := false
					for _, e := range elems {
						if e.admin == "varies" {
							varies = true
						}
					}
					switch {
					case allAdmin:
						c.OK("C19.admin", key, r.Pos(), "every entry has Admin: true")
					case varies:
						c.Bad("C19.admin", key, r.Pos(), tn+" is an administrative statement, but the Admin flag of an entry is a comparison over the statement's own fields: statements of this kind for which it is false require no admin")
					case unknown:
						c.Unk("C19.admin", key, r.Pos(), tn+" is an administrative statement; an entry of the list is not a literal or a local built field by field, so its Admin flag is not read")
					default:
						c.Bad("C19.admin", key, r.Pos(), tn+" is an administrative statement: every entry must have Admin: true")
					}
				}
				continue
			}
			if isAdmin[tn] {
				deleg := false
				if call, ok := res.(*ast.CallExpr); ok {
					if sel, ok := call.Fun.(*ast.SelectorExpr); ok && sel.Sel.Name == "RequiredPrivileges" {
						deleg = true
					}
				}
				if deleg {
					c.Bad("C19.admin", key, r.Pos(), tn+" is an administrative statement but this path delegates to another node's privileges instead of returning an Admin: true list")
				} else {
					c.Unk("C19.admin", key, r.Pos(), tn+" is an administrative statement; this path's result is not a literal list (directly, through a one-line helper or a package-level variable)")
				}
			}
			switch x := res.(type) {
			case *ast.CallExpr:
				sel, ok := x.Fun.(*ast.SelectorExpr)
				if ok && sel.Sel.Name == "RequiredPrivileges" {
					rt := p.TypeStr(p.Info.TypeOf(sel.X))
					if rt == "Sources" {
						sp, hasPath := pe.pathOf(sel.X)
						if hasPath && ri.f.lenlb[sp] >= 1 {
							c.OK("C19.nonempty", key, r.Pos(), "delegates to the sources under a guard that they are non-empty")
						} else {
							c.Bad("C19.nonempty", key, r.Pos(), "delegates to the sources, which the parser makes optional for this statement: without FROM the list is empty")
						}
					} else {
						c.OK("C19.nonempty", key, r.Pos(), "delegates to the privileges of a "+rt)
					}
					continue
				}
				c.Unk("C19.nonempty", key, r.Pos(), "result is a call this rule does not understand")
			case *ast.Ident:
				// a local list: how was it built?
				how := p.localPrivList(fd.Body, p.Info.ObjectOf(x))
				switch how {
				case "literal":
					c.OK("C19.nonempty", key, r.Pos(), "local list starts as a non-empty literal")
				case "sources":
					if tn == "SelectStatement" || p.sourcesOfSelectOnly(fd.Body) {
						c.OK("C19.nonempty", key, r.Pos(), "list starts from the sources; FROM is mandatory for SELECT (parseSelectStatement stores parseSources unconditionally, checked by C19.recursion)")
					} else {
						c.Bad("C19.nonempty", key, r.Pos(), "list starts from the (optional) sources and may be empty")
					}
				default:
					c.Unk("C19.nonempty", key, r.Pos(), "local list of unknown construction")
				}
			default:
				c.Unk("C19.nonempty", key, r.Pos(), "result of a shape this rule does not understand")
			}
		}
		if nret == 0 {
			c.Unk("C19.nonempty", name, fd.Pos(), "no return statement found")
		}
	}
	c.Floor("C19.nonempty", nMethods, 45)
	for _, a := range adminStatements {
		if p.Method(a, "RequiredPrivileges") == nil {
			c.Unk("C19.admin", a, 0, "administrative statement type not found")
		}
	}
	c.Floor("C19.admin", c.CountRule("C19.admin"), 23)
	recursionC19(c)
	freshListC19(c)
	noFreshErrorRule(c, "C19.noerror", "RequiredPrivileges")
	appendOnlyRule(c, "C19.appendonly", "RequiredPrivileges")
	c.Rule("C19.pure", "RequiredPrivileges of a statement and of its sources (and everything they call in the package) read no mutable package-level state: the privileges required are those of the statement as it is now, not those computed for it earlier (a memo keyed by node goes stale when the default database is filled in)")
	pureRule(c, "C19.pure", "Sources.RequiredPrivileges", "SelectStatement.RequiredPrivileges", "ExplainStatement.RequiredPrivileges")
}

// localPrivList: how the local privilege list obj is first assigned.
func (p *Program) localPrivList(body *ast.BlockStmt, obj types.Object) string {
	how := ""
	ast.Inspect(body, func(n ast.Node) bool {
		as, ok := n.(*ast.AssignStmt)
		if !ok || how != "" {
			return true
		}
		for i, l := range as.Lhs {
			id := identOf(l)
			if id == nil || p.Info.ObjectOf(id) != obj {
				continue
			}
			var rhs ast.Expr
			if len(as.Rhs) == len(as.Lhs) {
				rhs = as.Rhs[i]
			} else if len(as.Rhs) == 1 {
				rhs = as.Rhs[0]
			}
			if elems, ok := p.privLiteral(rhs); ok && len(elems) >= 1 {
				how = "literal"
			} else if call, ok := rhs.(*ast.CallExpr); ok {
				if sel, ok := call.Fun.(*ast.SelectorExpr); ok && sel.Sel.Name == "RequiredPrivileges" && p.TypeStr(p.Info.TypeOf(sel.X)) == "Sources" {
					how = "sources"
				}
			}
		}
		return true
	})
	return how
}

// escapesBefore: does any statement before index i (at this nesting level)
// contain continue/break/return/goto?
func escapesBefore(stmts []ast.Stmt, i int) bool {
	esc := false
	for _, s := range stmts[:i] {
		ast.Inspect(s, func(n ast.Node) bool {
			switch n.(type) {
			case *ast.BranchStmt, *ast.ReturnStmt:
				esc = true
			case *ast.FuncLit:
				return false
			}
			return true
		})
	}
	return esc
}

// appendOf recognises `dst = append(dst, X...)` and returns X.
func appendOf(s ast.Stmt) (ast.Expr, bool, bool) {
	as, ok := s.(*ast.AssignStmt)
	if !ok || len(as.Lhs) != 1 || len(as.Rhs) != 1 {
		return nil, false, false
	}
	call, ok := as.Rhs[0].(*ast.CallExpr)
	if !ok || len(call.Args) != 2 {
		return nil, false, false
	}
	if id := identOf(call.Fun); id == nil || id.Name != "append" {
		return nil, false, false
	}
	return call.Args[1], call.Ellipsis.IsValid(), true
}

func recursionC19(c *Ctx) {
	p := c.P
	// (1) Sources.RequiredPrivileges
	m := p.Method("Sources", "RequiredPrivileges")
	fd := p.FuncDecls[m]
	if fd == nil {
		c.Unk("C19.recursion", "Sources.RequiredPrivileges", 0, "anchor not found")
		return
	}
	var ts *ast.TypeSwitchStmt
	ast.Inspect(fd.Body, func(n ast.Node) bool {
		if t, ok := n.(*ast.TypeSwitchStmt); ok && ts == nil {
			ts = t
		}
		return true
	})
	if ts == nil {
		c.Unk("C19.recursion", "Sources.RequiredPrivileges: type switch", fd.Pos(), "no type switch over the source")
		return
	}
	missing, _, _ := p.switchCoverage(ts, "Source")
	c.Check(len(missing) == 0, "C19.recursion", "Sources.RequiredPrivileges: covers every Source", ts.Pos(), "Source implementers that fall to the default arm: "+joinShort(missing))
	for _, cl := range ts.Body.List {
		cc := cl.(*ast.CaseClause)
		if len(cc.List) != 1 {
			continue
		}
		tname := p.TypeStr(p.Info.TypeOf(cc.List[0]))
		switch tname {
		case "*Measurement":
			found := false
			for i, s := range cc.Body {
				x, spread, ok := appendOf(s)
				if !ok || spread {
					continue
				}
				var e privElem
				if cl, ok := ast.Unparen(x).(*ast.CompositeLit); ok {
					e = p.privElem(cl)
				} else if id, isID := ast.Unparen(x).(*ast.Ident); isID {
					le, ok := p.localPrivElem(id)
					if !ok {
						continue
					}
					e = le
				} else {
					continue
				}
				key := "Sources.RequiredPrivileges: measurement contributes read on its database"
				okE := e.privilege == "ReadPrivilege" && strings.HasSuffix(e.name, ".Database") && e.admin == "false"
				if okE && !escapesBefore(cc.Body, i) {
					c.OK("C19.recursion", key, s.Pos(), "unconditional append of {Name: source.Database, Privilege: ReadPrivilege}")
				} else if okE {
					c.Bad("C19.recursion", key, s.Pos(), "a continue/break/return can skip the append: some measurements contribute no read privilege")
				} else {
					c.Bad("C19.recursion", key, s.Pos(), fmt.Sprintf("appends {Name: %s, Privilege: %s}", e.name, e.privilege))
				}
				found = true
			}
			if !found {
				c.Bad("C19.recursion", "Sources.RequiredPrivileges: measurement contributes read on its database", cc.Pos(), "no top-level append of a read privilege in the *Measurement arm")
			}
		case "*SubQuery":
			// privs, err := source.Statement.RequiredPrivileges(); err propagated; ep = append(ep, privs...)
			hasCall, hasErr, hasAppend := false, false, false
			for i, s := range cc.Body {
				if as, ok := s.(*ast.AssignStmt); ok && len(as.Rhs) == 1 {
					if call, ok := as.Rhs[0].(*ast.CallExpr); ok {
						if sel, ok := call.Fun.(*ast.SelectorExpr); ok && sel.Sel.Name == "RequiredPrivileges" && (strings.HasSuffix(types.ExprString(sel.X), ".Statement") || p.TypeStr(p.Info.TypeOf(sel.X)) == "*SelectStatement") {
							hasCall = true
						}
					}
				}
				if is, ok := s.(*ast.IfStmt); ok {
					if b, ok := is.Cond.(*ast.BinaryExpr); ok && b.Op == token.NEQ && types.ExprString(b.X) == "err" {
						if len(is.Body.List) == 1 {
							if r, ok := is.Body.List[0].(*ast.ReturnStmt); ok && len(r.Results) == 2 && types.ExprString(r.Results[1]) == "err" {
								hasErr = true
							}
						}
					}
				}
				if _, spread, ok := appendOf(s); ok && spread && !escapesBefore(cc.Body[:i], 0) {
					hasAppend = true
				}
				// element by element: for ... range privs { ep = append(ep, privs[i]) }
				if rs, ok := s.(*ast.RangeStmt); ok && !escapesBefore(cc.Body[:i], 0) && len(rs.Body.List) == 1 {
					if x, spread, ok := appendOf(rs.Body.List[0]); ok && !spread {
						arg := ast.Unparen(x)
						if ix, isIx := arg.(*ast.IndexExpr); isIx && types.ExprString(ix.X) == types.ExprString(rs.X) {
							hasAppend = true
						}
						if id, isID := arg.(*ast.Ident); isID && rs.Value != nil && types.ExprString(rs.Value) == id.Name {
							hasAppend = true
						}
					}
				}
			}
			if !(hasCall && hasErr && hasAppend) {
				// the call may sit in an if-initialiser, the error may be carried in a variable to one exit
				nested := false
				ast.Inspect(cc, func(m ast.Node) bool {
					if sel, ok := m.(*ast.SelectorExpr); ok && sel.Sel.Name == "RequiredPrivileges" {
						nested = true
					}
					return true
				})
				if nested {
					c.Unk("C19.recursion", "Sources.RequiredPrivileges: subquery contributes its statement's privileges", cc.Pos(),
						fmt.Sprintf("the statement's privileges are asked for, but not in the recognised call / error return / append sequence (nested call=%v error propagated=%v appended=%v)", hasCall, hasErr, hasAppend))
					continue
				}
			}
			c.Check(hasCall && hasErr && hasAppend, "C19.recursion", "Sources.RequiredPrivileges: subquery contributes its statement's privileges", cc.Pos(),
				fmt.Sprintf("nested call=%v error propagated=%v appended=%v", hasCall, hasErr, hasAppend))
		}
	}
	// (2) SelectStatement: sources + write on target
	if sm := p.Method("SelectStatement", "RequiredPrivileges"); sm != nil {
		sd := p.FuncDecls[sm]
		srcCall, write, sawAppend := false, false, false
		for i, s := range sd.Body.List {
			if as, ok := s.(*ast.AssignStmt); ok && len(as.Rhs) == 1 && i == 0 {
				if call, ok := as.Rhs[0].(*ast.CallExpr); ok {
					if sel, ok := call.Fun.(*ast.SelectorExpr); ok && sel.Sel.Name == "RequiredPrivileges" && p.TypeStr(p.Info.TypeOf(sel.X)) == "Sources" {
						srcCall = true
					}
				}
			}
			if is, ok := s.(*ast.IfStmt); ok && is.Else == nil {
				if b, ok := is.Cond.(*ast.BinaryExpr); ok && b.Op == token.NEQ && strings.HasSuffix(types.ExprString(b.X), ".Target") && types.ExprString(b.Y) == "nil" {
					for _, s2 := range is.Body.List {
						if x, _, ok := appendOf(s2); ok {
							if cl, ok := ast.Unparen(x).(*ast.CompositeLit); ok {
								e := p.privElem(cl)
								sawAppend = true
								if e.privilege == "WritePrivilege" && strings.HasSuffix(e.name, ".Target.Measurement.Database") {
									write = true
								}
							}
						}
					}
				}
			}
		}
		c.Check(srcCall, "C19.recursion", "(*SelectStatement).RequiredPrivileges: starts from the sources", sd.Pos(), "the first statement must collect the sources' privileges")
		mentionsTarget := false
		ast.Inspect(sd.Body, func(n ast.Node) bool {
			if sel, ok := n.(*ast.SelectorExpr); ok && sel.Sel.Name == "Target" {
				mentionsTarget = true
			}
			return true
		})
		wkey := "(*SelectStatement).RequiredPrivileges: write on the INTO target"
		switch {
		case write:
			c.OK("C19.recursion", wkey, sd.Pos(), "under Target != nil a WritePrivilege on Target.Measurement.Database is appended")
		case sawAppend:
			c.Bad("C19.recursion", wkey, sd.Pos(), "under Target != nil the appended entry is not a WritePrivilege on Target.Measurement.Database")
		case !mentionsTarget:
			c.Bad("C19.recursion", wkey, sd.Pos(), "the INTO target is never read: no write privilege can be required for it")
		default:
			c.Unk("C19.recursion", wkey, sd.Pos(), "the target is read but not in the form `if s.Target != nil { list = append(list, ExecutionPrivilege{...}) }`")
		}
	}
	// the parser makes FROM mandatory for SELECT
	if ps := p.Method("Parser", "parseSelectStatement"); ps != nil {
		pd := p.FuncDecls[ps]
		okSrc := false
		foundSrc := false
		for _, s := range pd.Body.List {
			ast.Inspect(s, func(n ast.Node) bool {
				as, ok := n.(*ast.AssignStmt)
				if !ok || len(as.Rhs) != 1 {
					return true
				}
				call, ok := as.Rhs[0].(*ast.CallExpr)
				if !ok {
					return true
				}
				if sel, ok := call.Fun.(*ast.SelectorExpr); ok && sel.Sel.Name == "parseSources" && len(as.Lhs) >= 1 && strings.HasSuffix(types.ExprString(as.Lhs[0]), ".Sources") {
					foundSrc = true
					// unconditional: the enclosing top-level statement is an if with this as Init, not nested in another condition
					if is, ok := s.(*ast.IfStmt); ok && is.Init == n {
						okSrc = true
					} else if s == ast.Stmt(as) {
						okSrc = true
					}
				}
				return true
			})
		}
		if foundSrc && !okSrc {
			c.Unk("C19.recursion", "(*Parser).parseSelectStatement: FROM is mandatory", pd.Pos(), "stmt.Sources is stored from parseSources under a condition; whether the other branch ends in an error is not followed")
		} else {
			c.Check(okSrc, "C19.recursion", "(*Parser).parseSelectStatement: FROM is mandatory", pd.Pos(), "stmt.Sources must be stored from parseSources unconditionally (SELECT's privilege list starts from the sources)")
		}
	}
	// (3) Explain: every return delegates
	if ef := p.SSAFunc(p.Method("ExplainStatement", "RequiredPrivileges")); ef != nil {
		n := 0
		for _, blk := range ef.Blocks {
			ret, ok := blk.Instrs[len(blk.Instrs)-1].(*ssa.Return)
			if !ok || len(ret.Results) != 2 {
				continue
			}
			n++
			key := fmt.Sprintf("(*ExplainStatement).RequiredPrivileges: return #%d delegates", n)
			v := ret.Results[0]
			if ex, ok := v.(*ssa.Extract); ok {
				if call, ok := ex.Tuple.(*ssa.Call); ok && ex.Index == 0 {
					name := ""
					var recv ssa.Value
					if call.Call.IsInvoke() {
						name, recv = call.Call.Method.Name(), call.Call.Value
					} else if cal := call.Call.StaticCallee(); cal != nil && len(call.Call.Args) > 0 {
						name, recv = cal.Name(), call.Call.Args[0]
					}
					if name == "RequiredPrivileges" && recv != nil && derivesFromField(recv, "Statement", 0) {
						c.OK("C19.recursion", key, ret.Pos(), "the explained statement's own privileges")
						continue
					}
				}
			}
			if k, ok := v.(*ssa.Const); ok && k.Value == nil {
				if ek, isC := ret.Results[1].(*ssa.Const); !isC || ek.Value != nil {
					c.OK("C19.recursion", key, ret.Pos(), "error path")
					continue
				}
			}
			if _, isSlice := v.(*ssa.Slice); isSlice {
				c.Bad("C19.recursion", key, ret.Pos(), "EXPLAIN must require exactly what the explained statement requires; this path returns a list of its own")
				continue
			}
			c.Unk("C19.recursion", key, ret.Pos(), "the returned list is not recognisably the explained statement's")
		}
		if n == 0 {
			c.Unk("C19.recursion", "(*ExplainStatement).RequiredPrivileges", ef.Pos(), "no return found")
		}
	}
	// (4) CQ: write on target database
	if cm := p.Method("CreateContinuousQueryStatement", "RequiredPrivileges"); cm != nil {
		cd := p.FuncDecls[cm]
		write := false
		ast.Inspect(cd.Body, func(nd ast.Node) bool {
			if cl, ok := nd.(*ast.CompositeLit); ok && p.TypeStr(p.Info.TypeOf(cl)) == "ExecutionPrivilege" {
				e := p.privElem(cl)
				name := e.name
				// a local holding the database name
				ast.Inspect(cd.Body, func(m ast.Node) bool {
					if as, ok := m.(*ast.AssignStmt); ok && as.Tok == token.DEFINE && len(as.Lhs) == 1 && len(as.Rhs) == 1 {
						if id, ok := as.Lhs[0].(*ast.Ident); ok && id.Name == name {
							name = types.ExprString(as.Rhs[0])
						}
					}
					return true
				})
				if e.privilege == "WritePrivilege" && strings.HasSuffix(name, ".Target.Measurement.Database") {
					write = true
				}
			}
			return true
		})
		c.Check(write, "C19.recursion", "(*CreateContinuousQueryStatement).RequiredPrivileges: write on the target database", cd.Pos(), "a WritePrivilege on Source.Target.Measurement.Database must be added")
	}
}

// globalInit returns the initialiser expression of a package-level variable.
func (p *Program) globalInit(v *types.Var) ast.Expr {
	for _, f := range p.Pkg.Syntax {
		for _, d := range f.Decls {
			gd, ok := d.(*ast.GenDecl)
			if !ok {
				continue
			}
			for _, sp := range gd.Specs {
				vs, ok := sp.(*ast.ValueSpec)
				if !ok {
					continue
				}
				for i, n := range vs.Names {
					if p.Info.Defs[n] == v && i < len(vs.Values) {
						return vs.Values[i]
					}
				}
			}
		}
	}
	return nil
}

// localPrivElem reads an ExecutionPrivilege local that is declared zero and
// then filled field by field (`var e ExecutionPrivilege; e.Admin = true; ...`)
// or defined from a literal.
func (p *Program) localPrivElem(id *ast.Ident) (privElem, bool) {
	obj := p.Info.ObjectOf(id)
	if obj == nil || p.TypeStr(obj.Type()) != "ExecutionPrivilege" {
		return privElem{}, false
	}
	var body *ast.BlockStmt
	for _, fb := range p.funcBodies() {
		if fb.Body.Pos() <= obj.Pos() && obj.Pos() < fb.Body.End() {
			body = fb.Body
		}
	}
	if body == nil {
		return privElem{}, false
	}
	pe := privElem{admin: "false"}
	whole := 0
	ast.Inspect(body, func(n ast.Node) bool {
		as, ok := n.(*ast.AssignStmt)
		if !ok {
			return true
		}
		for i, l := range as.Lhs {
			if lid, ok := l.(*ast.Ident); ok && p.Info.ObjectOf(lid) == obj {
				whole++
				if len(as.Rhs) == len(as.Lhs) {
					if cl, ok := ast.Unparen(as.Rhs[i]).(*ast.CompositeLit); ok {
						pe = p.privElem(cl)
					} else {
						pe.admin = "?"
					}
				}
				continue
			}
			sel, ok := l.(*ast.SelectorExpr)
			if !ok {
				continue
			}
			if sid := identOf(sel.X); sid == nil || p.Info.ObjectOf(sid) != obj || len(as.Rhs) != len(as.Lhs) {
				continue
			}
			switch sel.Sel.Name {
			case "Admin":
				if tv := p.Info.Types[as.Rhs[i]]; tv.Value != nil && tv.Value.Kind() == constant.Bool {
					if pe.admin == "true" || pe.admin == "false" {
						pe.admin = fmt.Sprint(constant.BoolVal(tv.Value))
					}
				} else if p.fieldPredicate(as.Rhs[i]) && pe.admin != "?" {
					pe.admin = "varies"
				} else {
					pe.admin = "?"
				}
			case "Privilege":
				pe.privilege = types.ExprString(as.Rhs[i])
			case "Name":
				pe.name = types.ExprString(as.Rhs[i])
			}
		}
		return true
	})
	if whole > 1 {
		pe.admin = "?"
	}
	return pe, true
}

// fieldPredicate: a non-constant boolean built only from comparisons of the
// fields of a method receiver or parameter with constants, joined by && || !.
func (p *Program) fieldPredicate(e ast.Expr) bool {
	sawField := false
	var ok func(e ast.Expr) bool
	ok = func(e ast.Expr) bool {
		e = ast.Unparen(e)
		if tv := p.Info.Types[e]; tv.Value != nil {
			return true
		}
		switch x := e.(type) {
		case *ast.BinaryExpr:
			switch x.Op {
			case token.LAND, token.LOR, token.EQL, token.NEQ, token.LSS, token.LEQ, token.GTR, token.GEQ:
				return ok(x.X) && ok(x.Y)
			}
			return false
		case *ast.UnaryExpr:
			return x.Op == token.NOT && ok(x.X)
		case *ast.SelectorExpr:
			if sel := p.Info.Selections[x]; sel != nil && sel.Kind() == types.FieldVal {
				if id := identOf(x.X); id != nil {
					if v, isVar := p.Info.ObjectOf(id).(*types.Var); isVar && !v.IsField() && v.Parent() != p.Types.Scope() {
						sawField = true
						return true
					}
				}
				return ok(x.X)
			}
			return false
		case *ast.Ident:
			return x.Name == "nil"
		case *ast.CallExpr:
			if id := identOf(x.Fun); id != nil && id.Name == "len" && len(x.Args) == 1 {
				return ok(x.Args[0])
			}
			return false
		}
		return false
	}
	return ok(e) && sawField
}

// freshListC19: every RequiredPrivileges answer is a list of its own, and the
// walk over the sources is not cut short.
func freshListC19(c *Ctx) {
	p := c.P
	c.Rule("C19.fresh", "no RequiredPrivileges method returns a package-level list: callers own what they get (they sort it, merge it, adjust entries), so a shared list edited by one caller — Admin cleared, a name filled in — is what every later statement of those kinds reports")
	n := 0
	for _, f := range p.allSSAFuncs() {
		if f.Name() != "RequiredPrivileges" || f.Parent() != nil {
			continue
		}
		for _, b := range f.Blocks {
			ret, ok := b.Instrs[len(b.Instrs)-1].(*ssa.Return)
			if !ok || len(ret.Results) == 0 {
				continue
			}
			n++
			if ld, ok := ret.Results[0].(*ssa.UnOp); ok {
				if g, ok := ld.X.(*ssa.Global); ok {
					c.Bad("C19.fresh", ssaFuncName(f)+": returns "+g.Name(), ret.Pos(), "the package-level list itself is handed out")
				}
			}
		}
	}
	c.OK("C19.fresh", "returns examined", 0, fmt.Sprintf("%d", n))
	c.Floor("C19.fresh", n, 40)

	c.Rule("C19.allsources", "Sources.RequiredPrivileges leaves its loop over the sources only by an error return or at the end: a successful return from inside the loop (a short-cut for the first source) drops the privileges of every source after it")
	sf := p.SSAFunc(p.Method("Sources", "RequiredPrivileges"))
	if sf == nil {
		c.Unk("C19.allsources", "Sources.RequiredPrivileges", 0, "anchor not found")
		return
	}
	m := 0
	for _, b := range sf.Blocks {
		ret, ok := b.Instrs[len(b.Instrs)-1].(*ssa.Return)
		if !ok || len(ret.Results) != 2 {
			continue
		}
		if k, isC := ret.Results[1].(*ssa.Const); !isC || !k.IsNil() {
			continue
		}
		m++
		key := fmt.Sprintf("Sources.RequiredPrivileges: successful return #%d", m)
		// which loop blocks lead (through blocks outside the loop) to this return?
		onCycle := func(x *ssa.BasicBlock) bool {
			for _, s2 := range x.Succs {
				if s2 == x || reaches(s2, x, map[int]bool{}) {
					return true
				}
			}
			return false
		}
		var header *ssa.BasicBlock
		for _, x := range sf.Blocks {
			if !onCycle(x) {
				continue
			}
			dom := true
			for _, y := range sf.Blocks {
				if onCycle(y) && !x.Dominates(y) {
					dom = false
				}
			}
			if dom {
				header = x
			}
		}
		inLoop, errExit := false, false
		seen := map[*ssa.BasicBlock]bool{}
		var back func(x *ssa.BasicBlock)
		back = func(x *ssa.BasicBlock) {
			if seen[x] {
				return
			}
			seen[x] = true
			for _, pr := range x.Preds {
				if onCycle(pr) {
					if pr != header {
						// a loop left where an error value was just tested is the error exit;
						// whether a successful return can follow it is not decided here
						errTest := false
						if ifi, ok := pr.Instrs[len(pr.Instrs)-1].(*ssa.If); ok {
							if bo, ok := ifi.Cond.(*ssa.BinOp); ok && (p.TypeStr(bo.X.Type()) == "error" || p.TypeStr(bo.Y.Type()) == "error") {
								errTest = true
							}
						}
						if errTest {
							errExit = true
						} else {
							inLoop = true
						}
					}
					continue
				}
				back(pr)
			}
		}
		back(b)
		if inLoop {
			c.Bad("C19.allsources", key, ret.Pos(), "a successful return is taken from inside the loop over the sources")
		} else if errExit {
			c.Unk("C19.allsources", key, ret.Pos(), "the loop is also left where an error was just tested; that this exit ends in the error return is not followed")
		} else {
			c.OK("C19.allsources", key, ret.Pos(), "after the loop")
		}
	}
	c.Floor("C19.allsources", m, 1)
}

// sourcesOfSelectOnly: every Sources value whose privileges the body asks for
// is the Sources field of a *SelectStatement.
func (p *Program) sourcesOfSelectOnly(body *ast.BlockStmt) bool {
	n, all := 0, true
	ast.Inspect(body, func(nd ast.Node) bool {
		call, ok := nd.(*ast.CallExpr)
		if !ok {
			return true
		}
		sel, ok := call.Fun.(*ast.SelectorExpr)
		if !ok || sel.Sel.Name != "RequiredPrivileges" {
			return true
		}
		if t := p.Info.TypeOf(sel.X); t == nil || p.TypeStr(t) != "Sources" {
			return true
		}
		n++
		src, ok := ast.Unparen(sel.X).(*ast.SelectorExpr)
		if !ok || src.Sel.Name != "Sources" {
			all = false
			return true
		}
		if t := p.Info.TypeOf(src.X); t == nil || p.TypeStr(t) != "*SelectStatement" {
			all = false
		}
		return true
	})
	return n > 0 && all
}
