package main

// E1 — table extraction by sparse conditional constant propagation over SSA
// (Wegman–Zadeck). Given constant bindings for some parameters it computes the
// executable blocks and, for every reachable return, the constant results
// (or TOP). This is abstract interpretation on the constant lattice: calls
// into the package are evaluated the same way to a bounded depth, everything
// else is TOP.

import (
	"go/constant"
	"go/token"
	"go/types"
	"strings"
	"unicode"

	"golang.org/x/tools/go/ssa"
)

type cval struct {
	k int // 0 = bottom (no value yet), 1 = constant, 2 = top
	v constant.Value
	// nilc marks the nil constant of pointer/interface/slice/map type
	nilc bool
	// sym != "" marks a symbolic non-nil reference: equal only to itself,
	// different from nil, opaque to arithmetic.
	sym string
}

func cSym(id string) cval { return cval{k: 1, sym: id} }

var (
	cBottom = cval{k: 0}
	cTop    = cval{k: 2}
)

func cConst(v constant.Value) cval { return cval{k: 1, v: v} }
func cNil() cval                   { return cval{k: 1, nilc: true} }

func (a cval) isConst() bool { return a.k == 1 }

// isPlain: an ordinary go/constant value (not nil, not symbolic).
func (a cval) isPlain() bool { return a.k == 1 && !a.nilc && a.sym == "" }

func (a cval) eq(b cval) bool {
	if a.k != b.k {
		return false
	}
	if a.k != 1 {
		return true
	}
	if a.sym != "" || b.sym != "" {
		return a.sym == b.sym
	}
	if a.nilc || b.nilc {
		return a.nilc == b.nilc
	}
	if a.v.Kind() != b.v.Kind() {
		return false
	}
	return constant.Compare(a.v, token.EQL, b.v)
}

func cmeet(a, b cval) cval {
	if a.k == 0 {
		return b
	}
	if b.k == 0 {
		return a
	}
	if a.k == 2 || b.k == 2 {
		return cTop
	}
	if a.eq(b) {
		return a
	}
	return cTop
}

func (a cval) String() string {
	switch a.k {
	case 0:
		return "⊥"
	case 2:
		return "⊤"
	}
	if a.nilc {
		return "nil"
	}
	if a.sym != "" {
		return "<" + a.sym + ">"
	}
	return a.v.ExactString()
}

type retPath struct {
	Pos     token.Pos
	Results []cval
	Instr   *ssa.Return
}

type sccp struct {
	p        *Program
	maxDepth int
	// hooks lets a rule give meaning to calls SCCP does not model
	// (e.g. a scanner read returning a fixed token). Return ok=false to decline.
	hook      func(call *ssa.Call, args []cval) (results []cval, ok bool)
	constMaps map[*ssa.Global]map[string]constant.Value
	// override binds chosen SSA values (loads, calls) to constants: the
	// "finite enumerated input" a table is extracted over.
	override map[ssa.Value]cval
	// startBlock, when non-nil, starts the propagation there instead of at the
	// function entry (used to extract automata state by state).
	startBlock *ssa.BasicBlock
}

func (p *Program) newSCCP() *sccp { return &sccp{p: p, maxDepth: 4} }

type sccpRun struct {
	s     *sccp
	f     *ssa.Function
	val   map[ssa.Value]cval
	tuple map[ssa.Value][]cval
	execE map[[2]int]bool // executable edges (from,to)
	execB map[int]bool
	depth int
}

// Eval runs SCCP on f with the given parameter bindings (missing/extra → TOP)
// and returns every reachable return.
func (s *sccp) Eval(f *ssa.Function, args []cval) []retPath {
	return s.eval(f, args, 0)
}

func (s *sccp) eval(f *ssa.Function, args []cval, depth int) []retPath {
	r := s.run(f, args, depth)
	if r == nil {
		return nil
	}
	var out []retPath
	for _, b := range f.Blocks {
		if !r.execB[b.Index] {
			continue
		}
		for _, in := range b.Instrs {
			if ret, ok := in.(*ssa.Return); ok {
				rp := retPath{Pos: ret.Pos(), Instr: ret}
				for _, x := range ret.Results {
					rp.Results = append(rp.Results, r.get(x))
				}
				out = append(out, rp)
			}
		}
	}
	return out
}

// run returns the converged state (for rules that need block reachability).
func (s *sccp) run(f *ssa.Function, args []cval, depth int) *sccpRun {
	if f == nil || len(f.Blocks) == 0 {
		return nil
	}
	r := &sccpRun{s: s, f: f, val: map[ssa.Value]cval{}, tuple: map[ssa.Value][]cval{}, execE: map[[2]int]bool{}, execB: map[int]bool{}, depth: depth}
	for i, p := range f.Params {
		if i < len(args) && args[i].k != 0 {
			r.val[p] = args[i]
		} else {
			r.val[p] = cTop
		}
	}
	for _, fv := range f.FreeVars {
		r.val[fv] = cTop
	}
	if s.startBlock != nil && depth == 0 {
		r.execB[s.startBlock.Index] = true
	} else {
		r.execB[0] = true
	}
	for iter := 0; iter < 10000; iter++ {
		changed := false
		for _, b := range f.Blocks {
			if !r.execB[b.Index] {
				continue
			}
			for _, in := range b.Instrs {
				if r.step(b, in) {
					changed = true
				}
			}
		}
		if !changed {
			break
		}
	}
	return r
}

func (r *sccpRun) get(v ssa.Value) cval {
	switch x := v.(type) {
	case *ssa.Const:
		if x.Value == nil {
			// zero value: nil for pointer-likes, else typed zero
			switch t := x.Type().Underlying().(type) {
			case *types.Basic:
				switch {
				case t.Info()&types.IsBoolean != 0:
					return cConst(constant.MakeBool(false))
				case t.Info()&types.IsString != 0:
					return cConst(constant.MakeString(""))
				case t.Info()&types.IsNumeric != 0:
					return cConst(constant.MakeInt64(0))
				}
				return cNil()
			default:
				return cNil()
			}
		}
		return cConst(x.Value)
	case *ssa.Function, *ssa.Builtin, *ssa.Global:
		return cTop
	}
	if c, ok := r.val[v]; ok {
		return c
	}
	return cBottom
}

func (r *sccpRun) set(v ssa.Value, c cval) bool {
	old, ok := r.val[v]
	if ok {
		c = cmeet(old, c)
		if old.eq(c) {
			return false
		}
	} else if c.k == 0 {
		return false
	}
	r.val[v] = c
	return true
}

func (r *sccpRun) markEdge(from, to *ssa.BasicBlock) bool {
	k := [2]int{from.Index, to.Index}
	ch := false
	if !r.execE[k] {
		r.execE[k] = true
		ch = true
	}
	if !r.execB[to.Index] {
		r.execB[to.Index] = true
		ch = true
	}
	return ch
}

func isBoolConst(c cval) (bool, bool) {
	if c.k == 1 && !c.nilc && c.sym == "" && c.v.Kind() == constant.Bool {
		return constant.BoolVal(c.v), true
	}
	return false, false
}

func (r *sccpRun) step(b *ssa.BasicBlock, in ssa.Instruction) bool {
	if v, ok := in.(ssa.Value); ok && r.s.override != nil {
		if c, ok := r.s.override[v]; ok {
			return r.set(v, c)
		}
	}
	switch x := in.(type) {
	case *ssa.If:
		c := r.get(x.Cond)
		if bv, ok := isBoolConst(c); ok {
			if bv {
				return r.markEdge(b, b.Succs[0])
			}
			return r.markEdge(b, b.Succs[1])
		}
		if c.k == 0 {
			return false
		}
		ch := r.markEdge(b, b.Succs[0])
		return r.markEdge(b, b.Succs[1]) || ch
	case *ssa.Jump:
		return r.markEdge(b, b.Succs[0])
	case *ssa.Phi:
		c := cBottom
		for i, e := range x.Edges {
			if r.execE[[2]int{b.Preds[i].Index, b.Index}] {
				ev := r.get(e)
				// edge refinement: the predecessor branches on this very value,
				// so on this edge it is the branch's constant
				if ifi, ok := b.Preds[i].Instrs[len(b.Preds[i].Instrs)-1].(*ssa.If); ok && ifi.Cond == e && ev.k != 0 && b.Preds[i].Succs[0] != b.Preds[i].Succs[1] {
					ev = cConst(constant.MakeBool(b.Preds[i].Succs[0] == b))
				}
				c = cmeet(c, ev)
			}
		}
		return r.set(x, c)
	case *ssa.BinOp:
		return r.set(x, binop(x.Op, r.get(x.X), r.get(x.Y), x.X.Type()))
	case *ssa.UnOp:
		a := r.get(x.X)
		switch x.Op {
		case token.NOT, token.SUB, token.XOR:
			if a.k == 1 && !a.nilc && a.sym == "" {
				defer func() { recover() }()
				return r.set(x, cConst(constant.UnaryOp(x.Op, a.v, 0)))
			}
			if a.k == 0 {
				return false
			}
			return r.set(x, cTop)
		}
		return r.set(x, cTop) // loads
	case *ssa.Convert:
		return r.set(x, convertConst(r.get(x.X), x.Type()))
	case *ssa.ChangeType:
		return r.set(x, r.get(x.X))
	case *ssa.MakeInterface:
		return r.set(x, r.get(x.X))
	case *ssa.ChangeInterface:
		return r.set(x, r.get(x.X))
	case *ssa.TypeAssert:
		if !x.CommaOk {
			return r.set(x, r.get(x.X))
		}
		return r.set(x, cTop)
	case *ssa.Call:
		return r.call(x)
	case *ssa.Extract:
		if t, ok := r.tuple[x.Tuple]; ok && x.Index < len(t) {
			return r.set(x, t[x.Index])
		}
		if _, pending := x.Tuple.(*ssa.Call); pending {
			if _, seen := r.val[x.Tuple]; !seen {
				return false
			}
		}
		return r.set(x, cTop)
	case *ssa.Lookup:
		// v, ok := table[k] on a package-level table that is filled once from constants
		if x.CommaOk {
			if ld, ok := x.X.(*ssa.UnOp); ok {
				if g, ok := ld.X.(*ssa.Global); ok {
					if tab, ok := r.s.constMap(g); ok {
						k := r.get(x.Index)
						if k.k == 0 {
							return false
						}
						if k.isPlain() {
							if tup, isTup := x.Type().(*types.Tuple); isTup && tup.Len() == 2 {
								v, has := tab[k.v.ExactString()]
								val := cTop
								if has {
									val = cConst(v)
								} else if zero := zeroConst(tup.At(0).Type()); zero != nil {
									val = cConst(zero)
								}
								old, seen := r.tuple[x]
								nt := []cval{val, cConst(constant.MakeBool(has))}
								r.tuple[x] = nt
								ch := !seen || len(old) != 2 || !old[0].eq(nt[0]) || !old[1].eq(nt[1])
								r.val[x] = cTop
								return ch
							}
						}
					}
				}
			}
			return r.set(x, cTop)
		}
		// a read of a package-level table that is filled once from constants
		if !x.CommaOk {
			if ld, ok := x.X.(*ssa.UnOp); ok {
				if g, ok := ld.X.(*ssa.Global); ok {
					if tab, ok := r.s.constMap(g); ok {
						k := r.get(x.Index)
						if k.k == 0 {
							return false
						}
						if k.isPlain() {
							if v, has := tab[k.v.ExactString()]; has {
								return r.set(x, cConst(v))
							}
							if zero := zeroConst(x.Type()); zero != nil {
								return r.set(x, cConst(zero))
							}
						}
					}
				}
			}
		}
		return r.set(x, cTop)
	case ssa.Value:
		return r.set(x, cTop)
	}
	return false
}

func zeroConst(t types.Type) constant.Value {
	if b, ok := t.Underlying().(*types.Basic); ok {
		switch {
		case b.Info()&types.IsInteger != 0:
			return constant.MakeInt64(0)
		case b.Info()&types.IsBoolean != 0:
			return constant.MakeBool(false)
		case b.Info()&types.IsString != 0:
			return constant.MakeString("")
		}
	}
	return nil
}

// constMap: the contents of a package-level map that package initialisation
// builds from constant keys and values and that nothing else writes.
func (s *sccp) constMap(g *ssa.Global) (map[string]constant.Value, bool) {
	if s.constMaps == nil {
		s.constMaps = map[*ssa.Global]map[string]constant.Value{}
	}
	if t, ok := s.constMaps[g]; ok {
		return t, t != nil
	}
	s.constMaps[g] = nil
	initf := s.p.SPkg.Func("init")
	if initf == nil {
		return nil, false
	}
	var mk *ssa.MakeMap
	for _, b := range initf.Blocks {
		for _, in := range b.Instrs {
			if st, ok := in.(*ssa.Store); ok && st.Addr == ssa.Value(g) {
				m, ok := st.Val.(*ssa.MakeMap)
				if !ok || mk != nil {
					return nil, false
				}
				mk = m
			}
		}
	}
	if mk == nil {
		return nil, false
	}
	tab := map[string]constant.Value{}
	for _, ref := range *mk.Referrers() {
		switch x := ref.(type) {
		case *ssa.MapUpdate:
			k, ok1 := x.Key.(*ssa.Const)
			v, ok2 := x.Value.(*ssa.Const)
			if !ok1 || !ok2 || k.Value == nil || v.Value == nil || x.Block() != mk.Block() {
				return nil, false
			}
			tab[k.Value.ExactString()] = v.Value
		case *ssa.Store:
		default:
			return nil, false
		}
	}
	// nothing outside init touches it except reads
	for _, m := range s.p.SPkg.Members {
		fn, ok := m.(*ssa.Function)
		if !ok {
			continue
		}
		fns := append([]*ssa.Function{fn}, fn.AnonFuncs...)
		for _, f := range fns {
			if f == initf {
				continue
			}
			for _, b := range f.Blocks {
				for _, in := range b.Instrs {
					for _, op := range in.Operands(nil) {
						if *op != ssa.Value(g) {
							continue
						}
						ld, ok := in.(*ssa.UnOp)
						if !ok {
							return nil, false
						}
						for _, r := range *ld.Referrers() {
							if lk, ok := r.(*ssa.Lookup); !ok || lk.X != ssa.Value(ld) {
								return nil, false
							}
						}
					}
				}
			}
		}
	}
	s.constMaps[g] = tab
	return tab, true
}

func binop(op token.Token, a, b cval, operandType types.Type) (out cval) {
	if a.k == 0 || b.k == 0 {
		return cBottom
	}
	if a.k == 2 || b.k == 2 {
		return cTop
	}
	defer func() {
		if recover() != nil {
			out = cTop
		}
	}()
	if a.sym != "" || b.sym != "" {
		same := a.sym == b.sym
		if op == token.EQL {
			return cConst(constant.MakeBool(same))
		}
		if op == token.NEQ {
			return cConst(constant.MakeBool(!same))
		}
		return cTop
	}
	if a.nilc || b.nilc {
		if op == token.EQL {
			return cConst(constant.MakeBool(a.nilc && b.nilc))
		}
		if op == token.NEQ {
			return cConst(constant.MakeBool(!(a.nilc && b.nilc)))
		}
		return cTop
	}
	switch op {
	case token.EQL, token.NEQ, token.LSS, token.LEQ, token.GTR, token.GEQ:
		return cConst(constant.MakeBool(constant.Compare(a.v, op, b.v)))
	case token.SHL, token.SHR:
		s, ok := constant.Uint64Val(b.v)
		if !ok {
			return cTop
		}
		return cConst(constant.Shift(a.v, op, uint(s)))
	case token.QUO:
		if isIntegerType(operandType) {
			if constant.Sign(b.v) == 0 {
				return cTop
			}
			return cConst(constant.BinaryOp(a.v, token.QUO_ASSIGN, b.v))
		}
	case token.REM:
		if constant.Sign(b.v) == 0 {
			return cTop
		}
	}
	return cConst(constant.BinaryOp(a.v, op, b.v))
}

func convertConst(a cval, t types.Type) cval {
	if a.k != 1 || a.nilc || a.sym != "" {
		return a
	}
	b, ok := t.Underlying().(*types.Basic)
	if !ok {
		return cTop
	}
	switch {
	case b.Info()&types.IsInteger != 0:
		v := constant.ToInt(a.v)
		if v.Kind() == constant.Int {
			return cConst(v)
		}
		if a.v.Kind() == constant.Float {
			f, _ := constant.Float64Val(a.v)
			return cConst(constant.MakeInt64(int64(f)))
		}
		return cTop
	case b.Info()&types.IsFloat != 0:
		return cConst(constant.ToFloat(a.v))
	case b.Info()&types.IsString != 0:
		if a.v.Kind() == constant.String {
			return a
		}
		if a.v.Kind() == constant.Int {
			n, _ := constant.Int64Val(a.v)
			return cConst(constant.MakeString(string(rune(n))))
		}
	}
	return cTop
}

func (r *sccpRun) call(x *ssa.Call) bool {
	args := make([]cval, len(x.Call.Args))
	anyBottom := false
	for i, a := range x.Call.Args {
		args[i] = r.get(a)
		if args[i].k == 0 {
			anyBottom = true
		}
	}
	if anyBottom {
		return false
	}
	setResults := func(res []cval) bool {
		if len(res) > 0 && res[0].k == 0 {
			return false // the hook says: stop here (value undefined)
		}
		if len(res) == 1 {
			return r.set(x, res[0])
		}
		old, ok := r.tuple[x]
		ch := false
		if !ok {
			old = make([]cval, len(res))
		}
		nw := make([]cval, len(res))
		for i := range res {
			nw[i] = cmeet(old[i], res[i])
			if !ok || !nw[i].eq(old[i]) {
				ch = true
			}
		}
		r.tuple[x] = nw
		if _, seen := r.val[x]; !seen {
			r.val[x] = cTop
			ch = true
		}
		return ch
	}
	if r.s.hook != nil {
		if res, ok := r.s.hook(x, args); ok {
			return setResults(res)
		}
	}
	nres := 1
	if t, ok := x.Type().(*types.Tuple); ok {
		nres = t.Len()
	}
	top := make([]cval, nres)
	for i := range top {
		top[i] = cTop
	}
	if b, ok := x.Call.Value.(*ssa.Builtin); ok {
		if b.Name() == "len" && len(args) == 1 && args[0].isPlain() && args[0].v.Kind() == constant.String {
			return r.set(x, cConst(constant.MakeInt64(int64(len(constant.StringVal(args[0].v))))))
		}
		if b.Name() == "len" {
			if a, ok := x.Call.Args[0].Type().Underlying().(*types.Array); ok {
				return r.set(x, cConst(constant.MakeInt64(a.Len())))
			}
			if pt, ok := x.Call.Args[0].Type().Underlying().(*types.Pointer); ok {
				if a, ok := pt.Elem().Underlying().(*types.Array); ok {
					return r.set(x, cConst(constant.MakeInt64(a.Len())))
				}
			}
		}
		return setResults(top)
	}
	callee := x.Call.StaticCallee()
	if callee == nil {
		return setResults(top)
	}
	if callee.Pkg != nil && callee.Pkg.Pkg.Path() == "strings" && len(args) == 1 && args[0].isPlain() && args[0].v.Kind() == constant.String {
		s := constant.StringVal(args[0].v)
		switch callee.Name() {
		case "ToLower":
			return r.set(x, cConst(constant.MakeString(strings.ToLower(s))))
		case "ToUpper":
			return r.set(x, cConst(constant.MakeString(strings.ToUpper(s))))
		}
	}
	// pure predicates and mappings of package unicode, folded on a constant rune
	if callee.Pkg != nil && callee.Pkg.Pkg.Path() == "unicode" && len(args) == 1 && args[0].isPlain() && args[0].v.Kind() == constant.Int {
		n, _ := constant.Int64Val(args[0].v)
		ch := rune(n)
		switch callee.Name() {
		case "IsSpace":
			return r.set(x, cConst(constant.MakeBool(unicode.IsSpace(ch))))
		case "IsLetter":
			return r.set(x, cConst(constant.MakeBool(unicode.IsLetter(ch))))
		case "IsDigit":
			return r.set(x, cConst(constant.MakeBool(unicode.IsDigit(ch))))
		case "IsUpper":
			return r.set(x, cConst(constant.MakeBool(unicode.IsUpper(ch))))
		case "IsLower":
			return r.set(x, cConst(constant.MakeBool(unicode.IsLower(ch))))
		case "IsPunct":
			return r.set(x, cConst(constant.MakeBool(unicode.IsPunct(ch))))
		case "IsControl":
			return r.set(x, cConst(constant.MakeBool(unicode.IsControl(ch))))
		case "ToLower":
			return r.set(x, cConst(constant.MakeInt64(int64(unicode.ToLower(ch)))))
		case "ToUpper":
			return r.set(x, cConst(constant.MakeInt64(int64(unicode.ToUpper(ch)))))
		}
	}
	if callee.Pkg == nil || callee.Pkg.Pkg != r.s.p.Types || len(callee.Blocks) == 0 || r.depth >= r.s.maxDepth {
		return setResults(top)
	}
	// only worth inlining when some argument is known
	known := false
	for _, a := range args {
		if a.k == 1 {
			known = true
		}
	}
	if !known && len(args) > 0 {
		return setResults(top)
	}
	rets := r.s.eval(callee, args, r.depth+1)
	if len(rets) == 0 {
		return setResults(top) // diverges or panics on every path
	}
	res := make([]cval, nres)
	for _, rp := range rets {
		for i := 0; i < nres && i < len(rp.Results); i++ {
			res[i] = cmeet(res[i], rp.Results[i])
		}
	}
	for i := range res {
		if res[i].k == 0 {
			res[i] = cTop
		}
	}
	return setResults(res)
}
