package main

import (
	"go/ast"
	"go/constant"
	"go/types"
	"sort"
)

// tokenTable is the package's Token enumeration and its spelling table, read
// from the type-checked declarations (never from text).
type tokenTable struct {
	Type       types.Type
	ByName     map[string]int64
	Name       map[int64]string
	Spelling   map[int64]string // tokens[...] entries
	BySpelling map[string]int64
	Values     []int64
	TableLen   int64 // len(tokens)
}

func (p *Program) tokenTable() *tokenTable {
	tt := &tokenTable{ByName: map[string]int64{}, Name: map[int64]string{}, Spelling: map[int64]string{}, BySpelling: map[string]int64{}}
	tn := p.Named("Token")
	if tn == nil {
		return nil
	}
	tt.Type = tn
	sc := p.Types.Scope()
	for _, n := range sc.Names() {
		c, ok := sc.Lookup(n).(*types.Const)
		if !ok || !types.Identical(c.Type(), tn) {
			continue
		}
		v, ok := constant.Int64Val(c.Val())
		if !ok {
			continue
		}
		tt.ByName[n] = v
		// marker constants (operatorBeg...) share no value with real tokens
		if _, dup := tt.Name[v]; !dup || n[0] >= 'A' && n[0] <= 'Z' {
			tt.Name[v] = n
		}
		tt.Values = append(tt.Values, v)
	}
	sort.Slice(tt.Values, func(i, j int) bool { return tt.Values[i] < tt.Values[j] })
	// spelling table
	g := p.Global("tokens")
	if g == nil {
		return nil
	}
	if a, ok := g.Type().Underlying().(*types.Array); ok {
		tt.TableLen = a.Len()
	}
	for _, f := range p.Pkg.Syntax {
		ast.Inspect(f, func(n ast.Node) bool {
			vs, ok := n.(*ast.ValueSpec)
			if !ok {
				return true
			}
			for i, name := range vs.Names {
				if p.Info.Defs[name] != g || i >= len(vs.Values) {
					continue
				}
				cl, ok := vs.Values[i].(*ast.CompositeLit)
				if !ok {
					continue
				}
				for _, el := range cl.Elts {
					kv, ok := el.(*ast.KeyValueExpr)
					if !ok {
						continue
					}
					ktv, vtv := p.Info.Types[kv.Key], p.Info.Types[kv.Value]
					if ktv.Value == nil || vtv.Value == nil {
						continue
					}
					k, _ := constant.Int64Val(constant.ToInt(ktv.Value))
					s := constant.StringVal(vtv.Value)
					tt.Spelling[k] = s
					tt.BySpelling[s] = k
				}
			}
			return true
		})
	}
	return tt
}

func (tt *tokenTable) cv(name string) cval {
	return cConst(constant.MakeInt64(tt.ByName[name]))
}

// evalConstInt evaluates f(args) and returns the constant int result when every
// reachable return agrees on one.
func (s *sccp) evalConstInt(f *types.Func, args ...cval) (int64, bool) {
	c, ok := s.evalConst(f, args...)
	if !ok || !c.isPlain() || c.v.Kind() != constant.Int {
		return 0, false
	}
	n, ok := constant.Int64Val(c.v)
	return n, ok
}

func (s *sccp) evalConst(f *types.Func, args ...cval) (cval, bool) {
	sf := s.p.SSA.FuncValue(f)
	if sf == nil {
		return cTop, false
	}
	rets := s.Eval(sf, args)
	if len(rets) == 0 {
		return cTop, false
	}
	out := cBottom
	for _, r := range rets {
		if len(r.Results) < 1 {
			return cTop, false
		}
		out = cmeet(out, r.Results[0])
	}
	return out, out.k == 1
}

func (s *sccp) evalConstBool(f *types.Func, args ...cval) (bool, bool) {
	c, ok := s.evalConst(f, args...)
	if !ok {
		return false, false
	}
	return isBoolConst(c)
}
