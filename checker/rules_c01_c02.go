package main

import (
	"fmt"
	"go/ast"
	"go/token"
	"go/types"
	"os"
	"sort"
	"strings"
)

func init() {
	register("C01", rulesC01)
	register("C02", rulesC02)
}

// slotExceptions: "Type.Field" -> reason, for obligations that do not apply.
var slotExceptions = map[string]string{
	"SelectStatement.IsRawQuery":        "derived from the fields by the parser, not a clause",
	"SelectStatement.Fill":              "printed as the fill option keyword chosen by a switch on the option",
	"SortField.Name":                    "the parser admits only the name time (parseSortFields rejects any other), so no quoting is needed",
	"CreateSubscriptionStatement.Mode":  "a keyword (ALL / ANY) stored from the token table",
	"VarRef.Val":                        "built from the identifier segments by strings.Join and printed through QuoteIdent",
	"VarRef.Type":                       "a data type name printed through DataType.String",
	"Call.Args":                         "arguments are printed through their own String methods",
	"RegexLiteral.Val":                  "printed between slashes with the slash escaped (C02.formatters)",
	"Query.Statements":                  "statements are printed through their own String methods",
	"Measurement.Regex":                 "printed through RegexLiteral.String",
	"Measurement.IsTarget":              "a flag the parser sets on INTO targets; not a printed clause",
	"CreateUserStatement.Password":      "redacted by design (C15)",
	"SetPasswordUserStatement.Password": "redacted by design (C15)",
}

// orderExempt: node types whose parse function does not fill fields in clause order.
var orderExempt = map[string]string{
	"Measurement": "segmented name: database, policy and name are assigned from the identifier list by its length",
}

type pairing struct {
	fn *types.Func
	T  *types.Named
}

// slotPairs: every (parser method, AST struct it builds) pair.
func (p *Program) slotPairs() []pairing {
	nodeT := p.Named("Node")
	if nodeT == nil {
		return nil
	}
	nodeI := nodeT.Underlying().(*types.Interface)
	var out []pairing
	for _, f := range p.SortedFuncs() {
		if recvTypeName(f) != "Parser" {
			continue
		}
		fd := p.FuncDecls[f]
		if fd.Body == nil {
			continue
		}
		seen := map[*types.Named]bool{}
		ast.Inspect(fd.Body, func(n ast.Node) bool {
			cl, ok := n.(*ast.CompositeLit)
			if !ok {
				return true
			}
			nt, ok := p.Info.TypeOf(cl).(*types.Named)
			if !ok || nt.Obj().Pkg() != p.Types || seen[nt] {
				return true
			}
			if _, ok := nt.Underlying().(*types.Struct); !ok {
				return true
			}
			if !types.Implements(types.NewPointer(nt), nodeI) && !types.Implements(nt, nodeI) {
				return true
			}
			if p.Method(nt.Obj().Name(), "String") == nil {
				return true
			}
			if litT := p.Named("Literal"); litT != nil && types.Implements(types.NewPointer(nt), litT.Underlying().(*types.Interface)) {
				return true // literal nodes: their formatters are checked by the formatter rules
			}
			seen[nt] = true
			out = append(out, pairing{f, nt})
			return true
		})
	}
	return out
}

var identClasses = map[string]bool{"IDENT": true, "IDENTLIST": true}
var stringClasses = map[string]bool{"STRING": true, "STRINGLIST": true}

// effectiveClass refines LIT / scan-result classes by the guard keyword.
func effectiveClass(ev []slotEvent, i int) string {
	c := ev[i].class
	if c == "LIT" || strings.HasPrefix(c, "CALL:Scan") {
		for j := i - 1; j >= 0; j-- {
			if ev[j].kind == "KW" {
				switch ev[j].word {
				case "IDENT":
					return "IDENT"
				case "STRING":
					return "STRING"
				case "DURATIONVAL":
					return "DURATION"
				case "INTEGER":
					return "INT"
				}
			} else if ev[j].kind == "STORE" {
				break
			}
		}
	}
	return c
}

// slotAgreement runs the four agreement obligations; which selects the rules
// reported ("coverage", "class", "keyword", "order").
func slotAgreement(c *Ctx, prop string, which map[string]bool) {
	p := c.P
	tt := p.tokenTable()
	if tt == nil {
		c.Unk(prop+".coverage", "Token", 0, "token table not found")
		return
	}
	R := func(s string) string { return prop + "." + s }
	c.Rule(R("coverage"), "every field a parse function stores into an AST node is read by that node's String method: a clause the parser fills and the printer never looks at is lost on printing (listed derived/API-only fields excepted)")
	c.Rule(R("class"), "a field is printed through the formatter whose output the parser's reader for that slot accepts: identifiers through QuoteIdent, strings through QuoteString, durations through FormatDuration, integers through integer formatting, nodes through their own String; a raw identifier or Go-formatted duration does not parse back")
	c.Rule(R("keyword"), "the keyword the printer writes in front of a field is one of the keywords the parser consumes in front of the store into that field (LIMIT/SLIMIT, OFFSET/SOFFSET, FUTURE/PAST ... are not cross-wired on either side)")
	c.Rule(R("order"), "for parse functions that accept clauses in one fixed order, the printer emits the fields in the order the parser stores them (shallow, unconditional-order stores only; option loops are exempt)")
	c.Rule(R("guards"), "the printer does not make one clause's output depend on another clause the parser reads independently: when String writes field F only inside `if <other fields>` and the parser fills F and each of those fields from separate optional clauses with their own keywords, a statement with F but without them prints without F")
	nPairs, nClassified := 0, 0
	for _, pr := range p.slotPairs() {
		tname := pr.T.Obj().Name()
		str := p.Method(tname, "String")
		if which["coverage"] {
			for _, pg := range p.pointeeGuards(str) {
				key := fmt.Sprintf("%s.String: %s printed only for some values", tname, pg.field)
				c.Bad(R("guards"), key, pg.cond.Pos(), fmt.Sprintf("the optional clause is recorded by a non-nil pointer, yet it is printed only when `%s`: a clause written with the excluded value (FUTURE LIMIT 0s) is accepted, stored and then dropped by the printer, and what is left may not even parse", types.ExprString(pg.cond)))
			}
			sites := p.parseStoreSites(pr.fn, pr.T, tt)
			for _, g := range p.printGuards(str) {
				for _, set := range g.sets {
					hasSelf, allIndep := false, len(set) > 0
					for _, G := range set {
						if G == g.field {
							hasSelf = true
							continue
						}
						if ind, _ := independentClauses(sites, g.field, G); !ind {
							allIndep = false
						}
					}
					if hasSelf || len(set) == 0 {
						continue
					}
					key := fmt.Sprintf("%s.String: %s written only under %v", tname, g.field, set)
					if allIndep {
						c.Bad(R("guards"), key, g.pos.Pos(), fmt.Sprintf("%s reads %s and %v as independent optional clauses: a statement with %s alone loses it on printing", FuncName(pr.fn), g.field, set, g.field))
					} else {
						c.OK(R("guards"), key, g.pos.Pos(), "the guarding field is filled together with or on the way to "+g.field)
					}
				}
			}
		}
		pe := p.parseEvents(pr.fn, pr.T, tt)
		qe := p.printEvents(str)
		nStores := 0
		for _, e := range pe {
			if e.kind == "STORE" {
				nStores++
			}
		}
		if nStores == 0 {
			continue
		}
		nPairs++
		fname := FuncName(pr.fn)
		// print-side index
		printed := map[string][]int{}
		for i, e := range qe {
			if e.kind == "EMIT" || e.kind == "READ" {
				printed[e.field] = append(printed[e.field], i)
			}
		}
		firstStore := map[string]int{}
		for i, e := range pe {
			if e.kind == "STORE" {
				if _, ok := firstStore[e.field]; !ok {
					firstStore[e.field] = i
				}
			}
		}
		fields := make([]string, 0, len(firstStore))
		for f := range firstStore {
			fields = append(fields, f)
		}
		sort.Slice(fields, func(i, j int) bool { return firstStore[fields[i]] < firstStore[fields[j]] })
		for _, f := range fields {
			qual := tname + "." + f
			why, excepted := slotExceptions[qual]
			si := firstStore[f]
			// ---- coverage ----
			if which["coverage"] {
				key := fmt.Sprintf("%s: %s stored by %s", tname, f, fname)
				switch {
				case len(printed[f]) > 0:
					c.OK(R("coverage"), key, pe[si].pos, "read by "+tname+".String")
				case excepted:
					c.OK(R("coverage"), key, pe[si].pos, "exception: "+why)
				case p.helperReadsField(str, f, 0):
					c.OK(R("coverage"), key, pe[si].pos, "read by a helper method that "+tname+".String calls on the node")
				default:
					c.Bad(R("coverage"), key, pe[si].pos, "the parser stores "+qual+" but "+tname+".String never reads it: the clause is dropped when the statement is printed")
				}
			}
			if len(printed[f]) == 0 {
				continue
			}
			// the emitting occurrence (not just a condition read)
			ei := -1
			for _, i := range printed[f] {
				if qe[i].kind == "EMIT" {
					ei = i
					break
				}
			}
			// ---- class ----
			if which["class"] && ei >= 0 {
				// every store of this field
				for i, e := range pe {
					if e.kind != "STORE" || e.field != f {
						continue
					}
					pc := effectiveClass(pe, i)
					qc := qe[ei].class
					key := fmt.Sprintf("%s.String: %s", tname, f)
					if excepted {
						c.OK(R("class"), key, qe[ei].pos, "exception: "+why)
						nClassified++
						break
					}
					bad := ""
					switch {
					case identClasses[pc] && qc != "IDENT":
						bad = "an identifier slot printed as " + qc + " (not through QuoteIdent): a name that needs quotes does not parse back"
					case stringClasses[pc] && qc != "STRING":
						bad = "a string slot printed as " + qc + " (not through QuoteString)"
					case pc == "LOCATION" && qc != "STRING":
						bad = "the zone name is read from a string literal but written as " + qc + " between hand-placed quotes (not through QuoteString): a name containing a quote ends the literal early"
					case pc == "DURATION" && qc != "DURATION":
						bad = "a duration slot printed as " + qc + " (not through FormatDuration)"
					case (pc == "INT" || pc == "UINT") && qc != "INT" && qc != "UINT":
						bad = "an integer slot printed as " + qc
					case pc == "NODE" && qc != "NODE" && !strings.HasPrefix(qc, "CALL:") && !func() bool {
						// a special form for one dynamic kind (a string literal written as
						// a name) beside the general node print is not a class mismatch
						for _, k := range printed[f] {
							if qe[k].kind == "EMIT" && (qe[k].class == "NODE" || strings.HasPrefix(qe[k].class, "CALL:")) {
								return true
							}
						}
						return false
					}():
						bad = "a node slot printed as " + qc
					case identClasses[pc], stringClasses[pc], pc == "DURATION", pc == "INT", pc == "UINT", pc == "NODE", pc == "LOCATION":
					case qc == "RAW":
						bad = "a text slot written raw (through no formatter at all): whatever the parser accepted there — a quoted name, a keyword — is printed unquoted"
					case qc == "RAWVAL" && fieldIsEmptyInterface(pr.T, f) && !floatExcluded(p, str, qe[ei].pos, f):
						bad = "a slot of type interface{} printed with a fmt verb: a float64 without a fraction prints like an integer (3.0 as 3) and parses back as an int64, so the value's kind changes across print/parse"
					default:
						continue // unclassified producer: coverage/keyword/order only
					}
					nClassified++
					if bad != "" {
						c.Bad(R("class"), key, qe[ei].pos, bad)
					} else {
						c.OK(R("class"), key, qe[ei].pos, pc+" -> "+qc)
					}
					break
				}
			}
			// ---- keyword ----
			if which["keyword"] && !excepted {
				// parser keywords in front of each store of f
				pkOf := func(si int) map[string]bool {
					pk := map[string]bool{}
					for j := si - 1; j >= 0 && pe[j].kind == "KW"; j-- {
						pk[pe[j].word] = true
					}
					delete(pk, "IDENT")
					delete(pk, "STRING")
					delete(pk, "INTEGER")
					return pk
				}
				// printer keywords in front of an occurrence of f
				qkOf := func(anchor int) map[string]bool {
					qk := map[string]bool{}
					lo := anchor - 1
					for ; lo >= 0; lo-- {
						if qe[lo].kind == "KW" {
							qk[qe[lo].word] = true
							continue
						}
						if qe[lo].field == f {
							continue // its own condition read
						}
						if qe[lo].kind == "READ" {
							flagOnly := true
							for _, k := range printed[qe[lo].field] {
								if qe[k].kind == "EMIT" {
									flagOnly = false
								}
							}
							if flagOnly {
								qk = map[string]bool{}
							}
						}
						break
					}
					if lo < 0 {
						qk = map[string]bool{} // statement-leading keywords are consumed by the dispatch tree
					}
					if qe[anchor].kind == "READ" {
						for j := anchor + 1; j < len(qe) && qe[j].kind == "KW"; j++ {
							qk[qe[j].word] = true
						}
					}
					return qk
				}
				PK, QK := map[string]bool{}, map[string]bool{}
				var stores, emits []int
				for i, e := range pe {
					if e.kind == "STORE" && e.field == f {
						stores = append(stores, i)
						for w := range pkOf(i) {
							PK[w] = true
						}
					}
				}
				hasEmit := ei >= 0
				for _, i := range printed[f] {
					if hasEmit && qe[i].kind != "EMIT" {
						continue
					}
					emits = append(emits, i)
					for w := range qkOf(i) {
						QK[w] = true
					}
				}
				inter := func(a, b map[string]bool) bool {
					for w := range a {
						if b[w] {
							return true
						}
					}
					return false
				}
				if len(PK) > 0 && len(QK) > 0 {
					for n, si2 := range stores {
						pk := pkOf(si2)
						if len(pk) == 0 {
							continue
						}
						key := fmt.Sprintf("%s: keyword in front of store #%d of %s", tname, n+1, f)
						if inter(pk, QK) {
							c.OK(R("keyword"), key, pe[si2].pos, fmt.Sprintf("parser %v / printer %v", keysOf(pk), keysOf(QK)))
						} else {
							c.Bad(R("keyword"), key, pe[si2].pos, fmt.Sprintf("%s stores %s after %v, the printer writes that field after %v: the clause is cross-wired in the parser", fname, f, keysOf(pk), keysOf(QK)))
						}
					}
					for n, ei2 := range emits {
						qk := qkOf(ei2)
						if len(qk) == 0 {
							continue
						}
						key := fmt.Sprintf("%s: keyword in front of print #%d of %s", tname, n+1, f)
						if inter(qk, PK) {
							c.OK(R("keyword"), key, qe[ei2].pos, fmt.Sprintf("printer %v / parser %v", keysOf(qk), keysOf(PK)))
						} else {
							c.Bad(R("keyword"), key, qe[ei2].pos, fmt.Sprintf("%s.String writes %s after %v, the parser stores that field after %v: the clause is cross-wired in the printer", tname, f, keysOf(qk), keysOf(PK)))
						}
					}
				}
			}
		}
		// ---- printed but never parsed / tested but never printed ----
		if which["coverage"] && strings.HasSuffix(FuncName(pr.fn), "Statement") {
			emitted := map[string]bool{}
			readOnly := map[string]token.Pos{}
			for _, e := range qe {
				if e.kind == "EMIT" {
					emitted[e.field] = true
				}
			}
			for _, e := range qe {
				if e.kind == "READ" && !emitted[e.field] {
					readOnly[e.field] = e.pos
				}
			}
			st := pr.T.Underlying().(*types.Struct)
			for i := 0; i < st.NumFields(); i++ {
				fld := st.Field(i)
				pos, ro := readOnly[fld.Name()]
				if !ro {
					continue
				}
				if b, ok := fld.Type().Underlying().(*types.Basic); ok && b.Kind() == types.Bool {
					continue // a flag prints as its keyword
				}
				if _, ok := slotExceptions[tname+"."+fld.Name()]; ok {
					continue
				}
				c.Bad(R("coverage"), fmt.Sprintf("%s.String: %s is tested but never written", tname, fld.Name()), pos, "the printer looks at "+fld.Name()+" only in a condition and writes some other value in its place")
			}
		}
		// ---- order ----
		if which["order"] {
			var seq []string
			seenF := map[string]bool{}
			loop := false
			for _, e := range pe {
				if e.kind == "STORE" && e.inLoop {
					loop = true
				}
			}
			if _, exempt := orderExempt[tname]; !loop && !exempt {
				for _, e := range pe {
					if e.kind == "STORE" && !seenF[e.field] && len(printed[e.field]) > 0 {
						seenF[e.field] = true
						seq = append(seq, e.field)
					}
				}
				// composite-literal stores come last in source order but were produced
				// earlier; use the shallow order of the printer for those pairs only when
				// both fields are assigned by statements (handled by parseEvents positions)
				pos := func(f string) int {
					for _, i := range printed[f] {
						if qe[i].kind == "EMIT" {
							return i
						}
					}
					return printed[f][0]
				}
				if os.Getenv("IVQ_DEBUG_ORDER") != "" {
					for _, e := range pe {
						fmt.Printf("DEBUG %s %s field=%s class=%s word=%s pos=%s\n", tname, e.kind, e.field, e.class, e.word, p.Pos(e.pos))
					}
				}
				for i := 0; i+1 < len(seq); i++ {
					a, b := seq[i], seq[i+1]
					key := fmt.Sprintf("%s: %s before %s", tname, a, b)
					if p.branchSiblings(pr.fn, pr.T, a, b) {
						continue
					}
					// two stores with nothing scanned between them are one clause's
					// node being filled in: their order is not clause order
					scanned := false
					for j := firstStore[a] + 1; j < firstStore[b] && j < len(pe); j++ {
						if pe[j].kind == "KW" || strings.HasPrefix(pe[j].class, "CALL") {
							scanned = true
						}
					}
					if !scanned && firstStore[a] < firstStore[b] && (pe[firstStore[b]].class == "CONST" || pe[firstStore[b]].class == "NODE" || pe[firstStore[b]].class == "LIT" || pe[firstStore[b]].class == "OP" || pe[firstStore[b]].class == "?") && (pe[firstStore[a]].class == "CONST" || pe[firstStore[a]].class == "OP") {
						continue
					}
					// every occurrence counts: a field that is also written on an
					// early-return path (before the other field's only write) is not
					// out of order
					all := func(f string) (lo, hi int) {
						lo, hi = -1, -1
						hasEmit := false
						for _, i := range printed[f] {
							if qe[i].kind == "EMIT" {
								hasEmit = true
							}
						}
						for _, i := range printed[f] {
							if hasEmit && qe[i].kind != "EMIT" {
								continue
							}
							if lo < 0 || i < lo {
								lo = i
							}
							if i > hi {
								hi = i
							}
						}
						return
					}
					aLo, _ := all(a)
					_, bHi := all(b)
					if pos(a) < pos(b) || aLo < bHi {
						c.OK(R("order"), key, token.NoPos, "same order in "+fname+" and "+tname+".String")
					} else {
						c.Bad(R("order"), key, token.NoPos, fmt.Sprintf("%s accepts %s before %s, %s.String prints them the other way round: the printed text does not parse back", fname, a, b, tname))
					}
				}
			}
		}
	}
	if which["coverage"] {
		c.Floor(R("coverage"), nPairs, 40)
	}
	if which["class"] {
		c.Floor(R("class"), nClassified, 90)
	}
}

func keysOf(m map[string]bool) []string {
	var out []string
	for k := range m {
		out = append(out, k)
	}
	sort.Strings(out)
	return out
}

// branchSiblings: are the first stores of fields a and b in different arms of
// one if / else-if / switch (alternatives, hence unordered), or is one of them
// stored through a composite literal (position of the literal, not of the scan)?
func (p *Program) branchSiblings(fn *types.Func, T *types.Named, a, b string) bool {
	fd := p.FuncDecls[fn]
	isT := func(t types.Type) bool {
		if pt, ok := t.(*types.Pointer); ok {
			t = pt.Elem()
		}
		return types.Identical(t, T)
	}
	// path of enclosing (branching statement, arm) pairs for the first store of each field
	type arm struct {
		stmt ast.Node
		idx  int
	}
	path := map[string][]arm{}
	lit := map[string]bool{}
	// locals whose defining assignment contains a call (a parse helper's result)
	localFromCall := map[types.Object]bool{}
	ast.Inspect(fd.Body, func(n ast.Node) bool {
		as, ok := n.(*ast.AssignStmt)
		if !ok {
			return true
		}
		hasCall := false
		for _, r := range as.Rhs {
			ast.Inspect(r, func(m ast.Node) bool {
				if _, ok := m.(*ast.CallExpr); ok {
					hasCall = true
				}
				return true
			})
		}
		if hasCall {
			for _, l := range as.Lhs {
				if id, ok := l.(*ast.Ident); ok {
					if o := p.Info.ObjectOf(id); o != nil {
						localFromCall[o] = true
					}
				}
			}
		}
		return true
	})
	var stack []arm
	kwDepth := 0 // enclosing arms selected by a token test: the clause's keyword was just consumed
	tt := p.tokenTable()
	mentionsToken := func(e ast.Node) bool {
		found := false
		if e == nil || tt == nil {
			return false
		}
		ast.Inspect(e, func(m ast.Node) bool {
			if ex, ok := m.(ast.Expr); ok {
				if _, ok := p.tokenConst(ex, tt); ok {
					found = true
				}
			}
			return true
		})
		return found
	}
	var visit func(n ast.Node)
	visit = func(n ast.Node) {
		if n == nil {
			return
		}
		switch x := n.(type) {
		case *ast.AssignStmt:
			// a value that was produced earlier (a local, a constant, a literal):
			// the position of the assignment says nothing about clause order
			produced := kwDepth > 0
			for _, r := range x.Rhs {
				ast.Inspect(r, func(m ast.Node) bool {
					switch y := m.(type) {
					case *ast.CallExpr:
						produced = true
					case *ast.Ident:
						if localFromCall[p.Info.ObjectOf(y)] {
							produced = true
						}
					}
					return true
				})
			}
			for _, l := range x.Lhs {
				if sel, ok := ast.Unparen(l).(*ast.SelectorExpr); ok {
					if t := p.Info.TypeOf(sel.X); t != nil && isT(t) {
						if _, seen := path[sel.Sel.Name]; !seen {
							path[sel.Sel.Name] = append([]arm{}, stack...)
							if !produced {
								lit[sel.Sel.Name] = true
							}
						}
					}
				}
			}
		case *ast.CompositeLit:
			if t := p.Info.TypeOf(x); t != nil && isT(t) {
				for _, el := range x.Elts {
					if kv, ok := el.(*ast.KeyValueExpr); ok {
						if id, ok := kv.Key.(*ast.Ident); ok {
							if _, seen := path[id.Name]; !seen {
								path[id.Name] = append([]arm{}, stack...)
								lit[id.Name] = true
							}
						}
					}
				}
			}
		}
		switch x := n.(type) {
		case *ast.IfStmt:
			// an else-if chain is one branching statement with several arms
			root := ast.Node(x)
			idx := 0
			for cur := x; cur != nil; {
				visit(cur.Init)
				stack = append(stack, arm{root, idx})
				kw := mentionsToken(cur.Cond)
				if kw {
					kwDepth++
				}
				visit(cur.Body)
				if kw {
					kwDepth--
				}
				stack = stack[:len(stack)-1]
				idx++
				switch e := cur.Else.(type) {
				case *ast.IfStmt:
					cur = e
				case *ast.BlockStmt:
					stack = append(stack, arm{root, idx})
					visit(e)
					stack = stack[:len(stack)-1]
					cur = nil
				default:
					cur = nil
				}
			}
			return
		case *ast.SwitchStmt:
			for i, cl := range x.Body.List {
				stack = append(stack, arm{x, i})
				kw := false
				for _, e := range cl.(*ast.CaseClause).List {
					if mentionsToken(e) {
						kw = true
					}
				}
				if kw {
					kwDepth++
				}
				for _, s := range cl.(*ast.CaseClause).Body {
					visit(s)
				}
				if kw {
					kwDepth--
				}
				stack = stack[:len(stack)-1]
			}
			return
		}
		ast.Inspect(n, func(m ast.Node) bool {
			if m == n || m == nil {
				return true
			}
			visit(m)
			return false
		})
	}
	visit(fd.Body)
	if lit[a] || lit[b] {
		return true
	}
	pa, pb := path[a], path[b]
	// deeply nested stores are not ordered by this rule
	if len(pa) > 2 || len(pb) > 2 {
		return true
	}
	for i := 0; i < len(pa) && i < len(pb); i++ {
		if pa[i].stmt == pb[i].stmt && pa[i].idx != pb[i].idx {
			return true // alternative arms of one statement
		}
		if pa[i].stmt != pb[i].stmt {
			return false // consecutive statements: ordered
		}
	}
	return false
}

func rulesC02(c *Ctx) {
	slotAgreement(c, "C02", map[string]bool{"coverage": true, "class": true, "keyword": true, "order": true})
	operandShapeC02(c)
	binPrintC03(c, "C02.binprint")
	silentPathRule(c, "C02.silentpath")
	openerRule(c, "C02.opener")
	printGateRule(c, "C02.gate")
	fmtConstRule(c, "C02.fmtconst")
	quoteArgsRule(c, "C02.quoteargs")
	strconvRule(c, "C02.strconv")
	// printing a node reads nothing but the node: a scratch buffer shared by
	// all printers is overwritten by the nested calls of one print
	c.Rule("C02.pure", "the String methods of the AST nodes (and what they call in the package) read no mutable package-level state: the text depends on the node alone (a package-level scratch slice reused by a recursive printer is overwritten by the inner call, so `ratio(usage, mean(idle))` prints as `ratio(idle, mean(idle))`)")
	{
		p := c.P
		var names []string
		for _, t := range p.Implementers("Node") {
			tn := strings.TrimPrefix(p.TypeStr(t), "*")
			if p.Method(tn, "String") != nil {
				names = append(names, tn+".String")
			}
		}
		sort.Strings(names)
		pureRule(c, "C02.pure", names...)
	}
	formattersC02(c)
	slotsC08(c)
	// names and strings are printed through the quoting helpers: they must invert the lexer
	importRules(c, rulesC06, "C06.", "C02.quoting-", nil)
	// a printed duration literal is read back by ParseDuration: what
	// FormatDuration writes must be accepted and mean the same duration
	importRules(c, rulesC08, "C08.", "C02.duration-", func(r string) bool {
		return r == "C08.units" || r == "C08.overflow" || r == "C08.digits" || r == "C08.ladder"
	})
}

func rulesC01(c *Ctx) {
	slotAgreement(c, "C01", map[string]bool{"keyword": true, "order": true})
	n := probeBalance(c, "C01.probe")
	c.Floor("C01.probe", n, 120)
	dispatchC01(c)
	tablesC01(c)
	optionsC01(c)
	strconvRule(c, "C01.strconv")
	subqueryFlagC01(c)
	keywordLookupRule(c, "C01.kwlookup")
	callArgsC01(c)
	charWidthRule(c, "C01.charwidth")
	// how operators group is part of the AST a text denotes
	importRules(c, rulesC03, "C03.", "C01.grouping-", func(r string) bool {
		// print-and-reparse clauses belong to C02/C03; the tree x / (-1 * a) that
		// `x / -a` parses to denotes the right value
		return r != "C03.operandshape"
	})
	escapesC01(c)
	// a carriage return is a line break, not a character eater: a legal
	// statement laid out with CR or CRLF must parse
	crfoldRule(c, "C01.crfold")
	intWidthC01(c)
	durationScanC01(c)
	parseFreshRule(c, "C01.parsefresh")
	// duration literals: a legal spelling (decimal digits, any unit of the table,
	// a total that fits) must not be rejected or misread
	importRules(c, rulesC08, "C08.", "C01.duration-", func(r string) bool {
		return r == "C08.units" || r == "C08.overflow" || r == "C08.digits"
	})
}

func fieldIsEmptyInterface(T *types.Named, field string) bool {
	st, ok := T.Underlying().(*types.Struct)
	if !ok {
		return false
	}
	for i := 0; i < st.NumFields(); i++ {
		if st.Field(i).Name() == field {
			it, ok := st.Field(i).Type().Underlying().(*types.Interface)
			return ok && it.NumMethods() == 0
		}
	}
	return false
}

// floatExcluded: the emission at pos lies on a branch taken only when the
// field's dynamic type is not float64 (the else of `v, ok := x.F.(float64)`,
// or another clause of a type switch that has a float64 clause).
func floatExcluded(p *Program, str *types.Func, pos token.Pos, field string) bool {
	fd := p.FuncDecls[str]
	// the emission may sit in a helper method String calls
	for _, cand := range p.FuncDecls {
		if cand != nil && cand.Body != nil && cand.Body.Pos() <= pos && pos < cand.Body.End() {
			fd = cand
		}
	}
	if fd == nil || fd.Body == nil {
		return false
	}
	// ok variables of `v, ok := x.F.(float64)`
	okVars := map[types.Object]bool{}
	ast.Inspect(fd.Body, func(n ast.Node) bool {
		as, ok := n.(*ast.AssignStmt)
		if !ok || len(as.Lhs) != 2 || len(as.Rhs) != 1 {
			return true
		}
		ta, ok := ast.Unparen(as.Rhs[0]).(*ast.TypeAssertExpr)
		if !ok || ta.Type == nil {
			return true
		}
		if sel, ok := ast.Unparen(ta.X).(*ast.SelectorExpr); !ok || sel.Sel.Name != field {
			return true
		}
		if b, ok := p.Info.TypeOf(ta.Type).(*types.Basic); !ok || b.Kind() != types.Float64 {
			return true
		}
		if id, ok := as.Lhs[1].(*ast.Ident); ok {
			if o := p.Info.ObjectOf(id); o != nil {
				okVars[o] = true
			}
		}
		return true
	})
	isField := func(e ast.Expr) bool {
		sel, ok := ast.Unparen(e).(*ast.SelectorExpr)
		return ok && sel.Sel.Name == field
	}
	isFloat := func(e ast.Expr) bool {
		t := p.Info.TypeOf(e)
		b, ok := t.(*types.Basic)
		return ok && b.Kind() == types.Float64
	}
	found := false
	ast.Inspect(fd.Body, func(n ast.Node) bool {
		switch x := n.(type) {
		case *ast.IfStmt:
			// if !ok { here }   /   if ok { ... } else { here }
			cond := ast.Unparen(x.Cond)
			if u, ok := cond.(*ast.UnaryExpr); ok && u.Op == token.NOT {
				if id, ok := ast.Unparen(u.X).(*ast.Ident); ok && okVars[p.Info.ObjectOf(id)] && x.Body.Pos() <= pos && pos < x.Body.End() {
					found = true
				}
			}
			if id, ok := cond.(*ast.Ident); ok && okVars[p.Info.ObjectOf(id)] && x.Else != nil && x.Else.Pos() <= pos && pos < x.Else.End() {
				found = true
			}
			if as, ok := x.Init.(*ast.AssignStmt); ok && len(as.Rhs) == 1 && x.Else != nil {
				if ta, ok := ast.Unparen(as.Rhs[0]).(*ast.TypeAssertExpr); ok && ta.Type != nil && isField(ta.X) && isFloat(ta.Type) {
					// only the bare `ok` sends every float64 to the then-branch
					bare := false
					if len(as.Lhs) == 2 {
						if okID, isID := as.Lhs[1].(*ast.Ident); isID {
							if cid, isID := cond.(*ast.Ident); isID && p.Info.ObjectOf(cid) == p.Info.ObjectOf(okID) {
								bare = true
							}
						}
					}
					if bare && x.Else.Pos() <= pos && pos < x.Else.End() {
						found = true
					}
				}
			}
		case *ast.TypeSwitchStmt:
			var operand ast.Expr
			switch a := x.Assign.(type) {
			case *ast.AssignStmt:
				if ta, ok := ast.Unparen(a.Rhs[0]).(*ast.TypeAssertExpr); ok {
					operand = ta.X
				}
			case *ast.ExprStmt:
				if ta, ok := ast.Unparen(a.X).(*ast.TypeAssertExpr); ok {
					operand = ta.X
				}
			}
			if operand == nil || !isField(operand) {
				return true
			}
			hasFloat := false
			var mine *ast.CaseClause
			for _, cl := range x.Body.List {
				cc := cl.(*ast.CaseClause)
				for _, e := range cc.List {
					if isFloat(e) {
						hasFloat = true
						if cc.Pos() <= pos && pos < cc.End() {
							hasFloat = false // the emission is in the float clause itself
						}
					}
				}
				if cc.Pos() <= pos && pos < cc.End() {
					mine = cc
				}
			}
			if hasFloat && mine != nil {
				found = true
			}
		}
		return true
	})
	return found
}

// helperReadsField: fn calls, on its own receiver, an in-package method whose
// body (or a method it calls the same way) reads the receiver's field named f.
func (p *Program) helperReadsField(fn *types.Func, f string, depth int) bool {
	fd := p.FuncDecls[fn]
	if depth > 3 || fd == nil || fd.Body == nil || fd.Recv == nil || len(fd.Recv.List) == 0 || len(fd.Recv.List[0].Names) == 0 {
		return false
	}
	recv := p.Info.Defs[fd.Recv.List[0].Names[0]]
	found := false
	ast.Inspect(fd.Body, func(n ast.Node) bool {
		if found {
			return false
		}
		call, ok := n.(*ast.CallExpr)
		if !ok {
			return true
		}
		sel, ok := call.Fun.(*ast.SelectorExpr)
		if !ok {
			return true
		}
		id := identOf(sel.X)
		if id == nil || p.Info.ObjectOf(id) != recv {
			return true
		}
		callee, ok := p.Info.Uses[sel.Sel].(*types.Func)
		if !ok || callee.Pkg() != p.Types || callee == fn {
			return true
		}
		cd := p.FuncDecls[callee]
		if cd == nil || cd.Body == nil || cd.Recv == nil || len(cd.Recv.List) == 0 || len(cd.Recv.List[0].Names) == 0 {
			return true
		}
		crecv := p.Info.Defs[cd.Recv.List[0].Names[0]]
		ast.Inspect(cd.Body, func(m ast.Node) bool {
			if s2, ok := m.(*ast.SelectorExpr); ok && s2.Sel.Name == f {
				if i2 := identOf(s2.X); i2 != nil && p.Info.ObjectOf(i2) == crecv {
					found = true
				}
			}
			return !found
		})
		if !found && p.helperReadsField(callee, f, depth+1) {
			found = true
		}
		return true
	})
	return found
}
