package main

import (
	"go/ast"
	"go/types"
)

// dataRoot decides whether the value an index/divisor expression is rooted in
// is *input data* — something callers or parsed text control — as opposed to a
// local computed from constants, lengths, tables or helper results. Only for
// data-rooted operands is a missing guard a decided violation; for the rest
// the prover simply does not know (undecided).
type dataRoots struct {
	p    *Program
	defs map[types.Object]ast.Expr // first defining expression of each local
	kind map[types.Object]string   // "param", "typeswitch", "assert", "range"
}

func (p *Program) newDataRoots(fb funcBody) *dataRoots {
	d := &dataRoots{p: p, defs: map[types.Object]ast.Expr{}, kind: map[types.Object]string{}}
	fd := p.FuncDecls[fb.Decl]
	addParams := func(fl *ast.FieldList) {
		if fl == nil {
			return
		}
		for _, f := range fl.List {
			for _, n := range f.Names {
				if o := p.Info.Defs[n]; o != nil {
					d.kind[o] = "param"
				}
			}
		}
	}
	// parameters of a helper that only package initialisation calls carry
	// the package's own constants, not input data
	initOnly := false
	if sf := p.SSAFunc(fb.Decl); sf != nil {
		initOnly = p.initOnlyFuncs()[sf] || isInitFunc(sf.Name())
	}
	if fd != nil && !initOnly {
		addParams(fd.Recv)
		if fb.Decl.Exported() || fd.Recv != nil {
			addParams(fd.Type.Params)
		} else if fd.Type.Params != nil {
			// an unexported function: its AST-typed parameters are input data;
			// so is a single character (rune/byte) of the text; a plain slice,
			// string or count is whatever its (few) callers computed, and the
			// guard may live there
			for _, f := range fd.Type.Params.List {
				for _, n := range f.Names {
					if o := p.Info.Defs[n]; o != nil && (d.isASTType(o.Type()) || isCharType(o.Type())) {
						d.kind[o] = "param"
					}
				}
			}
		}
	}
	if fb.Lit != nil {
		addParams(fb.Lit.Type.Params)
	}
	ast.Inspect(fb.Body, func(n ast.Node) bool {
		switch x := n.(type) {
		case *ast.FuncLit:
			addParams(x.Type.Params)
		case *ast.AssignStmt:
			for i, l := range x.Lhs {
				id := identOf(l)
				if id == nil {
					continue
				}
				o := p.Info.ObjectOf(id)
				if o == nil {
					continue
				}
				var r ast.Expr
				if len(x.Rhs) == len(x.Lhs) {
					r = x.Rhs[i]
				} else if len(x.Rhs) == 1 {
					r = x.Rhs[0]
				}
				if _, seen := d.defs[o]; !seen && r != nil {
					d.defs[o] = r
					if _, isTA := ast.Unparen(r).(*ast.TypeAssertExpr); isTA && i == 0 {
						d.kind[o] = "assert"
					}
				}
			}
		case *ast.TypeSwitchStmt:
			for _, cl := range x.Body.List {
				if o := p.Info.Implicits[cl]; o != nil {
					d.kind[o] = "typeswitch"
				}
			}
		case *ast.RangeStmt:
			if id := identOf(x.Value); id != nil {
				if o := p.Info.ObjectOf(id); o != nil {
					d.defs[o] = x.X
					d.kind[o] = "range"
				}
			}
		}
		return true
	})
	return d
}

func (d *dataRoots) isASTType(t types.Type) bool {
	if t == nil {
		return false
	}
	if pt, ok := t.(*types.Pointer); ok {
		t = pt.Elem()
	}
	nt, ok := t.(*types.Named)
	if !ok || nt.Obj().Pkg() != d.p.Types {
		return false
	}
	if parserTypes[nt.Obj().Name()] {
		return false
	}
	switch nt.Underlying().(type) {
	case *types.Struct, *types.Slice, *types.Interface:
		return true
	}
	return false
}

// rooted reports whether e is rooted in input data.
func (d *dataRoots) rooted(e ast.Expr, depth int) bool {
	if depth > 6 || e == nil {
		return false
	}
	switch x := ast.Unparen(e).(type) {
	case *ast.Ident:
		o := d.p.Info.ObjectOf(x)
		if o == nil {
			return false
		}
		switch d.kind[o] {
		case "param", "typeswitch", "assert":
			return true
		case "range":
			return d.rooted(d.defs[o], depth+1)
		}
		if v, ok := o.(*types.Var); ok && v.Parent() == d.p.Types.Scope() {
			return false // package-level table
		}
		if def, ok := d.defs[o]; ok {
			return d.rootedDef(def, depth+1)
		}
		return false
	case *ast.SelectorExpr:
		if s := d.p.Info.Selections[x]; s != nil && s.Kind() == types.FieldVal {
			return d.rooted(x.X, depth+1)
		}
		return false
	case *ast.StarExpr:
		return d.rooted(x.X, depth+1)
	case *ast.IndexExpr:
		return d.rooted(x.X, depth+1)
	case *ast.CallExpr:
		return d.rootedDef(x, depth+1)
	}
	return false
}

// rootedDef: a local defined by this expression carries input data when the
// expression is itself rooted, is a conversion of something rooted, or is a
// call whose receiver or an argument is an AST value.
func (d *dataRoots) rootedDef(def ast.Expr, depth int) bool {
	def = ast.Unparen(def)
	if call, ok := def.(*ast.CallExpr); ok {
		if tv, ok := d.p.Info.Types[call.Fun]; ok && tv.IsType() && len(call.Args) == 1 {
			return false // a conversion builds a new value: its length relation to the source is not tracked
		}
		if id := identOf(call.Fun); id != nil {
			if _, isBuiltin := d.p.Info.Uses[id].(*types.Builtin); isBuiltin {
				return false
			}
		}
		if sel, ok := call.Fun.(*ast.SelectorExpr); ok {
			if t := d.p.Info.TypeOf(sel.X); t != nil && d.isASTType(t) {
				return true
			}
		}
		return false
	}
	return d.rooted(def, depth)
}

func isCharType(t types.Type) bool {
	b, ok := t.Underlying().(*types.Basic)
	return ok && (b.Kind() == types.Int32 || b.Kind() == types.Uint8)
}
