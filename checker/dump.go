package main

import (
	"fmt"
	"go/ast"
	"go/token"
	"go/types"
	"os"
)

// debug dumps used while confirming rule instances by hand.
func init() {
	if len(os.Args) > 2 && os.Args[1] == "dump" {
		p, err := Load(repoDir(), "")
		if err != nil {
			fmt.Println(err)
			os.Exit(2)
		}
		switch os.Args[2] {
		case "index":
			dumpIndex(p)
		case "div":
			dumpDiv(p)
		case "assert":
			dumpAssert(p)
		}
		os.Exit(0)
	}
}

func dumpIndex(p *Program) {
	for _, f := range p.SortedFuncs() {
		fd := p.FuncDecls[f]
		if fd.Body == nil {
			continue
		}
		ast.Inspect(fd.Body, func(n ast.Node) bool {
			switch n := n.(type) {
			case *ast.IndexExpr:
				t := p.Info.TypeOf(n.X)
				if t == nil {
					return true
				}
				if _, ok := t.Underlying().(*types.Map); ok {
					return true
				}
				if _, ok := t.Underlying().(*types.Signature); ok {
					return true
				}
				fmt.Printf("%s\t%s\tINDEX %s  [%s]\n", p.Pos(n.Pos()), FuncName(f), types.ExprString(n), p.TypeStr(t))
			case *ast.SliceExpr:
				t := p.Info.TypeOf(n.X)
				fmt.Printf("%s\t%s\tSLICE %s  [%s]\n", p.Pos(n.Pos()), FuncName(f), types.ExprString(n), p.TypeStr(t))
			}
			return true
		})
	}
}

func dumpDiv(p *Program) {
	for _, f := range p.SortedFuncs() {
		fd := p.FuncDecls[f]
		if fd.Body == nil {
			continue
		}
		ast.Inspect(fd.Body, func(n ast.Node) bool {
			if b, ok := n.(*ast.BinaryExpr); ok && (b.Op == token.QUO || b.Op == token.REM) {
				t := p.Info.TypeOf(b)
				bt, _ := t.Underlying().(*types.Basic)
				if bt != nil && bt.Info()&types.IsInteger != 0 {
					tv := p.Info.Types[b.Y]
					fmt.Printf("%s\t%s\t%s  const=%v\n", p.Pos(b.Pos()), FuncName(f), types.ExprString(b), tv.Value)
				}
			}
			return true
		})
	}
}

func dumpAssert(p *Program) {
	for _, fb := range p.funcBodies() {
		if fb.Lit != nil {
			continue
		}
		commaok := map[*ast.TypeAssertExpr]bool{}
		ast.Inspect(fb.Body, func(n ast.Node) bool {
			switch n := n.(type) {
			case *ast.AssignStmt:
				if len(n.Lhs) == 2 && len(n.Rhs) == 1 {
					if ta, ok := ast.Unparen(n.Rhs[0]).(*ast.TypeAssertExpr); ok {
						commaok[ta] = true
					}
				}
			case *ast.ValueSpec:
				if len(n.Names) == 2 && len(n.Values) == 1 {
					if ta, ok := ast.Unparen(n.Values[0]).(*ast.TypeAssertExpr); ok {
						commaok[ta] = true
					}
				}
			case *ast.TypeAssertExpr:
				if n.Type != nil && !commaok[n] {
					fmt.Printf("%s\t%s\tASSERT %s\n", p.Pos(n.Pos()), fb.Name, types.ExprString(n))
				}
			case *ast.CallExpr:
				if id, ok := n.Fun.(*ast.Ident); ok && id.Name == "panic" {
					fmt.Printf("%s\t%s\tPANIC %s\n", p.Pos(n.Pos()), fb.Name, types.ExprString(n))
				}
			}
			return true
		})
	}
}
