package main

import (
	"fmt"
	"go/ast"
	"go/token"
	"go/types"
	"os"
)

// debug dumps used while confirming rule instances by hand.
func init() {
	if len(os.Args) > 2 && os.Args[1] == "dump" {
		p, err := Load(repoDir(), "")
		if err != nil {
			fmt.Println(err)
			os.Exit(2)
		}
		switch os.Args[2] {
		case "index":
			dumpIndex(p)
		case "div":
			dumpDiv(p)
		case "assert":
			dumpAssert(p)
		case "effects":
			dumpEffects(p, os.Args[3:])
		case "guards":
			dumpGuards(p)
		case "slots":
			tt := p.tokenTable()
			for _, f := range p.SortedFuncs() {
				if recvTypeName(f) != "Parser" {
					continue
				}
				sig := f.Type().(*types.Signature)
				if sig.Results().Len() == 0 {
					continue
				}
				rt := sig.Results().At(0).Type()
				if pt, ok := rt.(*types.Pointer); ok {
					rt = pt.Elem()
				}
				nt, ok := rt.(*types.Named)
				if !ok || nt.Obj().Pkg() != p.Types {
					continue
				}
				if _, ok := nt.Underlying().(*types.Struct); !ok {
					continue
				}
				if len(os.Args) > 3 && os.Args[3] != nt.Obj().Name() {
					continue
				}
				fmt.Printf("== %s -> %s\n  parse:", FuncName(f), nt.Obj().Name())
				for _, e := range p.parseEvents(f, nt, tt) {
					if e.kind == "KW" {
						fmt.Printf(" %s", e.word)
					} else {
						fmt.Printf(" [%s:%s]", e.field, e.class)
					}
				}
				fmt.Printf("\n  print:")
				if str := p.Method(nt.Obj().Name(), "String"); str != nil {
					for _, e := range p.printEvents(str) {
						switch e.kind {
						case "KW":
							fmt.Printf(" %s", e.word)
						case "READ":
							fmt.Printf(" (%s?)", e.field)
						default:
							fmt.Printf(" [%s:%s]", e.field, e.class)
						}
					}
				}
				fmt.Println()
			}
		case "scantable":
			rows, err := p.scanTable()
			fmt.Println(err)
			tt := p.tokenTable()
			for _, r := range rows {
				fmt.Printf("%q %q two=%v kind=%s tok=%s lit=%q callee=%s consumed=%d\n", r.c0, r.c1, r.twoRunes, r.kind, tt.Name[r.tok], r.lit, r.callee, r.consumed)
			}
		case "mapranges":
			for _, fb := range p.funcBodies() {
				if fb.Lit != nil {
					continue
				}
				ast.Inspect(fb.Body, func(n ast.Node) bool {
					if rs, ok := n.(*ast.RangeStmt); ok {
						if _, ok := p.Info.TypeOf(rs.X).Underlying().(*types.Map); ok {
							fmt.Printf("%s\t%s\trange %s\n", p.Pos(rs.Pos()), fb.Name, types.ExprString(rs.X))
						}
					}
					return true
				})
			}
		case "intconv":
			for _, ic := range p.intConversions() {
				fmt.Printf("%-45s %s %s -> %s  lossy=%v src=%s\n", ssaFuncName(ic.fn), p.Pos(ic.conv.Pos()), ic.from, ic.to, ic.lossy, ic.conv.X)
			}
		case "shallow":
			e := p.newEffects()
			for _, f := range p.allSSAFuncs() {
				for _, u := range e.sums[f].shallow {
					fmt.Printf("%-50s %s %s\n", ssaFuncName(f), p.Pos(u.Pos), u.What)
				}
			}
		case "usercalls":
			e := p.newEffects()
			seen := map[string]bool{}
			for _, f := range p.allSSAFuncs() {
				for _, u := range e.sums[f].userCalls {
					k := p.Pos(u.Pos) + " " + u.What
					if !seen[k] {
						seen[k] = true
						fmt.Println(k)
					}
				}
			}
		case "writers":
			e := p.newEffects()
			for _, f := range p.allSSAFuncs() {
				s := e.sums[f]
				for k, ws := range s.writes {
					if k[0] == 'P' || k[0] == 'G' || k[0] == 'U' {
						fmt.Printf("%-60s %s  %s: %s\n", ssaFuncName(f), k, p.Pos(ws[0].Pos), ws[0].What)
					}
				}
			}
		}
		os.Exit(0)
	}
}

func dumpIndex(p *Program) {
	for _, f := range p.SortedFuncs() {
		fd := p.FuncDecls[f]
		if fd.Body == nil {
			continue
		}
		ast.Inspect(fd.Body, func(n ast.Node) bool {
			switch n := n.(type) {
			case *ast.IndexExpr:
				t := p.Info.TypeOf(n.X)
				if t == nil {
					return true
				}
				if _, ok := t.Underlying().(*types.Map); ok {
					return true
				}
				if _, ok := t.Underlying().(*types.Signature); ok {
					return true
				}
				fmt.Printf("%s\t%s\tINDEX %s  [%s]\n", p.Pos(n.Pos()), FuncName(f), types.ExprString(n), p.TypeStr(t))
			case *ast.SliceExpr:
				t := p.Info.TypeOf(n.X)
				fmt.Printf("%s\t%s\tSLICE %s  [%s]\n", p.Pos(n.Pos()), FuncName(f), types.ExprString(n), p.TypeStr(t))
			}
			return true
		})
	}
}

func dumpDiv(p *Program) {
	for _, f := range p.SortedFuncs() {
		fd := p.FuncDecls[f]
		if fd.Body == nil {
			continue
		}
		ast.Inspect(fd.Body, func(n ast.Node) bool {
			if b, ok := n.(*ast.BinaryExpr); ok && (b.Op == token.QUO || b.Op == token.REM) {
				t := p.Info.TypeOf(b)
				bt, _ := t.Underlying().(*types.Basic)
				if bt != nil && bt.Info()&types.IsInteger != 0 {
					tv := p.Info.Types[b.Y]
					fmt.Printf("%s\t%s\t%s  const=%v\n", p.Pos(b.Pos()), FuncName(f), types.ExprString(b), tv.Value)
				}
			}
			return true
		})
	}
}

func dumpAssert(p *Program) {
	for _, fb := range p.funcBodies() {
		if fb.Lit != nil {
			continue
		}
		commaok := map[*ast.TypeAssertExpr]bool{}
		ast.Inspect(fb.Body, func(n ast.Node) bool {
			switch n := n.(type) {
			case *ast.AssignStmt:
				if len(n.Lhs) == 2 && len(n.Rhs) == 1 {
					if ta, ok := ast.Unparen(n.Rhs[0]).(*ast.TypeAssertExpr); ok {
						commaok[ta] = true
					}
				}
			case *ast.ValueSpec:
				if len(n.Names) == 2 && len(n.Values) == 1 {
					if ta, ok := ast.Unparen(n.Values[0]).(*ast.TypeAssertExpr); ok {
						commaok[ta] = true
					}
				}
			case *ast.TypeAssertExpr:
				if n.Type != nil && !commaok[n] {
					fmt.Printf("%s\t%s\tASSERT %s\n", p.Pos(n.Pos()), fb.Name, types.ExprString(n))
				}
			case *ast.CallExpr:
				if id, ok := n.Fun.(*ast.Ident); ok && id.Name == "panic" {
					fmt.Printf("%s\t%s\tPANIC %s\n", p.Pos(n.Pos()), fb.Name, types.ExprString(n))
				}
			}
			return true
		})
	}
}

func dumpEffects(p *Program, names []string) {
	e := p.newEffects()
	for _, f := range p.allSSAFuncs() {
		name := ssaFuncName(f)
		if len(names) > 0 {
			ok := false
			for _, n := range names {
				if n == name || n == f.Name() {
					ok = true
				}
			}
			if !ok {
				continue
			}
		}
		s := e.sums[f]
		fmt.Printf("== %s\n", name)
		for k, ws := range s.writes {
			fmt.Printf("   writes %s <- %v\n", k, s.flows[k].keys())
			for _, w := range ws {
				fmt.Printf("      at %s: %s\n", p.Pos(w.Pos), w.What)
			}
		}
		for i := range s.ret {
			fmt.Printf("   ret[%d] = %v contents %v\n", i, s.ret[i].keys(), s.retContents[i].keys())
		}
		for k := range s.callbacks {
			fmt.Printf("   callback %s\n", k)
		}
		for _, u := range s.userCalls {
			fmt.Printf("   usercall %s %s\n", p.Pos(u.Pos), u.What)
		}
		for _, u := range s.shallow {
			fmt.Printf("   shallow-copy %s %s\n", p.Pos(u.Pos), u.What)
		}
	}
}

func dumpGuards(p *Program) {
	for _, pr := range p.slotPairs() {
		tname := pr.T.Obj().Name()
		for _, g := range p.printGuards(p.Method(tname, "String")) {
			fmt.Printf("%s.%s guarded by %v at %s\n", tname, g.field, g.guards, p.Pos(g.pos.Pos()))
		}
	}
}
