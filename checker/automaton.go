package main

// Automaton extraction for the scanner's skipping loops: states are the
// function's read sites; for each state and each input class the successor
// (next read site, or a return) is found by constant propagation started at
// that site's block with the read bound to the class representative and every
// other read site yielding no value (so propagation stops there).

import (
	"fmt"
	"go/constant"
	"go/types"
	"sort"
	"strings"

	"golang.org/x/tools/go/ssa"
)

type autoEdge struct {
	to string // "R<n>" or "return:nil" / "return:err" / "return"
}

func (p *Program) readAutomaton(f *ssa.Function, classes []rune) (map[string]map[rune][]string, []string, string) {
	read := p.SSAFunc(p.Method("reader", "read"))
	var sites []*ssa.Call
	for _, b := range f.Blocks {
		for _, in := range b.Instrs {
			if call, ok := in.(*ssa.Call); ok && call.Call.StaticCallee() == read {
				sites = append(sites, call)
			}
		}
	}
	sort.Slice(sites, func(i, j int) bool { return sites[i].Pos() < sites[j].Pos() })
	if len(sites) == 0 {
		return nil, nil, "no read sites"
	}
	name := map[*ssa.Call]string{}
	var names []string
	for i, s := range sites {
		name[s] = fmt.Sprintf("R%d", i+1)
		names = append(names, name[s])
	}
	auto := map[string]map[rune][]string{}
	for _, site := range sites {
		auto[name[site]] = map[rune][]string{}
		for _, cl := range classes {
			s := p.newSCCP()
			s.startBlock = site.Block()
			reached := map[string]bool{}
			s.hook = func(call *ssa.Call, args []cval) ([]cval, bool) {
				if call.Call.StaticCallee() != read || call.Parent() != f {
					return nil, false
				}
				if call == site {
					return []cval{cConst(constant.MakeInt64(int64(cl))), cTop}, true
				}
				reached[name[call]] = true
				return []cval{cBottom, cBottom}, true
			}
			r := s.run(f, nil, 0)
			// re-entry into the site's own block through an executable edge = self loop
			for _, pred := range site.Block().Preds {
				if r.execE[[2]int{pred.Index, site.Block().Index}] {
					reached[name[site]] = true
				}
			}
			for _, b := range f.Blocks {
				if !r.execB[b.Index] {
					continue
				}
				if ret, ok := b.Instrs[len(b.Instrs)-1].(*ssa.Return); ok {
					label := "return"
					if len(ret.Results) == 1 {
						if k, ok := ret.Results[0].(*ssa.Const); ok && k.IsNil() {
							label = "return:nil"
						} else {
							label = "return:err"
						}
					}
					reached[label] = true
				}
			}
			var succ []string
			for k := range reached {
				succ = append(succ, k)
			}
			sort.Strings(succ)
			auto[name[site]][cl] = succ
		}
	}
	return auto, names, ""
}

// commentsRule: the two comment-skipping loops implement "up to the next
// newline" and "up to the first */".
func commentsRule(c *Ctx, rule string) {
	p := c.P
	c.Rule(rule, "the comment skippers, extracted as automata over their read sites: a line comment ends at the first newline or end of input and nowhere else; a block comment ends exactly at the first `*` followed by `/` (a run of stars stays in the 'seen star' state, any other rune returns to the initial state), and end of input inside it is an error")
	// line comment
	if f := p.SSAFunc(p.Method("Scanner", "skipUntilNewline")); f != nil {
		eofR := p.eofRune()
		auto, names, why := p.readAutomaton(f, []rune{'\n', eofR, 'x', '*', '/', '-'})
		if auto == nil || len(names) == 0 {
			c.Unk(rule, "skipUntilNewline", f.Pos(), "automaton not extracted: "+why)
		} else {
			// the reference has one state: every read site must behave like it
			// (newline or end of input: return; anything else: keep reading)
			for i, site := range names {
				for _, cl := range []rune{'\n', eofR, 'x', '*', '/', '-'} {
					succ := auto[site][cl]
					key := fmt.Sprintf("skipUntilNewline: on %s", p.runeLabel(cl))
					if i > 0 {
						key = fmt.Sprintf("skipUntilNewline: read site #%d on %s", i+1, p.runeLabel(cl))
					}
					if len(succ) == 0 {
						c.Unk(rule, key, f.Pos(), "successor not extracted (state kept in variables)")
						continue
					}
					wantReturn := cl == '\n' || cl == eofR
					ok := true
					for _, to := range succ {
						isRet := strings.HasPrefix(to, "return")
						if isRet != wantReturn {
							ok = false
						}
					}
					want := "another read"
					if wantReturn {
						want = "return"
					}
					c.Check(ok, rule, key, f.Pos(), fmt.Sprintf("goes to %v, must go to %s: a line comment ends at the first newline or end of input, and only there", succ, want))
				}
			}
		}
	} else {
		c.Unk(rule, "skipUntilNewline", 0, "anchor not found")
	}
	// block comment
	f := p.SSAFunc(p.Method("Scanner", "skipUntilEndComment"))
	if f == nil {
		c.Unk(rule, "skipUntilEndComment", 0, "anchor not found")
		return
	}
	eofR := p.eofRune()
	classes := []rune{'*', '/', 'x', eofR, '\n'}
	auto, names, why := p.readAutomaton(f, classes)
	if auto == nil {
		c.Unk(rule, "skipUntilEndComment", f.Pos(), "automaton not extracted: "+why)
		return
	}
	for _, site := range names {
		for _, cl := range classes {
			if len(auto[site][cl]) == 0 {
				c.Unk(rule, "skipUntilEndComment", f.Pos(), "the loop keeps its state in variables, not in distinct read sites: the automaton is not extracted")
				return
			}
		}
	}
	// bisimulation with the reference automaton: S0 (initial), S1 (after a star)
	ref := map[string]map[rune]string{
		"S0": {'*': "S1", '/': "S0", 'x': "S0", '\n': "S0", eofR: "return:err"},
		"S1": {'*': "S1", '/': "return:nil", 'x': "S0", '\n': "S0", eofR: "return:err"},
	}
	// map each read site to a reference state, starting from the first site = S0
	assign := map[string]string{names[0]: "S0"}
	work := []string{names[0]}
	okAll := true
	for len(work) > 0 {
		site := work[0]
		work = work[1:]
		st := assign[site]
		for _, cl := range classes {
			succ := auto[site][cl]
			want := ref[st][cl]
			key := fmt.Sprintf("skipUntilEndComment: state %s on %s", st, p.runeLabel(cl))
			if len(succ) != 1 {
				c.Bad(rule, key, f.Pos(), fmt.Sprintf("goes to %v, must go to %s", succ, want))
				okAll = false
				continue
			}
			to := succ[0]
			if to == "return:nil" || to == "return:err" || to == "return" {
				c.Check(to == want, rule, key, f.Pos(), fmt.Sprintf("goes to %s, must go to %s", to, want))
				if to != want {
					okAll = false
				}
				continue
			}
			if prev, seen := assign[to]; seen {
				c.Check(prev == want, rule, key, f.Pos(), fmt.Sprintf("goes to a site that acts as %s, must go to %s", prev, want))
				if prev != want {
					okAll = false
				}
				continue
			}
			if want == "return:nil" || want == "return:err" {
				c.Bad(rule, key, f.Pos(), "keeps reading, must "+want)
				okAll = false
				continue
			}
			assign[to] = want
			work = append(work, to)
			c.OK(rule, key, f.Pos(), "-> "+want)
		}
	}
	_ = okAll
}

// eofRune is the rune the scanner's reader substitutes at end of input: the
// value of the package-level constant reader.read buffers on its error branch
// (found by name; 0 when the package has no such constant).
func (p *Program) eofRune() rune {
	if k, ok := p.Types.Scope().Lookup("eof").(*types.Const); ok {
		if v, ok := constant.Int64Val(constant.ToInt(k.Val())); ok {
			return rune(v)
		}
	}
	return 0
}

// runeLabel names a character class in obligation keys; the end marker keeps
// one label whatever its value.
func (p *Program) runeLabel(r rune) string {
	if r == p.eofRune() {
		return "end of input"
	}
	return fmt.Sprintf("%q", r)
}
