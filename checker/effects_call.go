package main

import (
	"go/token"
	"go/types"
	"strconv"
	"strings"

	"golang.org/x/tools/go/ssa"
)

// externalWrites: calls out of the package that write through an argument.
// index = argument position (receiver first).
var externalWrites = map[string][]int{
	"sort.Sort": {0}, "sort.Stable": {0}, "sort.Strings": {0}, "sort.Slice": {0}, "sort.SliceStable": {0},
	"sort.Ints": {0}, "sort.Float64s": {0},
	"google.golang.org/protobuf/proto.Unmarshal": {1},
}

type target struct {
	fn       *ssa.Function
	args     []oset      // one per fn.Params
	argVals  []ssa.Value // may contain nil
	bindings []oset
}

func stripIface(v ssa.Value) ssa.Value {
	for {
		switch x := v.(type) {
		case *ssa.ChangeInterface:
			v = x.X
		case *ssa.MakeInterface:
			v = x.X
		case *ssa.ChangeType:
			v = x.X
		default:
			return v
		}
	}
}

func (st *fstate) paramIndex(v ssa.Value) int {
	return st.paramIndexRec(v, map[ssa.Value]bool{})
}

// paramIndexRec sees through `v = v.M(x)` re-bindings whose result has the
// parameter's own type (a Visitor returning the visitor to continue with).
func (st *fstate) paramIndexRec(v ssa.Value, seen map[ssa.Value]bool) int {
	if seen[v] {
		return -2
	}
	seen[v] = true
	switch x := v.(type) {
	case *ssa.Parameter:
		for i, q := range st.f.Params {
			if q == x {
				return i
			}
		}
	case *ssa.Call:
		if x.Call.IsInvoke() && types.Identical(x.Type(), x.Call.Value.Type()) {
			return st.paramIndexRec(stripIface(x.Call.Value), seen)
		}
	case *ssa.Phi:
		k := -2
		for _, e := range x.Edges {
			j := st.paramIndexRec(stripIface(e), seen)
			if j == -2 {
				continue
			}
			if k == -2 {
				k = j
			} else if k != j {
				return -1
			}
		}
		if k >= 0 {
			return k
		}
	}
	return -1
}

func (st *fstate) isSealedIface(t types.Type) bool {
	return st.e.p.sealedOf(t) != ""
}

func (st *fstate) methodOn(t types.Type, name string) *ssa.Function {
	ms := st.e.p.SSA.MethodSets.MethodSet(t)
	sel := ms.Lookup(st.e.p.Types, name)
	if sel == nil {
		// exported method of another package's type
		for i := 0; i < ms.Len(); i++ {
			if ms.At(i).Obj().Name() == name {
				sel = ms.At(i)
			}
		}
	}
	if sel == nil {
		return nil
	}
	return st.e.p.SSA.MethodValue(sel)
}

func (st *fstate) argOrigins(vals []ssa.Value) []oset {
	out := make([]oset, len(vals))
	for i, v := range vals {
		if v != nil && st.e.tracked(v.Type()) {
			out[i] = st.get(v)
		} else if v != nil {
			// function values are untracked but their closures matter
			out[i] = st.get(v)
		} else {
			out[i] = oset{}
		}
	}
	return out
}

func (st *fstate) addCallback(cb callback) {
	k := cb.key()
	if _, ok := st.sum.callbacks[k]; !ok {
		st.sum.callbacks[k] = cb
		st.e.changed = true
	}
}

func (st *fstate) userCall(pos token.Pos, what string) {
	for _, u := range st.sum.userCalls {
		if u.Pos == pos {
			return
		}
	}
	st.sum.userCalls = append(st.sum.userCalls, writeSite{pos, what})
}

// targets resolves the possible callees of a call.
func (st *fstate) targets(c *ssa.CallCommon, pos token.Pos) []target {
	var out []target
	if c.IsInvoke() {
		recv := c.Value
		name := c.Method.Name()
		args := append([]ssa.Value{recv}, c.Args...)
		// known dynamic types
		set := st.e.ts.of(recv, map[ssa.Value]bool{})
		if !set.top && len(set.types) > 0 {
			for _, t := range set.types {
				if t == nil {
					continue
				}
				if fn := st.methodOn(t, name); fn != nil && st.e.sums[fn] != nil {
					vals := append([]ssa.Value{stripIface(recv)}, c.Args...)
					out = append(out, target{fn: fn, args: st.argOrigins(vals), argVals: vals})
				}
			}
			return out
		}
		if st.isSealedIface(recv.Type()) {
			for _, fn := range st.e.byMethod[name] {
				if st.e.sums[fn] == nil {
					continue
				}
				rt := fn.Signature.Recv().Type()
				if it, ok := recv.Type().Underlying().(*types.Interface); ok && types.Implements(rt, it) {
					out = append(out, target{fn: fn, args: st.argOrigins(args), argVals: args})
				}
			}
			return out
		}
		// user-implementable interface
		if k := st.paramIndex(stripIface(recv)); k >= 0 {
			st.addCallback(callback{param: k, method: name, args: st.argOrigins(c.Args), pos: pos})
		} else {
			st.userCall(pos, "invoke "+name+" on "+st.e.p.TypeStr(recv.Type()))
		}
		return nil
	}
	if callee := c.StaticCallee(); callee != nil {
		if st.e.sums[callee] == nil {
			return nil // external
		}
		t := target{fn: callee, args: st.argOrigins(c.Args), argVals: c.Args}
		if mc, ok := c.Value.(*ssa.MakeClosure); ok {
			for _, b := range mc.Bindings {
				t.bindings = append(t.bindings, st.get(b))
			}
		}
		return []target{t}
	}
	// dynamic call of a function value
	v := stripIface(c.Value)
	if k := st.paramIndex(v); k >= 0 {
		st.addCallback(callback{param: k, method: "", args: st.argOrigins(c.Args), pos: pos})
		return nil
	}
	for _, fv := range st.funcValues(v, map[ssa.Value]bool{}) {
		t := target{fn: fv.fn, args: st.argOrigins(c.Args), argVals: c.Args, bindings: fv.bindings}
		out = append(out, t)
	}
	if len(out) == 0 {
		st.userCall(pos, "call of function value "+v.Name())
	}
	return out
}

type funcVal struct {
	fn       *ssa.Function
	bindings []oset
}

// funcValues resolves a function-typed value to concrete functions where the
// flow is local (closure literals, named functions, phis of those).
func (st *fstate) funcValues(v ssa.Value, seen map[ssa.Value]bool) []funcVal {
	if seen[v] {
		return nil
	}
	seen[v] = true
	switch x := stripIface(v).(type) {
	case *ssa.Function:
		if st.e.sums[x] != nil {
			return []funcVal{{fn: x}}
		}
	case *ssa.MakeClosure:
		fn := x.Fn.(*ssa.Function)
		var bs []oset
		for _, b := range x.Bindings {
			bs = append(bs, st.get(b))
		}
		return []funcVal{{fn: fn, bindings: bs}}
	case *ssa.Phi:
		var out []funcVal
		for _, e := range x.Edges {
			out = append(out, st.funcValues(e, seen)...)
		}
		return out
	case *ssa.UnOp:
		// load of a local variable holding a closure
		if a, ok := x.X.(*ssa.Alloc); ok && x.Op == token.MUL {
			var out []funcVal
			for _, ref := range *a.Referrers() {
				if s, ok := ref.(*ssa.Store); ok && s.Addr == a {
					out = append(out, st.funcValues(s.Val, seen)...)
				}
			}
			return out
		}
	}
	return nil
}

func (st *fstate) translate(k string, t target, pos token.Pos, idx int) oset {
	switch {
	case strings.HasPrefix(k, "P:"):
		i, _ := strconv.Atoi(k[2:])
		if i < len(t.args) {
			return st.reach(t.args[i])
		}
		return oset{}
	case strings.HasPrefix(k, "V:"):
		i, _ := strconv.Atoi(k[2:])
		if i < len(t.bindings) {
			return st.reach(t.bindings[i])
		}
		return oset{"U": true}
	case k == "F":
		return oset{"F:call@" + strconv.Itoa(int(pos)) + "#" + strconv.Itoa(idx) + t.fn.Name(): true}
	}
	return oset{k: true}
}

func (st *fstate) translateSet(s oset, t target, pos token.Pos) oset {
	out := oset{}
	for k := range s {
		out.addAll(st.translate(k, t, pos, 99))
	}
	return out
}

// apply replays the summary of t.fn at this call site.
func (st *fstate) apply(t target, pos token.Pos, depth int) {
	s := st.e.sums[t.fn]
	if s == nil || depth > 6 {
		return
	}
	for w, sites := range s.writes {
		vals := st.translateSet(s.flows[w], t, pos)
		what := "via " + ssaFuncName(t.fn)
		if len(sites) > 0 {
			what += ": " + sites[0].What
		}
		for o := range st.translate(w, t, pos, 99) {
			if strings.HasPrefix(o, "F:") {
				st.addContents(o, vals)
			} else {
				st.recordWrite(o, vals, pos, what)
			}
		}
	}
	for _, u := range s.userCalls {
		st.userCall(u.Pos, u.What)
	}
	for _, cb := range s.callbacks {
		if cb.param >= len(t.argVals) {
			continue
		}
		av := t.argVals[cb.param]
		// translated argument origins
		cargs := make([]oset, len(cb.args))
		for i, a := range cb.args {
			cargs[i] = st.translateSet(a, t, pos)
		}
		if av == nil {
			st.userCall(pos, "callback through "+ssaFuncName(t.fn))
			continue
		}
		u := stripIface(av)
		if cb.method == "" {
			if k := st.paramIndex(u); k >= 0 {
				st.addCallback(callback{param: k, method: "", args: cargs, pos: pos})
				continue
			}
		} else if k := st.paramIndex(av); k >= 0 {
			// the interface-typed parameter itself is forwarded
			st.addCallback(callback{param: k, method: cb.method, args: cargs, pos: pos})
			continue
		}
		if cb.method == "" {
			fvs := st.funcValues(u, map[ssa.Value]bool{})
			if len(fvs) == 0 {
				st.userCall(pos, "callback of unresolved function value through "+ssaFuncName(t.fn))
			}
			for _, fv := range fvs {
				nt := target{fn: fv.fn, args: cargs, argVals: make([]ssa.Value, len(cargs)), bindings: fv.bindings}
				st.apply(nt, pos, depth+1)
			}
			continue
		}
		// method on a concrete type wrapped in an interface
		set := st.e.ts.of(av, map[ssa.Value]bool{})
		if mi, ok := av.(*ssa.MakeInterface); ok {
			set = newTset()
			set.types[st.e.p.TypeStr(mi.X.Type())] = mi.X.Type()
		}
		if set.top || len(set.types) == 0 {
			st.userCall(pos, "callback method "+cb.method+" on unresolved value through "+ssaFuncName(t.fn))
			continue
		}
		for _, ty := range set.types {
			if ty == nil {
				continue
			}
			fn := st.methodOn(ty, cb.method)
			if fn == nil || st.e.sums[fn] == nil {
				continue
			}
			recvO := st.get(u)
			nt := target{fn: fn, args: append([]oset{recvO}, cargs...), argVals: append([]ssa.Value{u}, make([]ssa.Value, len(cargs))...)}
			if fvs := st.funcValues(u, map[ssa.Value]bool{}); len(fvs) > 0 {
				// receiver is itself a func value (walkFuncVisitor(fn))
				_ = fvs
			}
			st.apply(nt, pos, depth+1)
		}
	}
}

func (st *fstate) call(instr *ssa.Call, c *ssa.CallCommon, pos token.Pos) {
	if b, ok := c.Value.(*ssa.Builtin); ok {
		switch b.Name() {
		case "append":
			if instr == nil || len(c.Args) == 0 {
				return
			}
			site := siteKey(instr)
			base := st.get(c.Args[0])
			res := oset{site: true}
			res.addAll(base)
			st.set(instr, res)
			vals := oset{}
			if st.elemTracked(c.Args[0].Type()) {
				vals = st.deref(base)
			}
			for _, a := range c.Args[1:] {
				if !st.elemTracked(c.Args[0].Type()) {
					break
				}
				if c.Signature().Variadic() && st.e.tracked(a.Type()) {
					// elems arrive as a slice value: its elements
					vals.addAll(st.deref(st.get(a)))
					vals.addAll(st.get(a))
				}
			}
			st.addContents(site, vals)
			// append may write into the spare capacity of a shared backing array
			for k := range base {
				if strings.HasPrefix(k, "F:") {
					st.addContents(k, vals)
				}
			}
			// append(x[:k], ...) certainly has spare capacity: the elements
			// after k are overwritten in place, whoever else holds the array
			if shortenedSlice(c.Args[0], map[ssa.Value]bool{}) {
				nonFresh := oset{}
				for k := range base {
					if !strings.HasPrefix(k, "F:") && k != site {
						nonFresh[k] = true
					}
				}
				if len(nonFresh) > 0 {
					st.store(nonFresh, vals, pos, "append into the shortened slice "+c.Args[0].Name()+" (overwrites the elements after its new length in place)")
				}
			}
		case "copy":
			if len(c.Args) == 2 {
				vals := oset{}
				if st.elemTracked(c.Args[0].Type()) {
					vals = st.deref(st.get(c.Args[1]))
				}
				st.store(st.get(c.Args[0]), vals, pos, "copy into "+c.Args[0].Name())
			}
		case "delete":
			if len(c.Args) >= 1 {
				st.store(st.get(c.Args[0]), oset{}, pos, "delete from map "+c.Args[0].Name())
			}
		}
		return
	}
	ts := st.targets(c, pos)
	for _, t := range ts {
		st.apply(t, pos, 0)
	}
	if len(ts) == 0 && !c.IsInvoke() {
		if callee := c.StaticCallee(); callee != nil && st.e.sums[callee] == nil {
			name := callee.String()
			if callee.Pkg != nil {
				name = callee.Pkg.Pkg.Path() + "." + callee.Name()
			}
			for _, i := range externalWrites[name] {
				if i < len(c.Args) {
					st.store(st.reach(st.get(c.Args[i])), oset{}, pos, "written by "+name)
				}
			}
			// a pointer-receiver method of a non-immutable external type called on
			// global-rooted memory may mutate that global (sync.Map.Store,
			// Mutex.Lock, ...): shared mutable state.
			if recv := callee.Signature.Recv(); recv != nil && len(c.Args) > 0 {
				if _, isPtr := recv.Type().(*types.Pointer); isPtr {
					for k := range st.get(c.Args[0]) {
						if strings.HasPrefix(k, "G:") {
							st.recordWrite(k, oset{}, pos, "call of "+recv.Type().String()+"."+callee.Name()+" on global-rooted memory")
						}
					}
				}
			}
			// methods of strings.Builder / bytes.Buffer write their receiver
			if recv := callee.Signature.Recv(); recv != nil && len(c.Args) > 0 {
				rs := recv.Type().String()
				if rs == "*strings.Builder" || rs == "*bytes.Buffer" {
					st.store(st.get(c.Args[0]), oset{}, pos, "written by "+callee.Name())
				}
			}
		}
	}
}

// callResult computes the origins of result idx of a call into target value v.
func (st *fstate) callResult(call *ssa.Call, idx int, v ssa.Value) {
	if !st.e.tracked(v.Type()) {
		return
	}
	c := &call.Call
	if b, ok := c.Value.(*ssa.Builtin); ok {
		_ = b
		return // append handled in call
	}
	pos := call.Pos()
	ts := st.targets(c, pos)
	if len(ts) == 0 {
		// external or user code: a fresh object that may retain its arguments
		site := "F:ext@" + strconv.Itoa(int(pos)) + "#" + strconv.Itoa(idx)
		if callee := c.StaticCallee(); callee != nil {
			st.set(v, oset{site: true})
			for _, a := range c.Args {
				if st.e.tracked(a.Type()) {
					st.addContents(site, st.get(a))
				}
			}
		} else {
			// result of user code: unknown
			st.set(v, oset{"U": true})
			// a callback on a parameter that returns the parameter's own type
			if c.IsInvoke() {
				if k := st.paramIndex(stripIface(c.Value)); k >= 0 && types.Identical(v.Type(), c.Value.Type()) {
					st.set(v, oset{"P:" + strconv.Itoa(k): true})
				}
			}
		}
		return
	}
	for _, t := range ts {
		s := st.e.sums[t.fn]
		if s == nil || idx >= len(s.ret) {
			continue
		}
		for k := range s.ret[idx] {
			tr := st.translate(k, t, pos, idx)
			st.set(v, tr)
			if k == "F" {
				for site := range tr {
					st.addContents(site, st.translateSet(s.retContents[idx], t, pos))
				}
			}
		}
	}
}

func (st *fstate) elemTracked(t types.Type) bool {
	switch u := t.Underlying().(type) {
	case *types.Slice:
		return st.e.tracked(u.Elem())
	case *types.Array:
		return st.e.tracked(u.Elem())
	case *types.Pointer:
		return st.elemTracked(u.Elem())
	case *types.Basic:
		return false // string
	}
	return true
}

// shortenedSlice: v is (on some path) x[:k] for a slice x, possibly through
// phis, conversions and earlier appends to it.
func shortenedSlice(v ssa.Value, seen map[ssa.Value]bool) bool {
	if seen[v] || len(seen) > 40 {
		return false
	}
	seen[v] = true
	switch x := v.(type) {
	case *ssa.Slice:
		if _, isSlice := x.X.Type().Underlying().(*types.Slice); isSlice && x.High != nil {
			return true
		}
	case *ssa.Phi:
		for _, e := range x.Edges {
			if shortenedSlice(e, seen) {
				return true
			}
		}
	case *ssa.ChangeType:
		return shortenedSlice(x.X, seen)
	case *ssa.Call:
		if b, ok := x.Call.Value.(*ssa.Builtin); ok && b.Name() == "append" && len(x.Call.Args) > 0 {
			return shortenedSlice(x.Call.Args[0], seen)
		}
	}
	return false
}
