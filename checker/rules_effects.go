package main

import (
	"fmt"
	"go/ast"
	"go/constant"
	"go/token"
	"go/types"
	"sort"
	"strings"

	"golang.org/x/tools/go/ssa"
)

// mutators: exported operations that are allowed to write through a
// parameter, with the parameter they may write and the reason. Everything
// else that is exported must be write-free.
var mutators = map[string]struct {
	param  int
	reason string
}{
	"(*SelectStatement).GroupByInterval":        {0, "documented memo field groupByInterval (the property excludes it from the shared set)"},
	"(*SelectStatement).GroupByOffset":          {0, "calls GroupByInterval (memo)"},
	"(*SelectStatement).RewriteRegexConditions": {0, "in-place rewrite by contract"},
	"(*SelectStatement).RewriteDistinct":        {0, "in-place rewrite by contract"},
	"(*SelectStatement).RewriteTimeFields":      {0, "in-place rewrite by contract"},
	"(*SelectStatement).SetTimeRange":           {0, "in-place rewrite by contract"},
	"Rewrite":                                   {1, "in-place rewrite by contract (node is parameter 1)"},
	"RewriteFunc":                               {0, "in-place rewrite by contract"},
	"RewriteExpr":                               {0, "in-place rewrite by contract"},
	"(*Sources).UnmarshalBinary":                {0, "decodes into its receiver"},
	"Fields.Swap":                               {0, "sort.Interface"},
	"VarRefs.Swap":                              {0, "sort.Interface"},
	"(*Parser).SetParams":                       {0, "configures the parser"},
}

var sharedEffects struct {
	p *Program
	e *effects
}

func (p *Program) effects() *effects {
	if sharedEffects.p != p {
		sharedEffects.p = p
		sharedEffects.e = p.newEffects()
	}
	return sharedEffects.e
}

// publicOps lists exported functions and exported methods of exported types,
// excluding the parser machinery types.
func (p *Program) publicOps() []*types.Func {
	var out []*types.Func
	for _, f := range p.SortedFuncs() {
		if !f.Exported() {
			continue
		}
		if rn := recvTypeName(f); rn != "" {
			if parserTypes[rn] && FuncName(f) != "(*Parser).SetParams" {
				continue
			}
			if !token.IsExported(rn) {
				continue
			}
		}
		out = append(out, f)
	}
	return out
}

// readonly emits one obligation per public operation: no write through any
// parameter (receiver included) and none through a global or unknown pointer.
func readonly(c *Ctx, rule string, filter func(f *types.Func) bool) int {
	p := c.P
	e := p.effects()
	n := 0
	for _, f := range p.publicOps() {
		if filter != nil && !filter(f) {
			continue
		}
		sf := p.SSA.FuncValue(f)
		if sf == nil || e.sums[sf] == nil {
			continue
		}
		name := FuncName(f)
		s := e.sums[sf]
		n++
		var bad []string
		keys := make([]string, 0, len(s.writes))
		for k := range s.writes {
			keys = append(keys, k)
		}
		sort.Strings(keys)
		m, isMut := mutators[name]
		for _, k := range keys {
			if strings.HasPrefix(k, "V:") || strings.HasPrefix(k, "G:") {
				continue // globals are C17.globals' obligation
			}
			if isMut && k == fmt.Sprintf("P:%d", m.param) {
				continue
			}
			w := s.writes[k][0]
			bad = append(bad, fmt.Sprintf("writes %s at %s (%s)", describeOrigin(sf, k), p.Pos(w.Pos), w.What))
		}
		fd := p.FuncDecls[f]
		switch {
		case len(bad) > 0:
			c.Bad(rule, name, fd.Pos(), strings.Join(bad, "; "))
		case isMut:
			c.OK(rule, name, fd.Pos(), "listed mutator: writes only below parameter "+fmt.Sprint(m.param)+" — "+m.reason)
		default:
			c.OK(rule, name, fd.Pos(), "no store reaches memory of any parameter or of unknown origin (callees and resolved callbacks included)")
		}
	}
	return n
}

func describeOrigin(f *ssa.Function, k string) string {
	if strings.HasPrefix(k, "P:") {
		var i int
		fmt.Sscanf(k, "P:%d", &i)
		if i < len(f.Params) {
			return "parameter " + f.Params[i].Name()
		}
	}
	if strings.HasPrefix(k, "G:") {
		return "global " + k[2:]
	}
	if k == "U" {
		return "memory of unknown origin"
	}
	return k
}

func isCloneName(n string) bool {
	return strings.HasPrefix(strings.ToLower(n), "clone")
}

// isCloneFunc: a clone function of the AST (ParseTree.Clone copies the
// dispatch table, which is not an AST and is outside C14).
func isCloneFunc(f *types.Func) bool {
	return isCloneName(f.Name()) && !parserTypes[recvTypeName(f)]
}

// immutableFields: pointer-like fields whose targets are immutable leaves.
var immutableFields = map[string]string{
	"SelectStatement.FillValue": "interface{} holding a boxed number (int64/float64), never a node",
	"SelectStatement.Location":  "*time.Location is immutable",
}

func init() {
	register("C14", rulesC14)
}

func rulesC14(c *Ctx) {
	p := c.P
	e := p.effects()
	c.Assume("user-supplied Visitor, Rewriter, Valuer, TypeMapper and FieldMapper implementations do not mutate the AST they are shown")
	c.Assume("strings, numbers, time.Time, *time.Location, *regexp.Regexp and boxed scalars are immutable leaves")

	// ---- C14.fresh ----
	c.Rule("C14.fresh", "every clone function returns only memory allocated by the call, and nothing reachable from the result is reachable from an argument (immutable leaves excepted); interprocedural origin analysis on SSA")
	nClone := 0
	for _, f := range p.SortedFuncs() {
		if !isCloneFunc(f) {
			continue
		}
		sf := p.SSA.FuncValue(f)
		s := e.sums[sf]
		if s == nil || len(s.ret) == 0 {
			continue
		}
		nClone++
		name := FuncName(f)
		var bad []string
		for k := range s.ret[0] {
			if k != "F" {
				bad = append(bad, "may return "+describeOrigin(sf, k)+" itself")
			}
		}
		for k := range s.retContents[0] {
			bad = append(bad, "result shares memory with "+describeOrigin(sf, k))
		}
		sort.Strings(bad)
		if len(bad) > 0 {
			c.Bad("C14.fresh", name, p.FuncDecls[f].Pos(), strings.Join(bad, "; "))
		} else {
			c.OK("C14.fresh", name, p.FuncDecls[f].Pos(), "result is fresh and shares no mutable node with its argument")
		}
	}
	c.Floor("C14.fresh", nClone, 5)
	// compiled regexps: (*regexp.Regexp).Longest mutates its receiver, so a
	// shared pointer is a shared mutable node; CloneRegexLiteral recompiles
	recompileSourceRule(c, "C14.regexsource")
	c.Rule("C14.regexcopy", "a clone function that builds a RegexLiteral gives it its own compiled regexp (recompiled or copied, as CloneRegexLiteral does), never the source's *regexp.Regexp itself: Regexp.Longest() changes the matcher in place, so a shared pointer lets a change to the clone alter how the original matches")
	nRe := 0
	for _, f := range p.SortedFuncs() {
		if !isCloneFunc(f) {
			continue
		}
		fd := p.FuncDecls[f]
		if fd == nil || fd.Body == nil {
			continue
		}
		name := FuncName(f)
		ast.Inspect(fd.Body, func(n ast.Node) bool {
			cl, ok := n.(*ast.CompositeLit)
			if !ok || p.TypeStr(p.Info.TypeOf(cl)) != "RegexLiteral" {
				return true
			}
			for _, el := range cl.Elts {
				kv, ok := el.(*ast.KeyValueExpr)
				if !ok {
					continue
				}
				if id, ok := kv.Key.(*ast.Ident); !ok || id.Name != "Val" {
					continue
				}
				nRe++
				key := fmt.Sprintf("%s: RegexLiteral{Val: %s}", name, types.ExprString(kv.Value))
				if sel, ok := ast.Unparen(kv.Value).(*ast.SelectorExpr); ok && sel.Sel.Name == "Val" {
					c.Bad("C14.regexcopy", key, kv.Pos(), "the clone holds the very *regexp.Regexp of the original")
				} else {
					c.OK("C14.regexcopy", key, kv.Pos(), "own compiled regexp")
				}
			}
			return true
		})
	}
	if nRe == 0 {
		c.OK("C14.regexcopy", "clone functions", 0, "no clone function builds a RegexLiteral from a shared pointer (all go through CloneRegexLiteral)")
	}

	// ---- C14.fields / C14.overwrite ----
	c.Rule("C14.fields", "inside a clone function every composite literal of a package struct type sets every field of that type")
	c.Rule("C14.overwrite", "after a whole-struct copy (clone := *s) every pointer-like field is re-assigned unconditionally or under a nil test of the source field; immutable leaves are listed")
	nLit, nOver := 0, 0
	for _, f := range p.SortedFuncs() {
		if !isCloneFunc(f) {
			continue
		}
		fd := p.FuncDecls[f]
		if fd.Body == nil {
			continue
		}
		name := FuncName(f)
		ast.Inspect(fd.Body, func(n ast.Node) bool {
			cl, ok := n.(*ast.CompositeLit)
			if !ok {
				return true
			}
			t := p.Info.TypeOf(cl)
			nt, ok := t.(*types.Named)
			if !ok || nt.Obj().Pkg() != p.Types {
				return true
			}
			st, ok := nt.Underlying().(*types.Struct)
			if !ok || st.NumFields() == 0 {
				return true
			}
			nLit++
			set := map[string]bool{}
			positional := false
			for _, el := range cl.Elts {
				if kv, ok := el.(*ast.KeyValueExpr); ok {
					if id, ok := kv.Key.(*ast.Ident); ok {
						set[id.Name] = true
					}
				} else {
					positional = true
				}
			}
			// v := &T{...} followed by v.F = ... counts as setting F
			if v := boundVar(p, fd.Body, cl); v != nil {
				ast.Inspect(fd.Body, func(m ast.Node) bool {
					if a, ok := m.(*ast.AssignStmt); ok {
						for _, l := range a.Lhs {
							if sel, ok := l.(*ast.SelectorExpr); ok {
								if id := identOf(sel.X); id != nil && p.Info.ObjectOf(id) == v {
									set[sel.Sel.Name] = true
								}
							}
						}
					}
					return true
				})
			}
			var missing []string
			if !positional {
				for i := 0; i < st.NumFields(); i++ {
					if !set[st.Field(i).Name()] && !zeroGuarded(p, fd.Body, cl, st.Field(i).Name()) {
						missing = append(missing, st.Field(i).Name())
					}
				}
			}
			key := name + ": " + nt.Obj().Name() + "{}"
			if len(missing) > 0 {
				c.Bad("C14.fields", key, cl.Pos(), "fields left at their zero value in the copy: "+strings.Join(missing, ", "))
			} else {
				c.OK("C14.fields", key, cl.Pos(), fmt.Sprintf("all %d fields set", st.NumFields()))
			}
			return true
		})
		// whole-struct copies
		for _, st := range fd.Body.List {
			as, ok := st.(*ast.AssignStmt)
			if !ok || len(as.Lhs) != 1 || len(as.Rhs) != 1 {
				continue
			}
			star, ok := as.Rhs[0].(*ast.StarExpr)
			if !ok {
				continue
			}
			src := identOf(star.X)
			dst := identOf(as.Lhs[0])
			if src == nil || dst == nil {
				continue
			}
			stype, ok := p.Info.TypeOf(star).Underlying().(*types.Struct)
			if !ok {
				continue
			}
			tname := p.TypeStr(p.Info.TypeOf(star))
			over := map[string]bool{}
			mark := func(s ast.Stmt) {
				if a, ok := s.(*ast.AssignStmt); ok {
					for _, l := range a.Lhs {
						if sel, ok := l.(*ast.SelectorExpr); ok {
							if id := identOf(sel.X); id != nil && p.Info.ObjectOf(id) == p.Info.ObjectOf(dst) {
								over[sel.Sel.Name] = true
							}
						}
					}
				}
			}
			for _, s2 := range fd.Body.List {
				mark(s2)
				if is, ok := s2.(*ast.IfStmt); ok && is.Else == nil && is.Init == nil {
					// if s.F != nil { clone.F = ... }
					if b, ok := ast.Unparen(is.Cond).(*ast.BinaryExpr); ok && b.Op == token.NEQ {
						if sel, ok := b.X.(*ast.SelectorExpr); ok && identOf(b.Y) != nil && identOf(b.Y).Name == "nil" {
							if id := identOf(sel.X); id != nil && p.Info.ObjectOf(id) == p.Info.ObjectOf(src) {
								before := map[string]bool{}
								for k := range over {
									before[k] = true
								}
								for _, s3 := range is.Body.List {
									mark(s3)
								}
								for k := range over {
									if !before[k] && k != sel.Sel.Name {
										delete(over, k) // conditional on another field: not a guard for k
									}
								}
							}
						}
					}
				}
			}
			for i := 0; i < stype.NumFields(); i++ {
				fld := stype.Field(i)
				if !e.tracked(fld.Type()) {
					continue
				}
				nOver++
				key := name + ": " + tname + "." + fld.Name()
				if why, ok := immutableFields[tname+"."+fld.Name()]; ok {
					c.OK("C14.overwrite", key, as.Pos(), "immutable leaf: "+why)
				} else if over[fld.Name()] {
					c.OK("C14.overwrite", key, as.Pos(), "re-assigned after the struct copy")
				} else {
					c.Bad("C14.overwrite", key, as.Pos(), "pointer-like field is copied by the struct assignment and never re-assigned: clone and original share it")
				}
			}
		}
	}
	// whole-struct copies in nested blocks (x := *s.F inside an if): the same
	// obligation, the re-assignments looked for in the block the copy is in
	for _, f := range p.SortedFuncs() {
		if !isCloneFunc(f) {
			continue
		}
		fd := p.FuncDecls[f]
		if fd.Body == nil {
			continue
		}
		name := FuncName(f)
		ast.Inspect(fd.Body, func(nd ast.Node) bool {
			blk, ok := nd.(*ast.BlockStmt)
			if !ok || blk == fd.Body {
				return true
			}
			for i, st := range blk.List {
				as, ok := st.(*ast.AssignStmt)
				if !ok || len(as.Lhs) != 1 || len(as.Rhs) != 1 {
					continue
				}
				star, ok := as.Rhs[0].(*ast.StarExpr)
				dst := identOf(as.Lhs[0])
				if !ok || dst == nil {
					continue
				}
				stype, ok := p.Info.TypeOf(star).Underlying().(*types.Struct)
				if !ok {
					continue
				}
				if nt, ok := p.Info.TypeOf(star).(*types.Named); !ok || nt.Obj().Pkg() != p.Types {
					continue
				}
				tname := p.TypeStr(p.Info.TypeOf(star))
				over := map[string]bool{}
				for _, s2 := range blk.List[i+1:] {
					if a, ok := s2.(*ast.AssignStmt); ok {
						for _, l := range a.Lhs {
							if sel, ok := l.(*ast.SelectorExpr); ok {
								if id := identOf(sel.X); id != nil && p.Info.ObjectOf(id) == p.Info.ObjectOf(dst) {
									over[sel.Sel.Name] = true
								}
							}
						}
					}
				}
				for k := 0; k < stype.NumFields(); k++ {
					fld := stype.Field(k)
					if !e.tracked(fld.Type()) {
						continue
					}
					nOver++
					key := name + ": " + tname + "." + fld.Name() + " (copy of " + types.ExprString(star.X) + ")"
					if why, ok := immutableFields[tname+"."+fld.Name()]; ok {
						c.OK("C14.overwrite", key, as.Pos(), "immutable leaf: "+why)
					} else if over[fld.Name()] {
						c.OK("C14.overwrite", key, as.Pos(), "re-assigned after the struct copy")
					} else {
						c.Bad("C14.overwrite", key, as.Pos(), "pointer-like field is copied by the struct assignment and never re-assigned: clone and original share it")
					}
				}
			}
			return true
		})
	}
	// every shallow copy the effect analysis skipped must be one C14.overwrite examined
	for _, sf := range p.allSSAFuncs() {
		for _, sh := range e.sums[sf].shallow {
			o, _ := sf.Object().(*types.Func)
			if o == nil || !isCloneFunc(o) {
				c.Unk("C14.overwrite", ssaFuncName(sf)+": copy of "+sh.What, sh.Pos, "whole-struct copy of a pointer-carrying struct outside a clone function: sharing is not analysed")
			}
		}
	}
	c.Floor("C14.fields", nLit, 15)
	c.Floor("C14.overwrite", nOver, 6)

	// ---- C14.readonly / C14.inplace ----
	c.Rule("C14.readonly", "every exported function and every exported method of an exported type writes through none of its parameters (receiver included) and through no pointer of unknown origin; the listed in-place rewrites and the GroupByInterval memo may write below their designated parameter only")
	n := readonly(c, "C14.readonly", nil)
	c.Floor("C14.readonly", n, 250)
}

// boundVar returns the variable a composite literal (or its address) is
// directly assigned to, if any.
func boundVar(p *Program, body *ast.BlockStmt, cl *ast.CompositeLit) types.Object {
	var out types.Object
	ast.Inspect(body, func(n ast.Node) bool {
		as, ok := n.(*ast.AssignStmt)
		if !ok || len(as.Lhs) != len(as.Rhs) {
			return true
		}
		for i, r := range as.Rhs {
			r = ast.Unparen(r)
			if u, ok := r.(*ast.UnaryExpr); ok && u.Op == token.AND {
				r = ast.Unparen(u.X)
			}
			if r == ast.Expr(cl) {
				if id := identOf(as.Lhs[i]); id != nil {
					out = p.Info.ObjectOf(id)
				}
			}
		}
		return true
	})
	return out
}

// zeroGuarded: the literal lies on a branch taken only when the source's
// field of the same name is nil / zero / empty, so leaving it unset copies it.
func zeroGuarded(p *Program, body *ast.BlockStmt, lit *ast.CompositeLit, field string) bool {
	isZeroTest := func(cond ast.Expr, wantEq bool) bool {
		b, ok := ast.Unparen(cond).(*ast.BinaryExpr)
		if !ok {
			return false
		}
		if (b.Op == token.EQL) != wantEq || (b.Op != token.EQL && b.Op != token.NEQ) {
			return false
		}
		side := func(x, y ast.Expr) bool {
			x = ast.Unparen(x)
			if call, ok := x.(*ast.CallExpr); ok && len(call.Args) == 1 {
				if id := identOf(call.Fun); id != nil && id.Name == "len" {
					x = ast.Unparen(call.Args[0])
				}
			}
			sel, ok := x.(*ast.SelectorExpr)
			if !ok || sel.Sel.Name != field {
				return false
			}
			if id := identOf(y); id != nil && id.Name == "nil" {
				return true
			}
			if tv := p.Info.Types[y]; tv.Value != nil {
				switch tv.Value.Kind() {
				case constant.Int, constant.Float:
					return constant.Sign(tv.Value) == 0
				case constant.String:
					return constant.StringVal(tv.Value) == ""
				case constant.Bool:
					return !constant.BoolVal(tv.Value)
				}
			}
			return false
		}
		return side(b.X, b.Y) || side(b.Y, b.X)
	}
	found := false
	var walk func(n ast.Node, guarded bool)
	walk = func(n ast.Node, guarded bool) {
		if n == nil || found {
			return
		}
		if n == ast.Node(lit) {
			found = guarded
			return
		}
		if is, ok := n.(*ast.IfStmt); ok {
			walk(is.Init, guarded)
			walk(is.Body, guarded || isZeroTest(is.Cond, true))
			if is.Else != nil {
				walk(is.Else, guarded || isZeroTest(is.Cond, false))
			}
			return
		}
		ast.Inspect(n, func(m ast.Node) bool {
			if m == n || m == nil {
				return true
			}
			walk(m, guarded)
			return false
		})
	}
	walk(body, false)
	return found
}

// parseFreshRule: what a parse method returns shares no mutable memory with
// the parser itself.
func parseFreshRule(c *Ctx, rule string) {
	p := c.P
	c.Rule(rule, "no Parser method returns memory that is reachable from the Parser (a scratch slice or buffer kept between calls): nodes of one statement would otherwise alias storage that parsing the next statement of the same query overwrites, so a statement's AST depends on what follows it")
	e := p.effects()
	n := 0
	for _, f := range p.SortedFuncs() {
		if recvTypeName(f) != "Parser" {
			continue
		}
		sf := p.SSA.FuncValue(f)
		s := e.sums[sf]
		if s == nil || len(s.ret) == 0 {
			continue
		}
		n++
		name := FuncName(f)
		var bad []string
		for i := range s.ret {
			for k := range s.ret[i] {
				if k == "P:0" {
					bad = append(bad, fmt.Sprintf("result %d may be memory owned by the parser", i))
				}
			}
			if i < len(s.retContents) {
				for k := range s.retContents[i] {
					if k == "P:0" {
						bad = append(bad, fmt.Sprintf("result %d shares memory with the parser", i))
					}
				}
			}
		}
		sort.Strings(bad)
		if len(bad) > 0 {
			c.Bad(rule, name, p.FuncDecls[f].Pos(), strings.Join(bad, "; "))
		} else {
			c.OK(rule, name, p.FuncDecls[f].Pos(), "results are independent of the parser's own storage")
		}
	}
	c.Floor(rule, n, 80)
}

// copyLiteralRule: a literal that copies a node copies all of it.
func copyLiteralRule(c *Ctx, rule string, inScope func(name string) bool) {
	p := c.P
	c.Rule(rule, "in the reducers a composite literal of an AST node type that takes at least one field from a value of that same type (a copy) sets every field of the type: a copy that leaves a field out silently resets it (the ::type of a reference, a flag) in the result")
	n := 0
	for _, fb := range p.funcBodies() {
		if !inScope(fb.Decl.Name()) {
			continue
		}
		fb := fb
		ast.Inspect(fb.Body, func(nd ast.Node) bool {
			cl, ok := nd.(*ast.CompositeLit)
			if !ok {
				return true
			}
			nt, ok := p.Info.TypeOf(cl).(*types.Named)
			if !ok || nt.Obj().Pkg() != p.Types {
				return true
			}
			st, ok := nt.Underlying().(*types.Struct)
			if !ok || st.NumFields() < 2 {
				return true
			}
			set := map[string]bool{}
			copies := false
			for _, el := range cl.Elts {
				kv, ok := el.(*ast.KeyValueExpr)
				if !ok {
					return true // positional: the compiler demands every field
				}
				id, ok := kv.Key.(*ast.Ident)
				if !ok {
					continue
				}
				set[id.Name] = true
				// value is <x>.<same field> with x of the same node type
				if sel, ok := ast.Unparen(kv.Value).(*ast.SelectorExpr); ok && sel.Sel.Name == id.Name {
					xt := p.Info.TypeOf(sel.X)
					if pt, ok := xt.(*types.Pointer); ok {
						xt = pt.Elem()
					}
					if types.Identical(xt, nt) {
						copies = true
					}
				}
			}
			if !copies {
				return true
			}
			n++
			var missing []string
			for i := 0; i < st.NumFields(); i++ {
				if !set[st.Field(i).Name()] {
					missing = append(missing, st.Field(i).Name())
				}
			}
			key := fmt.Sprintf("%s: copy of %s #%d", fb.Name, nt.Obj().Name(), n)
			if len(missing) > 0 {
				c.Bad(rule, key, cl.Pos(), "the copy leaves out "+strings.Join(missing, ", ")+": the result has the zero value where the original had a value")
			} else {
				c.OK(rule, key, cl.Pos(), "every field copied or set")
			}
			return true
		})
	}
	c.Floor(rule, n, 1)
}

// globalAliasRule: what an exported operation returns is the caller's to keep:
// it does not alias package-level memory that other callers also receive.
func globalAliasRule(c *Ctx, rule string) {
	p := c.P
	c.Rule(rule, "no exported function or method returns memory (or a value containing memory) that belongs to a package-level variable: every caller would hold the same mutable slice or map, so one caller writing into its result changes what all later callers get — and the write races with their reads")
	e := p.effects()
	n := 0
	for _, f := range p.SortedFuncs() {
		if !f.Exported() {
			continue
		}
		if rn := recvTypeName(f); rn != "" {
			if nt := p.Named(rn); nt == nil || !nt.Obj().Exported() {
				continue
			}
		}
		sf := p.SSA.FuncValue(f)
		s := e.sums[sf]
		if s == nil || len(s.ret) == 0 {
			continue
		}
		n++
		name := FuncName(f)
		var bad []string
		for i := range s.ret {
			for k := range s.ret[i] {
				if strings.HasPrefix(k, "G:") {
					// a sentinel value (an error, a zero value) is not memory a caller
					// can write into; a slice or map is
					if g := p.Global(k[2:]); g != nil {
						switch g.Type().Underlying().(type) {
						case *types.Slice, *types.Map:
							bad = append(bad, fmt.Sprintf("result %d may be the package-level %s itself", i, k[2:]))
						}
					}
				}
			}
			if i < len(s.retContents) {
				for k := range s.retContents[i] {
					if strings.HasPrefix(k, "G:") {
						bad = append(bad, fmt.Sprintf("result %d contains memory of the package-level %s", i, k[2:]))
					}
				}
			}
		}
		sort.Strings(bad)
		if len(bad) > 0 {
			c.Bad(rule, name, p.FuncDecls[f].Pos(), strings.Join(bad, "; "))
		} else {
			c.OK(rule, name, p.FuncDecls[f].Pos(), "results share nothing with package-level variables")
		}
	}
	c.Floor(rule, n, 100)
}
