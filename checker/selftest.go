package main

// Thorough-tier self-test: the variant bank (variants.tsv) is a list of small
// source rewrites of the tree under analysis. Each is applied to a scratch
// copy of /repo's current working tree (outside /repo and /verif, removed
// afterwards), type-checked, and analysed with the same rules:
//   fire   — a property-breaking edit: the rules must report a new violation;
//   silent — a behaviour-preserving edit: the rules must stay as quiet as on
//            the unmodified tree.
// A variant whose pattern no longer matches the tree is skipped and counted.
// A self-test failure is a defect of the machinery, never a VIOLATION.

import (
	_ "embed"
	"fmt"
	"io"
	"io/fs"
	"os"
	"path/filepath"
	"regexp"
	"strings"
)

//go:embed variants.tsv
var variantBank string

type selfTestResult struct {
	Run     int      `json:"variants_run"`
	Skipped int      `json:"variants_skipped"`
	Failed  int      `json:"variants_failed"`
	Lines   []string `json:"results"`
}

type variant struct {
	prop, expect, file, pattern, repl, note string
}

func loadVariants(prop string) []variant {
	var out []variant
	for _, line := range strings.Split(variantBank, "\n") {
		if line == "" || strings.HasPrefix(line, "#") {
			continue
		}
		f := strings.Split(line, "\t")
		if len(f) < 5 || f[0] != prop {
			continue
		}
		v := variant{prop: f[0], expect: f[1], file: f[2], pattern: f[3], repl: f[4]}
		if len(f) > 5 {
			v.note = f[5]
		}
		out = append(out, v)
	}
	return out
}

func unescape(s string) string {
	r := strings.NewReplacer(`\n`, "\n", `\t`, "\t", `\\`, `\`)
	return r.Replace(s)
}

func copyTree(src, dst string) error {
	return filepath.WalkDir(src, func(path string, d fs.DirEntry, err error) error {
		if err != nil {
			return err
		}
		rel, _ := filepath.Rel(src, path)
		if d.IsDir() {
			if d.Name() == ".git" {
				return filepath.SkipDir
			}
			return os.MkdirAll(filepath.Join(dst, rel), 0o755)
		}
		if !d.Type().IsRegular() {
			return nil
		}
		in, err := os.Open(path)
		if err != nil {
			return err
		}
		defer in.Close()
		out, err := os.Create(filepath.Join(dst, rel))
		if err != nil {
			return err
		}
		defer out.Close()
		_, err = io.Copy(out, in)
		return err
	})
}

// unexpected counts violated/undecided obligations that are not known findings.
func unexpected(c *Ctx) map[string]bool {
	known, _ := loadKnown()
	out := map[string]bool{}
	for _, o := range c.Obls {
		if o.st == Discharged || (o.st == Undecided && os.Getenv("VERIF_STRICT") != "1") {
			continue
		}
		isKnown := false
		if o.st == Violated {
			for _, k := range known {
				if k.prop == c.Prop && k.rule == o.Rule && k.key == o.Key {
					isKnown = true
				}
			}
		}
		if !isKnown {
			out[o.Rule+"|"+o.Key] = true
		}
	}
	return out
}

func runSelfTests(prop string, base *Ctx) *selfTestResult {
	res := &selfTestResult{}
	vs := loadVariants(prop)
	if len(vs) == 0 {
		return res
	}
	baseline := unexpected(base)
	spec := registry[prop]
	for i, v := range vs {
		label := fmt.Sprintf("%s #%d (%s) %s", v.expect, i+1, v.file, v.note)
		src, err := os.ReadFile(filepath.Join(repoDir(), v.file))
		if err != nil {
			res.Skipped++
			res.Lines = append(res.Lines, "skipped "+label+": file not found")
			continue
		}
		re, err := regexp.Compile(v.pattern)
		if err != nil {
			res.Failed++
			res.Lines = append(res.Lines, "FAILED "+label+": bad pattern: "+err.Error())
			continue
		}
		locs := re.FindAllIndex(src, -1)
		if len(locs) != 1 {
			res.Skipped++
			res.Lines = append(res.Lines, fmt.Sprintf("skipped %s: pattern matches %d times on this tree", label, len(locs)))
			continue
		}
		dir, err := os.MkdirTemp("", "ivq-selftest-")
		if err != nil {
			res.Failed++
			res.Lines = append(res.Lines, "FAILED "+label+": "+err.Error())
			continue
		}
		func() {
			defer os.RemoveAll(dir)
			if err := copyTree(repoDir(), dir); err != nil {
				res.Failed++
				res.Lines = append(res.Lines, "FAILED "+label+": copy: "+err.Error())
				return
			}
			edited := append([]byte{}, src[:locs[0][0]]...)
			if strings.Contains(v.repl, "${") {
				// capture groups of the pattern may be reused in the replacement
				sub := re.FindSubmatchIndex(src)
				edited = re.Expand(edited, []byte(unescape(v.repl)), src, sub)
			} else {
				edited = append(edited, []byte(unescape(v.repl))...)
			}
			edited = append(edited, src[locs[0][1]:]...)
			if err := os.WriteFile(filepath.Join(dir, v.file), edited, 0o644); err != nil {
				res.Failed++
				res.Lines = append(res.Lines, "FAILED "+label+": "+err.Error())
				return
			}
			p, err := Load(dir, "")
			if err != nil {
				res.Skipped++
				res.Lines = append(res.Lines, "skipped "+label+": variant does not type-check on this tree")
				return
			}
			c := NewCtx(p, prop, "thorough")
			func() {
				defer func() {
					if r := recover(); r != nil {
						c.Unk(prop+".internal", "panic", 0, fmt.Sprint(r))
					}
				}()
				for _, r := range spec.rules {
					r(c)
				}
			}()
			res.Run++
			got := unexpected(c)
			fresh := 0
			var first string
			for k := range got {
				if !baseline[k] {
					fresh++
					if first == "" || k < first {
						first = k
					}
				}
			}
			switch v.expect {
			case "fire":
				if fresh > 0 {
					res.Lines = append(res.Lines, fmt.Sprintf("ok %s: reported %s", label, first))
				} else {
					res.Failed++
					res.Lines = append(res.Lines, "FAILED "+label+": the rules stayed silent on a property-breaking edit")
				}
			case "silent":
				if fresh == 0 {
					res.Lines = append(res.Lines, "ok "+label+": silent")
				} else {
					res.Failed++
					res.Lines = append(res.Lines, fmt.Sprintf("FAILED %s: false alarm %s on a behaviour-preserving edit", label, first))
				}
			}
		}()
	}
	for _, l := range res.Lines {
		fmt.Println("selftest:", l)
	}
	return res
}

// cmdSelftest runs the bank for one property (or all) against the current tree.
func cmdSelftest(args []string) int {
	props := args
	if len(props) == 0 || props[0] == "all" {
		props = nil
		for id := range registry {
			props = append(props, id)
		}
	}
	failed := 0
	for _, prop := range props {
		if prop == "-p" {
			continue
		}
		spec := registry[prop]
		if spec == nil {
			continue
		}
		p, err := Load(repoDir(), "")
		if err != nil {
			fmt.Fprintln(os.Stderr, err)
			return 2
		}
		c := NewCtx(p, prop, "thorough")
		for _, r := range spec.rules {
			r(c)
		}
		st := runSelfTests(prop, c)
		fmt.Printf("selftest %s: run=%d skipped=%d failed=%d\n", prop, st.Run, st.Skipped, st.Failed)
		failed += st.Failed
	}
	if failed > 0 {
		return 2
	}
	return 0
}
