package main

// Self-tests (thorough tier): see variants.go once built. A self-test failure
// is a defect of the machinery (exit 2), never a VIOLATION.

type selfTestResult struct {
	Run     int      `json:"variants_run"`
	Skipped int      `json:"variants_skipped"`
	Failed  int      `json:"variants_failed"`
	Lines   []string `json:"results"`
}

func runSelfTests(prop string, c *Ctx) *selfTestResult { return nil }

func cmdSelftest(args []string) int { return 0 }
