package main

import (
	"fmt"
	"go/constant"
	"go/token"
	"go/types"
	"strings"

	"golang.org/x/tools/go/ssa"
)

// importRules runs the rules of another property on the same program and
// re-files their obligations under this property: one mechanism (precedence
// table, quoting helpers) can be a necessary condition of several properties.
func importRules(c *Ctx, from ruleFn, fromPrefix, toPrefix string, only func(rule string) bool) {
	sub := NewCtx(c.P, c.Prop, c.Tier)
	from(sub)
	for id, text := range sub.RuleText {
		if only == nil || only(id) {
			c.Rule(strings.Replace(id, fromPrefix, toPrefix, 1), text)
		}
	}
	for _, o := range sub.Obls {
		if only != nil && !only(o.Rule) {
			continue
		}
		rule := strings.Replace(o.Rule, fromPrefix, toPrefix, 1)
		k := rule + "|" + o.Key
		if c.seen[k] {
			continue
		}
		c.seen[k] = true
		cp := *o
		cp.Rule = rule
		c.Obls = append(c.Obls, &cp)
	}
	for _, a := range sub.Assumptions {
		c.Assume(a)
	}
}

// optionsC01: ALTER RETENTION POLICY keeps a set of options already seen; the
// key it tests and the key it records must both be the option token that
// selected the case.
func optionsC01(c *Ctx) {
	p := c.P
	c.Rule("C01.options", "in the option loop of ALTER RETENTION POLICY the duplicate-option set is tested and updated with the very token that selects the option's case (not a token scanned later inside the case): otherwise a legal option order is rejected as duplicate and a real duplicate is accepted")
	f := p.SSAFunc(p.Method("Parser", "parseAlterRetentionPolicyStatement"))
	tt := p.tokenTable()
	if f == nil || tt == nil {
		c.Unk("C01.options", "(*Parser).parseAlterRetentionPolicyStatement", 0, "anchor not found")
		return
	}
	tag := switchTag(f, 4)
	n := 0
	for _, b := range f.Blocks {
		for _, in := range b.Instrs {
			var key ssa.Value
			var m ssa.Value
			what := ""
			switch x := in.(type) {
			case *ssa.MapUpdate:
				key, m, what = x.Key, x.Map, "records"
			case *ssa.Lookup:
				key, m, what = x.Index, x.X, "tests"
			default:
				continue
			}
			mt, ok := m.Type().Underlying().(*types.Map)
			if !ok || !types.Identical(mt.Key(), tt.Type) {
				continue
			}
			n++
			k := fmt.Sprintf("(*Parser).parseAlterRetentionPolicyStatement: option set %s the selecting token (#%d)", what, n)
			c.Check(tag != nil && key == tag, "C01.options", k, in.Pos(), "the key is not the token the option switch dispatches on (it was overwritten by a later scan)")
		}
	}
	c.Floor("C01.options", n, 2)
}

// zoneC09: a delegating Zone() returns a zone only when it is non-nil.
func zoneC09(c *Ctx) {
	p := c.P
	c.Rule("C09.zone", "a valuer that delegates Zone() to its members returns a member's zone only after testing it for nil, so a zone-less member listed first does not hide the real time zone (time strings without a zone fold in that zone)")
	n := 0
	for _, f := range p.allSSAFuncs() {
		if f.Name() != "Zone" || f.Signature.Recv() == nil {
			continue
		}
		for _, b := range f.Blocks {
			ret, ok := b.Instrs[len(b.Instrs)-1].(*ssa.Return)
			if !ok || len(ret.Results) != 1 {
				continue
			}
			call, ok := ret.Results[0].(*ssa.Call)
			if !ok || !call.Call.IsInvoke() || call.Call.Method.Name() != "Zone" {
				continue
			}
			n++
			guarded := false
			for d := b; d != nil; d = d.Idom() {
				ifi, ok := d.Instrs[len(d.Instrs)-1].(*ssa.If)
				if !ok || d == b {
					continue
				}
				bo, ok := ifi.Cond.(*ssa.BinOp)
				if !ok || bo.X != ssa.Value(call) {
					continue
				}
				if k, ok := bo.Y.(*ssa.Const); !ok || !k.IsNil() {
					continue
				}
				if bo.Op == token.NEQ && (d.Succs[0] == b || d.Succs[0].Dominates(b)) {
					guarded = true
				}
				if bo.Op == token.EQL && (d.Succs[1] == b || d.Succs[1].Dominates(b)) {
					guarded = true
				}
			}
			c.Check(guarded, "C09.zone", ssaFuncName(f)+": delegated zone is nil-checked", ret.Pos(), "the first member's zone is returned even when it is nil")
		}
	}
	c.Floor("C09.zone", n, 1)
}

// escapesC01: the escapes a quoted string or identifier may contain.
func escapesC01(c *Ctx) {
	c.Rule("C01.escapes", "inside either kind of quote ScanString accepts the escapes \\n, \\\\, \\\" and \\' (README: \\\" in double-quoted identifiers and \\' in strings; the other combinations are the scanner's own extension) and yields newline, backslash and the quote character: a spelling that uses them is legal and must not be rejected or read as something else")
	want := map[rune]rune{'n': '\n', '\\': '\\', '"': '"', '\'': '\''}
	n := 0
	for _, q := range []rune{'\'', '"'} {
		sub := NewCtx(c.P, c.Prop, c.Tier)
		unesc, _, ok := scanStringTablesFor(sub, q)
		if !ok {
			c.Unk("C01.escapes", fmt.Sprintf("ScanString inside %q", q), 0, "the escape table could not be extracted")
			continue
		}
		for _, e := range []rune{'n', '\\', '"', '\''} {
			n++
			key := fmt.Sprintf("ScanString inside %q: escape \\%c", q, e)
			got, has := unesc[e]
			switch {
			case !has:
				c.Bad("C01.escapes", key, 0, "reported as a bad escape: a legal literal is rejected")
			case got != want[e]:
				c.Bad("C01.escapes", key, 0, fmt.Sprintf("yields %q instead of %q", got, want[e]))
			default:
				c.OK("C01.escapes", key, 0, fmt.Sprintf("yields %q", got))
			}
		}
	}
	c.Floor("C01.escapes", n, 8)
}

// intWidthC01: integer literals keep their written value.
func intWidthC01(c *Ctx) {
	p := c.P
	c.Rule("C01.intwidth", "every strconv.ParseInt / ParseUint in the package converts in base 10 at 64 bits and its error result is examined: with the error dropped a literal that does not fit is silently stored saturated")
	n := 0
	for _, fn := range p.SrcFuncs() {
		seen := 0
		for _, f := range append([]*ssa.Function{fn}, fn.AnonFuncs...) {
			for _, b := range f.Blocks {
				for _, in := range b.Instrs {
					call, ok := in.(*ssa.Call)
					if !ok || call.Call.StaticCallee() == nil {
						continue
					}
					name := call.Call.StaticCallee().String()
					if name != "strconv.ParseInt" && name != "strconv.ParseUint" {
						continue
					}
					n++
					seen++
					key := fmt.Sprintf("%s: %s #%d", fn.Name(), name, seen)
					base, okB := call.Call.Args[1].(*ssa.Const)
					bits, okS := call.Call.Args[2].(*ssa.Const)
					errUsed := false
					for _, ref := range *call.Referrers() {
						if ex, ok := ref.(*ssa.Extract); ok && ex.Index == 1 && len(*ex.Referrers()) > 0 {
							errUsed = true
						}
					}
					switch {
					case !okB || !okS || base.Value == nil || bits.Value == nil:
						c.Unk("C01.intwidth", key, call.Pos(), "base or size is not a constant")
					case bits.Value.String() != "64":
						c.Bad("C01.intwidth", key, call.Pos(), "size "+bits.Value.String()+": an integer literal that fits in 64 bits is rejected (or, with the error dropped, stored saturated)")
					case !errUsed:
						c.Bad("C01.intwidth", key, call.Pos(), "the conversion error is dropped (size "+bits.Value.String()+"): a literal that does not fit is stored saturated (LIMIT 9223372036854775808 becomes 9223372036854775807), not rejected and not the value that was written")
					case base.Value.String() != "10" && base.Value.String() != "0" && !errUsed:
						c.Bad("C01.intwidth", key, call.Pos(), "base "+base.Value.String())
					default:
						c.OK("C01.intwidth", key, call.Pos(), fmt.Sprintf("base %s, %s bits, error examined=%v", base.Value, bits.Value, errUsed))
					}
				}
			}
		}
	}
	c.Floor("C01.intwidth", n, 4)
}

// durationScanC01: the lexer lets every unit rune of ParseDuration continue a
// duration literal.
func durationScanC01(c *Ctx) {
	p := c.P
	c.Rule("C01.duration-scan", "in Scanner.scanNumber every test that lets a letter continue a duration literal also lets through the unit runes of ParseDuration's table that isLetter does not accept (µ): otherwise a compound literal whose later component uses that unit (1s500µ) is cut in two and rejected")
	f := p.SSAFunc(p.Method("Scanner", "scanNumber"))
	isLetter := p.Func("isLetter")
	if f == nil || isLetter == nil {
		c.Unk("C01.duration-scan", "(*Scanner).scanNumber", 0, "anchor not found")
		return
	}
	// unit runes that are not letters for the lexer
	var extra []rune
	for _, r := range []rune{'n', 'u', 'µ', 'm', 's', 'h', 'd', 'w'} {
		if ok, decided := p.newSCCP().evalConstBool(isLetter, cConst(constant.MakeInt64(int64(r)))); decided && !ok {
			extra = append(extra, r)
		}
	}
	n := 0
	for _, b := range f.Blocks {
		for _, in := range b.Instrs {
			call, ok := in.(*ssa.Call)
			if !ok || call.Call.StaticCallee() == nil || call.Call.StaticCallee().Object() != isLetter || len(call.Call.Args) != 1 {
				continue
			}
			n++
			arg := call.Call.Args[0]
			key := fmt.Sprintf("(*Scanner).scanNumber: letter test #%d", n)
			var missing []string
			for _, r := range extra {
				found := false
				for _, ref := range *arg.Referrers() {
					if bo, ok := ref.(*ssa.BinOp); ok && (bo.Op == token.EQL || bo.Op == token.NEQ) {
						if k, ok := bo.Y.(*ssa.Const); ok && k.Value != nil {
							if v, _ := constant.Int64Val(constant.ToInt(k.Value)); rune(v) == r {
								found = true
							}
						}
					}
				}
				if !found {
					missing = append(missing, string(r))
				}
			}
			if len(missing) > 0 {
				c.Bad("C01.duration-scan", key, call.Pos(), "the rune is accepted as part of the literal only if isLetter holds; the unit "+strings.Join(missing, ", ")+" of ParseDuration's table is not a letter for the lexer and is not let through here")
			} else {
				c.OK("C01.duration-scan", key, call.Pos(), "letters and the non-letter unit runes")
			}
		}
	}
	c.Floor("C01.duration-scan", n, 2)
}
