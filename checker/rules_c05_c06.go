package main

import (
	"fmt"
	"go/ast"
	"go/constant"
	"go/token"
	"go/types"
	"sort"
	"strings"
	"unicode/utf8"

	"golang.org/x/tools/go/ssa"
)

func init() {
	register("C05", rulesC05)
	register("C06", rulesC06)
}

// spellingRule: the character-level dispatch produces, for every operator and
// punctuation spelling, the token with that spelling.
func spellingRule(c *Ctx, rule string, rows []scanRow, tt *tokenTable) {
	c.Rule(rule, "Scanner.Scan's dispatch, extracted for every first rune (and second rune where one is read): the runes consumed for a fixed token are exactly that token's spelling in the token table (with `<>` as the second spelling of !=), and every operator spelling the property lists is produced")
	produced := map[string]bool{}
	n := 0
	for _, r := range rows {
		if r.kind != "token" || r.tok < 0 {
			continue
		}
		name := tt.Name[r.tok]
		sp, has := tt.Spelling[r.tok]
		if !has || name == "ILLEGAL" || name == "EOF" || name == "WS" {
			continue
		}
		n++
		text := string(r.c0)
		if r.consumed == 2 {
			text += string(r.c1)
		}
		key := fmt.Sprintf("Scanner.Scan: %q -> %s", text, name)
		if text == "<>" && sp == "!=" {
			c.OK(rule, key, r.pos.Pos(), "second spelling of !=")
			produced["<>"] = true
			continue
		}
		if text != sp {
			c.Bad(rule, key, r.pos.Pos(), fmt.Sprintf("the runes %q are scanned as the token spelled %q", text, sp))
		} else {
			c.OK(rule, key, r.pos.Pos(), sp)
			produced[sp] = true
		}
	}
	// first runes whose outcome was not extracted (the case delegates to a helper
	// that returns only the token, say): spellings starting there are undecided
	opaque := map[rune]bool{}
	for _, r := range rows {
		if r.kind == "none" || (r.kind == "token" && r.tok < 0) {
			opaque[r.c0] = true
		}
	}
	verdict := func(sp, key, why string) {
		switch {
		case produced[sp]:
			c.OK(rule, key, token.NoPos, "produced")
		case len(sp) > 0 && opaque[rune(sp[0])]:
			c.Unk(rule, key, token.NoPos, fmt.Sprintf("the dispatch for %q was not extracted (it leaves Scan through a helper)", sp[0]))
		default:
			c.Bad(rule, key, token.NoPos, why)
		}
	}
	for sp := range precedenceSpec {
		if sp == "AND" || sp == "OR" {
			continue
		}
		verdict(sp, "Scanner.Scan: operator "+sp+" is produced", "no rune sequence is scanned as "+sp)
	}
	verdict("<>", "Scanner.Scan: operator <> is produced", "`<>` is not scanned as !=")
	c.Floor(rule, n, 40)
}

func rulesC05(c *Ctx) {
	p := c.P
	tt := p.tokenTable()
	rows, why := p.scanTable()
	if tt == nil || rows == nil {
		c.Unk("C05.consume", "Scanner.Scan", 0, "scan table could not be extracted: "+why)
		return
	}
	// ---- consume ----
	c.Rule("C05.consume", "for every first rune (and second rune where one is read) Scanner.Scan's net consumption (reads minus unreads) equals the length of the token it returns: 1 or 2 for fixed tokens, 1 for ILLEGAL and for the end marker; and every sub-scanner is entered with the same net consumption from every dispatch site. A rune that is read but belongs to no token is skipped; one that is unread twice is read twice")
	entry := map[string]map[int]bool{}
	n := 0
	for _, r := range rows {
		if r.tok >= 0 && tt.Name[r.tok] == "COMMENT" && r.twoRunes {
			// variable length: the body is consumed by skipUntil*, which must be
			// entered after both runes of the opener
			key := fmt.Sprintf("Scanner.Scan: %q %q -> COMMENT opener", r.c0, r.c1)
			if r.consumed != 2 {
				c.Bad("C05.consume", key, r.pos.Pos(), fmt.Sprintf("the comment body is scanned after a net consumption of %d runes, not the 2 of the opener: a rune of the opener is read again as part of the body", r.consumed))
			} else {
				c.OK("C05.consume", key, r.pos.Pos(), "2")
			}
			continue
		}
		switch r.kind {
		case "token":
			if r.tok < 0 {
				continue
			}
			name := tt.Name[r.tok]
			n++
			want := 1
			if sp, ok := tt.Spelling[r.tok]; ok && name != "ILLEGAL" && name != "EOF" && name != "WS" {
				want = utf8.RuneCountInString(sp)
			}
			key := fmt.Sprintf("Scanner.Scan: %q %q -> %s", r.c0, r.c1, name)
			if !r.twoRunes {
				key = fmt.Sprintf("Scanner.Scan: %q -> %s", r.c0, name)
			}
			if r.consumed != want {
				c.Bad("C05.consume", key, r.pos.Pos(), fmt.Sprintf("consumes %d runes for a token of %d", r.consumed, want))
			} else {
				c.OK("C05.consume", key, r.pos.Pos(), fmt.Sprintf("%d", want))
			}
		case "delegate":
			if entry[r.callee] == nil {
				entry[r.callee] = map[int]bool{}
			}
			entry[r.callee][r.consumed] = true
		}
	}
	for callee, set := range entry {
		var vals []int
		for v := range set {
			vals = append(vals, v)
		}
		sort.Ints(vals)
		c.Check(len(vals) == 1, "C05.consume", "Scanner.Scan: entry state of "+callee, token.NoPos, fmt.Sprintf("entered with net consumption %v from different dispatch sites", vals))
	}
	c.Floor("C05.consume", n, 120)

	// ---- position origin ----
	posoriginC05(c, entry)
	delimitedC05(c)
	readVerbatimRule(c, "C05.readverbatim")
	runeFaceRule(c, "C05.runeface")
	accountedRule(c, "C05.accounted")
	rawReadRule(c, "C05.rawread")
	charWidthRule(c, "C05.charwidth")
	identQuoteRule(c, "C05.identquote")
	errPosRule(c, "C05.errpos")
	errTokenRule(c, "C05.errtoken")
	stringEndRule(c, "C05.strend")
	eofMarkerRule(c, "C05.eofmarker")
	// scanning terminates: the comment skippers end at end of input
	commentsRule(c, "C05.comments")
	// ---- sub-scanner entry matches what the sub-scanner accepts ----
	c.Rule("C05.idententry", "Scan hands a rune to the identifier scanner exactly when isIdentFirstChar accepts it (or it is a double quote): for any other rune the identifier scanner reads nothing, the token is empty and the scan never gets past that rune")
	identEntryRule(c, "C05.idententry")
	// ---- column arithmetic ----
	columnC05(c)
	eofPosC05(c)
	// ---- CR folding ----
	crfoldRule(c, "C05.crfold")
	// ---- rune push-back bounded ----
	runeringRule(c, "C05.runering")
}

// posoriginC05: the position returned with a token is the position of the
// token's first rune.
func posoriginC05(c *Ctx, entry map[string]map[int]bool) {
	p := c.P
	tt := p.tokenTable()
	c.Rule("C05.posorigin", "in Scan and each sub-scanner the position returned with a token is obtained at the token's first rune: from a read() made when the net consumption since the token start is 0, or from curr() made when it is 1 (curr reports the rune just read). BADESCAPE reports the position of the offending escape by design")
	read := p.SSAFunc(p.Method("reader", "read"))
	unread := p.SSAFunc(p.Method("reader", "unread"))
	curr := p.SSAFunc(p.Method("reader", "curr"))
	fns := map[string]int{"Scan": 0, "ScanRegex": 0}
	for callee, set := range entry {
		for v := range set {
			fns[callee] = v
		}
	}
	names := make([]string, 0, len(fns))
	for n := range fns {
		names = append(names, n)
	}
	sort.Strings(names)
	type delegation struct {
		from, to, sub string
		pos           token.Pos
	}
	var delegated []delegation
	shifted := map[string]bool{} // sub-scanners whose own position is off
	defer func() {
		seen := map[string]bool{}
		for _, d := range delegated {
			key := fmt.Sprintf("(*Scanner).%s: position delegated to %s", d.from, d.to)
			if seen[key] {
				continue
			}
			seen[key] = true
			if shifted[d.sub] {
				c.Bad("C05.posorigin", key, d.pos, "the position handed on is the one "+d.sub+" computes, which is not that of the token's first rune")
			} else {
				c.OK("C05.posorigin", key, d.pos, d.sub+" reports the first rune")
			}
		}
	}()
	for _, name := range names {
		f := p.SSAFunc(p.Method("Scanner", name))
		if f == nil {
			c.Unk("C05.posorigin", "(*Scanner)."+name, 0, "sub-scanner not found")
			continue
		}
		net := fns[name]
		// walk the entry block: find the call whose position result is returned
		offsetOf := map[ssa.Value]int{} // Extract(pos) -> offset relative to the token start
		for _, in := range f.Blocks[0].Instrs {
			call, ok := in.(*ssa.Call)
			if !ok {
				continue
			}
			switch call.Call.StaticCallee() {
			case read:
				for _, ref := range *call.Referrers() {
					if ex, ok := ref.(*ssa.Extract); ok && ex.Index == 1 {
						offsetOf[ex] = net
					}
				}
				net++
			case unread:
				net--
			case curr:
				for _, ref := range *call.Referrers() {
					if ex, ok := ref.(*ssa.Extract); ok && ex.Index == 1 {
						offsetOf[ex] = net - 1
					}
				}
			}
		}
		nret := 0
		for _, b := range f.Blocks {
			ret, ok := b.Instrs[len(b.Instrs)-1].(*ssa.Return)
			if !ok || len(ret.Results) != 3 {
				continue
			}
			// exempt BADESCAPE
			if k, ok := ret.Results[0].(*ssa.Const); ok && k.Value != nil {
				v, _ := constant.Int64Val(constant.ToInt(k.Value))
				if tt.Name[v] == "BADESCAPE" {
					continue
				}
			}
			// delegations return another scanner's position: right exactly when
			// that scanner's own position is (decided after all scanners are done)
			if ex, ok := ret.Results[1].(*ssa.Extract); ok {
				if call, ok := ex.Tuple.(*ssa.Call); ok {
					cal := call.Call.StaticCallee()
					if cal != read && cal != curr {
						if cal != nil && cal.Signature.Recv() != nil {
							// which token travels with the delegated position
							var toks []string
							var collect func(v ssa.Value, d int)
							collect = func(v ssa.Value, d int) {
								if d > 4 {
									return
								}
								switch x := v.(type) {
								case *ssa.Const:
									if x.Value != nil {
										n, _ := constant.Int64Val(constant.ToInt(x.Value))
										toks = append(toks, tt.Name[n])
									}
								case *ssa.Extract:
									if x.Tuple == ssa.Value(call) {
										toks = append(toks, cal.Name()+"'s token")
									} else {
										toks = append(toks, "?")
									}
								case *ssa.Phi:
									for _, e := range x.Edges {
										collect(e, d+1)
									}
								default:
									toks = append(toks, "?")
								}
							}
							collect(ret.Results[0], 0)
							sort.Strings(toks)
							delegated = append(delegated, delegation{from: name, to: cal.Name() + " with " + strings.Join(toks, " / "), sub: cal.Name(), pos: ret.Pos()})
						}
						continue
					}
				}
			}
			nret++
			off, known := resolveOffset(ret.Results[1], offsetOf, 0)
			key := fmt.Sprintf("(*Scanner).%s: position of returned token", name)
			late := false
			if ex, ok := ret.Results[1].(*ssa.Extract); ok && ex.Index == 1 {
				if call, ok := ex.Tuple.(*ssa.Call); ok && call.Block().Index != 0 {
					if cal := call.Call.StaticCallee(); cal == curr || cal == read {
						late = true
					}
				}
			}
			switch {
			case !known && late:
				shifted[name] = true
				c.Bad("C05.posorigin", key, ret.Pos(), "the position is taken from the reader after the token's text was consumed: the token is reported where it ends (only BADESCAPE reports the offending escape by design)")
			case !known:
				c.Unk("C05.posorigin", key, ret.Pos(), "the returned position is not one captured in the function's entry block")
			case off != 0:
				shifted[name] = true
				c.Bad("C05.posorigin", key, ret.Pos(), fmt.Sprintf("the position is captured %+d runes from the token's first rune", off))
			default:
				c.OK("C05.posorigin", key, ret.Pos(), "captured at the first rune")
			}
		}
		if nret == 0 {
			c.Unk("C05.posorigin", "(*Scanner)."+name, f.Pos(), "no token-returning return found")
		}
	}
}

func resolveOffset(v ssa.Value, offsetOf map[ssa.Value]int, depth int) (int, bool) {
	if o, ok := offsetOf[v]; ok {
		return o, true
	}
	if depth > 4 {
		return 0, false
	}
	if phi, ok := v.(*ssa.Phi); ok {
		// all non-self edges must agree
		val, have := 0, false
		for _, e := range phi.Edges {
			if e == v {
				continue
			}
			o, ok := resolveOffset(e, offsetOf, depth+1)
			if !ok {
				continue // positions captured later (BADESCAPE path) are exempt via their own return
			}
			if have && o != val {
				return 0, false
			}
			val, have = o, true
		}
		return val, have
	}
	return 0, false
}

// runeringRule: rune push-back never exceeds the ring.
func runeringRule(c *Ctx, rule string) {
	p := c.P
	c.Rule(rule, "no straight-line sequence in the scanner pushes back more runes than it has just read plus the ring allows: along every path of Scan and its sub-scanners the push-back depth stays within the 3-slot ring (abstract counter, calls summarised)")
	depth, ok, why := pushbackDepth(p, "reader", "read", "unread", []string{"Scan", "ScanRegex"}, "Scanner")
	if !ok {
		c.Unk(rule, "reader ring", 0, why)
		return
	}
	cap := ringCap(p, "reader")
	c.Check(depth <= cap, rule, fmt.Sprintf("reader: maximum push-back depth %d within ring of %d", depth, cap), 0, fmt.Sprintf("a path can push back %d runes into a ring of %d: the oldest slot is overwritten and a stale rune and position are replayed", depth, cap))
}

func ringCap(p *Program, typ string) int {
	n := p.Named(typ)
	if n == nil {
		return 0
	}
	st, ok := n.Underlying().(*types.Struct)
	if !ok {
		return 0
	}
	for i := 0; i < st.NumFields(); i++ {
		if a, ok := st.Field(i).Type().Underlying().(*types.Array); ok && st.Field(i).Name() == "buf" {
			return int(a.Len())
		}
	}
	return 0
}

func rulesC06(c *Ctx) {
	p := c.P
	tt := p.tokenTable()
	readVerbatimRule(c, "C06.readverbatim")
	runeFaceRule(c, "C06.runeface")
	identQuoteRule(c, "C06.identquote")
	argsUntouchedRule(c, "C06.argsuntouched", "QuoteIdent", "QuoteString", "IdentNeedsQuotes")
	stringEndRule(c, "C06.strend")
	c.Rule("C06.pure", "QuoteString, QuoteIdent and IdentNeedsQuotes (and what they call in the package) read no mutable package-level state: the quoted form depends on the value alone (a memo keyed by the joined segments answers `a.b` quoted as one name with the form computed for the two names a, b)")
	pureRule(c, "C06.pure", "QuoteString", "QuoteIdent", "IdentNeedsQuotes")
	// ---- escapes ----
	c.Rule("C06.escapes", "the escape table of each quoting helper is the inverse of the scanner's unescape table and covers every rune the scanner treats specially inside that kind of quote: its own closing quote, backslash and newline; escaping is a single simultaneous pass (one strings.Replacer)")
	unesc, specials, ok := scanStringTables(c)
	pairs := map[string]map[string]string{}
	for _, g := range []string{"qsReplacer", "qiReplacer"} {
		pr, ok2 := replacerPairs(p, g)
		if !ok2 {
			c.Unk("C06.escapes", g, 0, "not a strings.NewReplacer of constant pairs")
			continue
		}
		pairs[g] = pr
	}
	if ok {
		for g, quote := range map[string]rune{"qsReplacer": '\'', "qiReplacer": '"'} {
			pr := pairs[g]
			if pr == nil {
				continue
			}
			// the table that applies inside this kind of quote
			unesc, specials := unesc, specials
			if quote != '\'' {
				sub := NewCtx(c.P, c.Prop, c.Tier)
				if u2, s2, ok2 := scanStringTablesFor(sub, quote); ok2 {
					unesc, specials = u2, s2
				}
			}
			for k, v := range pr {
				key := fmt.Sprintf("%s: %q -> %q", g, k, v)
				if len(v) != 2 || v[0] != '\\' {
					c.Bad("C06.escapes", key, 0, "replacement is not a backslash escape")
					continue
				}
				back, has := unesc[rune(v[1])]
				if !has {
					c.Bad("C06.escapes", key, 0, "the scanner does not know the escape "+v+" (it reports a bad escape)")
				} else if string(back) != k {
					c.Bad("C06.escapes", key, 0, fmt.Sprintf("the scanner reads %s back as %q", v, back))
				} else {
					c.OK("C06.escapes", key, 0, "inverse of the scanner's unescape")
				}
			}
			need := []rune{quote}
			for _, s := range specials {
				need = append(need, s)
			}
			for _, s := range need {
				_, has := pr[string(s)]
				c.Check(has, "C06.escapes", fmt.Sprintf("%s escapes %q", g, s), 0, fmt.Sprintf("the scanner treats %q specially inside this quote but the helper writes it raw: the literal ends early or fails to scan", s))
			}
		}
	}
	vacuousIndexRule(c, "C06.lastindex", "QuoteIdent", "QuoteString")
	// QuoteString / QuoteIdent route everything through the replacer
	c.Rule("C06.route", "QuoteString and QuoteIdent write the value only after passing it through their replacer, on every path (no raw fast path), between the matching quotes")
	for fn, g := range map[string]string{"QuoteString": "qsReplacer", "QuoteIdent": "qiReplacer"} {
		sf := p.SSAFunc(p.Func(fn))
		if sf == nil {
			c.Unk("C06.route", fn, 0, "anchor not found")
			continue
		}
		raw, viaRepl := 0, 0
		// parameter-derived strings reaching output, followed into in-package
		// helpers that receive the value
		visited := map[*ssa.Function]bool{}
		var count func(f *ssa.Function, depth int)
		count = func(f *ssa.Function, depth int) {
			if visited[f] || depth > 3 {
				return
			}
			visited[f] = true
			isParamStr := func(v ssa.Value) bool { return derivesFromParam(v, f, 0) }
			for _, b := range f.Blocks {
				for _, in := range b.Instrs {
					switch x := in.(type) {
					case *ssa.Call:
						callee := x.Call.StaticCallee()
						if callee == nil {
							continue
						}
						switch callee.Name() {
						case "Replace":
							if u, ok := x.Call.Args[0].(*ssa.UnOp); ok {
								if gl, ok := u.X.(*ssa.Global); ok && gl.Name() == g && isParamStr(x.Call.Args[1]) {
									viaRepl++
								}
							}
						case "WriteString":
							if len(x.Call.Args) == 2 && isParamStr(x.Call.Args[1]) {
								raw++
							}
						default:
							if callee.Pkg == sf.Pkg && len(callee.Blocks) > 0 {
								for _, a := range x.Call.Args {
									if isStringType(a.Type()) && isParamStr(a) {
										count(callee, depth+1)
										break
									}
								}
							}
						}
					case *ssa.BinOp:
						if x.Op == token.ADD && isStringType(x.Type()) && (isParamStr(x.X) || isParamStr(x.Y)) {
							raw++
						}
					}
				}
			}
		}
		count(sf, 0)
		if raw == 0 && viaRepl == 0 {
			c.Unk("C06.route", fn, sf.Pos(), "no write of the value found in "+fn+" or the in-package helpers it hands the value to")
			continue
		}
		c.Check(viaRepl >= 1 && raw == 0, "C06.route", fn, sf.Pos(), fmt.Sprintf("%d raw writes of the value, %d through %s: a value written raw can close its own quote", raw, viaRepl, g))
	}

	// ---- bare identifiers ----
	c.Rule("C06.bare", "IdentNeedsQuotes answers true for every reserved word (whenever Lookup yields anything but IDENT — true, false, AND, OR included) and otherwise decides by the lexer's own first-character and continuation predicates; the scanner enters its identifier path exactly for the runes isIdentFirstChar accepts (or a double quote)")
	inq := p.SSAFunc(p.Func("IdentNeedsQuotes"))
	lookup := p.SSAFunc(p.Func("Lookup"))
	if inq == nil || lookup == nil || tt == nil {
		c.Unk("C06.bare", "IdentNeedsQuotes", 0, "anchor not found")
		return
	}
	nTok := 0
	for _, v := range tt.Values {
		if tt.Name[v] == "IDENT" {
			continue
		}
		sp, has := tt.Spelling[v]
		if !has || !isWord(sp) || v < tt.ByName["operatorBeg"] {
			continue // Lookup only ever yields reserved words
		}
		nTok++
		s := p.newSCCP()
		s.hook = func(call *ssa.Call, args []cval) ([]cval, bool) {
			if call.Call.StaticCallee() == lookup {
				return []cval{cConst(constant.MakeInt64(v))}, true
			}
			return nil, false
		}
		rets := s.Eval(inq, nil)
		all := len(rets) > 0
		for _, rp := range rets {
			if b, ok := isBoolConst(rp.Results[0]); !ok || !b {
				all = false
			}
		}
		c.Check(all, "C06.bare", "IdentNeedsQuotes: word that scans as "+tt.Name[v], inq.Pos(), "a word the lexer turns into the token "+tt.Name[v]+" is reported as not needing quotes: written bare it does not scan as an identifier")
	}
	c.Floor("C06.bare", nTok, 80)
	// predicates used
	usesFirst, usesCont := false, false
	seenFn := map[*ssa.Function]bool{}
	var scanPreds func(f *ssa.Function, depth int)
	scanPreds = func(f *ssa.Function, depth int) {
		if seenFn[f] || depth > 3 {
			return
		}
		seenFn[f] = true
		for _, b := range f.Blocks {
			for _, in := range b.Instrs {
				// called directly or taken as a function value and called later
				for _, op := range in.Operands(nil) {
					if fn, ok := (*op).(*ssa.Function); ok {
						switch fn.Name() {
						case "isIdentFirstChar":
							usesFirst = true
						case "isIdentChar":
							usesCont = true
						default:
							// an unexported helper the decision was moved into
							if fn.Pkg == f.Pkg && fn.Object() != nil && !fn.Object().Exported() {
								scanPreds(fn, depth+1)
							}
						}
					}
				}
			}
		}
	}
	scanPreds(inq, 0)
	c.Check(usesFirst && usesCont, "C06.bare", "IdentNeedsQuotes: uses the lexer's predicates", inq.Pos(), "the decision must use isIdentFirstChar for the first rune and isIdentChar for the rest")
	identEntryRule(c, "C06.bare")
	everyCharRule(c, "C06.everychar", "IdentNeedsQuotes")
	quotedIdentTokensRule(c, "C06.quotedident")
	scannerStatelessRule(c, "C06.scannerstate")
}

func derivesFromParam(v ssa.Value, f *ssa.Function, depth int) bool {
	if depth > 6 {
		return false
	}
	switch x := v.(type) {
	case *ssa.Parameter:
		return true
	case *ssa.UnOp:
		return derivesFromParam(x.X, f, depth+1)
	case *ssa.IndexAddr:
		return derivesFromParam(x.X, f, depth+1)
	case *ssa.Index:
		return derivesFromParam(x.X, f, depth+1)
	case *ssa.Phi:
		for _, e := range x.Edges {
			if derivesFromParam(e, f, depth+1) {
				return true
			}
		}
	case *ssa.Extract:
		return derivesFromParam(x.Tuple, f, depth+1)
	case *ssa.Next:
		return derivesFromParam(x.Iter, f, depth+1)
	case *ssa.Range:
		return derivesFromParam(x.X, f, depth+1)
	case *ssa.Slice:
		return derivesFromParam(x.X, f, depth+1)
	}
	return false
}

// replacerPairs reads the constant arguments of strings.NewReplacer(...) that
// initialises the package variable g.
func replacerPairs(p *Program, g string) (map[string]string, bool) {
	gv := p.Global(g)
	if gv == nil {
		return nil, false
	}
	initf := p.SPkg.Func("init")
	if initf == nil {
		return nil, false
	}
	for _, b := range initf.Blocks {
		for _, in := range b.Instrs {
			st, ok := in.(*ssa.Store)
			if !ok {
				continue
			}
			gl, ok := st.Addr.(*ssa.Global)
			if !ok || gl.Name() != g {
				continue
			}
			call, ok := st.Val.(*ssa.Call)
			if !ok || call.Call.StaticCallee() == nil || call.Call.StaticCallee().Name() != "NewReplacer" {
				return nil, false
			}
			args := varargsOf(call)
			if len(args)%2 != 0 || len(args) == 0 {
				return nil, false
			}
			out := map[string]string{}
			for i := 0; i < len(args); i += 2 {
				k, ok1 := args[i].(*ssa.Const)
				v, ok2 := args[i+1].(*ssa.Const)
				if !ok1 || !ok2 || k.Value == nil || v.Value == nil {
					return nil, false
				}
				out[constant.StringVal(k.Value)] = constant.StringVal(v.Value)
			}
			return out, true
		}
	}
	return nil, false
}

// scanStringTables extracts from ScanString: the unescape table (rune after a
// backslash -> rune written) and the runes it treats specially besides the
// closing quote.
func scanStringTables(c *Ctx) (map[rune]rune, []rune, bool) {
	return scanStringTablesFor(c, '\'')
}

// scanStringTablesFor: the same extraction with the opening quote bound to q.
func scanStringTablesFor(c *Ctx, q rune) (map[rune]rune, []rune, bool) {
	p := c.P
	f := p.SSAFunc(p.Func("ScanString"))
	if f == nil {
		c.Unk("C06.escapes", "ScanString", 0, "anchor not found")
		return nil, nil, false
	}
	var reads []*ssa.Call
	var writes []*ssa.Call
	for _, b := range f.Blocks {
		for _, in := range b.Instrs {
			if call, ok := in.(*ssa.Call); ok {
				if call.Call.IsInvoke() && call.Call.Method.Name() == "ReadRune" {
					reads = append(reads, call)
				} else if cal := call.Call.StaticCallee(); cal != nil && cal.Name() == "WriteRune" {
					writes = append(writes, call)
				}
			}
		}
	}
	sort.Slice(reads, func(i, j int) bool { return reads[i].Pos() < reads[j].Pos() })
	if len(reads) != 3 {
		c.Unk("C06.escapes", "ScanString: reads", f.Pos(), fmt.Sprintf("expected three ReadRune sites (opening quote, rune, escaped rune), found %d", len(reads)))
		return nil, nil, false
	}
	run := func(ch0, ch1 rune) (written []rune, errRet bool, plain bool) {
		s := p.newSCCP()
		s.hook = func(call *ssa.Call, args []cval) ([]cval, bool) {
			switch call {
			case reads[0]:
				return []cval{cConst(constant.MakeInt64(int64(q))), cTop, cNil()}, true
			case reads[1]:
				return []cval{cConst(constant.MakeInt64(int64(ch0))), cTop, cNil()}, true
			case reads[2]:
				return []cval{cConst(constant.MakeInt64(int64(ch1))), cTop, cNil()}, true
			}
			return nil, false
		}
		r := s.run(f, nil, 0)
		for _, w := range writes {
			if r.execB[w.Block().Index] {
				v := r.get(w.Call.Args[1])
				if v.isPlain() {
					n, _ := constant.Int64Val(constant.ToInt(v.v))
					written = append(written, rune(n))
				}
			}
		}
		for _, b := range f.Blocks {
			if r.execB[b.Index] {
				if ret, ok := b.Instrs[len(b.Instrs)-1].(*ssa.Return); ok {
					if k, isC := ret.Results[1].(*ssa.Const); !isC || !k.IsNil() {
						errRet = true
					}
				}
			}
		}
		plain = len(written) == 1 && written[0] == ch0
		return
	}
	unesc := map[rune]rune{}
	for _, ch1 := range []rune{'n', '\\', '"', '\'', 't', 'r', '0', 'x', '/', ' ', 'N'} {
		w, _, _ := run('\\', ch1)
		if len(w) == 1 {
			unesc[ch1] = w[0]
		}
	}
	var specials []rune
	for _, ch0 := range []rune{'\n', '\\', '\t', '"', 'a', ' ', '/', ';', '-'} {
		_, _, plain := run(ch0, 'n')
		if !plain {
			specials = append(specials, ch0)
		}
	}
	if len(unesc) == 0 {
		c.Unk("C06.escapes", "ScanString: unescape table", f.Pos(), "no escape extracted")
	} else {
		c.OK("C06.escapes", "ScanString: unescape table", f.Pos(), fmt.Sprintf("extracted %d escapes", len(unesc)))
	}
	return unesc, specials, true
}

func isWord(s string) bool {
	if s == "" {
		return false
	}
	for _, r := range s {
		if !(r == '_' || (r >= 'a' && r <= 'z') || (r >= 'A' && r <= 'Z')) {
			return false
		}
	}
	return true
}

// columnC05: the position advances by one column per rune, and a line break
// resets the column and advances the line by one.
func columnC05(c *Ctx) {
	p := c.P
	c.Rule("C05.column", "every store into the reader's running position writes into the column either 0 or the old column plus the constant 1 (one per character, whatever its encoded length) and into the line only the old line plus 1")
	read := p.SSAFunc(p.Method("reader", "read"))
	if read == nil {
		c.Unk("C05.column", "(*reader).read", 0, "anchor not found")
		return
	}
	n := 0
	for _, fn := range p.SrcFuncs() {
		for _, b := range fn.Blocks {
			for _, in := range b.Instrs {
				st, ok := in.(*ssa.Store)
				if !ok {
					continue
				}
				fa, ok := st.Addr.(*ssa.FieldAddr)
				if !ok {
					continue
				}
				outer, ok := fa.X.(*ssa.FieldAddr)
				if !ok || fieldNameOf(outer) != "pos" || !strings.HasSuffix(p.TypeStr(outer.X.Type()), "reader") {
					continue
				}
				fld := fieldNameOf(fa)
				key := fmt.Sprintf("%s: store into pos.%s #%d", fn.Name(), fld, countKey(&n))
				val := st.Val
				if k, ok := val.(*ssa.Const); ok && k.Value != nil {
					if fld == "Char" && constant.Sign(k.Value) == 0 {
						c.OK("C05.column", key, st.Pos(), "column reset to 0")
					} else {
						c.Bad("C05.column", key, st.Pos(), "stores the constant "+k.Value.String())
					}
					continue
				}
				bo, ok := val.(*ssa.BinOp)
				if !ok || bo.Op != token.ADD {
					c.Unk("C05.column", key, st.Pos(), "stored value is not a constant or an addition")
					continue
				}
				ld, okL := bo.X.(*ssa.UnOp)
				k, okK := bo.Y.(*ssa.Const)
				sameField := false
				if okL {
					if lfa, ok := ld.X.(*ssa.FieldAddr); ok && fieldNameOf(lfa) == fld {
						sameField = true
					}
				}
				switch {
				case sameField && okK && k.Value != nil && k.Value.String() == "1":
					c.OK("C05.column", key, st.Pos(), "old value + 1")
				case sameField:
					c.Bad("C05.column", key, st.Pos(), "advances by something other than one per character: columns of later tokens drift on multi-byte input")
				default:
					c.Unk("C05.column", key, st.Pos(), "addition not of the form old + constant")
				}
			}
		}
	}
	c.Floor("C05.column", n, 3)
}

func countKey(n *int) int { *n++; return *n }

func fieldNameOf(fa *ssa.FieldAddr) string {
	t := fa.X.Type().Underlying()
	if pt, ok := t.(*types.Pointer); ok {
		t = pt.Elem().Underlying()
	}
	if st, ok := t.(*types.Struct); ok && fa.Field < st.NumFields() {
		return st.Field(fa.Field).Name()
	}
	return ""
}

// identEntryRule: Scan hands a rune to the identifier scanner exactly when the
// identifier scanner will accept it as a first character.
func identEntryRule(c *Ctx, rule string) {
	p := c.P
	// scanner entry vs isIdentFirstChar
	rows, why := p.scanTable()
	if rows == nil {
		c.Unk(rule, "Scanner.Scan", 0, why)
		return
	}
	first := p.Func("isIdentFirstChar")
	s := p.newSCCP()
	seen := map[rune]bool{}
	for _, r := range rows {
		if seen[r.c0] {
			continue
		}
		seen[r.c0] = true
		isIdentPath := r.kind == "delegate" && r.callee == "scanIdent"
		pred, ok := s.evalConstBool(first, cConst(constant.MakeInt64(int64(r.c0))))
		key := fmt.Sprintf("Scanner.Scan: identifier path for %q", r.c0)
		if !ok {
			c.Unk(rule, key, 0, "isIdentFirstChar is not a constant function of the rune")
			continue
		}
		want := pred || r.c0 == '"'
		c.Check(isIdentPath == want, rule, key, 0, fmt.Sprintf("scanner enters the identifier path=%v, isIdentFirstChar=%v", isIdentPath, pred))
	}
	// continuation: ScanBareIdent uses isIdentChar
	sb := p.SSAFunc(p.Func("ScanBareIdent"))
	usesCont := false
	if sb != nil {
		for _, b := range sb.Blocks {
			for _, in := range b.Instrs {
				if call, ok := in.(*ssa.Call); ok && call.Call.StaticCallee() != nil && call.Call.StaticCallee().Name() == "isIdentChar" {
					usesCont = true
				}
			}
		}
	}
	c.Check(usesCont, rule, "ScanBareIdent: continues on isIdentChar", 0, "the bare-identifier scanner must continue exactly on isIdentChar")
	_ = strings.TrimSpace
}

// vacuousIndexRule: inside `for i := range X`, i is below len(X); a test
// `i == len(X)` (or >=) never holds, so whatever it selects never happens.
func vacuousIndexRule(c *Ctx, rule string, fns ...string) {
	p := c.P
	c.Rule(rule, "in the quoting helpers no comparison tests a range index for equality with (or being at least) the length of the slice it ranges over: such a test is never true, so the case it is meant to pick out (the last segment) is silently never taken")
	n := 0
	for _, name := range fns {
		fn := p.Func(name)
		fd := p.FuncDecls[fn]
		if fd == nil || fd.Body == nil {
			c.Unk(rule, name, 0, "anchor not found")
			continue
		}
		ga := p.newGuardAnalysis()
		pe := ga.pe
		seen := map[ast.Node]bool{}
		ga.run(fd.Body, func(nd ast.Node, f *facts) {
			b, ok := nd.(*ast.BinaryExpr)
			if !ok || seen[b] {
				return
			}
			switch b.Op {
			case token.EQL, token.GEQ, token.NEQ, token.LSS:
			default:
				return
			}
			for _, pr := range [][2]ast.Expr{{b.X, b.Y}, {b.Y, b.X}} {
				ip, ok1 := pe.pathOf(pr[0])
				lp, ok2 := pe.lenArg(pr[1], f)
				if !ok1 || !ok2 || f.inRange[ip] != lp {
					continue
				}
				seen[b] = true
				n++
				key := fmt.Sprintf("%s: %s", name, types.ExprString(b))
				c.Bad(rule, key, b.Pos(), fmt.Sprintf("%s ranges over %s, so it is always below its length: this comparison has a fixed outcome", types.ExprString(pr[0]), lp))
			}
		})
	}
	c.OK(rule, "range-index comparisons examined", 0, fmt.Sprintf("%d vacuous comparisons", n))
}

// eofPosC05: reading the end marker does not move the position.
func eofPosC05(c *Ctx) {
	p := c.P
	c.Rule("C05.eofpos", "reader.read, evaluated with the underlying reader reporting end of input, does not advance the column: the end marker is not a character, and a scanner that swallowed the first end marker reads a second one whose position would otherwise lie one column past the end of the text (the column quoted in every `found EOF` error)")
	f := p.SSAFunc(p.Method("reader", "read"))
	if f == nil {
		c.Unk("C05.eofpos", "(*reader).read", 0, "anchor not found")
		return
	}
	s := p.newSCCP()
	s.hook = func(call *ssa.Call, args []cval) ([]cval, bool) {
		if call.Call.IsInvoke() && call.Call.Method.Name() == "ReadRune" {
			return []cval{cTop, cTop, cSym("io.EOF")}, true
		}
		return nil, false
	}
	r := s.run(f, nil, 0)
	advanced := token.NoPos
	for _, b := range f.Blocks {
		if !r.execB[b.Index] {
			continue
		}
		for _, in := range b.Instrs {
			st, ok := in.(*ssa.Store)
			if !ok {
				continue
			}
			fa, ok := st.Addr.(*ssa.FieldAddr)
			if !ok || fieldNameOf(fa) != "Char" {
				continue
			}
			if bo, ok := st.Val.(*ssa.BinOp); ok && bo.Op == token.ADD {
				advanced = st.Pos()
			}
		}
	}
	key := "(*reader).read: column at end of input"
	if advanced != token.NoPos {
		c.Bad("C05.eofpos", key, advanced, "the column is advanced for the (first) end marker: after a token that runs to the end of the text the EOF token is reported one column too far (`SELECT` -> found EOF ... char 8, the text has 6 characters)")
	} else {
		c.OK("C05.eofpos", key, f.Pos(), "not advanced")
	}
}

// delimitedC05: a sub-scanner that hands the body of a quoted token to
// ScanString/ScanDelimited returns with the reader where that scan left it.
func delimitedC05(c *Ctx) {
	p := c.P
	c.Rule("C05.delimited", "after ScanString/ScanDelimited has consumed a quoted token (or stopped at the offending rune), the sub-scanner that called it does not move the reader again before it returns: a read or push-back there makes the next token start one rune early or late")
	read := p.SSAFunc(p.Method("reader", "read"))
	unread := p.SSAFunc(p.Method("reader", "unread"))
	n := 0
	for _, f := range p.allSSAFuncs() {
		if f.Signature.Recv() == nil || !strings.HasSuffix(f.Signature.Recv().Type().String(), ".Scanner") {
			continue
		}
		for _, b := range f.Blocks {
			for i, in := range b.Instrs {
				call, ok := in.(*ssa.Call)
				if !ok {
					continue
				}
				cal := call.Call.StaticCallee()
				if cal == nil || cal.Pkg != p.SPkg || (cal.Name() != "ScanString" && cal.Name() != "ScanDelimited") {
					continue
				}
				n++
				key := fmt.Sprintf("%s: after %s", ssaFuncName(f), cal.Name())
				var moved *ssa.Call
				scanInstrs := func(ins []ssa.Instruction) {
					for _, x := range ins {
						if c2, ok := x.(*ssa.Call); ok && moved == nil {
							if k := c2.Call.StaticCallee(); k == read || k == unread {
								moved = c2
							}
						}
					}
				}
				scanInstrs(b.Instrs[i+1:])
				seen := map[*ssa.BasicBlock]bool{}
				work := append([]*ssa.BasicBlock{}, b.Succs...)
				for len(work) > 0 {
					x := work[len(work)-1]
					work = work[:len(work)-1]
					if seen[x] {
						continue
					}
					seen[x] = true
					scanInstrs(x.Instrs)
					work = append(work, x.Succs...)
				}
				if moved != nil {
					c.Bad("C05.delimited", key, moved.Pos(), "the reader is moved ("+moved.Call.StaticCallee().Name()+") after the delimited scan returned")
				} else {
					c.OK("C05.delimited", key, call.Pos(), "the reader is left where the delimited scan stopped")
				}
			}
		}
	}
	c.Floor("C05.delimited", n, 2)
}

// readVerbatimRule: reader.read buffers the rune the underlying reader
// produced — every rune of the input reaches the scanner.
func readVerbatimRule(c *Ctx, rule string) {
	p := c.P
	c.Rule(rule, "reader.read stores into its ring the rune returned by its one primary ReadRune call, or one of the constants it substitutes (end marker, newline for CR / CR LF): a rune obtained from a further ReadRune call replaces — i.e. drops — an input character, so the text inside quotes no longer reaches the token unchanged")
	f := p.SSAFunc(p.Method("reader", "read"))
	if f == nil {
		c.Unk(rule, "(*reader).read", 0, "anchor not found")
		return
	}
	var rr []*ssa.Call
	for _, b := range f.Blocks {
		for _, in := range b.Instrs {
			if call, ok := in.(*ssa.Call); ok && call.Call.IsInvoke() && call.Call.Method.Name() == "ReadRune" {
				rr = append(rr, call)
			}
		}
	}
	var primary *ssa.Call
	for _, a := range rr {
		dom := true
		for _, b := range rr {
			if a != b && !a.Block().Dominates(b.Block()) {
				dom = false
			}
		}
		if dom {
			primary = a
		}
	}
	if primary == nil {
		c.Unk(rule, "(*reader).read: primary ReadRune", f.Pos(), "no ReadRune call dominates the others")
		return
	}
	n := 0
	for _, b := range f.Blocks {
		for _, in := range b.Instrs {
			st, ok := in.(*ssa.Store)
			if !ok {
				continue
			}
			fa, ok := st.Addr.(*ssa.FieldAddr)
			if !ok || fieldNameOf(fa) != "ch" {
				continue
			}
			n++
			key := fmt.Sprintf("(*reader).read: buffered rune #%d", n)
			bad, unk := "", ""
			seen := map[ssa.Value]bool{}
			var walk func(v ssa.Value)
			walk = func(v ssa.Value) {
				if seen[v] {
					return
				}
				seen[v] = true
				switch x := v.(type) {
				case *ssa.Phi:
					for _, e := range x.Edges {
						walk(e)
					}
				case *ssa.Const:
				case *ssa.Extract:
					if call, ok := x.Tuple.(*ssa.Call); ok && x.Index == 0 {
						if call == primary {
							return
						}
						for _, o := range rr {
							if o == call {
								bad = "a rune from a second ReadRune call (" + p.Fset.Position(call.Pos()).String() + ") is buffered in place of the first: the first is dropped"
								return
							}
						}
					}
					unk = "a value this rule does not trace"
				default:
					unk = "a value this rule does not trace"
				}
			}
			walk(st.Val)
			switch {
			case bad != "":
				c.Bad(rule, key, st.Pos(), bad)
			case unk != "":
				c.Unk(rule, key, st.Pos(), unk)
			default:
				c.OK(rule, key, st.Pos(), "the primary ReadRune's rune or a substituted constant")
			}
		}
	}
	c.Floor(rule, n, 1)
	// evaluated: with the primary ReadRune delivering a sample character (and
	// nothing pushed back), the rune buffered is that character; only CR is
	// replaced (by LF)
	for _, ch := range []rune{'a', '\t', 0, 0x85, 0xA0, 0x2028, 0x2029, 0xFEFF, 0xFFFD, 0x10FFFF, '\r'} {
		sc := p.newSCCP()
		sc.override = map[ssa.Value]cval{}
		for _, l := range fieldLoads(f, "n") {
			sc.override[l] = cConst(constant.MakeInt64(0))
		}
		sc.hook = func(call *ssa.Call, args []cval) ([]cval, bool) {
			if call == primary {
				return []cval{cConst(constant.MakeInt64(int64(ch))), cTop, cNil()}, true
			}
			return nil, false
		}
		r := sc.run(f, nil, 0)
		key := fmt.Sprintf("(*reader).read: %U is buffered as itself", ch)
		want := int64(ch)
		if ch == '\r' {
			key = "(*reader).read: CR is buffered as LF"
			want = '\n'
		}
		got, decided := int64(0), false
		for _, b := range f.Blocks {
			if !r.execB[b.Index] {
				continue
			}
			for _, in := range b.Instrs {
				if st, ok := in.(*ssa.Store); ok {
					if fa, ok := st.Addr.(*ssa.FieldAddr); ok && fieldNameOf(fa) == "ch" {
						if v := r.get(st.Val); v.isPlain() {
							got, _ = constant.Int64Val(constant.ToInt(v.v))
							decided = true
						}
					}
				}
			}
		}
		switch {
		case !decided:
			c.Unk(rule, key, f.Pos(), "the buffered rune is not a constant of the rune read")
		case got != want:
			c.Bad(rule, key, f.Pos(), fmt.Sprintf("buffered as %U: the character is replaced on its way to the scanner, inside quoted text as well", got))
		default:
			c.OK(rule, key, f.Pos(), "unchanged")
		}
	}
}

// stringEndRule: a quoted string ends at the first closing quote that is not
// behind a backslash.
func stringEndRule(c *Ctx, rule string) {
	p := c.P
	c.Rule(rule, "ScanString returns as soon as it reads the rune it opened with, without looking at what follows: the backslash forms are the only way to put a quote inside a string, so everyone who finds the end of a string by that rule (the quoting helpers, the redaction patterns, a reader of the printed text) agrees with the lexer; a doubled quote, say, read as an escaped quote makes `'a''b'` one token for the lexer and two strings for them")
	f := p.SSAFunc(p.Func("ScanString"))
	if f == nil {
		c.Unk(rule, "ScanString", 0, "anchor not found")
		return
	}
	isRR := func(in ssa.Instruction) bool {
		call, ok := in.(*ssa.Call)
		return ok && call.Call.IsInvoke() && (call.Call.Method.Name() == "ReadRune" || call.Call.Method.Name() == "UnreadRune")
	}
	var ending ssa.Value
	for _, in := range f.Blocks[0].Instrs {
		if isRR(in) {
			for _, ref := range *in.(*ssa.Call).Referrers() {
				if ex, ok := ref.(*ssa.Extract); ok && ex.Index == 0 {
					ending = ex
				}
			}
			break
		}
	}
	if ending == nil {
		c.Unk(rule, "ScanString: opening rune", f.Pos(), "the function does not start by reading the opening rune")
		return
	}
	n := 0
	for _, b := range f.Blocks {
		ifi, ok := b.Instrs[len(b.Instrs)-1].(*ssa.If)
		if !ok {
			continue
		}
		bo, ok := ifi.Cond.(*ssa.BinOp)
		if !ok || (bo.Op != token.EQL && bo.Op != token.NEQ) || (bo.X != ending && bo.Y != ending) {
			continue
		}
		n++
		key := fmt.Sprintf("ScanString: closing quote #%d", n)
		x := b.Succs[0]
		if bo.Op == token.NEQ {
			x = b.Succs[1]
		}
		verdict := ""
		for hops := 0; hops < 4 && verdict == ""; hops++ {
			for _, in := range x.Instrs {
				if isRR(in) {
					verdict = "moves"
				}
			}
			if verdict != "" {
				break
			}
			switch last := x.Instrs[len(x.Instrs)-1].(type) {
			case *ssa.Return:
				verdict = "returns"
			case *ssa.Jump:
				x = x.Succs[0]
			default:
				_ = last
				verdict = "branches"
			}
		}
		switch verdict {
		case "returns":
			c.OK(rule, key, bo.Pos(), "returns at once")
		case "moves":
			c.Bad(rule, key, bo.Pos(), "after the closing quote another rune is read (or pushed back) before the function decides to return: the end of a string depends on what follows the quote")
		default:
			c.Unk(rule, key, bo.Pos(), "the closing-quote branch does not lead straight to a return")
		}
	}
	c.Floor(rule, n, 1)
}

// eofMarkerRule: the rune the reader substitutes at end of input is not a
// rune the input can contain.
func eofMarkerRule(c *Ctx, rule string) {
	p := c.P
	c.Rule(rule, "the end marker reader.read buffers when the underlying reader reports an error is outside the range of runes ReadRune can deliver (negative or above U+10FFFF): a marker that is a legal character (U+0000, say) makes that character in the text end the scan, and everything after it is never tokenised")
	f := p.SSAFunc(p.Method("reader", "read"))
	if f == nil {
		c.Unk(rule, "(*reader).read", 0, "anchor not found")
		return
	}
	n := 0
	for _, b := range f.Blocks {
		for _, in := range b.Instrs {
			phi, ok := in.(*ssa.Phi)
			if !ok || !isIntegerType(phi.Type()) {
				continue
			}
			for i, e := range phi.Edges {
				k, ok := e.(*ssa.Const)
				if !ok || k.Value == nil {
					continue
				}
				// the edge taken when ReadRune failed
				pred := b.Preds[i]
				var guard *ssa.If
				var onTrue bool
				if ifi, ok := pred.Instrs[len(pred.Instrs)-1].(*ssa.If); ok {
					guard, onTrue = ifi, pred.Succs[0] == b
				} else if len(pred.Preds) == 1 {
					pp := pred.Preds[0]
					if ifi, ok := pp.Instrs[len(pp.Instrs)-1].(*ssa.If); ok {
						guard, onTrue = ifi, pp.Succs[0] == pred
					}
				} else if kv, _ := constant.Int64Val(constant.ToInt(k.Value)); len(pred.Preds) > 1 && len(pred.Instrs) == 1 && rune(kv) == p.eofRune() {
					// an empty then-block of `a || b`: each test that leads here
					for _, pp := range pred.Preds {
						ifi, ok := pp.Instrs[len(pp.Instrs)-1].(*ssa.If)
						if !ok {
							continue
						}
						if bo2, ok := ifi.Cond.(*ssa.BinOp); ok && isNilConst(bo2.Y) && types.Identical(bo2.X.Type(), types.Universe.Lookup("error").Type()) {
							guard, onTrue = ifi, pp.Succs[0] == pred
							continue
						}
						n++
						c.Bad(rule, "(*reader).read: end marker under another test", ifi.Cond.Pos(), "the end marker is also substituted where the underlying reader reported no error: the character read there ends the scan and the text after it is never tokenised")
					}
				}
				if guard == nil {
					continue
				}
				bo, ok := guard.Cond.(*ssa.BinOp)
				if !ok || !isNilConst(bo.Y) || !types.Identical(bo.X.Type(), types.Universe.Lookup("error").Type()) {
					// the same constant substituted under another test: a character
					// of the text is turned into the end marker
					if ek, isE := p.Types.Scope().Lookup("eof").(*types.Const); isE && ok {
						if ev, _ := constant.Int64Val(constant.ToInt(ek.Val())); func() bool { v, _ := constant.Int64Val(constant.ToInt(k.Value)); return v == ev }() {
							n++
							c.Bad(rule, "(*reader).read: end marker under another test", bo.Pos(), "the end marker is also substituted where the underlying reader reported no error: the character read there ends the scan and the text after it is never tokenised")
						}
					}
					continue
				}
				if (bo.Op == token.NEQ) != onTrue {
					continue
				}
				n++
				v, _ := constant.Int64Val(constant.ToInt(k.Value))
				key := "(*reader).read: end marker"
				if v < 0 || v > 0x10FFFF {
					c.OK(rule, key, phi.Pos(), fmt.Sprintf("marker %d is not a character", v))
				} else {
					c.Bad(rule, key, phi.Pos(), fmt.Sprintf("the end marker is U+%04X, a character the text may contain: the scan ends there and the rest of the text is skipped", v))
				}
			}
		}
	}
	if n == 0 {
		c.Unk(rule, "(*reader).read: end marker", f.Pos(), "no constant substituted on the error branch of ReadRune was found")
	}
}

// runeFaceRule: the io.RuneScanner face of the reader fails only at the end.
func runeFaceRule(c *Ctx, rule string) {
	p := c.P
	c.Rule(rule, "reader.ReadRune (what ScanString, ScanDelimited and ScanBareIdent read through), evaluated with reader.read delivering sample runes, returns a nil error for every character (U+FFFD, U+0000 and the largest rune included) and a non-nil one exactly for the end marker: a character that is reported as an error ends the quoted text it occurs in")
	f := p.SSAFunc(p.Method("reader", "ReadRune"))
	read := p.SSAFunc(p.Method("reader", "read"))
	if f == nil || read == nil {
		c.Unk(rule, "(*reader).ReadRune", 0, "anchor not found")
		return
	}
	eofR := p.eofRune()
	n := 0
	for _, ch := range []rune{eofR, 'a', 0, '\n', '\'', 0xFFFD, 0x10FFFF, 0xE9} {
		if ch == eofR && n > 0 {
			continue
		}
		n++
		s := p.newSCCP()
		s.hook = func(call *ssa.Call, args []cval) ([]cval, bool) {
			if call.Call.StaticCallee() == read {
				return []cval{cConst(constant.MakeInt64(int64(ch))), cTop}, true
			}
			return nil, false
		}
		// package-level error values are distinct non-nil errors
		s.override = map[ssa.Value]cval{}
		for _, b := range f.Blocks {
			for _, in := range b.Instrs {
				if u, ok := in.(*ssa.UnOp); ok && u.Op == token.MUL {
					if g, ok := u.X.(*ssa.Global); ok && types.Identical(u.Type(), types.Universe.Lookup("error").Type()) {
						s.override[u] = cSym("err:" + g.Name())
					}
				}
			}
		}
		key := "(*reader).ReadRune: on " + p.runeLabel(ch)
		rets := s.Eval(f, nil)
		if len(rets) == 0 {
			c.Unk(rule, key, f.Pos(), "no return reachable")
			continue
		}
		errNil, errSet, unknown := false, false, false
		for _, rp := range rets {
			e := rp.Results[len(rp.Results)-1]
			switch {
			case e.nilc:
				errNil = true
			case e.k == 1:
				errSet = true
			default:
				unknown = true
			}
		}
		switch {
		case unknown:
			c.Unk(rule, key, f.Pos(), "the error result is not a constant of the rune")
		case ch == eofR:
			c.Check(errSet && !errNil, rule, key, f.Pos(), "the end marker must be reported as an error")
		default:
			c.Check(errNil && !errSet, rule, key, f.Pos(), fmt.Sprintf("%U is a character of the text, but ReadRune reports an error for it: a quoted string or identifier holding it is cut short (BADSTRING)", ch))
		}
	}
}

// argsUntouchedRule: the quoting helpers do not write into what they are given.
func argsUntouchedRule(c *Ctx, rule string, names ...string) {
	p := c.P
	c.Rule(rule, "QuoteIdent, QuoteString and IdentNeedsQuotes store nothing through their parameters: a variadic call QuoteIdent(parts...) hands over the caller's slice, and a helper that writes the quoted form back into it quotes the name twice on the next call")
	for _, name := range names {
		f := p.SSAFunc(p.Func(name))
		if f == nil {
			c.Unk(rule, name, 0, "anchor not found")
			continue
		}
		var rooted func(v ssa.Value, d int) bool
		rooted = func(v ssa.Value, d int) bool {
			if d > 6 {
				return false
			}
			switch x := v.(type) {
			case *ssa.Parameter:
				return true
			case *ssa.IndexAddr:
				return rooted(x.X, d+1)
			case *ssa.FieldAddr:
				return rooted(x.X, d+1)
			case *ssa.Slice:
				return rooted(x.X, d+1)
			case *ssa.Phi:
				for _, e := range x.Edges {
					if rooted(e, d+1) {
						return true
					}
				}
			}
			return false
		}
		bad := false
		for _, g := range append([]*ssa.Function{f}, f.AnonFuncs...) {
			for _, b := range g.Blocks {
				for _, in := range b.Instrs {
					if st, ok := in.(*ssa.Store); ok && rooted(st.Addr, 0) {
						if _, direct := st.Addr.(*ssa.Parameter); direct {
							continue
						}
						bad = true
						c.Bad(rule, name+": store through a parameter", st.Pos(), "the helper writes into memory its caller owns")
					}
				}
			}
		}
		if !bad {
			c.OK(rule, name+": store through a parameter", f.Pos(), "none")
		}
	}
}

// identQuoteRule: a quote met after bare identifier text ends that identifier.
func identQuoteRule(c *Ctx, rule string) {
	p := c.P
	c.Rule(rule, "in scanIdent the hand-over to the quoted-string scanner happens only while nothing has been accumulated (the buffer is tested empty on the branch taken, or no buffer write can precede it): a quote that follows bare text must end that token, otherwise the text already read is dropped and `cpu\"mem\"` is the single identifier mem")
	f := p.SSAFunc(p.Method("Scanner", "scanIdent"))
	ss := p.SSAFunc(p.Method("Scanner", "scanString"))
	if f == nil || ss == nil {
		c.Unk(rule, "(*Scanner).scanIdent", 0, "anchor not found")
		return
	}
	var writes []*ssa.BasicBlock
	for _, b := range f.Blocks {
		for _, in := range b.Instrs {
			if call, ok := in.(*ssa.Call); ok && call.Call.StaticCallee() != nil {
				if nm := call.Call.StaticCallee().Name(); strings.HasPrefix(nm, "Write") {
					writes = append(writes, b)
				}
			}
		}
	}
	n := 0
	for _, b := range f.Blocks {
		for _, in := range b.Instrs {
			call, ok := in.(*ssa.Call)
			if !ok || call.Call.StaticCallee() != ss {
				continue
			}
			n++
			key := fmt.Sprintf("(*Scanner).scanIdent: hand-over to scanString #%d", n)
			// can a buffer write come before?
			after := false
			for _, w := range writes {
				if reaches(w, b, map[int]bool{}) {
					after = true
				}
			}
			if !after {
				c.OK(rule, key, call.Pos(), "no buffer write can precede it")
				continue
			}
			// guarded by an emptiness test of the buffer
			guarded := false
			for d := b; d != nil && !guarded; d = d.Idom() {
				for _, pr := range d.Preds {
					ifi, ok := pr.Instrs[len(pr.Instrs)-1].(*ssa.If)
					if !ok || len(d.Preds) != 1 {
						continue
					}
					bo, ok := ifi.Cond.(*ssa.BinOp)
					if !ok {
						continue
					}
					lc, ok := bo.X.(*ssa.Call)
					if !ok || lc.Call.StaticCallee() == nil || lc.Call.StaticCallee().Name() != "Len" {
						continue
					}
					k, ok := bo.Y.(*ssa.Const)
					if !ok || k.Value == nil || constant.Sign(k.Value) != 0 {
						continue
					}
					onTrue := pr.Succs[0] == d
					if (bo.Op == token.EQL && onTrue) || ((bo.Op == token.GTR || bo.Op == token.NEQ) && !onTrue) {
						guarded = true
					}
				}
			}
			if guarded {
				c.OK(rule, key, call.Pos(), "taken only while the buffer is empty")
			} else {
				c.Bad(rule, key, call.Pos(), "reachable after bare text has been accumulated, and the quoted literal is returned in its place: the characters already read belong to no token")
			}
		}
	}
	c.Floor(rule, n, 1)
}

// errPosRule: every parse error carries the position of a token.
func errPosRule(c *Ctx, rule string) {
	p := c.P
	c.Rule(rule, "every ParseError the parser builds sets its Pos field (newParseError takes it as an argument): an error built without it is reported at line 1, char 1 whatever line the offending token is on")
	n := 0
	for _, fb := range p.funcBodies() {
		if fb.Lit != nil || !parserTypes[recvTypeName(fb.Decl)] {
			continue // (literals inside closures are seen from the enclosing function)
		}
		fb := fb
		k := 0
		ast.Inspect(fb.Body, func(nd ast.Node) bool {
			cl, ok := nd.(*ast.CompositeLit)
			if !ok || p.TypeStr(p.Info.TypeOf(cl)) != "ParseError" {
				return true
			}
			n++
			k++
			hasPos := false
			msg := ""
			for _, el := range cl.Elts {
				if kv, ok := el.(*ast.KeyValueExpr); ok {
					if id, ok := kv.Key.(*ast.Ident); ok {
						if id.Name == "Pos" {
							hasPos = true
						}
						if id.Name == "Message" {
							if tv := p.Info.Types[kv.Value]; tv.Value != nil {
								msg = constant.StringVal(tv.Value)
							}
						}
					}
				} else {
					hasPos = true // positional literal sets every field
				}
			}
			key := fmt.Sprintf("%s: ParseError #%d", fb.Name, k)
			if msg != "" {
				key = fmt.Sprintf("%s: ParseError %q", fb.Name, msg)
			}
			if hasPos {
				c.OK(rule, key, cl.Pos(), "Pos set")
			} else {
				c.Bad(rule, key, cl.Pos(), "built without a position: reported at line 1, char 1")
			}
			return true
		})
	}
	c.Floor(rule, n, 15)
}

// errTokenRule: the position quoted with "found X" is X's position.
func errTokenRule(c *Ctx, rule string) {
	p := c.P
	c.Rule(rule, "in every newParseError(tokstr(tok, lit), expected, pos) the token and the position come from the same scan: an error that names the offending token but quotes the position of an earlier one points the user at the wrong column")
	npe := p.SSAFunc(p.Func("newParseError"))
	tokstr := p.SSAFunc(p.Func("tokstr"))
	if npe == nil || tokstr == nil {
		c.Unk(rule, "newParseError/tokstr", 0, "anchors not found")
		return
	}
	tupleOf := func(v ssa.Value) ssa.Value {
		if ex, ok := v.(*ssa.Extract); ok {
			return ex.Tuple
		}
		return nil
	}
	n, bad := 0, 0
	perFn := map[string]int{}
	for _, f := range p.allSSAFuncs() {
		for _, b := range f.Blocks {
			for _, in := range b.Instrs {
				call, ok := in.(*ssa.Call)
				if !ok || call.Call.StaticCallee() != npe || len(call.Call.Args) != 3 {
					continue
				}
				ts, ok := call.Call.Args[0].(*ssa.Call)
				if !ok || ts.Call.StaticCallee() != tokstr || len(ts.Call.Args) != 2 {
					continue
				}
				tt, pt := tupleOf(ts.Call.Args[0]), tupleOf(call.Call.Args[2])
				if tt == nil || pt == nil {
					continue
				}
				n++
				if tt != pt {
					bad++
					perFn[ssaFuncName(f)]++
					c.Bad(rule, fmt.Sprintf("%s: mismatched error #%d", ssaFuncName(f), perFn[ssaFuncName(f)]), call.Pos(), "the token named in the error was scanned at "+p.Pos(tt.Pos())+", the position quoted comes from the scan at "+p.Pos(pt.Pos()))
				}
			}
		}
	}
	c.OK(rule, "errors examined", 0, fmt.Sprintf("%d newParseError calls with token and position from scans, %d mismatched", n, bad))
	c.Floor(rule, n, 60)
}
