package main

import (
	"fmt"
	"go/ast"
	"go/constant"
	"go/token"
	"go/types"
	"sort"

	"golang.org/x/tools/go/ssa"
)

func init() { register("C11", rulesC11) }

// syntaxOps reads the regexp/syntax.Op constants from the imported package.
func (p *Program) syntaxConsts() (ops map[string]int64, foldCase int64, ok bool) {
	ops = map[string]int64{}
	for _, imp := range p.Pkg.Imports {
		if imp.PkgPath != "regexp/syntax" {
			continue
		}
		sc := imp.Types.Scope()
		opT := sc.Lookup("Op")
		for _, n := range sc.Names() {
			k, isC := sc.Lookup(n).(*types.Const)
			if !isC {
				continue
			}
			if opT != nil && types.Identical(k.Type(), opT.Type()) {
				v, _ := constant.Int64Val(k.Val())
				ops[n] = v
			}
			if n == "FoldCase" {
				foldCase, _ = constant.Int64Val(constant.ToInt(k.Val()))
				ok = true
			}
		}
	}
	return ops, foldCase, ok && len(ops) > 10
}

func fieldLoads(f *ssa.Function, field string) []*ssa.UnOp {
	var out []*ssa.UnOp
	for _, b := range f.Blocks {
		for _, in := range b.Instrs {
			if u, ok := in.(*ssa.UnOp); ok && u.Op == token.MUL {
				if fa, ok := u.X.(*ssa.FieldAddr); ok {
					st := fa.X.Type().Underlying().(*types.Pointer).Elem().Underlying().(*types.Struct)
					if st.Field(fa.Field).Name() == field {
						out = append(out, u)
					}
				}
			}
		}
	}
	sort.Slice(out, func(i, j int) bool { return out[i].Pos() < out[j].Pos() })
	return out
}

// mayReturnTrue: is a return whose result idx is not the constant false reachable?
func mayReturnTrue(r *sccpRun, f *ssa.Function, idx int) bool {
	for _, b := range f.Blocks {
		if !r.execB[b.Index] {
			continue
		}
		if ret, ok := b.Instrs[len(b.Instrs)-1].(*ssa.Return); ok && idx < len(ret.Results) {
			v := r.get(ret.Results[idx])
			if bv, isB := isBoolConst(v); isB && !bv {
				continue
			}
			return true
		}
	}
	return false
}

func rulesC11(c *Ctx) {
	p := c.P
	mr := p.SSAFunc(p.Func("matchRegex"))
	me := p.SSAFunc(p.Func("matchExactRegex"))
	ops, fold, ok := p.syntaxConsts()
	if mr == nil || me == nil || !ok {
		c.Unk("C11.ops", "anchors", 0, "matchRegex/matchExactRegex/regexp/syntax constants not found")
		return
	}
	opNames := make([]string, 0, len(ops))
	for n := range ops {
		opNames = append(opNames, n)
	}
	sort.Strings(opNames)

	runeWidthC11(c, mr, me)
	parseFlagsC11(c, me)
	opThenOperandC11(c)
	// ---- C11.ops ----
	c.Rule("C11.ops", "matchRegex, evaluated by constant propagation with the node's Op bound to every regexp/syntax operator, can report success only for OpLiteral, OpCapture, OpConcat, OpCharClass and OpAlternate — operators whose language is finite when their parts' are; repetition, any-char, empty-match and anchor operators always fail")
	finite := map[string]bool{"OpLiteral": true, "OpCapture": true, "OpConcat": true, "OpCharClass": true, "OpAlternate": true}
	opLoads := fieldLoads(mr, "Op")
	flagLoads := fieldLoads(mr, "Flags")
	if len(opLoads) == 0 {
		c.Unk("C11.ops", "matchRegex: Op", mr.Pos(), "matchRegex does not switch on the node's Op")
	}
	for _, n := range opNames {
		s := p.newSCCP()
		s.override = map[ssa.Value]cval{}
		for _, l := range opLoads {
			s.override[l] = cConst(constant.MakeInt64(ops[n]))
		}
		for _, l := range flagLoads {
			s.override[l] = cConst(constant.MakeInt64(0))
		}
		r := s.run(mr, nil, 0)
		may := mayReturnTrue(r, mr, 1)
		key := "matchRegex: " + n
		if may && !finite[n] {
			c.Bad("C11.ops", key, mr.Pos(), "can be expanded to literals, but "+n+" does not denote a finite set of whole strings")
		} else {
			c.OK("C11.ops", key, mr.Pos(), fmt.Sprintf("expandable=%v", may))
		}
	}
	c.Floor("C11.ops", len(opNames), 15)

	// ---- C11.fold ----
	c.Rule("C11.fold", "matchRegex itself rejects a node whose FoldCase flag is set, before anything else: it is re-entered for every sub-expression, so case folding nested in a group or alternative is rejected too")
	if len(flagLoads) == 0 {
		c.Bad("C11.fold", "matchRegex: FoldCase", mr.Pos(), "matchRegex does not look at the node's Flags: (?i) inside a group or alternative is expanded to exact-case literals")
	} else {
		reject := true
		for _, n := range opNames {
			if !finite[n] {
				continue
			}
			s := p.newSCCP()
			s.override = map[ssa.Value]cval{}
			for _, l := range opLoads {
				s.override[l] = cConst(constant.MakeInt64(ops[n]))
			}
			for _, l := range flagLoads {
				s.override[l] = cConst(constant.MakeInt64(fold))
			}
			r := s.run(mr, nil, 0)
			if mayReturnTrue(r, mr, 1) {
				reject = false
				c.Bad("C11.fold", "matchRegex: FoldCase with "+n, mr.Pos(), "a case-folding "+n+" node can still be expanded")
			}
		}
		if reject {
			c.OK("C11.fold", "matchRegex: FoldCase", mr.Pos(), "every expandable operator is rejected when FoldCase is set")
		}
	}

	// ---- C11.anchors ----
	c.Rule("C11.anchors", "matchExactRegex proceeds only when the first and last sub-expression are the text anchors OpBeginText and OpEndText (line anchors, produced under (?m), match inside multi-line values)")
	// group the Op loads by the node they read (re, first sub, last sub)
	var meGroups [][]*ssa.UnOp
	{
		idx := map[ssa.Value]int{}
		for _, l := range fieldLoads(me, "Op") {
			base := l.X.(*ssa.FieldAddr).X
			// the same node re-read through the same local: compare by rendering
			k := base
			if i, ok := idx[k]; ok {
				meGroups[i] = append(meGroups[i], l)
			} else {
				idx[k] = len(meGroups)
				meGroups = append(meGroups, []*ssa.UnOp{l})
			}
		}
	}
	bind := func(s *sccp, g int, v int64) {
		for _, l := range meGroups[g] {
			s.override[l] = cConst(constant.MakeInt64(v))
		}
	}
	meOps := meGroups
	if len(meOps) != 3 {
		c.Unk("C11.anchors", "matchExactRegex: Op tests", me.Pos(), fmt.Sprintf("expected Op tests of the expression, its first and its last sub-expression; found %d", len(meOps)))
	} else {
		// proceeds = the recursive matchRegex call or a success return is reachable
		anchors := []string{"OpBeginLine", "OpEndLine", "OpBeginText", "OpEndText", "OpLiteral", "OpEmptyMatch", "OpWordBoundary"}
		for _, a := range anchors {
			for _, b := range anchors {
				s := p.newSCCP()
				s.override = map[ssa.Value]cval{}
				bind(s, 0, ops["OpConcat"])
				bind(s, 1, ops[a])
				bind(s, 2, ops[b])
				r := s.run(me, nil, 0)
				proceeds := mayReturnTrue(r, me, 1)
				want := a == "OpBeginText" && b == "OpEndText"
				key := fmt.Sprintf("matchExactRegex: first=%s last=%s", a, b)
				if proceeds != want {
					c.Bad("C11.anchors", key, me.Pos(), fmt.Sprintf("proceeds=%v, must be %v", proceeds, want))
				} else {
					c.OK("C11.anchors", key, me.Pos(), fmt.Sprintf("proceeds=%v", proceeds))
				}
			}
		}
		// and only for OpConcat at the top
		for _, n := range opNames {
			if n == "OpConcat" {
				continue
			}
			s := p.newSCCP()
			s.override = map[ssa.Value]cval{}
			bind(s, 0, ops[n])
			bind(s, 1, ops["OpBeginText"])
			bind(s, 2, ops["OpEndText"])
			r := s.run(me, nil, 0)
			c.Check(!mayReturnTrue(r, me, 1), "C11.anchors", "matchExactRegex: top-level "+n, me.Pos(), "an expression that is not a concatenation starting and ending with anchors is unanchored")
		}
	}

	allSubsC11(c)
	emptyClassC11(c, ops)
	// ---- C11.cap ----
	c.Rule("C11.cap", "every slice matchRegex allocates for a product or a character-class expansion is sized by a value tested `> 100` on a failing branch first, and a list grown by appending alternatives is tested `> 100` before it is returned: more than 100 literals are never produced")
	nCap := 0
	capTest := func(b *ssa.BasicBlock, v ssa.Value, viaLen bool) bool {
		for d := b; d != nil; d = d.Idom() {
			ifi, ok := d.Instrs[len(d.Instrs)-1].(*ssa.If)
			if !ok || d == b {
				continue
			}
			bo, ok := ifi.Cond.(*ssa.BinOp)
			if !ok {
				continue
			}
			k, ok := bo.Y.(*ssa.Const)
			if !ok || k.Value == nil {
				continue
			}
			n, _ := constant.Int64Val(constant.ToInt(k.Value))
			// the branch on which the value is known to be at most 100:
			// `x > 100` false, `x >= 101` false, `x <= 100` true, `x < 101` true
			var within *ssa.BasicBlock
			switch {
			case bo.Op == token.GTR && n == 100, bo.Op == token.GEQ && n == 101:
				within = d.Succs[1]
			case bo.Op == token.LEQ && n == 100, bo.Op == token.LSS && n == 101:
				within = d.Succs[0]
			default:
				continue
			}
			x := bo.X
			if viaLen {
				if call, ok := x.(*ssa.Call); ok {
					if bi, ok := call.Call.Value.(*ssa.Builtin); ok && bi.Name() == "len" && call.Call.Args[0] == v {
						if within.Dominates(b) || within == b {
							return true
						}
					}
				}
				continue
			}
			if x == v && (within.Dominates(b) || within == b) {
				return true
			}
		}
		return false
	}
	for _, b := range mr.Blocks {
		for _, in := range b.Instrs {
			switch x := in.(type) {
			case *ssa.MakeSlice:
				if p.TypeStr(x.Type()) != "[]string" {
					continue
				}
				sz := x.Cap
				if _, isC := sz.(*ssa.Const); isC {
					sz = x.Len
				}
				if _, isC := sz.(*ssa.Const); isC {
					continue
				}
				nCap++
				key := fmt.Sprintf("matchRegex: make %s #%d", p.TypeStr(x.Type()), nCap)
				c.Check(capTest(b, sz, false), "C11.cap", key, x.Pos(), "allocation sized by a value that was not tested against the 100-literal cap on a dominating branch")
			case *ssa.Return:
				if len(x.Results) != 2 {
					continue
				}
				if bv, ok := x.Results[1].(*ssa.Const); !ok || bv.Value == nil || !constant.BoolVal(bv.Value) {
					continue
				}
				// list grown by append in a loop (a phi fed by append results)
				phi, ok := x.Results[0].(*ssa.Phi)
				if !ok {
					continue
				}
				fed := false
				for _, e := range phi.Edges {
					if call, ok := e.(*ssa.Call); ok {
						if bi, ok := call.Call.Value.(*ssa.Builtin); ok && bi.Name() == "append" && call.Call.Signature().Variadic() {
							if _, spread := call.Call.Args[len(call.Call.Args)-1].(*ssa.Call); spread || true {
								fed = true
							}
						}
					}
				}
				if !fed {
					continue
				}
				// only lists that append whole result slices (alternation) need the post-test
				needs := false
				for _, e := range phi.Edges {
					if call, ok := e.(*ssa.Call); ok && len(call.Call.Args) == 2 {
						if _, isSlice := call.Call.Args[1].Type().Underlying().(*types.Slice); isSlice {
							if _, fromAlloc := call.Call.Args[1].(*ssa.Slice); !fromAlloc {
								needs = true
							}
						}
					}
				}
				if !needs {
					continue
				}
				nCap++
				c.Check(capTest(b, phi, true), "C11.cap", "matchRegex: return of an appended list", x.Pos(), "a list built by appending sub-results is returned without a `len > 100` test")
			}
		}
	}
	c.Floor("C11.cap", nCap, 3)

	// ---- C11.connective ----
	connectiveC11(c)

	// ---- C11.pure ----
	c.Rule("C11.pure", "the rewrite keeps no state between calls: nothing reachable from RewriteRegexConditions touches package-level memory (a cache of expansions could hand one statement's literals to another)")
	rr := p.Method("SelectStatement", "RewriteRegexConditions")
	if rr != nil {
		reach := reachable(p.refGraph(), []*types.Func{rr, p.Func("matchExactRegex"), p.Func("matchRegex")})
		n := globalWrites(c, "C11.pure", reach)
		c.OK("C11.pure", "functions reachable from RewriteRegexConditions", 0, fmt.Sprintf("%d function bodies examined", n))
	}
}

func connectiveC11(c *Ctx) {
	p := c.P
	tt := p.tokenTable()
	c.Rule("C11.connective", "the rewrite touches only =~ and !~ conditions; =~ becomes = with the literals joined by OR, !~ becomes != joined by AND; a multi-literal result is wrapped in parentheses")
	rr := p.SSAFunc(p.Method("SelectStatement", "RewriteRegexConditions"))
	if rr == nil || len(rr.AnonFuncs) == 0 || tt == nil {
		c.Unk("C11.connective", "RewriteRegexConditions: rewriter", 0, "anchor not found")
		return
	}
	lit := rr.AnonFuncs[0]
	me := p.SSAFunc(p.Func("matchExactRegex"))
	var meCall *ssa.Call
	for _, b := range lit.Blocks {
		for _, in := range b.Instrs {
			if call, ok := in.(*ssa.Call); ok && call.Call.StaticCallee() == me {
				meCall = call
			}
		}
	}
	if meCall == nil {
		c.Unk("C11.connective", "RewriteRegexConditions$lit: matchExactRegex call", lit.Pos(), "the rewriter does not call matchExactRegex")
		return
	}
	// guard: loads of .Op that dominate the call
	var guardLoads []*ssa.UnOp
	for _, l := range fieldLoads(lit, "Op") {
		if !meCall.Block().Dominates(l.Block()) {
			guardLoads = append(guardLoads, l)
		}
	}
	for _, v := range tt.Values {
		sp, has := tt.Spelling[v]
		if _, isOp := precedenceSpec[sp]; !has || !isOp {
			continue
		}
		s := p.newSCCP()
		s.override = map[ssa.Value]cval{}
		for _, l := range guardLoads {
			s.override[l] = cConst(constant.MakeInt64(v))
		}
		r := s.run(lit, nil, 0)
		reached := r.execB[meCall.Block().Index]
		want := sp == "=~" || sp == "!~"
		c.Check(reached == want, "C11.connective", "RewriteRegexConditions$lit: operator "+sp, lit.Pos(), fmt.Sprintf("rewrite attempted=%v, must be %v", reached, want))
	}
	// the if/else that picks the new operator and the connective
	type choice struct{ newOp, concat string }
	got := map[string]choice{}
	for _, b := range lit.Blocks {
		for _, in := range b.Instrs {
			phi, ok := in.(*ssa.Phi)
			if !ok || !types.Identical(phi.Type(), tt.Type) || len(phi.Edges) != 2 {
				continue
			}
			// controlling test: idom's If on load(.Op) == const
			idom := b.Idom()
			ifi, ok := idom.Instrs[len(idom.Instrs)-1].(*ssa.If)
			if !ok {
				continue
			}
			bo, ok := ifi.Cond.(*ssa.BinOp)
			if !ok || bo.Op != token.EQL {
				continue
			}
			tk, ok := bo.Y.(*ssa.Const)
			if !ok || tk.Value == nil {
				continue
			}
			tv, _ := constant.Int64Val(constant.ToInt(tk.Value))
			for i, e := range phi.Edges {
				k, ok := e.(*ssa.Const)
				if !ok || k.Value == nil {
					continue
				}
				cv, _ := constant.Int64Val(constant.ToInt(k.Value))
				pred := b.Preds[i]
				newOp := ""
				for _, pin := range pred.Instrs {
					if st, ok := pin.(*ssa.Store); ok {
						if fa, ok := st.Addr.(*ssa.FieldAddr); ok {
							sty := fa.X.Type().Underlying().(*types.Pointer).Elem().Underlying().(*types.Struct)
							if sty.Field(fa.Field).Name() == "Op" {
								if kk, ok := st.Val.(*ssa.Const); ok && kk.Value != nil {
									nv, _ := constant.Int64Val(constant.ToInt(kk.Value))
									newOp = tt.Spelling[nv]
								}
							}
						}
					}
				}
				branch := "else"
				if pred == idom.Succs[0] {
					branch = tt.Spelling[tv]
				}
				got[branch] = choice{newOp, tt.Spelling[cv]}
			}
		}
	}
	want := map[string]choice{"=~": {"=", "OR"}, "else": {"!=", "AND"}}
	if g, ok := got["!~"]; ok { // written the other way round
		got = map[string]choice{"else": got["else"], "!~": g}
		want = map[string]choice{"!~": {"!=", "AND"}, "else": {"=", "OR"}}
	}
	// the connective kept in a variable outside the callback and assigned on
	// only one of the two branches: the other branch uses what an earlier
	// condition left there
	for _, fv := range lit.FreeVars {
		pt, ok := fv.Type().(*types.Pointer)
		if !ok || !types.Identical(pt.Elem(), tt.Type) {
			continue
		}
		var storeBlocks []*ssa.BasicBlock
		loaded := false
		for _, b := range lit.Blocks {
			for _, in := range b.Instrs {
				switch x := in.(type) {
				case *ssa.Store:
					if x.Addr == ssa.Value(fv) {
						storeBlocks = append(storeBlocks, b)
					}
				case *ssa.UnOp:
					if x.X == ssa.Value(fv) {
						loaded = true
					}
				}
			}
		}
		if !loaded || len(storeBlocks) == 0 {
			continue
		}
		// a branch of an operator test that reaches the load without a store
		for _, b := range lit.Blocks {
			ifi, ok := b.Instrs[len(b.Instrs)-1].(*ssa.If)
			if !ok {
				continue
			}
			bo, ok := ifi.Cond.(*ssa.BinOp)
			if !ok || bo.Op != token.EQL {
				continue
			}
			if _, fld, ok := fieldRef(bo.X); !ok || fld != "Op" {
				continue
			}
			stores := 0
			for _, sc := range b.Succs {
				for _, sb := range storeBlocks {
					if sb == sc || sc.Dominates(sb) && len(sc.Preds) == 1 {
						stores++
						break
					}
				}
			}
			if stores == 1 {
				c.Bad("C11.connective", "RewriteRegexConditions$lit: connective variable", ifi.Pos(), "the connective lives outside the callback and only one of the =~ / !~ branches assigns it: after a !~ condition a later =~ condition is expanded with AND (or the reverse), and matches nothing")
				return
			}
		}
	}
	for k, w := range want {
		key := "RewriteRegexConditions$lit: branch " + k
		if got[k].newOp == "" || got[k].concat == "" {
			c.Unk("C11.connective", key, lit.Pos(), "the operator/connective choice is not an if/else that assigns both: not extracted")
			continue
		}
		if got[k] != w {
			c.Bad("C11.connective", key, lit.Pos(), fmt.Sprintf("new operator %q joined by %q; must be %q joined by %q", got[k].newOp, got[k].concat, w.newOp, w.concat))
		} else {
			c.OK("C11.connective", key, lit.Pos(), fmt.Sprintf("%s joined by %s", w.newOp, w.concat))
		}
	}
	// multi-literal result is parenthesised
	ts := p.newTypeSets()
	paren := false
	for _, b := range lit.Blocks {
		if ret, ok := b.Instrs[len(b.Instrs)-1].(*ssa.Return); ok {
			set := ts.of(ret.Results[0], map[ssa.Value]bool{})
			n := set.names()
			if !set.top && len(n) == 1 && n[0] == "*ParenExpr" {
				paren = true
			}
		}
	}
	c.Check(paren, "C11.connective", "RewriteRegexConditions$lit: multi-literal result", lit.Pos(), "the OR/AND chain must be returned inside a ParenExpr, or it regroups with the surrounding condition")
}

// allSubsC11: every sub-expression contributes, or the whole expansion fails.
func allSubsC11(c *Ctx) {
	c.Rule("C11.allsubs", "in matchRegex no loop over the sub-expressions of a node (re.Sub) is left by `break`: a loop that stops early and then succeeds has dropped the remaining alternatives or factors, so the literal set is too small; the only early exits are failing returns")
	loopNoBreak(c, "C11.allsubs", c.P.Func("matchRegex"), "matchRegex", "Sub", "the loop is left by break and the function goes on to succeed: sub-expressions after that point contribute nothing (at exactly the literal cap the remaining alternatives are dropped)")
}

// loopNoBreak: no loop of fn over a `.sel` collection is left by break.
func loopNoBreak(c *Ctx, rule string, fn *types.Func, fname, selName, badText string) {
	p := c.P
	fd := p.FuncDecls[fn]
	if fd == nil || fd.Body == nil {
		c.Unk(rule, fname, 0, "anchor not found")
		return
	}
	n := 0
	isSubLoop := func(x ast.Expr) bool {
		found := false
		ast.Inspect(x, func(m ast.Node) bool {
			if sel, ok := m.(*ast.SelectorExpr); ok && sel.Sel.Name == selName {
				found = true
			}
			return true
		})
		return found
	}
	var checkLoop func(body *ast.BlockStmt, label string, what string, pos token.Pos)
	checkLoop = func(body *ast.BlockStmt, label, what string, pos token.Pos) {
		n++
		key := fmt.Sprintf("%s: loop #%d over %s", fname, n, what)
		bad := token.NoPos
		var walk func(nd ast.Node, inner bool)
		walk = func(nd ast.Node, inner bool) {
			switch x := nd.(type) {
			case nil:
				return
			case *ast.BranchStmt:
				if x.Tok == token.BREAK {
					if (x.Label == nil && !inner) || (x.Label != nil && x.Label.Name == label && label != "") {
						bad = x.Pos()
					}
				}
				return
			case *ast.ForStmt:
				walk(x.Body, true)
				return
			case *ast.RangeStmt:
				walk(x.Body, true)
				return
			case *ast.SwitchStmt:
				walk(x.Body, true)
				return
			case *ast.TypeSwitchStmt:
				walk(x.Body, true)
				return
			case *ast.SelectStmt:
				walk(x.Body, true)
				return
			case *ast.FuncLit:
				return
			}
			ast.Inspect(nd, func(m ast.Node) bool {
				if m == nd || m == nil {
					return true
				}
				walk(m, inner)
				return false
			})
		}
		walk(body, false)
		if bad != token.NoPos {
			c.Bad(rule, key, bad, badText)
		} else {
			c.OK(rule, key, pos, "no break")
		}
	}
	ast.Inspect(fd.Body, func(nd ast.Node) bool {
		label := ""
		if ls, ok := nd.(*ast.LabeledStmt); ok {
			label = ls.Label.Name
			nd = ls.Stmt
		}
		switch x := nd.(type) {
		case *ast.RangeStmt:
			if isSubLoop(x.X) {
				checkLoop(x.Body, label, types.ExprString(x.X), x.Pos())
			}
		case *ast.ForStmt:
			if x.Cond != nil && isSubLoop(x.Cond) {
				checkLoop(x.Body, label, types.ExprString(x.Cond), x.Pos())
			}
		}
		return true
	})
	c.Floor(rule, n, 1)
}

// emptyClassC11: a character class with no members matches nothing; it must
// not be expanded to an empty list, which the rewrite reads as "the empty string".
func emptyClassC11(c *Ctx, ops map[string]int64) {
	p := c.P
	c.Rule("C11.emptyclass", "matchRegex, evaluated with the node's Op bound to OpCharClass and the length of its rune table bound to 0, does not report success: an empty class matches no string at all, while an empty list of literals is rewritten to `= ''`")
	f := p.SSAFunc(p.Func("matchRegex"))
	if f == nil {
		c.Unk("C11.emptyclass", "matchRegex", 0, "anchor not found")
		return
	}
	var lens []ssa.Value
	for _, b := range f.Blocks {
		for _, in := range b.Instrs {
			call, ok := in.(*ssa.Call)
			if !ok {
				continue
			}
			if bi, ok := call.Call.Value.(*ssa.Builtin); ok && bi.Name() == "len" && len(call.Call.Args) == 1 {
				if _, fld, ok := fieldRef(call.Call.Args[0]); ok && fld == "Rune" {
					lens = append(lens, call)
				}
			}
		}
	}
	key := "matchRegex: OpCharClass with no members"
	if len(lens) == 0 {
		c.Unk("C11.emptyclass", key, f.Pos(), "no len(re.Rune) found")
		return
	}
	s := p.newSCCP()
	s.override = map[ssa.Value]cval{}
	for _, l := range fieldLoads(f, "Op") {
		s.override[l] = cConst(constant.MakeInt64(ops["OpCharClass"]))
	}
	for _, l := range fieldLoads(f, "Flags") {
		s.override[l] = cConst(constant.MakeInt64(0))
	}
	for _, l := range lens {
		s.override[l] = cConst(constant.MakeInt64(0))
	}
	r := s.run(f, nil, 0)
	if mayReturnTrue(r, f, 1) {
		c.Bad("C11.emptyclass", key, f.Pos(), "reports success with zero literals: `host =~ /^[^\\x00-\\x{10FFFF}]$/` (matches nothing) is rewritten to host = '' (matches the empty string), and !~ to host != ''")
	} else {
		c.OK("C11.emptyclass", key, f.Pos(), "fails, so the condition is left as a regex")
	}
}

// runeWidthC11: the characters of the pattern reach the literals at full width.
func runeWidthC11(c *Ctx, fns ...*ssa.Function) {
	c.Rule("C11.runewidth", "matchRegex and matchExactRegex never narrow a character of the pattern (a value read from a node's Rune table) to 8 bits on its way into a literal: a member above U+00FF would come out as another character, and one above U+007F as an invalid byte, so the literal no longer matches what the regex matched")
	n := 0
	fromRune := func(v ssa.Value) bool {
		seen := map[ssa.Value]bool{}
		var walk func(v ssa.Value, d int) bool
		walk = func(v ssa.Value, d int) bool {
			if d > 10 || seen[v] {
				return false
			}
			seen[v] = true
			switch x := v.(type) {
			case *ssa.UnOp:
				return walk(x.X, d+1)
			case *ssa.IndexAddr:
				return walk(x.X, d+1)
			case *ssa.FieldAddr:
				return fieldNameOf(x) == "Rune" || fieldNameOf(x) == "Rune0"
			case *ssa.Convert:
				return walk(x.X, d+1)
			case *ssa.ChangeType:
				return walk(x.X, d+1)
			case *ssa.BinOp:
				return walk(x.X, d+1) || walk(x.Y, d+1)
			case *ssa.Phi:
				for _, e := range x.Edges {
					if walk(e, d+1) {
						return true
					}
				}
			case *ssa.Extract:
				return walk(x.Tuple, d+1)
			case *ssa.Next:
				return walk(x.Iter, d+1)
			case *ssa.Range:
				return walk(x.X, d+1)
			}
			return false
		}
		return walk(v, 0)
	}
	for _, f := range fns {
		if f == nil {
			continue
		}
		for _, g := range append([]*ssa.Function{f}, f.AnonFuncs...) {
			for _, b := range g.Blocks {
				for _, in := range b.Instrs {
					cv, ok := in.(*ssa.Convert)
					if !ok {
						continue
					}
					n++
					tb, ok1 := cv.Type().Underlying().(*types.Basic)
					sb, ok2 := cv.X.Type().Underlying().(*types.Basic)
					if !ok1 || !ok2 || sb.Info()&types.IsInteger == 0 || (tb.Kind() != types.Uint8 && tb.Kind() != types.Int8) || sb.Kind() == types.Uint8 || sb.Kind() == types.Int8 {
						continue
					}
					key := fmt.Sprintf("%s: %s -> %s", g.Name(), sb.Name(), tb.Name())
					if fromRune(cv.X) {
						c.Bad("C11.runewidth", key, cv.Pos(), "a character taken from the node's Rune table is narrowed to 8 bits before it becomes (part of) a literal")
					} else {
						c.Unk("C11.runewidth", key, cv.Pos(), "an integer is narrowed to 8 bits; whether it is a character of the pattern is not decided")
					}
				}
			}
		}
	}
	c.OK("C11.runewidth", "conversions examined", 0, fmt.Sprintf("%d conversions in matchRegex/matchExactRegex", n))
	c.Floor("C11.runewidth", n, 1)
}

// parseFlagsC11: the pattern is read the way regexp.Compile reads it.
func parseFlagsC11(c *Ctx, me *ssa.Function) {
	p := c.P
	c.Rule("C11.parseflags", "matchExactRegex parses the pattern with syntax.Perl, the flags regexp.Compile uses: the literals are derived from the same reading of the pattern as the compiled regex that stays in the tree if the rewrite does not apply (another flag set changes what a negated class or `.` contains, or how `(?i)` and `\\pL` are read)")
	var perl int64 = -1
	for _, imp := range p.Pkg.Imports {
		if imp.PkgPath == "regexp/syntax" {
			if k, ok := imp.Types.Scope().Lookup("Perl").(*types.Const); ok {
				perl, _ = constant.Int64Val(constant.ToInt(k.Val()))
			}
		}
	}
	n := 0
	for _, b := range me.Blocks {
		for _, in := range b.Instrs {
			call, ok := in.(*ssa.Call)
			if !ok || call.Call.StaticCallee() == nil || call.Call.StaticCallee().String() != "regexp/syntax.Parse" {
				continue
			}
			n++
			key := fmt.Sprintf("matchExactRegex: syntax.Parse #%d", n)
			k, ok := call.Call.Args[1].(*ssa.Const)
			if !ok || k.Value == nil || perl < 0 {
				c.Unk("C11.parseflags", key, call.Pos(), "flags are not a constant")
				continue
			}
			v, _ := constant.Int64Val(constant.ToInt(k.Value))
			if v == perl {
				c.OK("C11.parseflags", key, call.Pos(), "syntax.Perl")
			} else {
				c.Bad("C11.parseflags", key, call.Pos(), fmt.Sprintf("flags %d, regexp.Compile uses syntax.Perl (%d): the set of strings the literals stand for is computed for another language than the regex matches", v, perl))
			}
		}
	}
	c.Floor("C11.parseflags", n, 1)
}

// opThenOperandC11: once the operator of a regex condition has been rewritten,
// the node that is returned no longer has the regex as its operand.
func opThenOperandC11(c *Ctx) {
	p := c.P
	c.Rule("C11.opthenoperand", "in the RewriteRegexConditions callback every return reachable after the store that turns the node's operator into = / != either hands back another node or is preceded by a store of a string literal into the node's RHS: a path that gives the node back with the new operator and the old regex operand yields `host = /re/`, which matches nothing")
	outer := p.SSAFunc(p.Method("SelectStatement", "RewriteRegexConditions"))
	if outer == nil || len(outer.AnonFuncs) == 0 {
		c.Unk("C11.opthenoperand", "RewriteRegexConditions$lit", 0, "anchor not found")
		return
	}
	lit := outer.AnonFuncs[0]
	var opStores []*ssa.Store
	var rhsStoreBlocks []*ssa.BasicBlock
	var node ssa.Value
	for _, b := range lit.Blocks {
		for _, in := range b.Instrs {
			st, ok := in.(*ssa.Store)
			if !ok {
				continue
			}
			fa, ok := st.Addr.(*ssa.FieldAddr)
			if !ok || p.TypeStr(fa.X.Type()) != "*BinaryExpr" {
				continue
			}
			if _, fresh := fa.X.(*ssa.Alloc); fresh {
				continue
			}
			switch fieldNameOf(fa) {
			case "Op":
				opStores = append(opStores, st)
				node = fa.X
			case "RHS":
				rhsStoreBlocks = append(rhsStoreBlocks, b)
			}
		}
	}
	if len(opStores) == 0 {
		c.Unk("C11.opthenoperand", "RewriteRegexConditions$lit: operator store", lit.Pos(), "the callback does not rewrite the operator of the node in place")
		return
	}
	n := 0
	for _, b := range lit.Blocks {
		ret, ok := b.Instrs[len(b.Instrs)-1].(*ssa.Return)
		if !ok || len(ret.Results) != 1 {
			continue
		}
		after := false
		for _, st := range opStores {
			if st.Block() == b || reaches(st.Block(), b, map[int]bool{}) {
				after = true
			}
		}
		if !after {
			continue
		}
		n++
		key := fmt.Sprintf("RewriteRegexConditions$lit: return #%d after the operator store", n)
		// is the node itself returned?
		same := false
		v := ret.Results[0]
		for i := 0; i < 4; i++ {
			switch x := v.(type) {
			case *ssa.MakeInterface:
				v = x.X
				continue
			case *ssa.ChangeInterface:
				v = x.X
				continue
			}
			break
		}
		if v == node {
			same = true
		}
		if prm, ok := v.(*ssa.Parameter); ok && len(lit.Params) > 0 && prm == lit.Params[0] {
			same = true
		}
		if !same {
			c.OK("C11.opthenoperand", key, ret.Pos(), "another node is returned")
			continue
		}
		// can the return be reached from an operator store without passing a
		// block that stores the operand?
		isRHS := map[*ssa.BasicBlock]bool{}
		for _, sb := range rhsStoreBlocks {
			isRHS[sb] = true
		}
		stored := true
		for _, st := range opStores {
			seen := map[*ssa.BasicBlock]bool{}
			work := []*ssa.BasicBlock{st.Block()}
			for len(work) > 0 {
				x := work[len(work)-1]
				work = work[:len(work)-1]
				if seen[x] || (isRHS[x] && x != st.Block()) {
					continue
				}
				seen[x] = true
				if x == b && (x != st.Block() || !isRHS[x]) {
					stored = false
				}
				work = append(work, x.Succs...)
			}
		}
		if stored {
			c.OK("C11.opthenoperand", key, ret.Pos(), "the operand was replaced first")
		} else {
			c.Bad("C11.opthenoperand", key, ret.Pos(), "the node comes back with the rewritten operator and its regex operand untouched")
		}
	}
	c.Floor("C11.opthenoperand", n, 2)
}
