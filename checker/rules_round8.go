package main

import (
	"fmt"
	"go/ast"
	"go/constant"
	"go/token"
	"go/types"

	"golang.org/x/tools/go/ssa"
)

// revisitRule: a Visit method does not walk a child itself and then let Walk
// walk it again.
func revisitRule(c *Ctx, rule string) {
	p := c.P
	c.Rule(rule, "no Visit method of the package calls Walk on a child of the node it was given and afterwards returns a non-nil visitor for that node: Walk then descends into the same child again, every level doubles the work, and a flat chain of n operators costs 2^n visits — `SELECT v + v + … (32 terms)` does not return")
	n := 0
	for _, f := range p.SortedFuncs() {
		fd := p.FuncDecls[f]
		if fd == nil || fd.Body == nil || f.Name() != "Visit" || fd.Recv == nil {
			continue
		}
		n++
		key := recvTypeName(f) + ".Visit"
		var walkPos token.Pos
		ast.Inspect(fd.Body, func(nd ast.Node) bool {
			if call, ok := nd.(*ast.CallExpr); ok {
				if id := identOf(call.Fun); id != nil {
					if fn, ok := p.Info.Uses[id].(*types.Func); ok && fn.Pkg() == p.Types && (fn.Name() == "Walk" || fn.Name() == "WalkFunc") && walkPos == token.NoPos {
						walkPos = call.Pos()
					}
				}
			}
			return true
		})
		if walkPos == token.NoPos {
			c.OK(rule, key, fd.Pos(), "does not walk children itself")
			continue
		}
		bad := token.NoPos
		ast.Inspect(fd.Body, func(nd ast.Node) bool {
			if r, ok := nd.(*ast.ReturnStmt); ok && r.Pos() > walkPos && len(r.Results) == 1 {
				if id := identOf(r.Results[0]); id == nil || id.Name != "nil" {
					bad = r.Pos()
				}
			}
			return true
		})
		if bad != token.NoPos {
			c.Bad(rule, key, bad, "walks a child itself and then returns a visitor, so Walk descends into that child a second time")
		} else {
			c.OK(rule, key, fd.Pos(), "walks children itself and returns nil afterwards")
		}
	}
	c.Floor(rule, n, 3)
}

// quotedIdentTokensRule: a quoted identifier is an identifier whatever is in it.
func quotedIdentTokensRule(c *Ctx, rule string) {
	p := c.P
	c.Rule(rule, "in scanIdent, once the quoted-string scanner has been called, the token returned is IDENT or the token that scanner reported (BADSTRING/BADESCAPE): no other constant token is returned there — QuoteIdent writes an empty name as \"\" and every other name between quotes, so a quoted text the lexer refuses (the empty one, say) is a name that cannot be written down")
	f := p.SSAFunc(p.Method("Scanner", "scanIdent"))
	tt := p.tokenTable()
	if f == nil || tt == nil {
		c.Unk(rule, "(*Scanner).scanIdent", 0, "anchor not found")
		return
	}
	var scanCall *ssa.Call
	for _, b := range f.Blocks {
		for _, in := range b.Instrs {
			if call, ok := in.(*ssa.Call); ok && call.Call.StaticCallee() != nil && call.Call.StaticCallee().Name() == "scanString" {
				scanCall = call
			}
		}
	}
	if scanCall == nil {
		c.Unk(rule, "(*Scanner).scanIdent: scanString call", f.Pos(), "no call found")
		return
	}
	n := 0
	for _, b := range f.Blocks {
		ret, ok := b.Instrs[len(b.Instrs)-1].(*ssa.Return)
		if !ok || len(ret.Results) == 0 || !(scanCall.Block() == b || scanCall.Block().Dominates(b)) {
			continue
		}
		n++
		key := fmt.Sprintf("(*Scanner).scanIdent: return after the quoted scan #%d", n)
		switch x := ret.Results[0].(type) {
		case *ssa.Const:
			v, _ := constant.Int64Val(constant.ToInt(x.Value))
			if tt.Name[v] == "IDENT" {
				c.OK(rule, key, ret.Pos(), "IDENT")
			} else {
				c.Bad(rule, key, ret.Pos(), "returns "+tt.Name[v]+" for a quoted identifier the string scanner accepted")
			}
		case *ssa.Extract:
			c.OK(rule, key, ret.Pos(), "the string scanner's own token")
		default:
			c.Unk(rule, key, ret.Pos(), "token value not followed")
		}
	}
	c.Floor(rule, n, 2)
}

// aliasVerbatimC20: the alias pass takes every alias as written.
func aliasVerbatimC20(c *Ctx, cn *types.Func) {
	p := c.P
	c.Rule("C20.aliasverbatim", "in ColumnNames every store of a column's alias into the result is guarded by a test of that alias alone (non-empty): a store that also depends on a lookup in the map of taken names gives the second of two equal aliases a generated name instead of the alias the user wrote")
	fd := p.FuncDecls[cn]
	if fd == nil || fd.Body == nil {
		c.Unk("C20.aliasverbatim", "ColumnNames", 0, "anchor not found")
		return
	}
	n := 0
	ast.Inspect(fd.Body, func(nd ast.Node) bool {
		is, ok := nd.(*ast.IfStmt)
		if !ok {
			return true
		}
		stores := false
		for _, st := range is.Body.List {
			as, ok := st.(*ast.AssignStmt)
			if !ok || len(as.Lhs) != 1 || len(as.Rhs) != 1 {
				continue
			}
			if _, isIdx := as.Lhs[0].(*ast.IndexExpr); !isIdx {
				continue
			}
			if _, isSlice := p.Info.TypeOf(as.Lhs[0].(*ast.IndexExpr).X).Underlying().(*types.Slice); !isSlice {
				continue
			}
			if sel, ok := ast.Unparen(as.Rhs[0]).(*ast.SelectorExpr); ok && sel.Sel.Name == "Alias" {
				stores = true
			}
		}
		if !stores {
			return true
		}
		n++
		key := fmt.Sprintf("(*SelectStatement).ColumnNames: alias stored #%d", n)
		usesMap := false
		for _, part := range []ast.Node{is.Init, is.Cond} {
			if part == nil {
				continue
			}
			ast.Inspect(part, func(m ast.Node) bool {
				if ix, ok := m.(*ast.IndexExpr); ok {
					if _, isMap := p.Info.TypeOf(ix.X).Underlying().(*types.Map); isMap {
						usesMap = true
					}
				}
				return true
			})
		}
		if usesMap {
			c.Bad("C20.aliasverbatim", key, is.Pos(), "whether the alias is used depends on a lookup in a map: an alias that repeats an earlier name is replaced")
		} else {
			c.OK("C20.aliasverbatim", key, is.Pos(), "guarded by "+types.ExprString(is.Cond))
		}
		return true
	})
	c.Floor("C20.aliasverbatim", n, 1)
}

// handedMapRule: no entry is written into a map that a user-supplied
// implementation returned.
func handedMapRule(c *Ctx, rule string) {
	p := c.P
	c.Rule(rule, "no map write (m[k] = v) in the package targets a map that came back from a call through an interface (a FieldMapper's or TypeMapper's answer): such a map may be nil — the write panics with `assignment to entry in nil map` — and it belongs to the implementation that returned it; results are accumulated in maps the function made itself")
	n := 0
	var origin func(v ssa.Value, seen map[ssa.Value]bool) string
	origin = func(v ssa.Value, seen map[ssa.Value]bool) string {
		if seen[v] {
			return ""
		}
		seen[v] = true
		switch x := v.(type) {
		case *ssa.Phi:
			for _, e := range x.Edges {
				if w := origin(e, seen); w != "" {
					return w
				}
			}
		case *ssa.Extract:
			if call, ok := x.Tuple.(*ssa.Call); ok && call.Call.IsInvoke() {
				return call.Call.Method.Name()
			}
		case *ssa.Call:
			if x.Call.IsInvoke() {
				return x.Call.Method.Name()
			}
		}
		return ""
	}
	var visit func(fn *ssa.Function)
	visit = func(fn *ssa.Function) {
		ord := 0
		for _, b := range fn.Blocks {
			for _, in := range b.Instrs {
				mu, ok := in.(*ssa.MapUpdate)
				if !ok {
					continue
				}
				ord++
				n++
				key := fmt.Sprintf("%s: map write #%d", ssaFuncName(fn), ord)
				if w := origin(mu.Map, map[ssa.Value]bool{}); w != "" {
					c.Bad(rule, key, mu.Pos(), "the map written to can be the one an interface call ("+w+") returned")
				} else {
					c.OK(rule, key, mu.Pos(), "not a map handed back by an interface call")
				}
			}
		}
		for _, an := range fn.AnonFuncs {
			visit(an)
		}
	}
	for _, fn := range p.SrcFuncs() {
		visit(fn)
	}
	c.Floor(rule, n, 10)
}

// noFabricateC10: the splitter does not invent truth values.
func noFabricateC10(c *Ctx, ce *ssa.Function) {
	p := c.P
	c.Rule("C10.nofabricate", "no return of conditionExpr hands back a BooleanLiteral it built itself: the residual is the condition's own sub-expressions (reduced), never a verdict the splitter reached from the time bounds — `time >= X AND time <= X` describes one instant, and a residual `false` made up because the range looked empty rejects the point at that instant")
	n := 0
	for _, b := range ce.Blocks {
		ret, ok := b.Instrs[len(b.Instrs)-1].(*ssa.Return)
		if !ok || len(ret.Results) != 3 {
			continue
		}
		n++
		key := fmt.Sprintf("conditionExpr: return #%d", n)
		fab := false
		var look func(v ssa.Value, d int)
		look = func(v ssa.Value, d int) {
			if d > 3 {
				return
			}
			switch x := v.(type) {
			case *ssa.MakeInterface:
				if a, ok := x.X.(*ssa.Alloc); ok && p.TypeStr(a.Type()) == "*BooleanLiteral" {
					fab = true
				}
			case *ssa.Phi:
				for _, e := range x.Edges {
					look(e, d+1)
				}
			}
		}
		look(ret.Results[0], 0)
		if fab {
			c.Bad("C10.nofabricate", key, ret.Pos(), "the residual returned is a BooleanLiteral built here")
		} else {
			c.OK("C10.nofabricate", key, ret.Pos(), "residual comes from the condition")
		}
	}
	c.Floor("C10.nofabricate", n, 6)
}

// recompileSourceRule: a pattern is recompiled from its source, not from its
// printed form.
func recompileSourceRule(c *Ctx, rule string) {
	p := c.P
	c.Rule(rule, "wherever the package compiles a pattern (regexp.Compile/MustCompile) from text that it obtained from a node, that text is the compiled pattern's own source (Regexp.String()), never the literal's printed form (RegexLiteral.String(), which adds the slashes and escapes every `/`): a clone compiled from the printed form of /a\\/b/ matches a backslash the original does not, and each further clone adds another")
	n := 0
	var src func(v ssa.Value, d int) string
	src = func(v ssa.Value, d int) string {
		if d > 6 {
			return ""
		}
		switch x := v.(type) {
		case *ssa.Call:
			if cal := x.Call.StaticCallee(); cal != nil && cal.Name() == "String" && cal.Signature.Recv() != nil {
				return p.TypeStr(cal.Signature.Recv().Type())
			}
			if x.Call.IsInvoke() && x.Call.Method.Name() == "String" {
				return "an Expr"
			}
		case *ssa.Slice:
			return src(x.X, d+1)
		case *ssa.BinOp:
			if s := src(x.X, d+1); s != "" {
				return s
			}
			return src(x.Y, d+1)
		case *ssa.Phi:
			for _, e := range x.Edges {
				if s := src(e, d+1); s != "" {
					return s
				}
			}
		}
		return ""
	}
	var visit func(fn *ssa.Function)
	visit = func(fn *ssa.Function) {
		ord := 0
		for _, b := range fn.Blocks {
			for _, in := range b.Instrs {
				call, ok := in.(*ssa.Call)
				if !ok {
					continue
				}
				cal := call.Call.StaticCallee()
				if cal == nil || cal.Pkg == nil || cal.Pkg.Pkg.Path() != "regexp" || (cal.Name() != "Compile" && cal.Name() != "MustCompile") {
					continue
				}
				if _, isConst := call.Call.Args[0].(*ssa.Const); isConst {
					continue
				}
				ord++
				n++
				key := fmt.Sprintf("%s: regexp.%s #%d", ssaFuncName(fn), cal.Name(), ord)
				switch s := src(call.Call.Args[0], 0); s {
				case "*RegexLiteral", "an Expr":
					c.Bad(rule, key, call.Pos(), "the text compiled is the printed form of "+s+" (slashes and escapes included), not the pattern's source")
				default:
					c.OK(rule, key, call.Pos(), "compiled from scanned text or from a pattern's own source")
				}
			}
		}
		for _, an := range fn.AnonFuncs {
			visit(an)
		}
	}
	for _, fn := range p.SrcFuncs() {
		visit(fn)
	}
	c.Floor(rule, n, 2)
}

// scannerStatelessRule: the lexer keeps nothing between tokens but its reader.
func scannerStatelessRule(c *Ctx, rule string) {
	p := c.P
	c.Rule(rule, "no method of Scanner stores into a field of the Scanner or into a map held in one: the token and literal returned for a piece of text depend on that text (through the reader) alone, not on which identifiers were scanned before — an intern table keyed by the lower-cased name hands `CPU` back as the earlier `cpu`")
	n := 0
	for _, fn := range p.SrcFuncs() {
		o, ok := fn.Object().(*types.Func)
		if !ok || recvTypeName(o) != "Scanner" || len(fn.Params) == 0 {
			continue
		}
		n++
		key := ssaFuncName(fn)
		recv := fn.Params[0]
		bad := token.NoPos
		what := ""
		onRecv := func(v ssa.Value) (string, bool) {
			fa, ok := v.(*ssa.FieldAddr)
			if !ok || fa.X != ssa.Value(recv) {
				return "", false
			}
			return fieldName(fa), true
		}
		var visit func(f *ssa.Function)
		visit = func(f *ssa.Function) {
			for _, b := range f.Blocks {
				for _, in := range b.Instrs {
					switch x := in.(type) {
					case *ssa.Store:
						if f2, ok := onRecv(x.Addr); ok && bad == token.NoPos {
							bad, what = x.Pos(), "stores into Scanner."+f2
						}
					case *ssa.MapUpdate:
						if u, ok := x.Map.(*ssa.UnOp); ok {
							if f2, ok := onRecv(u.X); ok && bad == token.NoPos {
								bad, what = x.Pos(), "writes into the map Scanner."+f2
							}
						}
					}
				}
			}
		}
		visit(fn)
		if bad != token.NoPos {
			c.Bad(rule, key, bad, what+": what is scanned later depends on what was scanned before")
		} else {
			c.OK(rule, key, fn.Pos(), "no store into the Scanner")
		}
	}
	c.Floor(rule, n, 8)
}

// subqueryFlagC01: subqueries nest.
func subqueryFlagC01(c *Ctx) {
	p := c.P
	c.Rule("C01.subquerynest", "parseSelectStatement passes the constant true as parseSources' `subqueries allowed` flag: a SELECT read as a subquery may itself read from a subquery (any depth); a flag computed from the kind of statement being parsed rejects `FROM (SELECT … FROM (SELECT …))`")
	f := p.SSAFunc(p.Method("Parser", "parseSelectStatement"))
	if f == nil {
		c.Unk("C01.subquerynest", "(*Parser).parseSelectStatement", 0, "anchor not found")
		return
	}
	n := 0
	for _, b := range f.Blocks {
		for _, in := range b.Instrs {
			call, ok := in.(*ssa.Call)
			if !ok || call.Call.StaticCallee() == nil || call.Call.StaticCallee().Name() != "parseSources" || len(call.Call.Args) < 2 {
				continue
			}
			n++
			key := fmt.Sprintf("(*Parser).parseSelectStatement: parseSources #%d", n)
			if k, ok := call.Call.Args[1].(*ssa.Const); ok && k.Value != nil && constant.BoolVal(k.Value) {
				c.OK("C01.subquerynest", key, call.Pos(), "true")
			} else if ok {
				c.Bad("C01.subquerynest", key, call.Pos(), "subqueries are switched off for every SELECT")
			} else {
				c.Bad("C01.subquerynest", key, call.Pos(), "whether a subquery may appear as a source is computed from the parsing context: nested subqueries are rejected")
			}
		}
	}
	c.Floor("C01.subquerynest", n, 1)
}

// keywordLookupRule: a word that is a keyword is that keyword whatever follows it.
func keywordLookupRule(c *Ctx, rule string) {
	p := c.P
	c.Rule(rule, "in scanIdent nothing is read from the input after the keyword table was consulted: whether a word is a keyword is decided by the word alone. A look at the next character (`(` makes it a function name) turns `a AND(b OR c)` into the identifier AND followed by a group, and the expression silently ends at `a`")
	f := p.SSAFunc(p.Method("Scanner", "scanIdent"))
	read := p.SSAFunc(p.Method("reader", "read"))
	if f == nil || read == nil {
		c.Unk(rule, "(*Scanner).scanIdent", 0, "anchor not found")
		return
	}
	n := 0
	for _, b := range f.Blocks {
		for i, in := range b.Instrs {
			call, ok := in.(*ssa.Call)
			if !ok || call.Call.StaticCallee() == nil || call.Call.StaticCallee().Name() != "Lookup" {
				continue
			}
			n++
			key := fmt.Sprintf("(*Scanner).scanIdent: after Lookup #%d", n)
			bad := token.NoPos
			seen := map[*ssa.BasicBlock]bool{}
			var walk func(x *ssa.BasicBlock, from int)
			walk = func(x *ssa.BasicBlock, from int) {
				for j := from; j < len(x.Instrs); j++ {
					if c2, ok := x.Instrs[j].(*ssa.Call); ok && c2.Call.StaticCallee() != nil {
						cal := c2.Call.StaticCallee()
						if cal == read || (cal.Pkg == f.Pkg && cal.Signature.Recv() != nil && (p.TypeStr(cal.Signature.Recv().Type()) == "*reader" || p.TypeStr(cal.Signature.Recv().Type()) == "*Scanner")) {
							if bad == token.NoPos {
								bad = c2.Pos()
							}
						}
					}
				}
				for _, s := range x.Succs {
					if !seen[s] {
						seen[s] = true
						walk(s, 0)
					}
				}
			}
			walk(b, i+1)
			if bad != token.NoPos {
				c.Bad(rule, key, bad, "the reader is used again after the keyword lookup: the token depends on what follows the word")
			} else {
				c.OK(rule, key, call.Pos(), "the looked-up token is returned without another look at the input")
			}
		}
	}
	c.Floor(rule, n, 1)
}

// appendOnlyRule: privilege lists grow by append.
func appendOnlyRule(c *Ctx, rule, mname string) {
	p := c.P
	c.Rule(rule, "no "+mname+" method copies a privilege list into a slice of a length fixed beforehand (builtin copy): the number of privileges a source contributes is not the number of sources — a subquery brings one per measurement it reads — so a destination sized by len(Sources) cuts the list short and the last READs are lost")
	n := 0
	for _, fn := range p.SrcFuncs() {
		if fn.Name() != mname {
			continue
		}
		n++
		key := ssaFuncName(fn)
		bad := token.NoPos
		for _, b := range fn.Blocks {
			for _, in := range b.Instrs {
				if call, ok := in.(*ssa.Call); ok {
					if bi, ok := call.Call.Value.(*ssa.Builtin); ok && bi.Name() == "copy" && len(call.Call.Args) == 2 && p.TypeStr(call.Call.Args[0].Type()) == "ExecutionPrivileges" {
						bad = call.Pos()
					}
				}
			}
		}
		if bad != token.NoPos {
			c.Bad(rule, key, bad, "copies privileges into a slice whose length was fixed before the list was known")
		} else {
			c.OK(rule, key, fn.Pos(), "lists are built by literals and append")
		}
	}
	c.Floor(rule, n, 20)
}

// callArgsC01: every argument position of a call offers the same alternatives.
func callArgsC01(c *Ctx) {
	p := c.P
	c.Rule("C01.callargs", "in parseCall every argument parsed with ParseExpr was first offered to parseRegex: walking back from each ParseExpr call, a parseRegex call is met before another ParseExpr call or the function entry on every path. An argument position that skips the regex attempt reads `/` as the division operator, and top(value, /host.*/, 3) is rejected")
	f := p.SSAFunc(p.Method("Parser", "parseCall"))
	if f == nil {
		c.Unk("C01.callargs", "(*Parser).parseCall", 0, "anchor not found")
		return
	}
	isCallTo := func(in ssa.Instruction, name string) bool {
		call, ok := in.(*ssa.Call)
		return ok && call.Call.StaticCallee() != nil && call.Call.StaticCallee().Name() == name
	}
	n := 0
	for _, b := range f.Blocks {
		for i, in := range b.Instrs {
			if !isCallTo(in, "ParseExpr") {
				continue
			}
			n++
			key := fmt.Sprintf("(*Parser).parseCall: argument parsed by ParseExpr #%d", n)
			ok := true
			seen := map[*ssa.BasicBlock]bool{}
			var back func(x *ssa.BasicBlock, from int)
			back = func(x *ssa.BasicBlock, from int) {
				for j := from; j >= 0; j-- {
					if isCallTo(x.Instrs[j], "parseRegex") {
						return
					}
					if isCallTo(x.Instrs[j], "ParseExpr") {
						ok = false
						return
					}
				}
				if len(x.Preds) == 0 {
					ok = false // reached the entry
					return
				}
				for _, pb := range x.Preds {
					if !seen[pb] {
						seen[pb] = true
						back(pb, len(pb.Instrs)-1)
					}
				}
			}
			back(b, i-1)
			if ok {
				c.OK("C01.callargs", key, in.Pos(), "offered to parseRegex first")
			} else {
				c.Bad("C01.callargs", key, in.Pos(), "on some path this argument is parsed as an expression without having been offered to parseRegex")
			}
		}
	}
	c.Floor("C01.callargs", n, 2)
}

// nilReceiverRule: a node that Walk hands to visitors as a nil pointer prints
// without panicking.
func nilReceiverRule(c *Ctx, rule string) {
	p := c.P
	c.Rule(rule, "where Walk passes a pointer-typed field of a node on without a nil test, and the package itself tests that field against nil elsewhere (so it can be nil: SELECT without INTO has a nil Target), the String method of the pointed-to type starts by returning when its receiver is nil: visitors receive the typed nil pointer as a non-nil Node, and printing it must not dereference it")
	walk := p.FuncDecls[p.Func("Walk")]
	if walk == nil || walk.Body == nil {
		c.Unk(rule, "Walk", 0, "anchor not found")
		return
	}
	// fields the package believes can be nil
	belief := map[types.Object]bool{}
	for _, fb := range p.funcBodies() {
		ast.Inspect(fb.Body, func(n ast.Node) bool {
			be, ok := n.(*ast.BinaryExpr)
			if !ok || (be.Op != token.EQL && be.Op != token.NEQ) {
				return true
			}
			for _, pair := range [][2]ast.Expr{{be.X, be.Y}, {be.Y, be.X}} {
				if id := identOf(pair[1]); id == nil || id.Name != "nil" {
					continue
				}
				if sel, ok := ast.Unparen(pair[0]).(*ast.SelectorExpr); ok {
					if s := p.Info.Selections[sel]; s != nil && s.Kind() == types.FieldVal {
						belief[s.Obj()] = true
					}
				}
			}
			return true
		})
	}
	n := 0
	seenT := map[string]bool{}
	var visit func(nd ast.Node, guarded map[types.Object]bool)
	visit = func(nd ast.Node, guarded map[types.Object]bool) {
		ast.Inspect(nd, func(m ast.Node) bool {
			if m == nd {
				return true
			}
			switch x := m.(type) {
			case *ast.IfStmt:
				g2 := map[types.Object]bool{}
				for k, v := range guarded {
					g2[k] = v
				}
				if be, ok := ast.Unparen(x.Cond).(*ast.BinaryExpr); ok && be.Op == token.NEQ {
					if sel, ok := ast.Unparen(be.X).(*ast.SelectorExpr); ok {
						if s := p.Info.Selections[sel]; s != nil {
							g2[s.Obj()] = true
						}
					}
				}
				visit(x.Body, g2)
				if x.Else != nil {
					visit(x.Else, guarded)
				}
				return false
			case *ast.CallExpr:
				id := identOf(x.Fun)
				if id == nil || id.Name != "Walk" || len(x.Args) != 2 {
					return true
				}
				sel, ok := ast.Unparen(x.Args[1]).(*ast.SelectorExpr)
				if !ok {
					return true
				}
				s := p.Info.Selections[sel]
				if s == nil || s.Kind() != types.FieldVal || guarded[s.Obj()] || !belief[s.Obj()] {
					return true
				}
				pt, ok := s.Type().(*types.Pointer)
				if !ok {
					return true
				}
				nt, ok := pt.Elem().(*types.Named)
				if !ok || seenT[nt.Obj().Name()] {
					return true
				}
				seenT[nt.Obj().Name()] = true
				n++
				tn := nt.Obj().Name()
				key := fmt.Sprintf("Walk: %s may be a nil *%s: %s.String guards its receiver", types.ExprString(sel), tn, tn)
				sd := p.FuncDecls[p.Method(tn, "String")]
				if sd == nil || sd.Body == nil || sd.Recv == nil || len(sd.Recv.List[0].Names) == 0 {
					c.Unk(rule, key, x.Pos(), "String method not found")
					return true
				}
				recv := p.Info.Defs[sd.Recv.List[0].Names[0]]
				okGuard := false
				if len(sd.Body.List) > 0 {
					if is, ok := sd.Body.List[0].(*ast.IfStmt); ok && is.Init == nil {
						if be, ok := ast.Unparen(is.Cond).(*ast.BinaryExpr); ok && be.Op == token.EQL {
							l, r := identOf(be.X), identOf(be.Y)
							if l != nil && r != nil && ((p.Info.ObjectOf(l) == recv && r.Name == "nil") || (p.Info.ObjectOf(r) == recv && l.Name == "nil")) {
								if len(is.Body.List) > 0 {
									if _, isRet := is.Body.List[len(is.Body.List)-1].(*ast.ReturnStmt); isRet {
										okGuard = true
									}
								}
							}
						}
					}
				}
				if okGuard {
					c.OK(rule, key, sd.Pos(), "returns at once for a nil receiver")
				} else {
					// the receiver may still be tested before every use in another form
					usesBeforeTest := false
					ast.Inspect(sd.Body, func(q ast.Node) bool {
						if s2, ok := q.(*ast.SelectorExpr); ok {
							if i2 := identOf(s2.X); i2 != nil && p.Info.ObjectOf(i2) == recv {
								usesBeforeTest = true
							}
						}
						return true
					})
					tested := false
					ast.Inspect(sd.Body, func(q ast.Node) bool {
						if be, ok := q.(*ast.BinaryExpr); ok && (be.Op == token.EQL || be.Op == token.NEQ) {
							l, r := identOf(be.X), identOf(be.Y)
							if l != nil && r != nil && ((p.Info.ObjectOf(l) == recv && r.Name == "nil") || (p.Info.ObjectOf(r) == recv && l.Name == "nil")) {
								tested = true
							}
						}
						return true
					})
					switch {
					case tested:
						c.Unk(rule, key, sd.Pos(), "the receiver is tested against nil, but not as the method's first statement: not followed")
					case usesBeforeTest:
						c.Bad(rule, key, sd.Pos(), "the method reads fields of its receiver and never tests it against nil: printing the typed nil that Walk hands to visitors panics")
					default:
						c.OK(rule, key, sd.Pos(), "does not touch its receiver")
					}
				}
			}
			return true
		})
	}
	visit(walk.Body, map[types.Object]bool{})
	c.Floor(rule, n, 1)
}
