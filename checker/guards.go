package main

import (
	"go/ast"
	"go/token"
	"go/types"
	"sort"
)

// printGuards returns, for a String method, for each receiver field F that
// is written to the output, the set of *other* receiver fields mentioned in
// the conditions of the if statements enclosing that write.
type guardUse struct {
	field  string
	guards []string   // flattened, without the field itself
	sets   [][]string // one set of receiver fields per enclosing if condition
	pos    ast.Node
}

func (p *Program) printGuards(str *types.Func) []guardUse {
	fd := p.FuncDecls[str]
	if fd == nil || fd.Body == nil || fd.Recv == nil || len(fd.Recv.List) == 0 || len(fd.Recv.List[0].Names) == 0 {
		return nil
	}
	recv := p.Info.Defs[fd.Recv.List[0].Names[0]]
	recvFields := func(e ast.Node) []string {
		set := map[string]bool{}
		ast.Inspect(e, func(n ast.Node) bool {
			if sel, ok := n.(*ast.SelectorExpr); ok {
				if id := identOf(sel.X); id != nil && p.Info.ObjectOf(id) == recv {
					if s := p.Info.Selections[sel]; s != nil && s.Kind() == types.FieldVal {
						set[sel.Sel.Name] = true
					}
				}
			}
			return true
		})
		var out []string
		for f := range set {
			out = append(out, f)
		}
		sort.Strings(out)
		return out
	}
	var out []guardUse
	var sets [][]string
	var walk func(n ast.Node, guards []string)
	walk = func(n ast.Node, guards []string) {
		switch x := n.(type) {
		case nil:
			return
		case *ast.BlockStmt:
			for _, s := range x.List {
				walk(s, guards)
			}
		case *ast.IfStmt:
			g := append(append([]string{}, guards...), recvFields(x.Cond)...)
			if x.Init != nil {
				walk(x.Init, guards)
			}
			sets = append(sets, recvFields(x.Cond))
			walk(x.Body, g)
			sets = sets[:len(sets)-1]
			if x.Else != nil {
				walk(x.Else, guards) // an alternative, not a requirement
			}
		case *ast.ForStmt:
			walk(x.Body, guards)
		case *ast.RangeStmt:
			walk(x.Body, guards)
		case *ast.SwitchStmt:
			g := guards
			if x.Tag != nil {
				g = append(append([]string{}, guards...), recvFields(x.Tag)...)
			}
			walk(x.Body, g)
		case *ast.CaseClause:
			g := guards
			for _, e := range x.List {
				g = append(append([]string{}, g...), recvFields(e)...)
			}
			for _, s := range x.Body {
				walk(s, g)
			}
		case *ast.ExprStmt, *ast.AssignStmt, *ast.ReturnStmt:
			// a statement that writes output: any receiver field mentioned in a call argument
			isWrite := false
			ast.Inspect(x, func(m ast.Node) bool {
				if call, ok := m.(*ast.CallExpr); ok {
					if sel, ok := call.Fun.(*ast.SelectorExpr); ok {
						switch sel.Sel.Name {
						case "WriteString", "WriteByte", "WriteRune", "Fprintf", "Sprintf", "Fprint", "Write":
							isWrite = true
						}
					}
				}
				return true
			})
			if _, isRet := x.(*ast.ReturnStmt); isRet {
				isWrite = true
			}
			if !isWrite {
				return
			}
			for _, f := range recvFields(x) {
				var gs []string
				seen := map[string]bool{}
				for _, g := range guards {
					if g != f && !seen[g] {
						seen[g] = true
						gs = append(gs, g)
					}
				}
				if len(gs) > 0 {
					cp := make([][]string, len(sets))
					copy(cp, sets)
					out = append(out, guardUse{field: f, guards: gs, sets: cp, pos: x})
				}
			}
		}
	}
	walk(fd.Body, nil)
	return out
}

// storeSite: where a parse function assigns a field of the node it builds.
type storeSite struct {
	field   string
	stmt    ast.Stmt
	regions []ast.Node // enclosing conditional bodies, outermost first
	intro   int64      // token constant that introduces the clause (-1 unknown)
}

// parseStoreSites collects `x.F = ...` assignments in fn for x of type T / *T.
func (p *Program) parseStoreSites(fn *types.Func, T *types.Named, tt *tokenTable) []storeSite {
	fd := p.FuncDecls[fn]
	if fd == nil || fd.Body == nil {
		return nil
	}
	isT := func(t types.Type) bool {
		if pt, ok := t.(*types.Pointer); ok {
			t = pt.Elem()
		}
		return types.Identical(t, T)
	}
	tokIn := func(e ast.Node) int64 {
		found := int64(-1)
		ast.Inspect(e, func(n ast.Node) bool {
			if ex, ok := n.(ast.Expr); ok {
				if v, ok := p.tokenConst(ex, tt); ok && found < 0 {
					found = v
				}
			}
			return true
		})
		return found
	}
	var out []storeSite
	var walk func(n ast.Node, regions []ast.Node, intro int64)
	walk = func(n ast.Node, regions []ast.Node, intro int64) {
		switch x := n.(type) {
		case nil:
			return
		case *ast.BlockStmt:
			for _, s := range x.List {
				walk(s, regions, intro)
			}
		case *ast.IfStmt:
			if x.Init != nil {
				walk(x.Init, regions, intro)
			}
			in := intro
			if t := tokIn(x.Cond); t >= 0 {
				in = t
			}
			walk(x.Body, append(append([]ast.Node{}, regions...), x.Body), in)
			if x.Else != nil {
				walk(x.Else, append(append([]ast.Node{}, regions...), x.Else), intro)
			}
		case *ast.ForStmt:
			walk(x.Body, regions, intro)
		case *ast.RangeStmt:
			walk(x.Body, regions, intro)
		case *ast.SwitchStmt:
			walk(x.Body, regions, intro)
		case *ast.CaseClause:
			in := intro
			for _, e := range x.List {
				if t := tokIn(e); t >= 0 {
					in = t
				}
			}
			for _, s := range x.Body {
				walk(s, append(append([]ast.Node{}, regions...), x), in)
			}
		case *ast.AssignStmt:
			in := intro
			for _, r := range x.Rhs {
				if call, ok := ast.Unparen(r).(*ast.CallExpr); ok {
					for _, a := range call.Args {
						if v, ok := p.tokenConst(a, tt); ok {
							in = v
						}
					}
				}
			}
			for _, l := range x.Lhs {
				if sel, ok := ast.Unparen(l).(*ast.SelectorExpr); ok {
					if t := p.Info.TypeOf(sel.X); t != nil && isT(t) {
						out = append(out, storeSite{field: sel.Sel.Name, stmt: x, regions: regions, intro: in})
					}
				}
			}
		}
	}
	walk(fd.Body, nil, -1)
	return out
}

// independentClauses: F and G are filled by separate optional clauses — each
// store has its own introducing keyword, the keywords differ, the stores are
// different statements and neither store lies inside the other's region.
func independentClauses(sites []storeSite, F, G string) (bool, string) {
	var sf, sg []storeSite
	for _, s := range sites {
		if s.field == F {
			sf = append(sf, s)
		}
		if s.field == G {
			sg = append(sg, s)
		}
	}
	if len(sf) == 0 || len(sg) == 0 {
		return false, ""
	}
	for _, a := range sf {
		for _, b := range sg {
			if a.stmt == b.stmt || a.intro < 0 || b.intro < 0 || a.intro == b.intro {
				return false, ""
			}
			// b's innermost region encloses a (G stored on the way to F)?
			if len(b.regions) <= len(a.regions) {
				same := true
				for i := range b.regions {
					if a.regions[i] != b.regions[i] {
						same = false
					}
				}
				if same && len(b.regions) > 0 {
					return false, ""
				}
			}
		}
	}
	return true, ""
}

// pointeeGuards: conditions in a String method of the form
// `x.F != nil && *x.F <cmp> ...` for a pointer-typed field F that the parser
// stores as `&v` whatever v is: printing is then conditional on the value,
// though the statement records the clause even for the value the test excludes.
type pointeeGuard struct {
	field string
	cond  ast.Expr
}

func (p *Program) pointeeGuards(str *types.Func) []pointeeGuard {
	fd := p.FuncDecls[str]
	if fd == nil || fd.Body == nil || fd.Recv == nil || len(fd.Recv.List) == 0 || len(fd.Recv.List[0].Names) == 0 {
		return nil
	}
	recv := p.Info.Defs[fd.Recv.List[0].Names[0]]
	var out []pointeeGuard
	ast.Inspect(fd.Body, func(n ast.Node) bool {
		is, ok := n.(*ast.IfStmt)
		if !ok {
			return true
		}
		// fields dereferenced inside a comparison of the condition
		ast.Inspect(is.Cond, func(m ast.Node) bool {
			be, ok := m.(*ast.BinaryExpr)
			if !ok {
				return true
			}
			switch be.Op {
			case token.GTR, token.GEQ, token.LSS, token.LEQ, token.NEQ, token.EQL:
			default:
				return true
			}
			for _, side := range []ast.Expr{be.X, be.Y} {
				star, ok := ast.Unparen(side).(*ast.StarExpr)
				if !ok {
					continue
				}
				sel, ok := ast.Unparen(star.X).(*ast.SelectorExpr)
				if !ok {
					continue
				}
				if id := identOf(sel.X); id == nil || p.Info.ObjectOf(id) != recv {
					continue
				}
				out = append(out, pointeeGuard{field: sel.Sel.Name, cond: is.Cond})
			}
			return true
		})
		return true
	})
	return out
}

// silentPathRule: a node that is mandatory where it stands must print
// something on every path.
func silentPathRule(c *Ctx, rule string) {
	p := c.P
	c.Rule(rule, "Measurement.String writes the measurement's name, system iterator or regex on every path: a measurement is mandatory wherever it stands (FROM, INTO, WITH MEASUREMENT), so a path that writes none of them prints a statement with a hole (`SELECT a FROM \"\"` prints `SELECT a FROM `)")
	fn := p.Method("Measurement", "String")
	fd := p.FuncDecls[fn]
	if fd == nil || fd.Body == nil {
		c.Unk(rule, "Measurement.String", 0, "anchor not found")
		return
	}
	// the if / else-if chain whose conditions mention Name, SystemIterator, Regex
	var chain *ast.IfStmt
	for _, st := range fd.Body.List {
		is, ok := st.(*ast.IfStmt)
		if !ok {
			continue
		}
		mention := map[string]bool{}
		for cur := is; cur != nil; {
			ast.Inspect(cur.Cond, func(n ast.Node) bool {
				if sel, ok := n.(*ast.SelectorExpr); ok {
					mention[sel.Sel.Name] = true
				}
				return true
			})
			next, _ := cur.Else.(*ast.IfStmt)
			cur = next
		}
		if mention["Name"] && mention["Regex"] {
			chain = is
		}
	}
	key := "Measurement.String: the name part is written on every path"
	if chain == nil {
		c.Unk(rule, key, fd.Pos(), "no if / else-if chain over Name / SystemIterator / Regex found")
		return
	}
	last := chain
	for {
		next, ok := last.Else.(*ast.IfStmt)
		if !ok {
			break
		}
		last = next
	}
	if last.Else == nil {
		c.Bad(rule, key, chain.Pos(), "the chain over Name / SystemIterator / Regex has no final else: a measurement whose name is the empty identifier \"\" (which the parser accepts) prints as nothing")
	} else {
		c.OK(rule, key, chain.Pos(), "final else present")
	}
}
