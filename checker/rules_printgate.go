package main

import (
	"golang.org/x/tools/go/ssa"
	"fmt"
	"go/ast"
	"go/token"
	"go/types"
)

// printGateRule: a printer leaves a field out only because the field itself is
// empty. The parser fills a field when the text had the clause; the re-parse
// of a text without the clause leaves the field zero, so a printer that drops
// a non-zero field — because it equals something the printer computed — does
// not give back the tree it was handed.
func printGateRule(c *Ctx, rule string) {
	p := c.P
	c.Rule(rule, "in the String methods of the AST nodes, every ==/!= comparison of a field of the receiver (string, number or bool) inside an if-condition is against a constant: a field compared with a computed value (another node's name, a call result) is being left out when the two coincide, and the text printed without it re-parses to a tree with that field empty")
	n := 0
	for _, f := range p.SortedFuncs() {
		fd := p.FuncDecls[f]
		if fd == nil || fd.Body == nil || f.Name() != "String" || fd.Recv == nil || len(fd.Recv.List) == 0 || len(fd.Recv.List[0].Names) == 0 {
			continue
		}
		if parserTypes[recvTypeName(f)] {
			continue
		}
		recv := p.Info.Defs[fd.Recv.List[0].Names[0]]
		if recv == nil {
			continue
		}
		isRecvField := func(e ast.Expr) (string, bool) {
			sel, ok := ast.Unparen(e).(*ast.SelectorExpr)
			if !ok {
				return "", false
			}
			s := p.Info.Selections[sel]
			if s == nil || s.Kind() != types.FieldVal {
				return "", false
			}
			id := identOf(sel.X)
			if id == nil || p.Info.ObjectOf(id) != recv {
				return "", false
			}
			if _, basic := s.Type().Underlying().(*types.Basic); !basic {
				return "", false
			}
			return sel.Sel.Name, true
		}
		ord := map[string]int{}
		ast.Inspect(fd.Body, func(nd ast.Node) bool {
			is, ok := nd.(*ast.IfStmt)
			if !ok {
				return true
			}
			ast.Inspect(is.Cond, func(m ast.Node) bool {
				be, ok := m.(*ast.BinaryExpr)
				if !ok || (be.Op != token.EQL && be.Op != token.NEQ) {
					return true
				}
				fld, isF := isRecvField(be.X)
				other := be.Y
				if !isF {
					fld, isF = isRecvField(be.Y)
					other = be.X
				}
				if !isF {
					return true
				}
				n++
				ord[fld]++
				key := fmt.Sprintf("%s.String: test of %s #%d", recvTypeName(f), fld, ord[fld])
				tv := p.Info.Types[other]
				if tv.Value != nil {
					c.OK(rule, key, be.Pos(), "compared with the constant "+types.ExprString(other))
					return true
				}
				if o := identOf(other); o != nil {
					if _, isConst := p.Info.ObjectOf(o).(*types.Const); isConst {
						c.OK(rule, key, be.Pos(), "compared with the constant "+o.Name)
						return true
					}
				}
				c.Bad(rule, key, be.Pos(), fmt.Sprintf("%s is compared with the computed value %s: when they coincide the printer takes the branch for an absent %s although the field is set", fld, types.ExprString(other), fld))
				return true
			})
			return true
		})
	}
	c.Floor(rule, n, 20)
}

// quoteArgsRule: what a printer hands to QuoteIdent / QuoteString is the
// stored name itself.
func quoteArgsRule(c *Ctx, rule string) {
	p := c.P
	c.Rule(rule, "every value handed to QuoteIdent or QuoteString outside the parser is a stored field (or an element of one, a parameter, a constant) — never the result of a strings.* transformation of it: a name split at its dots prints as several segments (a name with three dots no longer parses, too many segments), a lower-cased or trimmed name re-parses to a different name")
	n := 0
	var origin func(v ssa.Value, depth int) (verdict int, what string)
	origin = func(v ssa.Value, depth int) (int, string) {
		if depth > 6 {
			return 0, "deep"
		}
		switch x := v.(type) {
		case *ssa.Const, *ssa.Parameter, *ssa.FreeVar, *ssa.Global:
			return 1, ""
		case *ssa.UnOp:
			return origin(x.X, depth+1)
		case *ssa.FieldAddr, *ssa.Field, *ssa.IndexAddr, *ssa.Index, *ssa.Lookup, *ssa.Alloc, *ssa.Extract, *ssa.Next:
			return 1, ""
		case *ssa.Convert:
			return origin(x.X, depth+1)
		case *ssa.ChangeType:
			return origin(x.X, depth+1)
		case *ssa.Phi:
			for _, e := range x.Edges {
				if e == v {
					continue
				}
				if vd, w := origin(e, depth+1); vd != 1 {
					return vd, w
				}
			}
			return 1, ""
		case *ssa.Slice:
			return origin(x.X, depth+1)
		case *ssa.Call:
			if cal := x.Call.StaticCallee(); cal != nil && cal.Pkg != nil && cal.Pkg.Pkg.Path() == "strings" {
				switch cal.Name() {
				case "Split", "SplitN", "Fields", "ToLower", "ToUpper", "TrimSpace", "Trim", "TrimPrefix", "TrimSuffix", "TrimLeft", "TrimRight", "Replace", "ReplaceAll", "Title", "SplitAfter":
					return -1, "strings." + cal.Name()
				}
			}
			return 1, "" // a method's result (Location.String(), a name getter): the callee's business
		}
		return 0, fmt.Sprintf("%T", v)
	}
	var visit func(fn *ssa.Function)
	visit = func(fn *ssa.Function) {
		ord := map[string]int{}
		for _, b := range fn.Blocks {
			for _, in := range b.Instrs {
				call, ok := in.(*ssa.Call)
				if !ok || call.Call.StaticCallee() == nil || call.Call.StaticCallee().Pkg != fn.Pkg {
					continue
				}
				name := call.Call.StaticCallee().Name()
				if name != "QuoteIdent" && name != "QuoteString" {
					continue
				}
				ord[name]++
				n++
				key := fmt.Sprintf("%s: %s #%d", ssaFuncName(fn), name, ord[name])
				var vals []ssa.Value
				arg := call.Call.Args[0]
				if sl, ok := arg.(*ssa.Slice); ok && name == "QuoteIdent" {
					if al, ok := sl.X.(*ssa.Alloc); ok {
						// the variadic array: collect the stored elements
						for _, r := range *al.Referrers() {
							if ia, ok := r.(*ssa.IndexAddr); ok {
								for _, rr := range *ia.Referrers() {
									if st, ok := rr.(*ssa.Store); ok {
										vals = append(vals, st.Val)
									}
								}
							}
						}
					} else {
						vals = append(vals, arg)
					}
				} else {
					vals = append(vals, arg)
				}
				verdict, what := 1, ""
				for _, v := range vals {
					if vd, w := origin(v, 0); vd != 1 {
						verdict, what = vd, w
						if vd == -1 {
							break
						}
					}
				}
				switch verdict {
				case 1:
					c.OK(rule, key, call.Pos(), "stored value")
				case -1:
					c.Bad(rule, key, call.Pos(), "the quoted value is the result of "+what+", not the stored name")
				default:
					c.Unk(rule, key, call.Pos(), "origin of the quoted value not followed ("+what+")")
				}
			}
		}
		for _, an := range fn.AnonFuncs {
			visit(an)
		}
	}
	for _, fn := range p.SrcFuncs() {
		if o, ok := fn.Object().(*types.Func); ok && parserTypes[recvTypeName(o)] {
			continue
		}
		visit(fn)
	}
	c.Floor(rule, n, 40)
}

// sourceMemoRule: no source is skipped because "it was seen before" on the
// strength of part of its identity.
func sourceMemoRule(c *Ctx, rule string) {
	p := c.P
	c.Rule(rule, "in every loop over a Sources value outside the parser, no source is skipped (continue/break) because a local map already holds a key that is a single field of the source: a measurement is identified by database, retention policy, name and regex together, so a memo keyed by Name treats db1..cpu and db2..cpu as one and the second one's fields never reach the result")
	n := 0
	for _, fb := range p.funcBodies() {
		if parserTypes[recvTypeName(fb.Decl)] {
			continue
		}
		ord := 0
		ast.Inspect(fb.Body, func(nd ast.Node) bool {
			rs, ok := nd.(*ast.RangeStmt)
			if !ok {
				return true
			}
			t := p.Info.TypeOf(rs.X)
			if t == nil || p.TypeStr(t) != "Sources" {
				return true
			}
			ord++
			n++
			key := fmt.Sprintf("%s: loop #%d over %s", fb.Name, ord, types.ExprString(rs.X))
			bad := token.NoPos
			ast.Inspect(rs.Body, func(m ast.Node) bool {
				switch m.(type) {
				case *ast.RangeStmt, *ast.ForStmt, *ast.FuncLit:
					return false // a continue in there belongs to the inner loop, not to this one
				}
				is, ok := m.(*ast.IfStmt)
				if !ok {
					return true
				}
				// `_, ok := memo[k]; ok` or `memo[k]` as the condition
				var lookups []*ast.IndexExpr
				collect := func(e ast.Node) {
					if e == nil {
						return
					}
					ast.Inspect(e, func(q ast.Node) bool {
						if ix, ok := q.(*ast.IndexExpr); ok {
							if _, isMap := p.Info.TypeOf(ix.X).Underlying().(*types.Map); isMap {
								if id := identOf(ix.X); id != nil {
									if o := p.Info.ObjectOf(id); o != nil && o.Parent() != p.Types.Scope() {
										if _, isParam := fieldOrParam(p, fb, o); !isParam {
											lookups = append(lookups, ix)
										}
									}
								}
							}
						}
						return true
					})
				}
				collect(is.Init)
				collect(is.Cond)
				if len(lookups) == 0 {
					return true
				}
				skips := false
				for _, st := range is.Body.List {
					if br, ok := st.(*ast.BranchStmt); ok && (br.Tok == token.CONTINUE || br.Tok == token.BREAK) {
						skips = true
					}
				}
				partial := false
				for _, ix := range lookups {
					if sel, ok := ast.Unparen(ix.Index).(*ast.SelectorExpr); ok {
						if sl := p.Info.Selections[sel]; sl != nil && sl.Kind() == types.FieldVal {
							partial = true // one field of the source, not its whole identity
						}
					}
				}
				if skips && partial && bad == token.NoPos {
					bad = is.Pos()
				}
				return true
			})
			if bad != token.NoPos {
				c.Bad(rule, key, bad, "a source is skipped when a local map already holds one of its fields as a key: sources that share that field but differ elsewhere are dropped")
			} else {
				c.OK(rule, key, rs.Pos(), "no source is skipped on a memo")
			}
			return true
		})
	}
	c.Floor(rule, n, 5)
}

// fieldOrParam: o is a parameter of the function (a caller's map, not a memo).
func fieldOrParam(p *Program, fb funcBody, o types.Object) (string, bool) {
	fd := p.FuncDecls[fb.Decl]
	if fd == nil || fd.Type.Params == nil {
		return "", false
	}
	for _, f := range fd.Type.Params.List {
		for _, nm := range f.Names {
			if p.Info.Defs[nm] == o {
				return nm.Name, true
			}
		}
	}
	return "", false
}

// skipFilledC20: the naming pass leaves a column alone exactly when the alias
// pass already filled it.
func skipFilledC20(c *Ctx, cn *types.Func) {
	p := c.P
	c.Rule("C20.skipfilled", "in ColumnNames a loop over the columns skips one (continue) only on a test of that column's own state — its result slot is non-empty, or its alias is: a skip decided by looking some name up in the map of taken names depends on the other columns (an un-aliased column is skipped as soon as any column registered the empty name) and leaves its slot empty")
	fd := p.FuncDecls[cn]
	if fd == nil || fd.Body == nil {
		c.Unk("C20.skipfilled", "ColumnNames", 0, "anchor not found")
		return
	}
	n := 0
	ast.Inspect(fd.Body, func(nd ast.Node) bool {
		rs, ok := nd.(*ast.RangeStmt)
		if !ok {
			return true
		}
		for _, st := range rs.Body.List {
			is, ok := st.(*ast.IfStmt)
			if !ok {
				continue
			}
			skips := false
			for _, b := range is.Body.List {
				if br, ok := b.(*ast.BranchStmt); ok && br.Tok == token.CONTINUE {
					skips = true
				}
			}
			if !skips {
				continue
			}
			n++
			key := fmt.Sprintf("(*SelectStatement).ColumnNames: skip #%d", n)
			usesMap := false
			for _, part := range []ast.Node{is.Init, is.Cond} {
				if part == nil {
					continue
				}
				ast.Inspect(part, func(m ast.Node) bool {
					if ix, ok := m.(*ast.IndexExpr); ok {
						if _, isMap := p.Info.TypeOf(ix.X).Underlying().(*types.Map); isMap {
							usesMap = true
						}
					}
					return true
				})
			}
			own := false
			if be, ok := ast.Unparen(is.Cond).(*ast.BinaryExpr); ok && is.Init == nil && (be.Op == token.NEQ || be.Op == token.EQL) {
				if tv, ok := p.Info.Types[be.Y]; ok && tv.Value != nil {
					switch x := ast.Unparen(be.X).(type) {
					case *ast.IndexExpr:
						if _, isSlice := p.Info.TypeOf(x.X).Underlying().(*types.Slice); isSlice {
							own = true
						}
					case *ast.SelectorExpr:
						own = true
					}
				}
			}
			switch {
			case usesMap:
				c.Bad("C20.skipfilled", key, is.Pos(), "the column is skipped on a lookup in a map: whether it is named depends on which names other columns registered")
			case own:
				c.OK("C20.skipfilled", key, is.Pos(), "tests the column's own slot or alias: "+types.ExprString(is.Cond))
			default:
				c.Unk("C20.skipfilled", key, is.Pos(), "skip condition not recognised: "+types.ExprString(is.Cond))
			}
		}
		return true
	})
	c.Floor("C20.skipfilled", n, 1)
}
