package main

// E2 — sealed-sum exhaustiveness. Node, Expr, Literal, Source and Statement are
// sealed by unexported methods, so their implementers are exactly the
// package's own types.

import (
	"go/ast"
	"go/types"
	"sort"
	"strings"
)

var sealedIfaces = []string{"Expr", "Literal", "Source", "Statement", "Node"}

// sealedOf returns the name of the sealed interface that t is, or "".
func (p *Program) sealedOf(t types.Type) string {
	n, ok := t.(*types.Named)
	if !ok || n.Obj().Pkg() != p.Types {
		return ""
	}
	for _, s := range sealedIfaces {
		if n.Obj().Name() == s {
			return s
		}
	}
	return ""
}

// switchCoverage returns the implementers of iface not handled by ts, and
// whether ts has a default clause.
func (p *Program) switchCoverage(ts *ast.TypeSwitchStmt, iface string) (missing []string, hasDefault bool, cases int) {
	impl := p.Implementers(iface)
	covered := make([]bool, len(impl))
	for _, cl := range ts.Body.List {
		cc := cl.(*ast.CaseClause)
		if cc.List == nil {
			hasDefault = true
			continue
		}
		for _, e := range cc.List {
			cases++
			ct := p.Info.TypeOf(e)
			if ct == nil {
				continue
			}
			for i, it := range impl {
				if types.Identical(ct, it) {
					covered[i] = true
				} else if ci, ok := ct.Underlying().(*types.Interface); ok && types.Implements(it, ci) {
					covered[i] = true
				}
			}
		}
	}
	for i, it := range impl {
		if !covered[i] {
			missing = append(missing, p.TypeStr(it))
		}
	}
	sort.Strings(missing)
	return
}

// typeSwitchOperand returns the expression being switched on.
func typeSwitchOperand(ts *ast.TypeSwitchStmt) ast.Expr {
	var x ast.Expr
	switch a := ts.Assign.(type) {
	case *ast.AssignStmt:
		x = a.Rhs[0]
	case *ast.ExprStmt:
		x = a.X
	}
	if ta, ok := ast.Unparen(x).(*ast.TypeAssertExpr); ok {
		return ta.X
	}
	return nil
}

// isPanicCall reports whether n is a call to the builtin panic.
func (p *Program) isPanicCall(n ast.Node) bool {
	es, ok := n.(*ast.ExprStmt)
	if ok {
		n = es.X
	}
	call, ok := n.(*ast.CallExpr)
	if !ok {
		return false
	}
	id, ok := call.Fun.(*ast.Ident)
	if !ok || id.Name != "panic" {
		return false
	}
	_, ok = p.Info.Uses[id].(*types.Builtin)
	return ok
}

// everyClauseTerminates: each case body ends in return (so falling out of the
// switch means "no case matched").
func everyClauseTerminates(ts *ast.TypeSwitchStmt) bool {
	for _, cl := range ts.Body.List {
		cc := cl.(*ast.CaseClause)
		if len(cc.Body) == 0 {
			return false
		}
		if _, ok := cc.Body[len(cc.Body)-1].(*ast.ReturnStmt); !ok {
			return false
		}
	}
	return true
}

func joinShort(ss []string) string { return strings.Join(ss, ", ") }
