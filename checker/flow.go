package main

import (
	"go/ast"
	"go/token"
	"go/types"

	"golang.org/x/tools/go/cfg"
	"golang.org/x/tools/go/types/typeutil"
)

// guardAnalysis runs the E3 dataflow over one function body (a FuncDecl body
// or a FuncLit body) and calls visit for every expression of every CFG node
// with the facts holding immediately before it.
type guardAnalysis struct {
	p     *Program
	pe    pathEnv
	fw    map[*types.Func]map[string]bool // transitive field writes
	visit func(e ast.Node, f *facts)
	// caseTag maps a case expression to the tag of its switch statement.
	caseTag map[ast.Expr]ast.Expr
}

// fieldWrites computes, for every declared function, the names of struct
// fields it may assign (directly, in its closures, or through in-package
// callees; interface calls resolve to every in-package implementation).
func (p *Program) fieldWrites() map[*types.Func]map[string]bool {
	direct := map[*types.Func]map[string]bool{}
	calls := map[*types.Func]map[*types.Func]bool{}
	// methods by name for CHA-style interface resolution
	byName := map[string][]*types.Func{}
	for f := range p.FuncDecls {
		if f.Type().(*types.Signature).Recv() != nil {
			byName[f.Name()] = append(byName[f.Name()], f)
		}
	}
	for f, fd := range p.FuncDecls {
		direct[f] = map[string]bool{}
		calls[f] = map[*types.Func]bool{}
		if fd.Body == nil {
			continue
		}
		// locals that only ever hold an object allocated in this function: a
		// field written through them is not a field of anything the caller knows
		fresh := map[types.Object]bool{}
		stale := map[types.Object]bool{}
		isAlloc := func(e ast.Expr) bool {
			switch x := ast.Unparen(e).(type) {
			case *ast.CompositeLit:
				return true
			case *ast.UnaryExpr:
				_, ok := ast.Unparen(x.X).(*ast.CompositeLit)
				return x.Op == token.AND && ok
			case *ast.CallExpr:
				if id, ok := x.Fun.(*ast.Ident); ok && id.Name == "new" {
					_, isBuiltin := p.Info.Uses[id].(*types.Builtin)
					return isBuiltin
				}
			}
			return false
		}
		ast.Inspect(fd.Body, func(n ast.Node) bool {
			switch x := n.(type) {
			case *ast.AssignStmt:
				for i, l := range x.Lhs {
					id, ok := l.(*ast.Ident)
					if !ok {
						continue
					}
					o := p.Info.ObjectOf(id)
					if o == nil {
						continue
					}
					if len(x.Rhs) == len(x.Lhs) && isAlloc(x.Rhs[i]) {
						fresh[o] = true
					} else {
						stale[o] = true
					}
				}
			case *ast.ValueSpec:
				for i, nm := range x.Names {
					o := p.Info.ObjectOf(nm)
					if o == nil {
						continue
					}
					if _, isPtr := o.Type().Underlying().(*types.Pointer); len(x.Values) == 0 && !isPtr {
						fresh[o] = true // var v T: a zero value of its own
					} else if i < len(x.Values) && isAlloc(x.Values[i]) {
						fresh[o] = true
					} else {
						stale[o] = true
					}
				}
			case *ast.RangeStmt:
				for _, e := range []ast.Expr{x.Key, x.Value} {
					if id, ok := e.(*ast.Ident); ok {
						if o := p.Info.ObjectOf(id); o != nil {
							stale[o] = true
						}
					}
				}
			}
			return true
		})
		markLHS := func(e ast.Expr) {
			for {
				switch x := e.(type) {
				case *ast.ParenExpr:
					e = x.X
					continue
				case *ast.IndexExpr:
					// x.F[i] = v does not change len(x.F)
					return
				case *ast.SelectorExpr:
					if sel := p.Info.Selections[x]; sel != nil && sel.Kind() == types.FieldVal {
						if id, ok := ast.Unparen(x.X).(*ast.Ident); ok {
							if o := p.Info.ObjectOf(id); o != nil && fresh[o] && !stale[o] {
								return
							}
						}
						direct[f][x.Sel.Name] = true
					}
				}
				return
			}
		}
		ast.Inspect(fd.Body, func(n ast.Node) bool {
			switch n := n.(type) {
			case *ast.AssignStmt:
				for _, l := range n.Lhs {
					markLHS(l)
				}
			case *ast.IncDecStmt:
				markLHS(n.X)
			case *ast.UnaryExpr:
				// &x.F escapes the field: treat as a potential write
				if n.Op == token.AND {
					markLHS(n.X)
				}
			case *ast.CallExpr:
				if callee, ok := typeutil.Callee(p.Info, n).(*types.Func); ok && callee.Pkg() == p.Types {
					if _, declared := p.FuncDecls[callee]; declared {
						calls[f][callee] = true
					} else {
						// interface method: every implementation
						for _, m := range byName[callee.Name()] {
							calls[f][m] = true
						}
					}
				}
			}
			return true
		})
	}
	// transitive closure
	changed := true
	for changed {
		changed = false
		for f, cs := range calls {
			for c := range cs {
				for fld := range direct[c] {
					if !direct[f][fld] {
						direct[f][fld] = true
						changed = true
					}
				}
			}
		}
	}
	return direct
}

func (p *Program) newGuardAnalysis() *guardAnalysis {
	return &guardAnalysis{p: p, pe: pathEnv{p.Info, map[types.Object]ast.Expr{}, map[types.Object]bool{}}, fw: p.fieldWrites()}
}

// mayReturn for cfg.New: calls to panic and os.Exit do not return.
func (ga *guardAnalysis) mayReturn(call *ast.CallExpr) bool {
	if id, ok := call.Fun.(*ast.Ident); ok && id.Name == "panic" {
		if _, ok := ga.p.Info.Uses[id].(*types.Builtin); ok {
			return false
		}
	}
	return true
}

// run analyses body. entry may be nil (no facts).
func (ga *guardAnalysis) run(body *ast.BlockStmt, visit func(n ast.Node, f *facts)) {
	ga.visit = visit
	ga.caseTag = map[ast.Expr]ast.Expr{}
	ga.collectBoolDefs(body)
	ast.Inspect(body, func(n ast.Node) bool {
		if _, ok := n.(*ast.FuncLit); ok {
			return false
		}
		if sw, ok := n.(*ast.SwitchStmt); ok && sw.Tag != nil {
			for _, cl := range sw.Body.List {
				for _, e := range cl.(*ast.CaseClause).List {
					ga.caseTag[e] = sw.Tag
				}
			}
		}
		return true
	})
	g := cfg.New(body, ga.mayReturn)
	in := make([]*facts, len(g.Blocks))
	visited := make([]bool, len(g.Blocks))
	if len(g.Blocks) == 0 {
		return
	}
	in[0] = newFacts()
	work := []*cfg.Block{g.Blocks[0]}
	// Phase 1: fixpoint without visiting.
	iter := 0
	for len(work) > 0 && iter < 100000 {
		iter++
		b := work[0]
		work = work[1:]
		visited[b.Index] = true
		outs := ga.transferBlock(b, in[b.Index].clone(), false)
		for i, s := range b.Succs {
			o := outs[i]
			var nw *facts
			if in[s.Index] == nil {
				nw = o.clone()
			} else {
				nw = meet(in[s.Index], o)
			}
			if in[s.Index] == nil || !nw.equal(in[s.Index]) {
				in[s.Index] = nw
				work = append(work, s)
			}
		}
	}
	// Phase 2: visit every reachable block once with its fixpoint input.
	for _, b := range g.Blocks {
		if visited[b.Index] && in[b.Index] != nil {
			ga.transferBlock(b, in[b.Index].clone(), true)
		}
	}
}

// transferBlock walks the nodes of b and returns the facts on each out-edge.
func (ga *guardAnalysis) transferBlock(b *cfg.Block, f *facts, visit bool) []*facts {
	var lastCond ast.Expr
	for i, n := range b.Nodes {
		isCond := i == len(b.Nodes)-1 && len(b.Succs) == 2
		if e, ok := n.(ast.Expr); ok && isCond {
			lastCond = e
		}
		ga.node(n, f, visit)
	}
	outs := make([]*facts, len(b.Succs))
	if len(b.Succs) == 2 {
		switch {
		case lastCond != nil:
			cond := lastCond
			if tag, ok := ga.caseTag[cond]; ok {
				// tag switch: the node is one half of tag == cond
				cond = &ast.BinaryExpr{X: tag, Op: token.EQL, Y: lastCond}
			}
			outs[0] = ga.pe.refine(cond, true, f)
			outs[1] = ga.pe.refine(cond, false, f)
		default:
			// range loop header or type-switch case
			t := f.clone()
			if rs, ok := b.Stmt.(*ast.RangeStmt); ok && b.Kind == cfg.KindRangeLoop {
				ga.rangeBody(rs, t)
			}
			outs[0], outs[1] = t, f.clone()
		}
	} else {
		for i := range outs {
			outs[i] = f
		}
	}
	return outs
}

// rangeBody records the facts that hold inside the body of `for k, v := range X`.
func (ga *guardAnalysis) rangeBody(rs *ast.RangeStmt, f *facts) {
	xp, ok := ga.pe.pathOf(rs.X)
	if !ok {
		return
	}
	t := ga.p.Info.TypeOf(rs.X)
	if t == nil {
		return
	}
	switch t.Underlying().(type) {
	case *types.Slice, *types.Array, *types.Basic:
	default:
		if pt, ok := t.Underlying().(*types.Pointer); ok {
			if _, ok := pt.Elem().Underlying().(*types.Array); !ok {
				return
			}
		} else {
			return
		}
	}
	// `range X` iterates over the value X had when the loop began: if the body
	// assigns X (removing elements, say), the key is an index into the old
	// value and says nothing about the new one
	reassigned := false
	ast.Inspect(rs.Body, func(n ast.Node) bool {
		if as, ok := n.(*ast.AssignStmt); ok {
			for _, l := range as.Lhs {
				if lp, ok := ga.pe.pathOf(l); ok && (lp == xp || hasPrefixPath(xp, lp)) {
					reassigned = true
				}
			}
		}
		return true
	})
	if reassigned {
		return
	}
	if rs.Key != nil {
		if kp, ok := ga.pe.pathOf(rs.Key); ok {
			f.inRange[kp] = xp
		}
	}
	if f.lenlb[xp] < 1 {
		f.lenlb[xp] = 1
	}
}

// node applies one CFG node: first the visit of its expressions (with
// short-circuit refinement), then its effect on the facts.
func (ga *guardAnalysis) node(n ast.Node, f *facts, visit bool) {
	switch n := n.(type) {
	case *ast.AssignStmt:
		for _, r := range n.Rhs {
			ga.expr(r, f, visit)
		}
		for _, l := range n.Lhs {
			ga.lhs(l, f, visit)
		}
		ga.callEffects(n, f)
		ga.assign(n, f)
	case *ast.IncDecStmt:
		ga.expr(n.X, f, visit)
		if p, ok := ga.pe.pathOf(n.X); ok {
			f.kill(p)
		}
	case *ast.DeclStmt:
		if gd, ok := n.Decl.(*ast.GenDecl); ok {
			for _, sp := range gd.Specs {
				vs, ok := sp.(*ast.ValueSpec)
				if !ok {
					continue
				}
				for _, v := range vs.Values {
					ga.expr(v, f, visit)
				}
				ga.callEffects(vs, f)
				for i, name := range vs.Names {
					if p, ok := ga.pe.pathOf(name); ok {
						f.kill(p)
						if i < len(vs.Values) && len(vs.Values) == len(vs.Names) {
							ga.bind(name, p, vs.Values[i], f)
						}
					}
				}
			}
		}
	case *ast.ExprStmt:
		ga.expr(n.X, f, visit)
		ga.callEffects(n, f)
	case *ast.ReturnStmt:
		for _, r := range n.Results {
			ga.expr(r, f, visit)
		}
	case *ast.SendStmt:
		ga.expr(n.Chan, f, visit)
		ga.expr(n.Value, f, visit)
	case *ast.GoStmt:
		ga.expr(n.Call, f, visit)
		ga.callEffects(n, f)
	case *ast.DeferStmt:
		ga.expr(n.Call, f, visit)
		ga.callEffects(n, f)
	case ast.Expr:
		// a condition, a switch tag, a range operand, or a range key/value
		// definition (an identifier that is being assigned).
		if id, ok := n.(*ast.Ident); ok {
			if _, isDef := ga.p.Info.Defs[id]; isDef {
				if p, ok := ga.pe.pathOf(id); ok {
					f.kill(p)
				}
				return
			}
		}
		ga.expr(n, f, visit)
		ga.callEffects(n, f)
	}
}

// lhs visits the operands of an assignment target (x[i] = v reads x and i).
func (ga *guardAnalysis) lhs(l ast.Expr, f *facts, visit bool) {
	switch l := l.(type) {
	case *ast.Ident:
	default:
		ga.expr(l, f, visit)
	}
}

// expr visits e and its sub-expressions with short-circuit refinement.
func (ga *guardAnalysis) expr(e ast.Expr, f *facts, visit bool) {
	if e == nil {
		return
	}
	switch x := e.(type) {
	case *ast.FuncLit:
		return // analysed separately with empty entry facts
	case *ast.ParenExpr:
		ga.expr(x.X, f, visit)
		return
	case *ast.BinaryExpr:
		if x.Op == token.LAND {
			ga.expr(x.X, f, visit)
			ga.expr(x.Y, ga.pe.refine(x.X, true, f), visit)
			return
		}
		if x.Op == token.LOR {
			ga.expr(x.X, f, visit)
			ga.expr(x.Y, ga.pe.refine(x.X, false, f), visit)
			return
		}
	}
	if visit {
		ga.visit(e, f)
	}
	// children
	switch x := e.(type) {
	case *ast.BinaryExpr:
		ga.expr(x.X, f, visit)
		ga.expr(x.Y, f, visit)
	case *ast.UnaryExpr:
		ga.expr(x.X, f, visit)
	case *ast.StarExpr:
		ga.expr(x.X, f, visit)
	case *ast.SelectorExpr:
		ga.expr(x.X, f, visit)
	case *ast.IndexExpr:
		ga.expr(x.X, f, visit)
		ga.expr(x.Index, f, visit)
	case *ast.SliceExpr:
		ga.expr(x.X, f, visit)
		ga.expr(x.Low, f, visit)
		ga.expr(x.High, f, visit)
		ga.expr(x.Max, f, visit)
	case *ast.TypeAssertExpr:
		ga.expr(x.X, f, visit)
	case *ast.CallExpr:
		ga.expr(x.Fun, f, visit)
		for _, a := range x.Args {
			ga.expr(a, f, visit)
		}
	case *ast.CompositeLit:
		for _, el := range x.Elts {
			ga.expr(el, f, visit)
		}
	case *ast.KeyValueExpr:
		// a struct field name is not an expression
		if _, isField := x.Key.(*ast.Ident); !isField {
			ga.expr(x.Key, f, visit)
		}
		ga.expr(x.Value, f, visit)
	}
}

// callEffects kills facts that an in-package callee reachable from n may
// invalidate by assigning a field of the same name.
func (ga *guardAnalysis) callEffects(n ast.Node, f *facts) {
	ast.Inspect(n, func(m ast.Node) bool {
		if _, ok := m.(*ast.FuncLit); ok {
			return false
		}
		call, ok := m.(*ast.CallExpr)
		if !ok {
			return true
		}
		callee, ok := typeutil.Callee(ga.p.Info, call).(*types.Func)
		if !ok || callee.Pkg() != ga.p.Types {
			return true
		}
		for fld := range ga.fw[callee] {
			f.killField(fld)
		}
		return true
	})
}

// assign applies the kills and gens of an assignment statement.
func (ga *guardAnalysis) assign(n *ast.AssignStmt, f *facts) {
	// comma-ok type assertion: v, ok := x.(T)
	if len(n.Lhs) == 2 && len(n.Rhs) == 1 {
		if ta, ok := ast.Unparen(n.Rhs[0]).(*ast.TypeAssertExpr); ok && ta.Type != nil {
			vp, vok := ga.pe.pathOf(n.Lhs[0])
			okp, okok := ga.pe.pathOf(n.Lhs[1])
			if vok {
				f.kill(vp)
			}
			if okok {
				f.kill(okp)
			}
			if vok {
				if t := ga.p.Info.TypeOf(ta.Type); t != nil && isNilable(t) {
					f.maybeNil[vp] = true
					if okok {
						f.okOf[okp] = vp
					}
				}
			}
			return
		}
	}
	// v, err := f(...) with v a pointer: v is meaningful only where err == nil
	if len(n.Lhs) == 2 && len(n.Rhs) == 1 {
		if call, ok := ast.Unparen(n.Rhs[0]).(*ast.CallExpr); ok {
			if tup, ok := ga.p.Info.TypeOf(call).(*types.Tuple); ok && tup.Len() == 2 {
				_, isPtr := tup.At(0).Type().Underlying().(*types.Pointer)
				isErr := types.Identical(tup.At(1).Type(), types.Universe.Lookup("error").Type())
				vp, vok := ga.pe.pathOf(n.Lhs[0])
				ep, eok := ga.pe.pathOf(n.Lhs[1])
				if isPtr && isErr && vok && eok {
					defer func() {
						f.errOf[ep] = vp
						f.errVal[vp] = true
					}()
				}
			}
		}
	}
	for i, l := range n.Lhs {
		// x.F[i] = v leaves every length alone
		if _, isIndex := ast.Unparen(l).(*ast.IndexExpr); isIndex {
			continue
		}
		p, ok := ga.pe.pathOf(l)
		if !ok {
			continue
		}
		var rhs ast.Expr
		if len(n.Lhs) == len(n.Rhs) {
			rhs = n.Rhs[i]
		}
		// x = append(x, ...) only grows x
		if rhs != nil && n.Tok != token.DEFINE {
			if c, ok := ast.Unparen(rhs).(*ast.CallExpr); ok && len(c.Args) >= 1 {
				if id, ok := c.Fun.(*ast.Ident); ok && id.Name == "append" {
					if ap, ok := ga.pe.pathOf(c.Args[0]); ok && ap == p {
						lb := f.lenlb[p]
						if !c.Ellipsis.IsValid() {
							lb += len(c.Args) - 1
						}
						f.kill(p)
						if lb > 0 {
							f.lenlb[p] = lb
						}
						continue
					}
				}
			}
		}
		f.kill(p)
		if rhs != nil && (n.Tok == token.ASSIGN || n.Tok == token.DEFINE) {
			ga.bind(l, p, rhs, f)
		}
	}
}

// bind records facts about `p = rhs`.
func (ga *guardAnalysis) bind(l ast.Expr, p string, rhs ast.Expr, f *facts) {
	rhs = ast.Unparen(rhs)
	// constant value (len of an array is one)
	if c, ok := ga.pe.constInt(rhs); ok && isIntegerType(ga.p.Info.TypeOf(l)) {
		if c != 0 {
			f.nonzero[p] = true
		}
		if q, ok := ga.pe.lenArg(rhs, f); ok {
			f.lenOf[p] = q
		}
		return
	}
	// v := len(P)
	if q, ok := ga.pe.lenArg(rhs, f); ok {
		f.lenOf[p] = q
		return
	}
	switch r := rhs.(type) {
	case *ast.CompositeLit:
		if t := ga.p.Info.TypeOf(r); t != nil {
			if _, ok := t.Underlying().(*types.Slice); ok {
				n := 0
				keyed := false
				for _, el := range r.Elts {
					if _, ok := el.(*ast.KeyValueExpr); ok {
						keyed = true
					}
					n++
				}
				if !keyed && n > 0 {
					f.lenlb[p] = n
				}
			}
		}
	case *ast.CallExpr:
		// make([]T, len(P)) / make([]T, c)
		if id, ok := r.Fun.(*ast.Ident); ok && id.Name == "make" && len(r.Args) == 2 {
			if _, isBuiltin := ga.p.Info.Uses[id].(*types.Builtin); isBuiltin {
				if q, ok := ga.pe.lenArg(r.Args[1], f); ok {
					f.sameLen[p] = q
				} else if c, ok := ga.pe.constInt(r.Args[1]); ok && c > 0 {
					f.lenlb[p] = int(c)
				}
			}
		}
	default:
		// alias of another path: copy what is known about it
		if q, ok := ga.pe.pathOf(rhs); ok {
			if lb, ok := f.lenlb[q]; ok {
				f.lenlb[p] = lb
			}
			if f.nonzero[q] {
				f.nonzero[p] = true
			}
			if f.maybeNil[q] {
				f.maybeNil[p] = true
			}
		}
	}
}

// collectBoolDefs fills pe.boolDef for body (see pathEnv).
func (ga *guardAnalysis) collectBoolDefs(body *ast.BlockStmt) {
	for k := range ga.pe.boolDef {
		delete(ga.pe.boolDef, k)
	}
	for k := range ga.pe.rangeKeys {
		delete(ga.pe.rangeKeys, k)
	}
	ast.Inspect(body, func(n ast.Node) bool {
		if rs, ok := n.(*ast.RangeStmt); ok && rs.Key != nil {
			if id := identOf(rs.Key); id != nil {
				if o := ga.p.Info.ObjectOf(id); o != nil {
					ga.pe.rangeKeys[o] = true
				}
			}
		}
		return true
	})
	info := ga.p.Info
	nAssign := map[types.Object]int{}
	lastWrite := map[types.Object]token.Pos{} // latest assignment to (something rooted at) the object
	defs := map[types.Object]ast.Expr{}
	root := func(e ast.Expr) *ast.Ident {
		for {
			switch x := ast.Unparen(e).(type) {
			case *ast.Ident:
				return x
			case *ast.SelectorExpr:
				e = x.X
			case *ast.IndexExpr:
				e = x.X
			case *ast.StarExpr:
				e = x.X
			default:
				return nil
			}
		}
	}
	note := func(l ast.Expr, rhs ast.Expr, pos token.Pos) {
		id := root(l)
		if id == nil {
			return
		}
		o := info.ObjectOf(id)
		if o == nil {
			return
		}
		if pos > lastWrite[o] {
			lastWrite[o] = pos
		}
		if direct, ok := ast.Unparen(l).(*ast.Ident); ok && direct == id {
			nAssign[o]++
			if b, ok := o.Type().Underlying().(*types.Basic); ok && b.Info()&types.IsBoolean != 0 && rhs != nil {
				switch ast.Unparen(rhs).(type) {
				case *ast.BinaryExpr, *ast.UnaryExpr:
					defs[o] = rhs
				}
			}
		}
	}
	ast.Inspect(body, func(n ast.Node) bool {
		switch x := n.(type) {
		case *ast.AssignStmt:
			for i, l := range x.Lhs {
				var r ast.Expr
				if len(x.Rhs) == len(x.Lhs) {
					r = x.Rhs[i]
				}
				note(l, r, x.Pos())
			}
		case *ast.IncDecStmt:
			note(x.X, nil, x.Pos())
		case *ast.RangeStmt:
			if x.Key != nil {
				note(x.Key, nil, x.Pos())
			}
			if x.Value != nil {
				note(x.Value, nil, x.Pos())
			}
		case *ast.ValueSpec:
			for i, nm := range x.Names {
				var r ast.Expr
				if i < len(x.Values) {
					r = x.Values[i]
				}
				note(nm, r, x.Pos())
			}
		}
		return true
	})
	for o, def := range defs {
		if nAssign[o] != 1 {
			continue
		}
		stale := false
		ast.Inspect(def, func(m ast.Node) bool {
			if id, ok := m.(*ast.Ident); ok {
				if oo := info.ObjectOf(id); oo != nil && oo != o {
					if _, isVar := oo.(*types.Var); isVar && lastWrite[oo] > def.Pos() {
						// written after the condition was computed (a loop variable
						// written by its own range statement before the body is fine)
						stale = true
					}
				}
			}
			return true
		})
		if !stale {
			ga.pe.boolDef[o] = def
		}
	}
}
