package main

import (
	"fmt"
	"go/ast"
	"go/constant"
	"go/token"
	"go/types"
	"regexp"
	"sort"
	"strings"

	"golang.org/x/tools/go/ssa"
)

func init() { register("C18", rulesC18) }

// timeRecogniser describes how a function decides "this comparison is a time
// bound": which operand sides it inspects and whether the name is case-folded.
type timeRecogniser struct {
	sides  map[string]bool // "LHS", "RHS"
	folded map[string]bool
	exact  map[string]bool // compares the printed form / exact name
}

// recogniserOf scans an SSA function for `x.<side>.(*VarRef)` assertions
// followed by a comparison of the name with "time".
func recogniserOf(p *Program, f *ssa.Function) timeRecogniser {
	r := timeRecogniser{map[string]bool{}, map[string]bool{}, map[string]bool{}}
	for _, b := range f.Blocks {
		for _, in := range b.Instrs {
			ta, ok := in.(*ssa.TypeAssert)
			if !ok || p.TypeStr(ta.AssertedType) != "*VarRef" {
				continue
			}
			_, side, ok := fieldRef(ta.X)
			if !ok {
				// the operand passed through a one-argument in-package helper first
				// (stripParens(n.LHS))
				if call, isCall := ta.X.(*ssa.Call); isCall {
					if cal := call.Call.StaticCallee(); cal != nil && cal.Pkg == f.Pkg && len(call.Call.Args) == 1 {
						_, side, ok = fieldRef(call.Call.Args[0])
					}
				}
			}
			if !ok || (side != "LHS" && side != "RHS") {
				continue
			}
			folded, exact := timeNameTests(f, ta)
			if folded {
				r.sides[side], r.folded[side] = true, true
			}
			if exact {
				r.sides[side], r.exact[side] = true, true
			}
		}
	}
	// the test delegated to a one-operand helper: isTime(x.LHS)
	for _, b := range f.Blocks {
		for _, in := range b.Instrs {
			call, ok := in.(*ssa.Call)
			if !ok {
				continue
			}
			callee := call.Call.StaticCallee()
			if callee == nil || callee.Pkg != f.Pkg || len(callee.Blocks) == 0 {
				continue
			}
			for ai, a := range call.Call.Args {
				_, side, ok := fieldRef(a)
				if !ok || (side != "LHS" && side != "RHS") || ai >= len(callee.Params) {
					continue
				}
				for _, cb := range callee.Blocks {
					for _, cin := range cb.Instrs {
						ta, ok := cin.(*ssa.TypeAssert)
						if !ok || p.TypeStr(ta.AssertedType) != "*VarRef" || ta.X != ssa.Value(callee.Params[ai]) {
							continue
						}
						folded, exact := timeNameTests(callee, ta)
						if folded {
							r.sides[side], r.folded[side] = true, true
						}
						if exact {
							r.sides[side], r.exact[side] = true, true
						}
					}
				}
			}
		}
	}
	// printed-form comparison: x.LHS.String() == "time"
	for _, b := range f.Blocks {
		for _, in := range b.Instrs {
			bo, ok := in.(*ssa.BinOp)
			if !ok || bo.Op != token.EQL {
				continue
			}
			k, ok := bo.Y.(*ssa.Const)
			if !ok || k.Value == nil || k.Value.Kind() != constant.String || constant.StringVal(k.Value) != "time" {
				continue
			}
			if call, ok := bo.X.(*ssa.Call); ok && call.Call.IsInvoke() && call.Call.Method.Name() == "String" {
				if _, side, ok := fieldRef(call.Call.Value); ok {
					r.sides[side] = true
					r.exact[side] = true
				}
			}
		}
	}
	return r
}

// timeNameTests: is the name of the asserted *VarRef compared with "time" in
// a block the assertion dominates, case-folded or exactly?
func timeNameTests(f *ssa.Function, ta *ssa.TypeAssert) (folded, exact bool) {
	b := ta.Block()
	for _, b2 := range f.Blocks {
		if !b.Dominates(b2) {
			continue
		}
		for _, in2 := range b2.Instrs {
			bo, ok := in2.(*ssa.BinOp)
			if !ok || bo.Op != token.EQL {
				continue
			}
			k, ok := bo.Y.(*ssa.Const)
			if !ok || k.Value == nil || k.Value.Kind() != constant.String || constant.StringVal(k.Value) != "time" {
				continue
			}
			// operand must derive from this assertion's result
			if call, ok := bo.X.(*ssa.Call); ok {
				if cal := call.Call.StaticCallee(); cal != nil && cal.Name() == "ToLower" && len(call.Call.Args) == 1 && derivesFrom(call.Call.Args[0], ta, 0) {
					folded = true
				}
			} else if derivesFrom(bo.X, ta, 0) {
				exact = true
			}
		}
	}
	return
}

func derivesFrom(v ssa.Value, src ssa.Value, depth int) bool {
	if v == src {
		return true
	}
	if depth > 6 {
		return false
	}
	switch x := v.(type) {
	case *ssa.Extract:
		return derivesFrom(x.Tuple, src, depth+1)
	case *ssa.UnOp:
		return derivesFrom(x.X, src, depth+1)
	case *ssa.FieldAddr:
		return derivesFrom(x.X, src, depth+1)
	case *ssa.Field:
		return derivesFrom(x.X, src, depth+1)
	}
	return false
}

func rulesC18(c *Ctx) {
	p := c.P
	tt := p.tokenTable()
	set := p.SSAFunc(p.Method("SelectStatement", "SetTimeRange"))
	strip := p.SSAFunc(p.Method("SelectStatement", "rewriteWithoutTimeDimensions"))
	ce := p.SSAFunc(p.Func("conditionExpr"))
	if set == nil || strip == nil || ce == nil || tt == nil {
		c.Unk("C18.window", "anchors", 0, "SetTimeRange/rewriteWithoutTimeDimensions/conditionExpr not found")
		return
	}
	// ---- recognisers ----
	c.Rule("C18.recognisers", "the predicate stripper of SetTimeRange recognises at least every comparison that ConditionExpr treats as a time bound: the same operand sides and case folding; anything the splitter counts as a bound and the stripper leaves behind keeps intersecting with every new window")
	split := recogniserOf(p, ce)
	var stripLit *ssa.Function
	for _, a := range strip.AnonFuncs {
		stripLit = a
	}
	if stripLit == nil {
		c.Unk("C18.recognisers", "rewriteWithoutTimeDimensions: rewriter", strip.Pos(), "no rewriter closure found")
	} else {
		st := recogniserOf(p, stripLit)
		for _, side := range []string{"LHS", "RHS"} {
			if !split.sides[side] {
				continue
			}
			key := "rewriteWithoutTimeDimensions: time as " + side
			switch {
			case len(st.sides) == 0:
				c.Unk("C18.recognisers", key, stripLit.Pos(), "no comparison of an operand's name with \"time\" was recognised in the stripper (directly or through a one-operand helper)")
			case !st.sides[side]:
				c.Bad("C18.recognisers", key, stripLit.Pos(), "ConditionExpr treats time as "+side+" as a bound, the stripper does not look at that side: such a bound survives every SetTimeRange")
			case split.folded[side] && !st.folded[side]:
				c.Bad("C18.recognisers", key, stripLit.Pos(), "ConditionExpr folds the case of the name, the stripper compares it exactly: TIME >= ... survives")
			default:
				c.OK("C18.recognisers", key, stripLit.Pos(), "same side, same case folding as the splitter")
			}
		}
		// a name test wider than equality strips predicates on other columns
		nWide := 0
		for _, fn := range append([]*ssa.Function{stripLit}, strip) {
			for _, b := range fn.Blocks {
				for _, in := range b.Instrs {
					call, ok := in.(*ssa.Call)
					if !ok || call.Call.StaticCallee() == nil || call.Call.StaticCallee().Pkg == nil || call.Call.StaticCallee().Pkg.Pkg.Path() != "strings" {
						continue
					}
					name := call.Call.StaticCallee().Name()
					switch name {
					case "HasSuffix", "HasPrefix", "Contains", "Index", "LastIndex", "ContainsAny":
					default:
						continue
					}
					for _, a := range call.Call.Args {
						if k, ok := a.(*ssa.Const); ok && k.Value != nil && k.Value.Kind() == constant.String && strings.EqualFold(constant.StringVal(k.Value), "time") {
							nWide++
							c.Bad("C18.recognisers", fmt.Sprintf("rewriteWithoutTimeDimensions: name tested with strings.%s #%d", name, nWide), call.Pos(), "the stripper takes every name that passes strings."+name+"(…, \"time\") for the time column: a predicate on response_time or uptime is replaced by true and lost, while ConditionExpr (equality) never counted it as a bound")
						}
					}
				}
			}
		}
		c.Rule("C18.parens", "the stripper of SetTimeRange looks through parentheses around a comparison's operands when it tests for the time variable: the fold that follows removes such parentheses, so `(time) > x` becomes an ordinary time bound afterwards and, not having been stripped, keeps intersecting with every new window")
		stripperTotalRule(c, "C18.parens")
		parenTransparencyRule(c, "C18.parens", "rewriteWithoutTimeDimensions: time operand inside parentheses", stripLit, "*VarRef", "the operands are tested for *VarRef directly: `(time) > '2030-01-01T00:00:00Z'` is not recognised, survives the call, and after the fold it is a plain time bound that contradicts the new window")
		// the stripper must not replace AND/OR nodes themselves, and must keep everything else
		callstripC18(c, stripLit)
	}
	c.Floor("C18.recognisers", c.CountRule("C18.recognisers"), 2)
	// the fold that SetTimeRange ends with must not change what a kept predicate means
	importRules(c, rulesC09, "C09.", "C18.fold-", func(r string) bool { return r == "C09.promote" || r == "C09.opcorr" })
	// SetTimeRange prints the kept condition and parses it again: the text must survive that
	fmtConstRule(c, "C18.fmtconst")
	importRules(c, rulesC06, "C06.", "C18.quoting-", func(r string) bool { return r == "C06.bare" || r == "C06.everychar" })

	// ---- window ----
	c.Rule("C18.window", "SetTimeRange appends `time >= '<start>' AND time < '<end>'` with start and end in that order, both converted to UTC and formatted with RFC3339Nano (no lost fraction), joins it with AND to the parenthesised stripped condition, re-parses and stores the folded result into the statement's condition")
	rfc := ""
	for _, imp := range p.Pkg.Imports {
		if imp.PkgPath == "time" {
			if k, ok := imp.Types.Scope().Lookup("RFC3339Nano").(*types.Const); ok {
				rfc = constant.StringVal(k.Val())
			}
		}
	}
	nFormat := 0
	// SetTimeRange and the unexported helpers it hands the instants to
	var setBlocks []*ssa.BasicBlock
	setBlocks = append(setBlocks, set.Blocks...)
	for _, b := range set.Blocks {
		for _, in := range b.Instrs {
			if call, ok := in.(*ssa.Call); ok {
				if cal := call.Call.StaticCallee(); cal != nil && cal.Pkg == set.Pkg && cal != strip && cal.Object() != nil && !cal.Object().Exported() {
					takesTime := false
					for _, a := range call.Call.Args {
						if a.Type().String() == "time.Time" {
							takesTime = true
						}
					}
					if takesTime {
						setBlocks = append(setBlocks, cal.Blocks...)
					}
				}
			}
		}
	}
	for _, b := range setBlocks {
		for _, in := range b.Instrs {
			call, ok := in.(*ssa.Call)
			if !ok {
				continue
			}
			callee := call.Call.StaticCallee()
			if callee == nil || callee.String() != "(time.Time).Format" {
				continue
			}
			nFormat++
			key := fmt.Sprintf("SetTimeRange: Format #%d", nFormat)
			k, isC := call.Call.Args[1].(*ssa.Const)
			layout := ""
			if isC && k.Value != nil {
				layout = constant.StringVal(k.Value)
			}
			utc := false
			if rc, ok := call.Call.Args[0].(*ssa.Call); ok {
				if cal := rc.Call.StaticCallee(); cal != nil && cal.String() == "(time.Time).UTC" {
					utc = true
				}
			}
			switch {
			case layout != rfc:
				c.Bad("C18.window", key, call.Pos(), fmt.Sprintf("layout %q is not RFC3339Nano: sub-second window edges are truncated", layout))
			case !utc:
				c.Bad("C18.window", key, call.Pos(), "instant is not converted to UTC before formatting")
			default:
				c.OK("C18.window", key, call.Pos(), "UTC, RFC3339Nano")
			}
		}
	}
	// the text handed to the parser, as the set of templates it can take:
	// constants, concatenation and Sprintf are expanded; <start>/<end> stand
	// for the formatted instants, <prev> for the stripped previous condition
	var reader *ssa.Call
	for _, b := range set.Blocks {
		for _, in := range b.Instrs {
			if call, ok := in.(*ssa.Call); ok {
				if cal := call.Call.StaticCallee(); cal != nil && cal.String() == "strings.NewReader" && reader == nil {
					reader = call
				}
			}
		}
	}
	windowRe := regexp.MustCompile(`(?i)^\s*time\s*>=\s*'<start>'\s+AND\s+time\s*<\s*'<end>'\s*$`)
	joinRe := regexp.MustCompile(`(?i)^\s*\(<prev>\)\s+AND\s+\(?\s*time\s*>=\s*'<start>'\s+AND\s+time\s*<\s*'<end>'\s*\)?\s*$`)
	if reader == nil {
		c.Unk("C18.window", "SetTimeRange: condition text", set.Pos(), "no strings.NewReader(<text>) found")
	} else {
		leaf := func(v ssa.Value) (string, bool) {
			if call, ok := v.(*ssa.Call); ok {
				if cal := call.Call.StaticCallee(); cal != nil {
					if cal == strip {
						return "<prev>", true
					}
					if cal.String() == "(time.Time).Format" {
						switch {
						case reachesParam(call.Call.Args[0], set.Params[1], 0):
							return "<start>", true
						case reachesParam(call.Call.Args[0], set.Params[2], 0):
							return "<end>", true
						}
						return "<?>", true
					}
				}
			}
			return "", false
		}
		alts := stringTemplates(reader.Call.Args[0], leaf, 0)
		sawWindow, sawJoin, callsStrip := false, false, false
		for _, b := range set.Blocks {
			for _, in := range b.Instrs {
				if call, ok := in.(*ssa.Call); ok && call.Call.StaticCallee() == strip {
					callsStrip = true
				}
			}
		}
		for _, a := range alts {
			key := "SetTimeRange: condition text " + a
			switch {
			case strings.Contains(a, "<?>"):
				c.Unk("C18.window", key, reader.Pos(), "part of the text is built in a way this rule does not expand")
			case windowRe.MatchString(a):
				sawWindow = true
				c.OK("C18.window", key, reader.Pos(), "the window alone: start fills the >= bound, end the < bound")
			case joinRe.MatchString(a):
				sawJoin = true
				c.OK("C18.window", key, reader.Pos(), "the stripped previous condition, parenthesised, AND the window")
			default:
				c.Bad("C18.window", key, reader.Pos(), "neither `time >= '<start>' AND time < '<end>'` nor `(<prev>) AND <window>`: swapped or wrong bounds, or an unparenthesised previous condition that lets OR capture the window")
			}
		}
		if len(alts) == 0 {
			c.Unk("C18.window", "SetTimeRange: condition text", reader.Pos(), "no template extracted")
		} else {
			undec := false
			for _, a := range alts {
				if strings.Contains(a, "<?>") {
					undec = true
				}
			}
			if !undec {
				c.Check(sawWindow || sawJoin, "C18.window", "SetTimeRange: window predicate present", set.Pos(), "no `time >= '<start>' AND time < '<end>'` text is built")
				c.Check(sawJoin && callsStrip, "C18.window", "SetTimeRange: join present", set.Pos(), "the previous condition is not joined as `(<previous>) AND <window>`: it is lost or its old bounds stay")
			}
		}
	}
	if nFormat == 0 {
		c.Unk("C18.window", "SetTimeRange: two formatted instants", set.Pos(), "no Format call found in SetTimeRange or a helper it passes the instants to")
	} else {
		c.Check(nFormat == 2, "C18.window", "SetTimeRange: two formatted instants", set.Pos(), fmt.Sprintf("%d Format calls", nFormat))
	}
	// the result is stored into s.Condition through Reduce
	stored := false
	for _, b := range set.Blocks {
		for _, in := range b.Instrs {
			st, ok := in.(*ssa.Store)
			if !ok {
				continue
			}
			if _, fld, ok := fieldRef(&ssa.UnOp{X: st.Addr, Op: token.MUL}); ok && fld == "Condition" {
				if call, ok := st.Val.(*ssa.Call); ok {
					if cal := call.Call.StaticCallee(); cal != nil && (cal.Name() == "Reduce" || cal.Name() == "reduce") {
						stored = true
					}
				}
			}
		}
	}
	c.Check(stored, "C18.window", "SetTimeRange: result stored", set.Pos(), "s.Condition must receive Reduce(<parsed condition>)")
	writebackRule(c, "C18.writeback", "Rewrite", "RewriteExpr")
	copyLiteralRule(c, "C18.copylit", func(name string) bool { return strings.HasPrefix(name, "reduce") || name == "Reduce" })
	// Reduce's boolean short-cuts decide whether the stripped `true` placeholders disappear
	shortcutsC09(c, tt, "C18.reduce")
	parenCollapseC18(c)
}

// varargsOf returns the values stored into the variadic slice of a call.
func varargsOf(call *ssa.Call) []ssa.Value {
	if len(call.Call.Args) == 0 {
		return nil
	}
	sl, ok := call.Call.Args[len(call.Call.Args)-1].(*ssa.Slice)
	if !ok {
		return nil
	}
	alloc, ok := sl.X.(*ssa.Alloc)
	if !ok {
		return nil
	}
	out := map[int64]ssa.Value{}
	for _, ref := range *alloc.Referrers() {
		ia, ok := ref.(*ssa.IndexAddr)
		if !ok {
			continue
		}
		k, ok := ia.Index.(*ssa.Const)
		if !ok {
			continue
		}
		idx, _ := constant.Int64Val(k.Value)
		for _, r2 := range *ia.Referrers() {
			if st, ok := r2.(*ssa.Store); ok {
				out[idx] = st.Val
			}
		}
	}
	res := make([]ssa.Value, len(out))
	for i := range res {
		res[i] = out[int64(i)]
	}
	return res
}

func reachesParam(v ssa.Value, prm *ssa.Parameter, depth int) bool {
	if v == nil || depth > 8 {
		return false
	}
	if v == ssa.Value(prm) {
		return true
	}
	switch x := v.(type) {
	case *ssa.MakeInterface:
		return reachesParam(x.X, prm, depth+1)
	case *ssa.Call:
		for _, a := range x.Call.Args {
			if reachesParam(a, prm, depth+1) {
				return true
			}
		}
	case *ssa.Phi:
		for _, e := range x.Edges {
			if reachesParam(e, prm, depth+1) {
				return true
			}
		}
	}
	return false
}

func reachesCallTo(v ssa.Value, fn *ssa.Function, depth int) bool {
	if v == nil || depth > 8 {
		return false
	}
	switch x := v.(type) {
	case *ssa.MakeInterface:
		return reachesCallTo(x.X, fn, depth+1)
	case *ssa.Call:
		return x.Call.StaticCallee() == fn
	}
	return false
}

// callstripC18: which node kinds the stripper replaces by `true`.
func callstripC18(c *Ctx, lit *ssa.Function) {
	p := c.P
	c.Rule("C18.keepothers", "the stripper replaces by `true` only comparisons it recognises as time bounds; every other node is returned unchanged (every other predicate is kept)")
	fn, ok := lit.Syntax().(*ast.FuncLit)
	if !ok {
		c.Unk("C18.keepothers", "rewriteWithoutTimeDimensions$lit", lit.Pos(), "no syntax for the rewriter closure")
		return
	}
	ast.Inspect(fn.Body, func(n ast.Node) bool {
		ts, ok := n.(*ast.TypeSwitchStmt)
		if !ok {
			return true
		}
		for _, cl := range ts.Body.List {
			cc := cl.(*ast.CaseClause)
			for _, te := range cc.List {
				tname := p.TypeStr(p.Info.TypeOf(te))
				replaces, keeps, conditional := false, false, false
				ast.Inspect(cc, func(m ast.Node) bool {
					if r, ok := m.(*ast.ReturnStmt); ok && len(r.Results) == 1 {
						if _, ok := boolConstOf(p, r.Results[0]); ok {
							replaces = true
						} else {
							keeps = true
						}
					}
					if _, ok := m.(*ast.IfStmt); ok {
						conditional = true
					}
					return true
				})
				key := "rewriteWithoutTimeDimensions$lit: case " + tname
				switch {
				case tname == "*BinaryExpr":
					c.Check(replaces && keeps && conditional, "C18.keepothers", key, cc.Pos(), "comparisons are replaced only under the time test and kept otherwise")
					// ... and only comparisons: which operators does the clause test for?
					ops := map[string]bool{}
					tt := p.tokenTable()
					helper := false
					ast.Inspect(cc, func(m ast.Node) bool {
						switch x := m.(type) {
						case *ast.BinaryExpr:
							if x.Op == token.EQL || x.Op == token.NEQ {
								for _, side := range []ast.Expr{x.X, x.Y} {
									if tv := p.Info.Types[side]; tv.Value != nil && p.TypeStr(tv.Type) == "Token" {
										v, _ := constant.Int64Val(constant.ToInt(tv.Value))
										ops[tt.Name[v]] = true
									}
								}
							}
						case *ast.CaseClause:
							for _, e := range x.List {
								if tv := p.Info.Types[e]; tv.Value != nil && p.TypeStr(tv.Type) == "Token" {
									v, _ := constant.Int64Val(constant.ToInt(tv.Value))
									ops[tt.Name[v]] = true
								}
							}
						case *ast.CallExpr:
							if sel, ok := x.Fun.(*ast.SelectorExpr); ok {
								if ssel, ok := sel.X.(*ast.SelectorExpr); ok && ssel.Sel.Name == "Op" {
									helper = true
								}
							}
						}
						return true
					})
					k2 := "rewriteWithoutTimeDimensions$lit: case *BinaryExpr, comparisons only"
					cmp := 0
					for _, o := range []string{"EQ", "NEQ", "LT", "LTE", "GT", "GTE"} {
						if ops[o] {
							cmp++
						}
					}
					// every operator the splitter turns into a bound must be stripped
					var missing []string
					for _, o := range []string{"EQ", "LT", "LTE", "GT", "GTE"} {
						if !ops[o] {
							missing = append(missing, o)
						}
					}
					switch {
					case cmp >= 1 && len(missing) > 0:
						c.Bad("C18.keepothers", k2, cc.Pos(), "comparisons with "+strings.Join(missing, ", ")+" are not stripped although ConditionExpr reads them as time bounds: such a bound survives next to the new window on every call")
					case cmp >= 4:
						c.OK("C18.keepothers", k2, cc.Pos(), "the replacement is limited to comparison operators")
					case helper:
						c.Unk("C18.keepothers", k2, cc.Pos(), "the operator is classified by a helper this rule does not evaluate")
					default:
						c.Bad("C18.keepothers", k2, cc.Pos(), "any binary node with a time operand is replaced by true, arithmetic included: `time - 1h > x` becomes `true > x`, neither a removed bound nor the kept predicate")
					}
				case replaces && !conditional:
					c.Bad("C18.keepothers", key, cc.Pos(), "every "+tname+" is replaced by true, whether or not it is part of a time bound: a predicate such as v > floor(x) loses its operand")
				case replaces:
					c.Bad("C18.keepothers", key, cc.Pos(), tname+" nodes are replaced by true under a condition this rule does not understand")
				default:
					c.OK("C18.keepothers", key, cc.Pos(), "kept")
				}
			}
		}
		return false
	})
}

// stringTemplates expands a string value into the finite set of texts it can
// take: constants, `+`, phi alternatives and fmt.Sprintf with a constant
// format and %s/%v verbs; leaf names the values the caller knows; anything
// else becomes <?>.
func stringTemplates(v ssa.Value, leaf func(ssa.Value) (string, bool), depth int) []string {
	if depth > 12 {
		return []string{"<?>"}
	}
	if s, ok := leaf(v); ok {
		return []string{s}
	}
	cross := func(a, b []string) []string {
		var out []string
		for _, x := range a {
			for _, y := range b {
				if len(out) < 32 {
					out = append(out, x+y)
				}
			}
		}
		return out
	}
	switch x := v.(type) {
	case *ssa.Const:
		if x.Value != nil && x.Value.Kind() == constant.String {
			return []string{constant.StringVal(x.Value)}
		}
	case *ssa.BinOp:
		if x.Op == token.ADD {
			return cross(stringTemplates(x.X, leaf, depth+1), stringTemplates(x.Y, leaf, depth+1))
		}
	case *ssa.Phi:
		seen := map[string]bool{}
		var out []string
		for _, e := range x.Edges {
			if e == ssa.Value(x) {
				continue
			}
			for _, s := range stringTemplates(e, leaf, depth+1) {
				if !seen[s] {
					seen[s] = true
					out = append(out, s)
				}
			}
		}
		return out
	case *ssa.MakeInterface:
		return stringTemplates(x.X, leaf, depth+1)
	case *ssa.ChangeType:
		return stringTemplates(x.X, leaf, depth+1)
	case *ssa.Call:
		cal := x.Call.StaticCallee()
		if cal != nil && cal.String() == "fmt.Sprintf" {
			k, ok := x.Call.Args[0].(*ssa.Const)
			if !ok || k.Value == nil {
				return []string{"<?>"}
			}
			args := varargsOf(x)
			out := []string{""}
			fs := constant.StringVal(k.Value)
			ai := 0
			for i := 0; i < len(fs); i++ {
				if fs[i] != '%' || i+1 >= len(fs) {
					out = cross(out, []string{string(fs[i])})
					continue
				}
				i++
				switch fs[i] {
				case '%':
					out = cross(out, []string{"%"})
				case 's', 'v':
					if ai < len(args) {
						out = cross(out, stringTemplates(args[ai], leaf, depth+1))
					} else {
						out = cross(out, []string{"<?>"})
					}
					ai++
				default:
					out = cross(out, []string{"<?>"})
					ai++
				}
			}
			return out
		}
	}
	return []string{"<?>"}
}

// writebackRule: a tree rewrite stores what the rewriter returned.
func writebackRule(c *Ctx, rule string, fns ...string) {
	p := c.P
	c.Rule(rule, "in the generic tree rewriters every recursive call's result is used (stored back into the slot the child was read from, or tested and then stored): a discarded result means a replacement of that child is lost while deeper in-place edits still happen")
	n := 0
	for _, name := range fns {
		f := p.SSAFunc(p.Func(name))
		if f == nil {
			c.Unk(rule, name, 0, "anchor not found")
			continue
		}
		i := 0
		for _, b := range f.Blocks {
			for _, in := range b.Instrs {
				call, ok := in.(*ssa.Call)
				if !ok || call.Call.StaticCallee() != f {
					continue
				}
				i++
				n++
				child := "?"
				if len(call.Call.Args) >= 2 {
					if _, fld, ok := fieldRef(call.Call.Args[1]); ok {
						child = fld
					} else if len(call.Call.Args) >= 2 {
						child = p.TypeStr(call.Call.Args[1].Type())
					}
				}
				key := fmt.Sprintf("%s: recursive call #%d on %s", name, i, child)
				if refs := call.Referrers(); refs == nil || len(*refs) == 0 {
					c.Bad(rule, key, call.Pos(), "the rewritten child is discarded: when the rewriter replaces this node the parent keeps the old one")
				} else {
					c.OK(rule, key, call.Pos(), "result used")
				}
			}
		}
	}
	c.Floor(rule, n, 15)
}

// parenTransparencyRule: a recogniser that looks for a node kind directly
// under a field does not see the same node inside parentheses.
func parenTransparencyRule(c *Ctx, rule, key string, f *ssa.Function, kind string, why string) {
	p := c.P
	if f == nil {
		c.Unk(rule, key, 0, "anchor not found")
		return
	}
	fns := append([]*ssa.Function{f}, f.AnonFuncs...)
	// in-package helpers called (transitively, a few levels) with an operand
	seenFn := map[*ssa.Function]bool{}
	for _, g := range fns {
		seenFn[g] = true
	}
	for i := 0; i < len(fns) && len(fns) < 16; i++ {
		g := fns[i]
		for _, b := range g.Blocks {
			for _, in := range b.Instrs {
				if call, ok := in.(*ssa.Call); ok {
					if cal := call.Call.StaticCallee(); cal != nil && cal.Pkg == f.Pkg && len(cal.Blocks) > 0 && cal.Signature.Recv() == nil && !seenFn[cal] && len(cal.Params) <= 2 {
						seenFn[cal] = true
						fns = append(fns, cal)
					}
				}
			}
		}
	}
	looks, unwraps := false, true
	var pos token.Pos
	hasParenAssert := func(g *ssa.Function) bool {
		for _, b := range g.Blocks {
			for _, in := range b.Instrs {
				if ta, ok := in.(*ssa.TypeAssert); ok && p.TypeStr(ta.AssertedType) == "*ParenExpr" {
					return true
				}
			}
		}
		return false
	}
	// unwrapped: the value tested was first taken out of any parentheses
	var unwrapped func(v ssa.Value, d int) bool
	unwrapped = func(v ssa.Value, d int) bool {
		if d > 6 {
			return false
		}
		switch x := v.(type) {
		case *ssa.Call:
			if cal := x.Call.StaticCallee(); cal != nil && cal.Pkg == f.Pkg && len(cal.Blocks) > 0 {
				if hasParenAssert(cal) {
					return true
				}
				for _, b := range cal.Blocks {
					for _, in := range b.Instrs {
						if c2, ok := in.(*ssa.Call); ok {
							if cal2 := c2.Call.StaticCallee(); cal2 != nil && cal2.Pkg == f.Pkg && len(cal2.Blocks) > 0 && hasParenAssert(cal2) {
								return true
							}
						}
					}
				}
			}
		case *ssa.Phi:
			for _, e := range x.Edges {
				if unwrapped(e, d+1) {
					return true
				}
			}
		case *ssa.UnOp:
			return unwrapped(x.X, d+1)
		case *ssa.FieldAddr:
			return unwrapped(x.X, d+1)
		case *ssa.Extract:
			return unwrapped(x.Tuple, d+1)
		case *ssa.TypeAssert:
			return p.TypeStr(x.AssertedType) == "*ParenExpr" || unwrapped(x.X, d+1)
		}
		return false
	}
	for _, g := range fns {
		for _, b := range g.Blocks {
			for _, in := range b.Instrs {
				ta, ok := in.(*ssa.TypeAssert)
				if !ok || p.TypeStr(ta.AssertedType) != kind {
					continue
				}
				looks = true
				if pos == 0 {
					pos = ta.Pos()
				}
				if !unwrapped(ta.X, 0) {
					if _, isParam := ta.X.(*ssa.Parameter); isParam && g != f {
						// a helper's parameter: the caller may have unwrapped it
						continue
					}
					unwraps = false
					pos = ta.Pos()
				}
			}
		}
	}
	switch {
	case !looks:
		c.Unk(rule, key, f.Pos(), "no test for "+kind+" found")
	case unwraps:
		c.OK(rule, key, pos, "parentheses around the operand are looked through")
	default:
		c.Bad(rule, key, pos, why)
	}
}

// parenStrippers: package functions func(Expr) Expr whose only type test is
// for *ParenExpr and whose only calls are to one another — helpers that take an
// expression out of its parentheses.
func (p *Program) parenStrippers() []*ssa.Function {
	var cands []*ssa.Function
	for _, f := range p.allSSAFuncs() {
		if f.Parent() != nil || f.Signature.Recv() != nil || len(f.Params) != 1 || f.Signature.Results().Len() != 1 {
			continue
		}
		if p.TypeStr(f.Params[0].Type()) != "Expr" || p.TypeStr(f.Signature.Results().At(0).Type()) != "Expr" {
			continue
		}
		n, other := 0, false
		for _, b := range f.Blocks {
			for _, in := range b.Instrs {
				switch x := in.(type) {
				case *ssa.TypeAssert:
					if p.TypeStr(x.AssertedType) == "*ParenExpr" {
						n++
					} else {
						other = true
					}
				case *ssa.MakeInterface, *ssa.Alloc, *ssa.Store:
					other = true
				}
			}
		}
		if n > 0 && !other {
			cands = append(cands, f)
		}
	}
	in := map[*ssa.Function]bool{}
	for _, f := range cands {
		in[f] = true
	}
	for changed := true; changed; {
		changed = false
		for f := range in {
			for _, b := range f.Blocks {
				for _, ins := range b.Instrs {
					if call, ok := ins.(*ssa.Call); ok {
						if cal := call.Call.StaticCallee(); cal == nil || !in[cal] {
							delete(in, f)
							changed = true
						}
					}
				}
			}
		}
	}
	var out []*ssa.Function
	for _, f := range cands {
		if in[f] {
			out = append(out, f)
		}
	}
	return out
}

// stripperTotalRule: what a paren-stripping helper returns is never itself a
// *ParenExpr — each returned value either failed the *ParenExpr test on the way
// to the return, or is the result of stripping again.
func stripperTotalRule(c *Ctx, rule string) {
	p := c.P
	strippers := p.parenStrippers()
	isStripper := map[*ssa.Function]bool{}
	for _, f := range strippers {
		isStripper[f] = true
	}
	for _, f := range strippers {
		n := 0
		for _, b := range f.Blocks {
			ret, ok := b.Instrs[len(b.Instrs)-1].(*ssa.Return)
			if !ok || len(ret.Results) != 1 {
				continue
			}
			n++
			key := fmt.Sprintf("%s: return #%d is outside every parenthesis", f.Name(), n)
			v := ret.Results[0]
			if ci, ok := v.(*ssa.ChangeInterface); ok {
				v = ci.X
			}
			if call, ok := v.(*ssa.Call); ok && isStripper[call.Call.StaticCallee()] {
				c.OK(rule, key, ret.Pos(), "the result of stripping again")
				continue
			}
			failed := false
			for d := b; d != nil && !failed; d = d.Idom() {
				for _, pr := range d.Preds {
					ifi, ok := pr.Instrs[len(pr.Instrs)-1].(*ssa.If)
					if !ok || len(pr.Succs) != 2 || pr.Succs[1] != d || len(d.Preds) != 1 {
						continue
					}
					ex, ok := ifi.Cond.(*ssa.Extract)
					if !ok || ex.Index != 1 {
						continue
					}
					ta, ok := ex.Tuple.(*ssa.TypeAssert)
					if ok && ta.CommaOk && p.TypeStr(ta.AssertedType) == "*ParenExpr" && ta.X == v {
						failed = true
					}
				}
			}
			if failed {
				c.OK(rule, key, ret.Pos(), "returned only where its *ParenExpr test failed")
				continue
			}
			inner := false
			if u, ok := v.(*ssa.UnOp); ok && u.Op == token.MUL {
				if fa, ok := u.X.(*ssa.FieldAddr); ok && p.TypeStr(fa.X.Type()) == "*ParenExpr" {
					inner = true
				}
			}
			if inner {
				c.Bad(rule, key, ret.Pos(), "the inside of one *ParenExpr is returned untested: for `((x))` the result is still a *ParenExpr, and every caller that looks through parentheses with this helper misses the operand")
			} else {
				c.Unk(rule, key, ret.Pos(), "the returned value is neither a failed *ParenExpr test nor a further strip")
			}
		}
	}
}

// parenCollapseC18: Reduce keeps parentheses only around a binary expression.
func parenCollapseC18(c *Ctx) {
	p := c.P
	c.Rule("C18.parencollapse", "reduceParenExpr rebuilds a ParenExpr only where the reduced inner expression was tested to be a *BinaryExpr: SetTimeRange wraps the previous condition in parentheses on every call and relies on the fold to drop parentheses around anything else (a nested group included), otherwise the condition gains one level per window")
	f := p.SSAFunc(p.Func("reduceParenExpr"))
	if f == nil {
		c.Unk("C18.parencollapse", "reduceParenExpr", 0, "anchor not found")
		return
	}
	n := 0
	for _, b := range f.Blocks {
		for _, in := range b.Instrs {
			a, ok := in.(*ssa.Alloc)
			if !ok || p.TypeStr(a.Type()) != "*ParenExpr" {
				continue
			}
			n++
			key := fmt.Sprintf("reduceParenExpr: rebuilt ParenExpr #%d", n)
			// which type tests lead here?
			kinds := map[string]bool{}
			seen := map[*ssa.BasicBlock]bool{}
			var up func(x *ssa.BasicBlock)
			up = func(x *ssa.BasicBlock) {
				if seen[x] {
					return
				}
				seen[x] = true
				for _, pr := range x.Preds {
					if ifi, ok := pr.Instrs[len(pr.Instrs)-1].(*ssa.If); ok && pr.Succs[0] == x {
						if ex, ok := ifi.Cond.(*ssa.Extract); ok {
							if ta, ok := ex.Tuple.(*ssa.TypeAssert); ok {
								kinds[p.TypeStr(ta.AssertedType)] = true
								continue
							}
						}
					}
					up(pr)
				}
			}
			up(b)
			var names []string
			for k := range kinds {
				names = append(names, k)
			}
			sort.Strings(names)
			switch {
			case len(names) == 1 && names[0] == "*BinaryExpr":
				c.OK("C18.parencollapse", key, a.Pos(), "only around a *BinaryExpr")
			case len(names) == 0:
				c.Bad("C18.parencollapse", key, a.Pos(), "parentheses are kept whatever the reduced inner expression is")
			default:
				c.Bad("C18.parencollapse", key, a.Pos(), "parentheses are also kept around "+strings.Join(names, ", ")+": nested groups no longer collapse and the condition grows by one level per SetTimeRange call")
			}
		}
	}
	c.Floor("C18.parencollapse", n, 1)
}
