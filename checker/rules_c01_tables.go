package main

import (
	"fmt"
	"go/ast"
	"go/constant"
	"go/token"
	"go/types"
	"sort"
	"strings"

	"golang.org/x/tools/go/ssa"
)

// operandShapeC02: BinaryExpr.String adds no parentheses and ParseExpr hangs
// whatever parseUnaryExpr returns as a leaf, so a unary operand must never be
// a bare BinaryExpr.
func operandShapeC02(c *Ctx) { operandShapeRule(c, "C02.operandshape") }

func operandShapeRule(c *Ctx, rule string) {
	p := c.P
	c.Rule(rule, "parseUnaryExpr never returns a bare *BinaryExpr: the binary printer writes `lhs op rhs` without parentheses, so a BinaryExpr standing where the grammar has a single operand prints as text that re-parses with a different grouping")
	pu := p.Method("Parser", "parseUnaryExpr")
	if pu == nil {
		c.Unk(rule, "(*Parser).parseUnaryExpr", 0, "anchor not found")
		return
	}
	ts := p.newTypeSets()
	set := ts.resultSet(pu, 0)
	names := set.names()
	key := "(*Parser).parseUnaryExpr: result kinds"
	if set.top {
		c.Unk(rule, key, pu.Pos(), "result type set is unbounded")
		return
	}
	// report per returned kind so that a new kind is a new obligation
	for _, n := range names {
		k := "(*Parser).parseUnaryExpr: returns " + n
		if n == "*BinaryExpr" {
			c.Bad(rule, k, pu.Pos(), "a sign in front of a variable, call or parenthesis is returned as BinaryExpr{-1 * x}: `b / -a` prints as `b / -1 * a`, which re-parses as (b / -1) * a")
		} else {
			c.OK(rule, k, pu.Pos(), "a single operand")
		}
	}
	c.Floor(rule, len(names), 8)
}

// formattersC02: the literal formatters are inverted by the lexer.
func formattersC02(c *Ctx) {
	p := c.P
	c.Rule("C02.formatters", "literal printers produce text the lexer maps back to the same node kind: a float always prints with a decimal point (or a non-finite spelling), so it cannot re-lex as INTEGER; a regex prints between slashes with exactly the escape ScanRegex undoes; booleans print as the keywords true/false; time literals print in UTC with RFC3339Nano")
	// NumberLiteral.String
	if f := p.SSAFunc(p.Method("NumberLiteral", "String")); f != nil {
		hasDotTest, appendsDot := false, false
		var cmpConsts []string
		for _, b := range f.Blocks {
			for _, in := range b.Instrs {
				switch x := in.(type) {
				case *ssa.Call:
					if cal := x.Call.StaticCallee(); cal != nil && (cal.Name() == "IndexByte" || cal.Name() == "Contains" || cal.Name() == "ContainsRune" || cal.Name() == "IndexRune") {
						for _, a := range x.Call.Args {
							if k, ok := a.(*ssa.Const); ok && k.Value != nil {
								if k.Value.Kind() == constant.Int {
									if n, _ := constant.Int64Val(k.Value); n == '.' {
										hasDotTest = true
									}
								} else if k.Value.Kind() == constant.String && constant.StringVal(k.Value) == "." {
									hasDotTest = true
								}
							}
						}
					}
				case *ssa.BinOp:
					if x.Op == token.ADD {
						if k, ok := x.Y.(*ssa.Const); ok && k.Value != nil && k.Value.Kind() == constant.String && strings.HasPrefix(constant.StringVal(k.Value), ".") {
							appendsDot = true
						}
					}
					if x.Op == token.EQL || x.Op == token.NEQ {
						if k, ok := x.Y.(*ssa.Const); ok && k.Value != nil && k.Value.Kind() == constant.String {
							cmpConsts = append(cmpConsts, constant.StringVal(k.Value))
						}
					}
				}
			}
		}
		// the value reaches the text only through the shortest exact formatting
		nFmt := 0
		for _, b := range f.Blocks {
			for _, in := range b.Instrs {
				switch x := in.(type) {
				case *ssa.Convert:
					fb, ok1 := x.X.Type().Underlying().(*types.Basic)
					tb, ok2 := x.Type().Underlying().(*types.Basic)
					if ok1 && ok2 && fb.Info()&types.IsFloat != 0 && tb.Info()&types.IsInteger != 0 {
						c.Bad("C02.formatters", "NumberLiteral.String: float converted to "+tb.Name(), x.Pos(), "the float is printed through an integer conversion: values at or beyond the integer range wrap (2^63 prints as -9223372036854775808.0), and the bound test in float arithmetic cannot exclude them")
					}
				case *ssa.Call:
					if cal := x.Call.StaticCallee(); cal != nil && cal.String() == "strconv.FormatFloat" {
						nFmt++
						prec, ok1 := x.Call.Args[2].(*ssa.Const)
						bits, ok2 := x.Call.Args[3].(*ssa.Const)
						good := ok1 && ok2 && prec.Value != nil && bits.Value != nil && prec.Value.String() == "-1" && bits.Value.String() == "64"
						c.Check(good, "C02.formatters", fmt.Sprintf("NumberLiteral.String: FormatFloat #%d is shortest-exact", nFmt), x.Pos(), "precision must be -1 and size 64: any other setting prints a neighbouring float")
					}
				}
			}
		}
		if nFmt == 0 {
			c.Unk("C02.formatters", "NumberLiteral.String: FormatFloat", f.Pos(), "the value is not formatted by strconv.FormatFloat")
		}
		nonFinite := true
		for _, s := range cmpConsts {
			if s != "NaN" && s != "+Inf" && s != "-Inf" {
				nonFinite = false
			}
		}
		c.Check(hasDotTest && appendsDot && nonFinite && len(cmpConsts) >= 3, "C02.formatters", "NumberLiteral.String: always a decimal point", f.Pos(),
			fmt.Sprintf("tests for '.'=%v, appends a fraction=%v, exempts only NaN/+Inf/-Inf=%v: a whole float printed without '.' re-lexes as an integer", hasDotTest, appendsDot, nonFinite))
	} else {
		c.Unk("C02.formatters", "NumberLiteral.String", 0, "anchor not found")
	}
	// RegexLiteral.String vs ScanRegex
	if f := p.SSAFunc(p.Method("RegexLiteral", "String")); f != nil {
		old, nw := "", ""
		all := false
		for _, b := range f.Blocks {
			for _, in := range b.Instrs {
				if call, ok := in.(*ssa.Call); ok {
					if cal := call.Call.StaticCallee(); cal != nil && (cal.Name() == "Replace" || cal.Name() == "ReplaceAll") && len(call.Call.Args) >= 3 {
						if k, ok := call.Call.Args[1].(*ssa.Const); ok && k.Value != nil {
							old = constant.StringVal(k.Value)
						}
						if k, ok := call.Call.Args[2].(*ssa.Const); ok && k.Value != nil {
							nw = constant.StringVal(k.Value)
						}
						if cal.Name() == "ReplaceAll" {
							all = true
						} else if len(call.Call.Args) == 4 {
							if k, ok := call.Call.Args[3].(*ssa.Const); ok && k.Value != nil {
								n, _ := constant.Int64Val(constant.ToInt(k.Value))
								all = n < 0
							}
						}
					}
				}
			}
		}
		// the escapes ScanRegex passes to ScanDelimited
		esc := map[string]string{}
		if sr := p.FuncDecls[p.Method("Scanner", "ScanRegex")]; sr != nil {
			ast.Inspect(sr.Body, func(n ast.Node) bool {
				cl, ok := n.(*ast.CompositeLit)
				if !ok {
					return true
				}
				if _, isMap := p.Info.TypeOf(cl).Underlying().(*types.Map); !isMap {
					return true
				}
				for _, el := range cl.Elts {
					if kv, ok := el.(*ast.KeyValueExpr); ok {
						k, v := p.Info.Types[kv.Key], p.Info.Types[kv.Value]
						if k.Value != nil && v.Value != nil {
							kn, _ := constant.Int64Val(constant.ToInt(k.Value))
							vn, _ := constant.Int64Val(constant.ToInt(v.Value))
							esc[string(rune(kn))] = string(rune(vn))
						}
					}
				}
				return true
			})
		}
		okRe := old == "/" && nw == `\/` && all && esc["/"] == "/" && len(esc) == 1
		c.Check(okRe, "C02.formatters", "RegexLiteral.String: escapes exactly the delimiter", f.Pos(),
			fmt.Sprintf("printer replaces %q by %q (all occurrences=%v); ScanRegex unescapes %v", old, nw, all, esc))
	} else {
		c.Unk("C02.formatters", "RegexLiteral.String", 0, "anchor not found")
	}
	// BooleanLiteral.String
	if m := p.Method("BooleanLiteral", "String"); m != nil {
		fd := p.FuncDecls[m]
		consts := map[string]bool{}
		ast.Inspect(fd.Body, func(n ast.Node) bool {
			if bl, ok := n.(*ast.BasicLit); ok {
				if tv := p.Info.Types[bl]; tv.Value != nil && tv.Value.Kind() == constant.String {
					consts[constant.StringVal(tv.Value)] = true
				}
			}
			return true
		})
		c.Check(consts["true"] && consts["false"] && len(consts) == 2, "C02.formatters", "BooleanLiteral.String: true / false", m.Pos(), fmt.Sprintf("prints %v", keysOf(consts)))
	}
	// TimeLiteral.String
	if f := p.SSAFunc(p.Method("TimeLiteral", "String")); f != nil {
		rfc := ""
		for _, imp := range p.Pkg.Imports {
			if imp.PkgPath == "time" {
				if k, ok := imp.Types.Scope().Lookup("RFC3339Nano").(*types.Const); ok {
					rfc = constant.StringVal(k.Val())
				}
			}
		}
		okT := false
		for _, b := range f.Blocks {
			for _, in := range b.Instrs {
				if call, ok := in.(*ssa.Call); ok {
					if cal := call.Call.StaticCallee(); cal != nil && cal.String() == "(time.Time).Format" {
						if k, ok := call.Call.Args[1].(*ssa.Const); ok && k.Value != nil && constant.StringVal(k.Value) == rfc {
							if rc, ok := call.Call.Args[0].(*ssa.Call); ok && rc.Call.StaticCallee() != nil && rc.Call.StaticCallee().String() == "(time.Time).UTC" {
								okT = true
							}
						}
					}
				}
			}
		}
		c.Check(okT, "C02.formatters", "TimeLiteral.String: UTC, RFC3339Nano", f.Pos(), "a time literal must print its full precision in UTC")
	}
}

// dispatchC01: the statement dispatch tree is complete.
func dispatchC01(c *Ctx) {
	p := c.P
	tt := p.tokenTable()
	c.Rule("C01.dispatch", "every statement kind is built by some parse function, every statement parse function is reachable from the dispatch tree registered at init, and the tree is keyed by keyword tokens only (DeleteStatement is listed as never parsed)")
	built := map[string]string{}
	for _, pr := range p.slotPairs() {
		built[pr.T.Obj().Name()] = FuncName(pr.fn)
	}
	// also types built without stores (empty statements)
	for _, f := range p.SortedFuncs() {
		if recvTypeName(f) != "Parser" {
			continue
		}
		ast.Inspect(p.FuncDecls[f].Body, func(n ast.Node) bool {
			if cl, ok := n.(*ast.CompositeLit); ok {
				if nt, ok := p.Info.TypeOf(cl).(*types.Named); ok && nt.Obj().Pkg() == p.Types {
					if _, ok := built[nt.Obj().Name()]; !ok {
						built[nt.Obj().Name()] = FuncName(f)
					}
				}
			}
			return true
		})
	}
	neverParsed := map[string]string{"DeleteStatement": "legacy statement kind; DELETE parses to DeleteSeriesStatement"}
	n := 0
	for _, st := range p.Implementers("Statement") {
		tn := strings.TrimPrefix(p.TypeStr(st), "*")
		n++
		key := "statement kind " + tn
		if fn, ok := built[tn]; ok {
			c.OK("C01.dispatch", key, 0, "built by "+fn)
		} else if why, ok := neverParsed[tn]; ok {
			c.OK("C01.dispatch", key, 0, "exception: "+why)
		} else {
			c.Bad("C01.dispatch", key, 0, "no parse function builds this statement kind: its syntax is not accepted")
		}
	}
	c.Floor("C01.dispatch", n, 45)
	// reachability from init
	refs := p.refGraph()
	var inits []*types.Func
	for f := range p.FuncDecls {
		if f.Name() == "init" {
			inits = append(inits, f)
		}
	}
	reach := reachable(refs, inits)
	var names []string
	for f := range p.FuncDecls {
		if recvTypeName(f) == "Parser" && strings.HasPrefix(f.Name(), "parse") && strings.HasSuffix(f.Name(), "Statement") {
			names = append(names, f.Name())
			if !reach[f] {
				c.Bad("C01.dispatch", "(*Parser)."+f.Name()+" reachable from the dispatch tree", f.Pos(), "a statement parser no handler leads to: its statement can never be parsed")
			} else {
				c.OK("C01.dispatch", "(*Parser)."+f.Name()+" reachable from the dispatch tree", f.Pos(), "")
			}
		}
	}
	sort.Strings(names)
	if bad := eofRegistered(p, tt); bad != "" {
		c.Bad("C01.dispatch", "registration tokens are keywords", 0, bad)
	} else {
		c.OK("C01.dispatch", "registration tokens are keywords", 0, "every Group/Handle token is a keyword constant")
	}
}

// tablesC01: the finite tables the descent relies on.
func tablesC01(c *Ctx) {
	p := c.P
	tt := p.tokenTable()
	s := p.newSCCP()

	// ---- keywords ----
	c.Rule("C01.keywords", "every token strictly between keywordBeg and keywordEnd has a non-empty, unique, upper-case spelling; Lookup lower-cases its argument before the table read (keywords are case-insensitive) and answers IDENT for anything else; the keyword table is filled from exactly that token range plus AND, OR, true, false")
	seen := map[string]string{}
	nk := 0
	for _, v := range tt.Values {
		if v <= tt.ByName["keywordBeg"] || v >= tt.ByName["keywordEnd"] {
			continue
		}
		nk++
		sp := tt.Spelling[v]
		key := "keyword " + tt.Name[v]
		switch {
		case sp == "":
			c.Bad("C01.keywords", key, 0, "no spelling in the token table: the keyword can never be recognised")
		case sp != strings.ToUpper(sp):
			c.Bad("C01.keywords", key, 0, "spelling "+sp+" is not upper case")
		case seen[sp] != "":
			c.Bad("C01.keywords", key, 0, "spelling "+sp+" is shared with "+seen[sp])
		default:
			c.OK("C01.keywords", key, 0, sp)
		}
		seen[sp] = tt.Name[v]
	}
	c.Floor("C01.keywords", nk, 70)
	if lk := p.SSAFunc(p.Func("Lookup")); lk != nil {
		lower := false
		retIdent := false
		// the key the table is read with, for a mixed-case argument
		run := p.newSCCP().run(lk, []cval{cConst(constant.MakeString("SeLeCt"))}, 0)
		for _, b := range lk.Blocks {
			for _, in := range b.Instrs {
				switch x := in.(type) {
				case *ssa.Lookup:
					if k := run.get(x.Index); k.isPlain() && k.v.Kind() == constant.String && constant.StringVal(k.v) == "select" {
						lower = true
					}
				case *ssa.Return:
					if k, ok := x.Results[0].(*ssa.Const); ok && k.Value != nil {
						v, _ := constant.Int64Val(constant.ToInt(k.Value))
						if tt.Name[v] == "IDENT" {
							retIdent = true
						}
					}
				}
			}
		}
		c.Check(lower && retIdent, "C01.keywords", "Lookup: case-insensitive, IDENT otherwise", lk.Pos(), fmt.Sprintf("lower-cases before the read=%v, returns IDENT on a miss=%v", lower, retIdent))
	}
	// the init loop that fills the table
	if initf := p.SPkg.Func("init"); initf != nil {
		okLoop, okExtras := false, 0
		for _, f := range append([]*ssa.Function{initf}, p.allSSAFuncs()...) {
			if !isInitFunc(f.Name()) {
				continue
			}
			for _, b := range f.Blocks {
				for _, in := range b.Instrs {
					mu, ok := in.(*ssa.MapUpdate)
					if !ok {
						continue
					}
					if _, fld, ok := fieldRef(mu.Map); ok {
						_ = fld
					}
					ld, isLoad := mu.Map.(*ssa.UnOp)
					if !isLoad {
						continue
					}
					if g, ok := ld.X.(*ssa.Global); !ok || g.Name() != "keywords" {
						continue
					}
					switch val := mu.Value.(type) {
					case *ssa.Phi:
						// loop variable: starts at keywordBeg+1, bounded by keywordEnd
						lo, hi := int64(-1), int64(-1)
						for _, e := range val.Edges {
							if k, ok := e.(*ssa.Const); ok && k.Value != nil {
								lo, _ = constant.Int64Val(constant.ToInt(k.Value))
							}
						}
						for _, ref := range *val.Referrers() {
							if bo, ok := ref.(*ssa.BinOp); ok && bo.Op == token.LSS {
								if k, ok := bo.Y.(*ssa.Const); ok && k.Value != nil {
									hi, _ = constant.Int64Val(constant.ToInt(k.Value))
								}
							}
						}
						if lo == tt.ByName["keywordBeg"]+1 && hi == tt.ByName["keywordEnd"] {
							okLoop = true
						}
					case *ssa.Const:
						okExtras++
					default:
						okExtras++
					}
				}
			}
		}
		if okLoop {
			c.OK("C01.keywords", "init: table filled from keywordBeg+1 .. keywordEnd-1", initf.Pos(), "loop bounds are the keyword range")
		} else {
			c.Unk("C01.keywords", "init: table filled from keywordBeg+1 .. keywordEnd-1", initf.Pos(), "no loop over keywordBeg+1..keywordEnd-1 storing directly into the keyword table was recognised")
		}
		if okExtras >= 3 {
			c.OK("C01.keywords", "init: AND, OR, true, false added", initf.Pos(), fmt.Sprintf("%d additional entries", okExtras))
		} else {
			c.Unk("C01.keywords", "init: AND, OR, true, false added", initf.Pos(), "additional entries not recognised")
		}
	}

	// ---- casts ----
	c.Rule("C01.casts", "the cast names are mutual inverses on every data type: DataTypeFromString(DataType.String(d)) = d, evaluated by constant propagation for each data type constant")
	dt := p.Named("DataType")
	strM, fromS := p.Method("DataType", "String"), p.Func("DataTypeFromString")
	if dt != nil && strM != nil && fromS != nil {
		sc := p.Types.Scope()
		n := 0
		for _, name := range sc.Names() {
			k, ok := sc.Lookup(name).(*types.Const)
			if !ok || !types.Identical(k.Type(), dt) {
				continue
			}
			v, _ := constant.Int64Val(k.Val())
			n++
			sv, ok := s.evalConst(strM, cConst(constant.MakeInt64(v)))
			key := "cast name of " + name
			if !ok || !sv.isPlain() {
				c.Unk("C01.casts", key, strM.Pos(), "String is not a constant function of the type")
				continue
			}
			back, ok := s.evalConstInt(fromS, sv)
			if name == "Unknown" {
				c.Check(ok && back == v, "C01.casts", key, strM.Pos(), "unknown must map back to Unknown")
				continue
			}
			if !ok || back != v {
				c.Bad("C01.casts", key, strM.Pos(), fmt.Sprintf("prints as %s, which reads back as type %d (want %d)", sv.String(), back, v))
			} else {
				c.OK("C01.casts", key, strM.Pos(), sv.String())
			}
		}
		c.Floor("C01.casts", n, 9)
	} else {
		c.Unk("C01.casts", "DataType", 0, "anchors not found")
	}

	castFoldC01(c, tt)
	opPairsC01(c, tt)
	// ---- literals ----
	literalsC01(c, tt)
	// ---- segments ----
	segmentsC01(c)
}

// literalsC01: first token of a unary expression -> node kind.
func literalsC01(c *Ctx, tt *tokenTable) {
	p := c.P
	c.Rule("C01.literals", "parseUnaryExpr, evaluated with its first token bound to each literal-introducing token, builds the node kind that token denotes: STRING a StringLiteral, NUMBER a NumberLiteral, INTEGER an Integer- or UnsignedLiteral, TRUE/FALSE a BooleanLiteral whose value is true exactly for TRUE, DURATIONVAL a DurationLiteral, * a Wildcard, REGEX a RegexLiteral, ( a ParenExpr, IDENT a VarRef or Call")
	pu := p.SSAFunc(p.Method("Parser", "parseUnaryExpr"))
	scanWS := p.SSAFunc(p.Method("Parser", "ScanIgnoreWhitespace"))
	if pu == nil || scanWS == nil {
		c.Unk("C01.literals", "(*Parser).parseUnaryExpr", 0, "anchor not found")
		return
	}
	tag := switchTag(pu, 8)
	var first *ssa.Call
	for _, in := range pu.Blocks[0].Instrs {
		if call, ok := in.(*ssa.Call); ok && call.Call.StaticCallee() == scanWS {
			first = call
			break
		}
	}
	if tag == nil || first == nil {
		c.Unk("C01.literals", "(*Parser).parseUnaryExpr: token switch", pu.Pos(), "no token switch found")
		return
	}
	want := map[string][]string{
		"STRING": {"*StringLiteral"}, "NUMBER": {"*NumberLiteral"}, "INTEGER": {"*IntegerLiteral", "*UnsignedLiteral"},
		"TRUE": {"*BooleanLiteral"}, "FALSE": {"*BooleanLiteral"}, "DURATIONVAL": {"*DurationLiteral"},
		"MUL": {"*Wildcard"}, "REGEX": {"*RegexLiteral"}, "LPAREN": {"*ParenExpr"}, "IDENT": {"*Call", "*VarRef"},
	}
	tsets := p.newTypeSets()
	names := make([]string, 0, len(want))
	for k := range want {
		names = append(names, k)
	}
	sort.Strings(names)
	for _, tn := range names {
		tv := tt.ByName[tn]
		s := p.newSCCP()
		s.override = map[ssa.Value]cval{tag: cConst(constant.MakeInt64(tv))}
		s.hook = func(call *ssa.Call, args []cval) ([]cval, bool) {
			if call == first {
				return []cval{cConst(constant.MakeInt64(tv)), cTop, cTop}, true
			}
			return nil, false
		}
		got := map[string]bool{}
		var boolVals []string
		for _, rp := range s.Eval(pu, nil) {
			if len(rp.Results) != 2 || rp.Results[0].nilc {
				continue
			}
			set := tsets.of(rp.Instr.Results[0], map[ssa.Value]bool{})
			if set.top {
				got["<any>"] = true
			}
			for n := range set.types {
				got[n] = true
			}
			if tn == "TRUE" || tn == "FALSE" {
				boolVals = append(boolVals, describeBoolLit(p, rp.Instr.Results[0]))
			}
		}
		key := "(*Parser).parseUnaryExpr: first token " + tn
		delete(got, "nil") // the nil a helper returns next to its error
		if got["<any>"] {
			c.Unk("C01.literals", key, pu.Pos(), "the node comes out of a call whose result kinds are not bounded")
			continue
		}
		okSet := len(got) > 0
		for n := range got {
			in := false
			for _, w := range want[tn] {
				if w == n {
					in = true
				}
			}
			if !in {
				okSet = false
			}
		}
		c.Check(okSet, "C01.literals", key, pu.Pos(), fmt.Sprintf("builds %v, the token denotes %v", keysOf(got), want[tn]))
	}
	// the boolean value is decided by the token: Val: tok == TRUE
	for _, b := range pu.Blocks {
		for _, in := range b.Instrs {
			st, ok := in.(*ssa.Store)
			if !ok {
				continue
			}
			fa, ok := st.Addr.(*ssa.FieldAddr)
			if !ok || p.TypeStr(fa.X.Type()) != "*BooleanLiteral" {
				continue
			}
			bo, ok := st.Val.(*ssa.BinOp)
			okB := false
			if ok && bo.Op == token.EQL {
				if k, ok := bo.Y.(*ssa.Const); ok && k.Value != nil {
					v, _ := constant.Int64Val(constant.ToInt(k.Value))
					okB = tt.Name[v] == "TRUE"
				}
			}
			c.Check(okB, "C01.literals", "(*Parser).parseUnaryExpr: BooleanLiteral.Val = (token is TRUE)", st.Pos(), "the literal's value must be true exactly for the TRUE token")
		}
	}
	// sign table
	for _, b := range pu.Blocks {
		for _, in := range b.Instrs {
			phi, ok := in.(*ssa.Phi)
			if !ok || phi.Comment != "mul" {
				continue
			}
			vals := map[int64]bool{}
			for _, e := range phi.Edges {
				if k, ok := e.(*ssa.Const); ok && k.Value != nil {
					n, _ := constant.Int64Val(constant.ToInt(k.Value))
					vals[n] = true
				}
			}
			c.Check(len(vals) == 2 && vals[1] && vals[-1], "C01.literals", "(*Parser).parseUnaryExpr: sign multiplier is +1 / -1", phi.Pos(), fmt.Sprintf("multipliers %v", vals))
		}
	}
}

// segmentsC01: segmented names are right-aligned.
func segmentsC01(c *Ctx) {
	p := c.P
	c.Rule("C01.segments", "in parseSource and parseTarget the identifier segments fill database / retention policy / name right-aligned: with k segments the last is the name (or, when a regex takes the name's place, the retention policy), the one before it the retention policy, the first of three the database; INTO targets are marked IsTarget")
	order := []string{"Database", "RetentionPolicy", "Name"}
	for _, fname := range []string{"parseSource", "parseTarget"} {
		m := p.Method("Parser", fname)
		if m == nil {
			c.Unk("C01.segments", "(*Parser)."+fname, 0, "anchor not found")
			continue
		}
		fd := p.FuncDecls[m]
		n := 0
		check := func(k int, lhs, rhs []ast.Expr, regexBranch bool, pos token.Pos) {
			for i, l := range lhs {
				sel, ok := ast.Unparen(l).(*ast.SelectorExpr)
				if !ok || i >= len(rhs) {
					continue
				}
				ix, ok := ast.Unparen(rhs[i]).(*ast.IndexExpr)
				if !ok {
					continue
				}
				tv := p.Info.Types[ix.Index]
				if tv.Value == nil {
					continue
				}
				idx, _ := constant.Int64Val(constant.ToInt(tv.Value))
				// expected field for segment idx of k
				slots := order
				if regexBranch {
					slots = order[:2] // the regex stands for the name
				}
				off := len(slots) - k
				want := "?"
				if int(idx)+off >= 0 && int(idx)+off < len(slots) {
					want = slots[int(idx)+off]
				}
				n++
				key := fmt.Sprintf("(*Parser).%s: %d segments, regex=%v: segment %d", fname, k, regexBranch, idx)
				c.Check(sel.Sel.Name == want, "C01.segments", key, pos, fmt.Sprintf("stored into %s, right-aligned layout puts it into %s", sel.Sel.Name, want))
			}
		}
		var walk func(n ast.Node, k int, regex bool)
		walk = func(nd ast.Node, k int, regex bool) {
			ast.Inspect(nd, func(m ast.Node) bool {
				switch x := m.(type) {
				case *ast.SwitchStmt:
					if call, ok := x.Tag.(*ast.CallExpr); ok && len(call.Args) == 1 {
						if id := identOf(call.Fun); id != nil && id.Name == "len" {
							for _, cl := range x.Body.List {
								cc := cl.(*ast.CaseClause)
								if len(cc.List) != 1 {
									continue
								}
								tv := p.Info.Types[cc.List[0]]
								if tv.Value == nil {
									continue
								}
								kk, _ := constant.Int64Val(constant.ToInt(tv.Value))
								for _, s := range cc.Body {
									walk(s, int(kk), regex)
								}
							}
							return false
						}
					}
				case *ast.IfStmt:
					// len(idents) == 3 { ... }
					if b, ok := x.Cond.(*ast.BinaryExpr); ok && b.Op == token.EQL {
						if call, ok := b.X.(*ast.CallExpr); ok {
							if id := identOf(call.Fun); id != nil && id.Name == "len" {
								if tv := p.Info.Types[b.Y]; tv.Value != nil {
									kk, _ := constant.Int64Val(constant.ToInt(tv.Value))
									walk(x.Body, int(kk), regex)
									if x.Else != nil {
										walk(x.Else, k, regex)
									}
									return false
								}
							}
						}
					}
					// re != nil { regex branch } else { plain }
					if b, ok := x.Cond.(*ast.BinaryExpr); ok && b.Op == token.NEQ && types.ExprString(b.Y) == "nil" && k > 0 {
						if t := p.Info.TypeOf(b.X); t != nil && p.TypeStr(t) == "*RegexLiteral" {
							walk(x.Body, k, true)
							if x.Else != nil {
								walk(x.Else, k, false)
							}
							return false
						}
					}
				case *ast.AssignStmt:
					if k > 0 {
						check(k, x.Lhs, x.Rhs, regex, x.Pos())
					}
				}
				return true
			})
		}
		walk(fd.Body, 0, false)
		c.Floor("C01.segments", n, 4)
		if fname == "parseTarget" {
			isT := false
			ast.Inspect(fd.Body, func(m ast.Node) bool {
				if kv, ok := m.(*ast.KeyValueExpr); ok {
					if id, ok := kv.Key.(*ast.Ident); ok && id.Name == "IsTarget" {
						if tv := p.Info.Types[kv.Value]; tv.Value != nil && tv.Value.Kind() == constant.Bool && constant.BoolVal(tv.Value) {
							isT = true
						}
					}
				}
				return true
			})
			c.Check(isT, "C01.segments", "(*Parser).parseTarget: IsTarget set", fd.Pos(), "the INTO measurement must be marked IsTarget: true")
		}
	}
}

// castFoldC01: the type word after `::` is matched whatever its case.
func castFoldC01(c *Ctx, tt *tokenTable) {
	p := c.P
	c.Rule("C01.castfold", "ParseVarRef, evaluated with the token after `::` bound to IDENT and its text to each cast name in lower, upper and mixed case, stores the same data type for all three spellings: the cast names are words of a case-insensitive language, like every keyword")
	f := p.SSAFunc(p.Method("Parser", "ParseVarRef"))
	scan := p.SSAFunc(p.Method("Parser", "Scan"))
	strM := p.SSAFunc(p.Method("DataType", "String"))
	dt := p.Named("DataType")
	if f == nil || scan == nil || strM == nil || dt == nil {
		c.Unk("C01.castfold", "(*Parser).ParseVarRef", 0, "anchors not found")
		return
	}
	var scans []*ssa.Call
	for _, b := range f.Blocks {
		for _, in := range b.Instrs {
			if call, ok := in.(*ssa.Call); ok && call.Call.StaticCallee() == scan {
				scans = append(scans, call)
			}
		}
	}
	if len(scans) < 2 {
		c.Unk("C01.castfold", "(*Parser).ParseVarRef: scans", f.Pos(), "the `::` probe and the scan of the type word were not found")
		return
	}
	var typeStores []*ssa.Store
	for _, b := range f.Blocks {
		for _, in := range b.Instrs {
			if st, ok := in.(*ssa.Store); ok {
				if fa, ok := st.Addr.(*ssa.FieldAddr); ok && fieldNameOf(fa) == "Type" && p.TypeStr(fa.X.Type()) == "*VarRef" {
					typeStores = append(typeStores, st)
				}
			}
		}
	}
	eval := func(word string) (int64, bool) {
		s := p.newSCCP()
		s.hook = func(call *ssa.Call, args []cval) ([]cval, bool) {
			if call == scans[0] {
				return []cval{tt.cv("DOUBLECOLON"), cTop, cTop}, true
			}
			if call.Call.StaticCallee() == scan {
				return []cval{tt.cv("IDENT"), cTop, cConst(constant.MakeString(word))}, true
			}
			return nil, false
		}
		r := s.run(f, nil, 0)
		for _, st := range typeStores {
			if !r.execB[st.Block().Index] {
				continue
			}
			if v := r.get(st.Val); v.isPlain() {
				n, ok := constant.Int64Val(constant.ToInt(v.v))
				return n, ok
			}
		}
		return 0, false
	}
	sc := p.Types.Scope()
	n := 0
	s0 := p.newSCCP()
	for _, name := range sc.Names() {
		k, ok := sc.Lookup(name).(*types.Const)
		if !ok || !types.Identical(k.Type(), dt) {
			continue
		}
		v, _ := constant.Int64Val(k.Val())
		sv, ok := s0.evalConst(p.Method("DataType", "String"), cConst(constant.MakeInt64(v)))
		if !ok || !sv.isPlain() || sv.v.Kind() != constant.String {
			continue
		}
		word := constant.StringVal(sv.v)
		lo, okLo := eval(word)
		if !okLo || lo != v {
			continue // not a cast name ParseVarRef reads as an identifier (field, tag, unknown)
		}
		n++
		key := "ParseVarRef: ::" + word
		up, okUp := eval(strings.ToUpper(word))
		mx, okMx := eval(strings.ToUpper(word[:1]) + word[1:])
		if okUp && okMx && up == lo && mx == lo {
			c.OK("C01.castfold", key, f.Pos(), "lower, upper and mixed case give the same type")
		} else {
			c.Bad("C01.castfold", key, f.Pos(), "the type word is matched case-sensitively: ::"+strings.ToUpper(word)+" does not give the type ::"+word+" gives")
		}
	}
	c.Floor("C01.castfold", n, 5)
}

// opPairsC01: a clause that accepts =, != and =~ accepts !~ as well.
func opPairsC01(c *Ctx, tt *tokenTable) {
	p := c.P
	c.Rule("C01.oppairs", "in every parse function that compares a scanned token with the comparison operators, the set it accepts is closed under negation as far as it goes: where `=`, `!=` and one of `=~` / `!~` are accepted, so is the other (WITH KEY !~ /re/ is as legal as WITH KEY =~ /re/)")
	n := 0
	for _, fb := range p.funcBodies() {
		if fb.Lit != nil || !parserTypes[recvTypeName(fb.Decl)] {
			continue
		}
		seen := map[string]token.Pos{}
		note := func(e ast.Expr) {
			tv, ok := p.Info.Types[e]
			if !ok || tv.Value == nil || !types.Identical(tv.Type, tt.Type) {
				return
			}
			v, _ := constant.Int64Val(constant.ToInt(tv.Value))
			if nm := tt.Name[v]; nm == "EQ" || nm == "NEQ" || nm == "EQREGEX" || nm == "NEQREGEX" {
				if _, has := seen[nm]; !has {
					seen[nm] = e.Pos()
				}
			}
		}
		ast.Inspect(fb.Body, func(nd ast.Node) bool {
			switch x := nd.(type) {
			case *ast.BinaryExpr:
				if x.Op == token.EQL {
					note(x.X)
					note(x.Y)
				}
			case *ast.CaseClause:
				for _, e := range x.List {
					note(e)
				}
			}
			return true
		})
		if len(seen) == 0 {
			continue
		}
		_, eq := seen["EQ"]
		_, neq := seen["NEQ"]
		_, re := seen["EQREGEX"]
		_, nre := seen["NEQREGEX"]
		if !(eq && neq && (re || nre)) {
			continue
		}
		n++
		key := fb.Name + ": comparison operators accepted"
		switch {
		case re && nre:
			c.OK("C01.oppairs", key, seen["EQ"], "=, !=, =~ and !~")
		case re:
			c.Bad("C01.oppairs", key, seen["EQREGEX"], "=, != and =~ are accepted but !~ is not: the negated regex form of the clause is rejected")
		default:
			c.Bad("C01.oppairs", key, seen["NEQREGEX"], "=, != and !~ are accepted but =~ is not: the regex form of the clause is rejected")
		}
	}
	c.Floor("C01.oppairs", n, 1)
}

// openerRule: a keyword that opens a group of optional clauses is not left
// dangling.
func openerRule(c *Ctx, rule string) {
	p := c.P
	c.Rule(rule, "where a printer writes a group keyword (WITH) under a flag and then nothing but individually guarded members, no member that the parser stores by value (a duration, a name) is guarded by a zero test of that value: the parser accepts the zero value (`SHARD DURATION 0s`, `NAME \"\"`), the member then prints nothing, and if it was the only one the keyword stands alone and the text does not parse")
	n := 0
	for _, fb := range p.funcBodies() {
		if fb.Lit != nil || fb.Decl.Name() != "String" {
			continue
		}
		fb := fb
		fd := p.FuncDecls[fb.Decl]
		if fd == nil || fd.Recv == nil || len(fd.Recv.List) == 0 || len(fd.Recv.List[0].Names) == 0 {
			continue
		}
		recv := p.Info.Defs[fd.Recv.List[0].Names[0]]
		ast.Inspect(fb.Body, func(nd ast.Node) bool {
			is, ok := nd.(*ast.IfStmt)
			if !ok || is.Else != nil || len(is.Body.List) < 2 {
				return true
			}
			// the flag: a bool field of the receiver
			sel, ok := ast.Unparen(is.Cond).(*ast.SelectorExpr)
			if !ok {
				return true
			}
			if id := identOf(sel.X); id == nil || p.Info.ObjectOf(id) != recv {
				return true
			}
			if b, ok := p.Info.TypeOf(sel).Underlying().(*types.Basic); !ok || b.Kind() != types.Bool {
				return true
			}
			// first statement writes a constant ending in a keyword, the rest are ifs
			kw := ""
			ast.Inspect(is.Body.List[0], func(m ast.Node) bool {
				if e, ok := m.(ast.Expr); ok {
					if tv := p.Info.Types[e]; tv.Value != nil && tv.Value.Kind() == constant.String {
						w := strings.Fields(constant.StringVal(tv.Value))
						if len(w) > 0 && w[len(w)-1] == strings.ToUpper(w[len(w)-1]) && len(w[len(w)-1]) > 1 {
							kw = w[len(w)-1]
						}
					}
				}
				return true
			})
			if kw == "" {
				return true
			}
			var vanishing []string
			for _, st := range is.Body.List[1:] {
				m, ok := st.(*ast.IfStmt)
				if !ok {
					return true // an unconditional member follows: the keyword never stands alone
				}
				be, ok := ast.Unparen(m.Cond).(*ast.BinaryExpr)
				if !ok {
					continue
				}
				fsel, ok := ast.Unparen(be.X).(*ast.SelectorExpr)
				if !ok {
					continue
				}
				if id := identOf(fsel.X); id == nil || p.Info.ObjectOf(id) != recv {
					continue
				}
				ft := p.Info.TypeOf(fsel)
				if _, isPtr := ft.Underlying().(*types.Pointer); isPtr {
					continue
				}
				if tv := p.Info.Types[be.Y]; tv.Value != nil && (be.Op == token.GTR || be.Op == token.NEQ) {
					zero := false
					switch tv.Value.Kind() {
					case constant.Int, constant.Float:
						zero = constant.Sign(tv.Value) == 0
					case constant.String:
						zero = constant.StringVal(tv.Value) == ""
					}
					if zero {
						vanishing = append(vanishing, fsel.Sel.Name)
					}
				}
			}
			n++
			key := fmt.Sprintf("%s: group opened by %s under %s", fb.Name, kw, sel.Sel.Name)
			if len(vanishing) > 0 {
				c.Bad(rule, key, is.Pos(), "members "+strings.Join(vanishing, ", ")+" print nothing for the zero value the parser accepts: given alone with that value, the text ends in a bare "+kw)
			} else {
				c.OK(rule, key, is.Pos(), "every member that is given is printed")
			}
			return true
		})
	}
	c.OK(rule, "keyword groups examined", 0, fmt.Sprintf("%d", n))
}
