package main

import (
	"path/filepath"
	"fmt"
	"go/token"
	"go/types"

	"golang.org/x/tools/go/ssa"
)

// intConv is one integer-to-integer conversion of a non-constant value.
type intConv struct {
	fn       *ssa.Function
	conv     *ssa.Convert
	from, to *types.Basic
	lossy    bool // some value of the source type is not representable in the target
}

func intBits(b *types.Basic) (bits int, signed bool, ok bool) {
	switch b.Kind() {
	case types.Int8:
		return 8, true, true
	case types.Int16:
		return 16, true, true
	case types.Int32:
		return 32, true, true
	case types.Int64, types.Int:
		return 64, true, true
	case types.Uint8:
		return 8, false, true
	case types.Uint16:
		return 16, false, true
	case types.Uint32:
		return 32, false, true
	case types.Uint64, types.Uint, types.Uintptr:
		return 64, false, true
	}
	return 0, false, false
}

// intConversions lists every conversion between integer types of a
// non-constant value in the package's source functions (closures included).
func (p *Program) intConversions() []intConv {
	var out []intConv
	var visit func(fn *ssa.Function)
	visit = func(fn *ssa.Function) {
		for _, b := range fn.Blocks {
			for _, in := range b.Instrs {
				cv, ok := in.(*ssa.Convert)
				if !ok {
					continue
				}
				fb, ok1 := cv.X.Type().Underlying().(*types.Basic)
				tb, ok2 := cv.Type().Underlying().(*types.Basic)
				if !ok1 || !ok2 {
					continue
				}
				fbits, fs, ok1 := intBits(fb)
				tbits, ts, ok2 := intBits(tb)
				if !ok1 || !ok2 {
					continue
				}
				if _, isConst := cv.X.(*ssa.Const); isConst {
					continue
				}
				lossy := false
				switch {
				case fs == ts:
					lossy = tbits < fbits
				case fs && !ts:
					lossy = true // negative values
				case !fs && ts:
					lossy = tbits <= fbits
				}
				out = append(out, intConv{fn: fn, conv: cv, from: fb, to: tb, lossy: lossy})
			}
		}
		for _, an := range fn.AnonFuncs {
			visit(an)
		}
	}
	for _, fn := range p.SrcFuncs() {
		visit(fn)
	}
	return out
}

func lossyInt(from, to types.Type) bool {
	fb, ok1 := from.Underlying().(*types.Basic)
	tb, ok2 := to.Underlying().(*types.Basic)
	if !ok1 || !ok2 {
		return false
	}
	fbits, fs, ok1 := intBits(fb)
	tbits, ts, ok2 := intBits(tb)
	if !ok1 || !ok2 {
		return false
	}
	switch {
	case fs == ts:
		return tbits < fbits
	case fs && !ts:
		return true
	default:
		return tbits <= fbits
	}
}

// pinnedByEquality: the converted value is compared for equality with a
// constant in a block that dominates the conversion (the value is one known
// number there).
func pinnedByEquality(cv *ssa.Convert) bool {
	src := cv.X
	if u, ok := src.(*ssa.UnOp); ok && u.Op == token.SUB {
		src = u.X
	}
	for _, b := range cv.Block().Parent().Blocks {
		if len(b.Instrs) == 0 {
			continue
		}
		ifi, ok := b.Instrs[len(b.Instrs)-1].(*ssa.If)
		if !ok {
			continue
		}
		cmp, ok := ifi.Cond.(*ssa.BinOp)
		if !ok || cmp.Op != token.EQL {
			continue
		}
		same := func(v ssa.Value) bool {
			if v == src {
				return true
			}
			// two loads of the same field
			a, ok1 := v.(*ssa.UnOp)
			b2, ok2 := src.(*ssa.UnOp)
			if ok1 && ok2 && a.Op == token.MUL && b2.Op == token.MUL {
				fa, ok1 := a.X.(*ssa.FieldAddr)
				fb, ok2 := b2.X.(*ssa.FieldAddr)
				return ok1 && ok2 && fa.X == fb.X && fa.Field == fb.Field
			}
			return false
		}
		_, cy := cmp.Y.(*ssa.Const)
		_, cx := cmp.X.(*ssa.Const)
		if !((same(cmp.X) && cy) || (same(cmp.Y) && cx)) {
			continue
		}
		if b.Succs[0].Dominates(cv.Block()) && b.Succs[0] != b.Succs[1] && len(b.Succs[0].Preds) == 1 {
			return true
		}
	}
	return false
}

// strconvRule: every strconv call that turns literal text into a number or a
// number into text agrees with the Go type of the value on base, size and
// signedness.
func strconvRule(c *Ctx, rule string) {
	p := c.P
	c.Rule(rule, "every strconv call in the package reads and prints numbers in base 10 at 64 bits, the value handed to FormatInt/FormatUint/Itoa reaches it without a conversion that can change it (signed to unsigned, wider to narrower), and the number ParseInt/ParseUint/Atoi returns is not converted that way afterwards unless an equality test with a constant pins it: a base of 0 reads 010 as 8, FormatUint of a negative int64 prints 2^64-n, int64 of a ParseUint result wraps above 2^63")
	n := 0
	constIs := func(v ssa.Value, want string) (known, ok bool) {
		k, isC := v.(*ssa.Const)
		if !isC || k.Value == nil {
			return false, false
		}
		return true, k.Value.ExactString() == want
	}
	var visit func(fn *ssa.Function)
	visit = func(fn *ssa.Function) {
		ord := map[string]int{}
		for _, b := range fn.Blocks {
			for _, in := range b.Instrs {
				call, ok := in.(*ssa.Call)
				if !ok || call.Call.StaticCallee() == nil || call.Call.StaticCallee().Pkg == nil || call.Call.StaticCallee().Pkg.Pkg.Path() != "strconv" {
					continue
				}
				name := call.Call.StaticCallee().Name()
				ord[name]++
				key := fmt.Sprintf("%s: strconv.%s #%d", ssaFuncName(fn), name, ord[name])
				args := call.Call.Args
				n++
				bad, unk := "", ""
				chkConst := func(i int, want, what string) {
					if i >= len(args) {
						return
					}
					known, ok := constIs(args[i], want)
					if !known {
						unk = what + " is not a constant"
					} else if !ok {
						bad = what + " " + args[i].(*ssa.Const).Value.ExactString() + " where the lexer's digits are decimal and the literal types are 64 bits wide (want " + want + ")"
					}
				}
				argConv := func(i int) {
					if cv, ok := args[i].(*ssa.Convert); ok && lossyInt(cv.X.Type(), cv.Type()) && !pinnedByEquality(cv) {
						bad = "the value is converted " + cv.X.Type().String() + " -> " + cv.Type().String() + " on the way in: values outside the target's range print as a different number"
					}
				}
				resConv := func() {
					for _, r := range *call.Referrers() {
						ex, ok := r.(*ssa.Extract)
						if !ok || ex.Index != 0 {
							continue
						}
						for _, rr := range *ex.Referrers() {
							if cv, ok := rr.(*ssa.Convert); ok && lossyInt(cv.X.Type(), cv.Type()) && !pinnedByEquality(cv) {
								bad = "the parsed number is then converted " + cv.X.Type().String() + " -> " + cv.Type().String() + ": results outside the target's range wrap silently"
							}
						}
					}
				}
				switch name {
				case "ParseInt", "ParseUint":
					chkConst(1, "10", "base")
					chkConst(2, "64", "size")
					resConv()
				case "ParseFloat":
					chkConst(1, "64", "size")
				case "Atoi":
					resConv()
				case "FormatInt", "FormatUint":
					chkConst(1, "10", "base")
					argConv(0)
				case "Itoa":
					argConv(0)
				case "FormatFloat":
					chkConst(3, "64", "size")
					chkConst(2, "-1", "precision")
				default:
					continue
				}
				switch {
				case bad != "":
					c.Bad(rule, key, call.Pos(), bad)
				case unk != "":
					c.Unk(rule, key, call.Pos(), unk)
				default:
					c.OK(rule, key, call.Pos(), "base 10 / 64 bits, no value-changing conversion at the call")
				}
			}
		}
		for _, an := range fn.AnonFuncs {
			visit(an)
		}
	}
	for _, fn := range p.SrcFuncs() {
		visit(fn)
	}
	c.Floor(rule, n, 30)
}

// charWidthRule: characters read from the text are stored at full width.
func charWidthRule(c *Ctx, rule string) {
	p := c.P
	c.Rule(rule, "in the lexer (scanner.go: Scanner, reader, the Scan* functions) every character written to a token's text is written at full width: WriteRune of the rune that was read, never WriteByte (or any 8-bit conversion) of it — a conversion to byte keeps only the low 8 bits, so µ (U+00B5), é and every other non-ASCII character of a regex, string, identifier or duration unit becomes a different byte sequence (often invalid UTF-8)")
	n := 0
	var visit func(fn *ssa.Function)
	visit = func(fn *ssa.Function) {
		ord := 0
		for _, b := range fn.Blocks {
			for _, in := range b.Instrs {
				switch x := in.(type) {
				case *ssa.Call:
					callee := x.Call.StaticCallee()
					if callee == nil || callee.Pkg == nil || (callee.Pkg.Pkg.Path() != "bytes" && callee.Pkg.Pkg.Path() != "strings") {
						continue
					}
					if callee.Name() != "WriteRune" && callee.Name() != "WriteByte" {
						continue
					}
					arg := x.Call.Args[len(x.Call.Args)-1]
					if _, isC := arg.(*ssa.Const); isC {
						continue
					}
					ord++
					n++
					key := fmt.Sprintf("%s: %s #%d", ssaFuncName(fn), callee.Name(), ord)
					if cv, ok := arg.(*ssa.Convert); ok && lossyInt(cv.X.Type(), cv.Type()) && testedAlone(cv) {
						c.Unk(rule, key, x.Pos(), "writes a narrowed character under a test of that character alone: whether the test admits only ASCII is not evaluated")
					} else if ok && lossyInt(cv.X.Type(), cv.Type()) {
						c.Bad(rule, key, x.Pos(), "writes "+cv.X.Type().String()+" narrowed to "+cv.Type().String()+": a character above U+007F is stored as one wrong byte")
					} else {
						c.OK(rule, key, x.Pos(), "full-width write")
					}
				case *ssa.Convert:
					// a narrowed character that goes anywhere else (append to a []byte, a store)
					if !lossyInt(x.X.Type(), x.Type()) {
						continue
					}
					fb := x.X.Type().Underlying().(*types.Basic)
					tb := x.Type().Underlying().(*types.Basic)
					if fb.Kind() != types.Int32 || tb.Kind() != types.Uint8 {
						continue
					}
					direct := false
					for _, r := range *x.Referrers() {
						if call, ok := r.(*ssa.Call); ok && call.Call.StaticCallee() != nil && call.Call.StaticCallee().Name() == "WriteByte" {
							direct = true
						}
					}
					if direct {
						continue // reported at the write
					}
					ord++
					n++
					c.Bad(rule, fmt.Sprintf("%s: byte(rune) #%d", ssaFuncName(fn), ord), x.Pos(), "a character of the text is narrowed to one byte")
				}
			}
		}
		for _, an := range fn.AnonFuncs {
			visit(an)
		}
	}
	for _, fn := range p.SrcFuncs() {
		if filepath.Base(p.Fset.Position(fn.Pos()).Filename) == "scanner.go" {
			visit(fn)
		}
	}
	c.Floor(rule, n, 8)
}

// testedAlone: the conversion sits under the true edge of a single test of the
// converted value (a comparison with a constant or a predicate call on it).
func testedAlone(cv *ssa.Convert) bool {
	for _, b := range cv.Block().Parent().Blocks {
		if len(b.Instrs) == 0 {
			continue
		}
		ifi, ok := b.Instrs[len(b.Instrs)-1].(*ssa.If)
		if !ok {
			continue
		}
		uses := false
		switch cnd := ifi.Cond.(type) {
		case *ssa.BinOp:
			uses = cnd.X == cv.X || cnd.Y == cv.X
		case *ssa.Call:
			for _, a := range cnd.Call.Args {
				if a == cv.X {
					uses = true
				}
			}
		}
		if uses && len(b.Succs[0].Preds) == 1 && b.Succs[0].Dominates(cv.Block()) {
			return true
		}
	}
	return false
}

// nilErrRule: a method is called on an error value only where that value is
// known to be non-nil.
func nilErrRule(c *Ctx, rule string) {
	p := c.P
	c.Rule(rule, "every method call on a value of type error that a call returned (err.Error()) sits under a test that the value is not nil — the true edge of `err != nil` or the false edge of `err == nil`, alone or as a conjunct: a (value, nil) return is the normal case, and calling Error on the nil error panics")
	n := 0
	errT := types.Universe.Lookup("error").Type()
	var visit func(fn *ssa.Function)
	visit = func(fn *ssa.Function) {
		ord := 0
		for _, b := range fn.Blocks {
			for _, in := range b.Instrs {
				call, ok := in.(*ssa.Call)
				if !ok || !call.Call.IsInvoke() || !types.Identical(call.Call.Value.Type(), errT) {
					continue
				}
				v := call.Call.Value
				switch v.(type) {
				case *ssa.MakeInterface:
					continue
				}
				ord++
				n++
				key := fmt.Sprintf("%s: %s.%s() #%d", ssaFuncName(fn), valueName(v), call.Call.Method.Name(), ord)
				switch nonNilAt(v, b, 0) {
				case 1:
					c.OK(rule, key, call.Pos(), "under a non-nil test of the value")
				case -1:
					c.Bad(rule, key, call.Pos(), "the value can be nil here: no `!= nil` test of it holds on every path to the call (a callee's (value, nil) return reaches it)")
				default:
					c.Unk(rule, key, call.Pos(), "origin of the error value not followed")
				}
			}
		}
		for _, an := range fn.AnonFuncs {
			visit(an)
		}
	}
	for _, fn := range p.SrcFuncs() {
		visit(fn)
	}
	c.Floor(rule, n, 8)
}

func valueName(v ssa.Value) string {
	switch x := v.(type) {
	case *ssa.Extract:
		if call, ok := x.Tuple.(*ssa.Call); ok {
			if f := call.Call.StaticCallee(); f != nil {
				return "result of " + f.Name()
			}
			if call.Call.IsInvoke() {
				return "result of " + call.Call.Method.Name()
			}
		}
		return "call result"
	case *ssa.Call:
		if f := x.Call.StaticCallee(); f != nil {
			return "result of " + f.Name()
		}
		if x.Call.IsInvoke() {
			return "result of " + x.Call.Method.Name()
		}
		return "call result"
	case *ssa.Parameter:
		return x.Name()
	case *ssa.Phi:
		return x.Comment
	case *ssa.UnOp:
		if fa, ok := x.X.(*ssa.FieldAddr); ok {
			return "field " + fieldName(fa)
		}
		if g, ok := x.X.(*ssa.Global); ok {
			return g.Name()
		}
	}
	return "value"
}

func fieldName(fa *ssa.FieldAddr) string {
	t := fa.X.Type().Underlying().(*types.Pointer).Elem().Underlying().(*types.Struct)
	return t.Field(fa.Field).Name()
}

// nonNilAt: 1 when v is known non-nil on entry to block b, -1 when v is a call
// result (or a phi of such) with no such test, 0 otherwise.
func nonNilAt(v ssa.Value, b *ssa.BasicBlock, depth int) int {
	fn := b.Parent()
	// edges that establish v != nil
	isNilTest := func(cond ssa.Value) (eq bool, ok bool) {
		bo, isB := cond.(*ssa.BinOp)
		if !isB || (bo.Op != token.EQL && bo.Op != token.NEQ) {
			return false, false
		}
		kx, okx := bo.X.(*ssa.Const)
		ky, oky := bo.Y.(*ssa.Const)
		if (bo.X == v && oky && ky.Value == nil) || (bo.Y == v && okx && kx.Value == nil) {
			return bo.Op == token.EQL, true
		}
		return false, false
	}
	// forward: blocks reachable from entry without crossing an establishing edge
	reach := map[*ssa.BasicBlock]bool{}
	var walk func(x *ssa.BasicBlock)
	walk = func(x *ssa.BasicBlock) {
		if reach[x] {
			return
		}
		reach[x] = true
		if len(x.Instrs) > 0 {
			if ifi, ok := x.Instrs[len(x.Instrs)-1].(*ssa.If); ok {
				if eq, ok := isNilTest(ifi.Cond); ok {
					if eq {
						walk(x.Succs[0]) // v == nil: only the true edge keeps v possibly nil
					} else {
						walk(x.Succs[1])
					}
					return
				}
			}
		}
		for _, s := range x.Succs {
			walk(s)
		}
	}
	// start where v is defined
	start := fn.Blocks[0]
	if in, ok := v.(ssa.Instruction); ok && in.Block() != nil {
		start = in.Block()
	}
	if start == b {
		// defined in the same block as the use: no test between them
		reach[b] = true
	} else {
		walk(start)
	}
	if !reach[b] {
		return 1
	}
	switch x := v.(type) {
	case *ssa.Extract, *ssa.Call:
		return -1
	case *ssa.Phi:
		if depth > 2 {
			return 0
		}
		for _, e := range x.Edges {
			switch e.(type) {
			case *ssa.Extract, *ssa.Call:
				return -1
			}
		}
	}
	return 0
}

// fmtConstRule: text taken from a statement never serves as a format string.
func fmtConstRule(c *Ctx, rule string) {
	p := c.P
	c.Rule(rule, "every call of fmt.Sprintf, Fprintf, Errorf (and the other f-functions) in the package has a constant format string: text that comes from a statement (a printed expression, a condition) used as the format is re-interpreted — a `%` in it (the modulo operator, a LIKE-style string) swallows the next argument or prints as %!x(MISSING), so the printed statement no longer parses or means something else")
	n := 0
	var visit func(fn *ssa.Function)
	visit = func(fn *ssa.Function) {
		ord := 0
		for _, b := range fn.Blocks {
			for _, in := range b.Instrs {
				call, ok := in.(*ssa.Call)
				if !ok {
					continue
				}
				cal := call.Call.StaticCallee()
				if cal == nil || cal.Pkg == nil || cal.Pkg.Pkg.Path() != "fmt" {
					continue
				}
				idx := -1
				switch cal.Name() {
				case "Sprintf", "Errorf", "Printf":
					idx = 0
				case "Fprintf":
					idx = 1
				default:
					continue
				}
				ord++
				n++
				key := fmt.Sprintf("%s: fmt.%s #%d", ssaFuncName(fn), cal.Name(), ord)
				allConst := func(v ssa.Value) bool {
					if k, ok := v.(*ssa.Const); ok {
						return k.Value != nil
					}
					if ph, ok := v.(*ssa.Phi); ok {
						for _, e := range ph.Edges {
							if k, ok := e.(*ssa.Const); !ok || k.Value == nil {
								return false
							}
						}
						return len(ph.Edges) > 0
					}
					return false
				}
				if allConst(call.Call.Args[idx]) {
					c.OK(rule, key, call.Pos(), "constant format")
				} else {
					c.Bad(rule, key, call.Pos(), "the format string is computed at run time: any `%` in the text it is built from is taken as a verb")
				}
			}
		}
		for _, an := range fn.AnonFuncs {
			visit(an)
		}
	}
	for _, fn := range p.SrcFuncs() {
		visit(fn)
	}
	c.Floor(rule, n, 60)
}
