package main

import (
	"fmt"
	"go/ast"
	"go/constant"
	"go/token"
	"go/types"
	"sort"
	"strings"

	"golang.org/x/tools/go/ssa"
)

func init() { register("C07", rulesC07) }

// kindSpec: bound value kind -> token, as the property states
// (string, float, integer, boolean, duration, regex or name).
var kindSpec = map[string]string{
	"Identifier": "IDENT", "StringValue": "STRING", "RegexValue": "REGEX", "NumberValue": "NUMBER",
	"IntegerValue": "INTEGER", "DurationValue": "DURATIONVAL", "ErrorValue": "BOUNDPARAM",
}

// switchTag finds the SSA value compared for equality with the most constants
// (the tag of the function's main switch), requiring at least min of them.
func switchTag(f *ssa.Function, min int) ssa.Value {
	cnt := map[ssa.Value]int{}
	for _, b := range f.Blocks {
		for _, in := range b.Instrs {
			if bo, ok := in.(*ssa.BinOp); ok && bo.Op == token.EQL {
				if _, isC := bo.Y.(*ssa.Const); isC {
					cnt[bo.X]++
				}
			}
		}
	}
	var best ssa.Value
	for v, n := range cnt {
		if n >= min && (best == nil || n > cnt[best] || (n == cnt[best] && v.Pos() < best.Pos())) {
			best = v
		}
	}
	return best
}

func rulesC07(c *Ctx) {
	p := c.P
	tt := p.tokenTable()
	if tt == nil {
		c.Unk("C07.kinds", "Token", 0, "token table not found")
		return
	}
	verbatimC07(c)
	singleEntryC07(c)
	setParamsC07(c)
	bindNonNilRule(c, "C07.bindnil")
	valueTextC07(c)
	strconvRule(c, "C07.strconv")
	c.Rule("C07.pure", "BindValue (and what it calls in the package) reads no mutable package-level state: which value a Go value binds to depends on that value and its type alone, not on what was bound earlier (a memo keyed by the printed form answers the string \"42\" with the integer bound for int64(42))")
	pureRule(c, "C07.pure", "BindValue")
	regexKindC07(c, tt)
	paramNameC07(c)
	s := p.newSCCP()
	// ---- kinds ----
	c.Rule("C07.kinds", "every kind of bound value maps to exactly one fixed token (name->IDENT, string->STRING, regex->REGEX, float->NUMBER, integer->INTEGER, duration->DURATIONVAL, boolean->TRUE/FALSE by value, error->BOUNDPARAM), extracted from TokenType by constant propagation: the token never depends on the value's text, so a value cannot choose how it is lexed")
	impl := p.Implementers("Value")
	nk := 0
	for _, t := range impl {
		tn := strings.TrimPrefix(p.TypeStr(t), "*")
		m := p.Method(tn, "TokenType")
		if m == nil {
			continue
		}
		nk++
		key := tn + ".TokenType"
		if tn == "BooleanValue" {
			for _, bv := range []bool{true, false} {
				got, ok := s.evalConstInt(m, cConst(constant.MakeBool(bv)))
				want := map[bool]string{true: "TRUE", false: "FALSE"}[bv]
				k2 := fmt.Sprintf("%s(%v)", key, bv)
				if !ok {
					c.Unk("C07.kinds", k2, m.Pos(), "not a constant function of the value")
				} else {
					c.Check(tt.Name[got] == want, "C07.kinds", k2, m.Pos(), fmt.Sprintf("yields %s, must be %s", tt.Name[got], want))
				}
			}
			continue
		}
		want, known := kindSpec[tn]
		got, ok := s.evalConstInt(m)
		switch {
		case !ok:
			c.Bad("C07.kinds", key, m.Pos(), "the token of a "+tn+" depends on its text (not a constant): the value decides how it is lexed, e.g. a name spelled like a keyword")
		case !known:
			c.Unk("C07.kinds", key, m.Pos(), "a value kind the property does not list; token "+tt.Name[got])
		case tt.Name[got] != want:
			c.Bad("C07.kinds", key, m.Pos(), fmt.Sprintf("yields %s, must be %s", tt.Name[got], want))
		default:
			c.OK("C07.kinds", key, m.Pos(), want)
		}
	}
	c.Floor("C07.kinds", nk, 8)

	// ---- chokepoint ----
	c.Rule("C07.chokepoint", "every token the parser sees passes through Parser.scan, which performs the substitution: the token ring (bufScanner.Scan/ScanRegex) is referenced only by Parser.Scan/ScanRegex, Parser.scan only by those two, and the parser's scanner and parameter fields are read only by the listed accessors")
	refs := p.refGraph()
	who := func(target *types.Func) []string {
		var out []string
		for f, cs := range refs {
			for _, callee := range cs {
				if callee == target && f != target {
					out = append(out, FuncName(f))
				}
			}
		}
		sort.Strings(out)
		return out
	}
	expectRefs := func(target *types.Func, allowed ...string) {
		if target == nil {
			c.Unk("C07.chokepoint", "anchor", 0, "scanner method not found")
			return
		}
		got := who(target)
		bad := []string{}
		for _, g := range got {
			ok := false
			for _, a := range allowed {
				if a == g {
					ok = true
				}
			}
			if !ok {
				bad = append(bad, g)
			}
		}
		key := FuncName(target) + " referenced only by " + strings.Join(allowed, ", ")
		c.Check(len(bad) == 0, "C07.chokepoint", key, target.Pos(), "also referenced by "+strings.Join(bad, ", ")+": that path sees raw $placeholders")
	}
	expectRefs(p.Method("bufScanner", "Scan"), "(*Parser).Scan")
	expectRefs(p.Method("bufScanner", "ScanRegex"), "(*Parser).ScanRegex")
	expectRefs(p.Method("bufScanner", "scanFunc"), "(*bufScanner).Scan", "(*bufScanner).ScanRegex")
	expectRefs(p.Method("Parser", "scan"), "(*Parser).Scan", "(*Parser).ScanRegex")
	fieldUsers := func(typ, field string) []string {
		seen := map[string]bool{}
		for _, fb := range p.funcBodies() {
			fb := fb
			ast.Inspect(fb.Body, func(n ast.Node) bool {
				if sel, ok := n.(*ast.SelectorExpr); ok {
					if s := p.Info.Selections[sel]; s != nil && s.Kind() == types.FieldVal && sel.Sel.Name == field {
						if strings.TrimPrefix(p.TypeStr(s.Recv()), "*") == typ {
							seen[FuncName(fb.Decl)] = true
						}
					}
				}
				return true
			})
		}
		var out []string
		for k := range seen {
			out = append(out, k)
		}
		sort.Strings(out)
		return out
	}
	expectUsers := func(typ, field string, allowed ...string) {
		got := fieldUsers(typ, field)
		var bad []string
		for _, g := range got {
			ok := false
			for _, a := range allowed {
				if a == g {
					ok = true
				}
			}
			if !ok {
				bad = append(bad, g)
			}
		}
		c.Check(len(bad) == 0 && len(got) > 0, "C07.chokepoint", typ+"."+field+" used only by "+strings.Join(allowed, ", "), 0, "also used by "+strings.Join(bad, ", "))
	}
	_ = expectUsers
	// the scanner field: only the two wrappers may obtain tokens from it
	{
		var bad []string
		n := 0
		for _, fb := range p.funcBodies() {
			fb := fb
			name := FuncName(fb.Decl)
			ast.Inspect(fb.Body, func(nd ast.Node) bool {
				call, ok := nd.(*ast.CallExpr)
				if !ok {
					return true
				}
				sel, ok := call.Fun.(*ast.SelectorExpr)
				if !ok {
					return true
				}
				inner, ok := ast.Unparen(sel.X).(*ast.SelectorExpr)
				if !ok || inner.Sel.Name != "s" {
					return true
				}
				if s := p.Info.Selections[inner]; s == nil || s.Kind() != types.FieldVal || strings.TrimPrefix(p.TypeStr(s.Recv()), "*") != "Parser" {
					return true
				}
				n++
				if (sel.Sel.Name == "Scan" || sel.Sel.Name == "ScanRegex" || sel.Sel.Name == "scanFunc") && name != "(*Parser).Scan" && name != "(*Parser).ScanRegex" {
					bad = append(bad, name+" calls p.s."+sel.Sel.Name)
				}
				return true
			})
			// method values p.s.Scan passed on (p.scan(p.s.Scan))
			ast.Inspect(fb.Body, func(nd ast.Node) bool {
				sel, ok := nd.(*ast.SelectorExpr)
				if !ok || (sel.Sel.Name != "Scan" && sel.Sel.Name != "ScanRegex") {
					return true
				}
				inner, ok := ast.Unparen(sel.X).(*ast.SelectorExpr)
				if !ok || inner.Sel.Name != "s" {
					return true
				}
				if s := p.Info.Selections[inner]; s == nil || s.Kind() != types.FieldVal || strings.TrimPrefix(p.TypeStr(s.Recv()), "*") != "Parser" {
					return true
				}
				if name != "(*Parser).Scan" && name != "(*Parser).ScanRegex" {
					bad = append(bad, name+" takes p.s."+sel.Sel.Name)
				}
				return true
			})
		}
		sort.Strings(bad)
		c.Check(len(bad) == 0 && n > 0, "C07.chokepoint", "Parser.s: tokens are taken from the ring only by (*Parser).Scan and (*Parser).ScanRegex", 0, "also: "+strings.Join(bad, "; ")+" — that path sees raw $placeholders")
	}
	// the parameter map: replaced as a whole, only by SetParams
	{
		var bad []string
		for _, fb := range p.funcBodies() {
			fb := fb
			name := FuncName(fb.Decl)
			ast.Inspect(fb.Body, func(nd ast.Node) bool {
				var lhs []ast.Expr
				switch x := nd.(type) {
				case *ast.AssignStmt:
					lhs = x.Lhs
				case *ast.IncDecStmt:
					lhs = []ast.Expr{x.X}
				}
				for _, l := range lhs {
					root := ast.Unparen(l)
					if ix, ok := root.(*ast.IndexExpr); ok {
						root = ast.Unparen(ix.X)
					}
					sel, ok := root.(*ast.SelectorExpr)
					if !ok || sel.Sel.Name != "params" {
						continue
					}
					if s := p.Info.Selections[sel]; s == nil || s.Kind() != types.FieldVal || strings.TrimPrefix(p.TypeStr(s.Recv()), "*") != "Parser" {
						continue
					}
					if name != "(*Parser).SetParams" && name != "NewParser" {
						bad = append(bad, name)
					}
				}
				return true
			})
		}
		sort.Strings(bad)
		c.Check(len(bad) == 0, "C07.chokepoint", "Parser.params written only by (*Parser).SetParams", 0, "also written by "+strings.Join(bad, ", "))
	}

	// ---- resub / empty / norelex: structure of Parser.scan ----
	c.Rule("C07.scan", "Parser.scan calls the underlying scan first and tests for BOUNDPARAM on every path (so a pushed-back placeholder is substituted again); it substitutes only under a non-empty name and a successful lookup; token and literal both come from the same bound value; the bound text flows only to the returned literal")
	sf := p.SSAFunc(p.Method("Parser", "scan"))
	if sf == nil {
		c.Unk("C07.scan", "(*Parser).scan", 0, "anchor not found")
		return
	}
	// entry block: call of the fn parameter, then If tok == BOUNDPARAM
	entry := sf.Blocks[0]
	var fnCall *ssa.Call
	for _, in := range entry.Instrs {
		if call, ok := in.(*ssa.Call); ok && !call.Call.IsInvoke() {
			if prm, ok := call.Call.Value.(*ssa.Parameter); ok && prm == sf.Params[1] {
				fnCall = call
			}
		}
	}
	okEntry := false
	if ifi, ok := entry.Instrs[len(entry.Instrs)-1].(*ssa.If); ok && fnCall != nil {
		if bo, ok := ifi.Cond.(*ssa.BinOp); ok && (bo.Op == token.EQL || bo.Op == token.NEQ) {
			if k, ok := bo.Y.(*ssa.Const); ok && k.Value != nil {
				v, _ := constant.Int64Val(constant.ToInt(k.Value))
				if ex, ok := bo.X.(*ssa.Extract); ok && ex.Tuple == fnCall && ex.Index == 0 && tt.Name[v] == "BOUNDPARAM" {
					okEntry = true
				}
			}
		}
	}
	c.Check(okEntry, "C07.scan", "(*Parser).scan: scan then test BOUNDPARAM on every path", sf.Pos(), "the first thing scan does must be to call the underlying scan and compare its token with BOUNDPARAM; an early return or a cached token bypasses re-substitution after push-back")
	// the params lookup
	var lookup *ssa.Lookup
	for _, b := range sf.Blocks {
		for _, in := range b.Instrs {
			if l, ok := in.(*ssa.Lookup); ok && l.CommaOk {
				if _, fld, ok := fieldRef(l.X); ok && fld == "params" {
					lookup = l
				}
			}
		}
	}
	if lookup == nil {
		c.Unk("C07.scan", "(*Parser).scan: parameter lookup", sf.Pos(), "no comma-ok lookup in the parameter map")
		return
	}
	// dominated by len(k) != 0
	nonEmpty := false
	for d := lookup.Block().Idom(); d != nil; d = d.Idom() {
		ifi, ok := d.Instrs[len(d.Instrs)-1].(*ssa.If)
		if !ok {
			continue
		}
		bo, ok := ifi.Cond.(*ssa.BinOp)
		if !ok {
			continue
		}
		call, isCall := bo.X.(*ssa.Call)
		k, isC := bo.Y.(*ssa.Const)
		if !isCall || !isC || k.Value == nil {
			continue
		}
		if bi, ok := call.Call.Value.(*ssa.Builtin); !ok || bi.Name() != "len" || call.Call.Args[0] != lookup.Index {
			continue
		}
		z, _ := constant.Int64Val(constant.ToInt(k.Value))
		switch {
		case (bo.Op == token.NEQ || bo.Op == token.GTR) && z == 0 && (d.Succs[0] == lookup.Block() || d.Succs[0].Dominates(lookup.Block())):
			nonEmpty = true
		case bo.Op == token.EQL && z == 0 && (d.Succs[1] == lookup.Block() || d.Succs[1].Dominates(lookup.Block())):
			nonEmpty = true
		}
	}
	c.Check(nonEmpty, "C07.scan", "(*Parser).scan: empty name is never substituted", lookup.Pos(), "the lookup is not dominated by a non-empty test of the name: `$` alone is substituted when the map has an entry for the empty name")
	// tok and lit from the same value under ok
	var tokInv, litInv *ssa.Call
	for _, b := range sf.Blocks {
		for _, in := range b.Instrs {
			if call, ok := in.(*ssa.Call); ok && call.Call.IsInvoke() {
				if ex, ok := call.Call.Value.(*ssa.Extract); ok && ex.Tuple == lookup && ex.Index == 0 {
					switch call.Call.Method.Name() {
					case "TokenType":
						tokInv = call
					case "Value":
						litInv = call
					}
				}
			}
		}
	}
	c.Check(tokInv != nil && litInv != nil && tokInv.Block() == litInv.Block(), "C07.scan", "(*Parser).scan: token and literal from one bound value", lookup.Pos(), "TokenType() and Value() must both be taken from the looked-up value, together")
	if litInv != nil {
		onlyRet := true
		var visit func(v ssa.Value, depth int)
		visit = func(v ssa.Value, depth int) {
			if depth > 4 {
				return
			}
			for _, ref := range *v.Referrers() {
				switch r := ref.(type) {
				case *ssa.Return:
				case *ssa.Phi:
					visit(r, depth+1)
				case *ssa.DebugRef:
				default:
					onlyRet = false
				}
			}
		}
		visit(litInv, 0)
		c.Check(onlyRet, "C07.scan", "(*Parser).scan: bound text flows only to the returned literal", litInv.Pos(), "the bound text is handed to something other than the return value (a scanner, a parser, a formatter): it could be lexed again")
	}
	// ---- unbound ----
	c.Rule("C07.unbound", "when the token in front of parseUnaryExpr is still BOUNDPARAM (unbound, empty or unbindable) every reachable return carries a nil expression, i.e. an error")
	pu := p.SSAFunc(p.Method("Parser", "parseUnaryExpr"))
	if pu == nil {
		c.Unk("C07.unbound", "(*Parser).parseUnaryExpr", 0, "anchor not found")
		return
	}
	tag := switchTag(pu, 8)
	if tag == nil {
		c.Unk("C07.unbound", "(*Parser).parseUnaryExpr: token switch", pu.Pos(), "no token switch found")
		return
	}
	s2 := p.newSCCP()
	s2.override = map[ssa.Value]cval{tag: tt.cv("BOUNDPARAM")}
	// the '(' probe in front of the switch must not match
	first := true
	s2.hook = func(call *ssa.Call, args []cval) ([]cval, bool) {
		if callee := call.Call.StaticCallee(); callee != nil && callee.Name() == "ScanIgnoreWhitespace" && call.Block().Index == 0 && first {
			return []cval{tt.cv("BOUNDPARAM"), cTop, cTop}, true
		}
		return nil, false
	}
	rets := s2.Eval(pu, nil)
	bad := 0
	for _, rp := range rets {
		if len(rp.Results) == 2 && !rp.Results[0].nilc {
			bad++
			c.Bad("C07.unbound", "(*Parser).parseUnaryExpr: BOUNDPARAM", rp.Pos, "an unresolved placeholder can produce an expression instead of an error")
		}
	}
	if bad == 0 && len(rets) > 0 {
		c.OK("C07.unbound", "(*Parser).parseUnaryExpr: BOUNDPARAM", pu.Pos(), fmt.Sprintf("all %d reachable returns carry a nil expression", len(rets)))
	} else if len(rets) == 0 {
		c.Unk("C07.unbound", "(*Parser).parseUnaryExpr: BOUNDPARAM", pu.Pos(), "no reachable return")
	}
}

// valueTextC07: the text a bound value hands to the parser is the value
// itself: the string kinds as they are, a float in the shortest form that
// parses back to the same float64, an integer in base 10.
func valueTextC07(c *Ctx) {
	p := c.P
	c.Rule("C07.valuetext", "Value() of every bound-value kind renders the value exactly: string kinds return their own text (a plain conversion), NumberValue prints with strconv.FormatFloat(float64(v), fmt, -1, 64) (shortest text that parses back to the same float64; a fixed precision or 32 bits rounds the bound value), IntegerValue with FormatInt(int64(v), 10)")
	n := 0
	for _, t := range p.Implementers("Value") {
		tn := strings.TrimPrefix(p.TypeStr(t), "*")
		f := p.SSAFunc(p.Method(tn, "Value"))
		if f == nil || len(f.Params) == 0 || tn == "ErrorValue" {
			continue
		}
		for _, b := range f.Blocks {
			ret, ok := b.Instrs[len(b.Instrs)-1].(*ssa.Return)
			if !ok || len(ret.Results) != 1 {
				continue
			}
			n++
			key := tn + ".Value: returned text"
			recvOf := func(v ssa.Value) bool {
				for i := 0; i < 4; i++ {
					switch x := v.(type) {
					case *ssa.Convert:
						v = x.X
						continue
					case *ssa.ChangeType:
						v = x.X
						continue
					}
					break
				}
				return v == ssa.Value(f.Params[0])
			}
			constInt := func(v ssa.Value) (int64, bool) {
				k, ok := v.(*ssa.Const)
				if !ok || k.Value == nil {
					return 0, false
				}
				return constant.Int64Val(constant.ToInt(k.Value))
			}
			r := ret.Results[0]
			ub, _ := f.Params[0].Type().Underlying().(*types.Basic)
			switch x := r.(type) {
			case *ssa.Const:
				if tn == "BooleanValue" {
					c.OK("C07.valuetext", key, ret.Pos(), "a boolean is carried by its token, not by text")
				} else {
					c.Bad("C07.valuetext", key, ret.Pos(), "a constant text whatever the bound value is")
				}
			case *ssa.ChangeType, *ssa.Convert:
				if recvOf(r) && ub != nil && ub.Kind() == types.String {
					c.OK("C07.valuetext", key, ret.Pos(), "the value's own text")
				} else {
					c.Unk("C07.valuetext", key, ret.Pos(), "a conversion this rule does not classify")
				}
			case *ssa.Call:
				cal := x.Call.StaticCallee()
				name := ""
				if cal != nil {
					name = cal.String()
				}
				switch name {
				case "strconv.FormatFloat":
					prec, okP := constInt(x.Call.Args[2])
					bits, okB := constInt(x.Call.Args[3])
					switch {
					case !okP || !okB || !recvOf(x.Call.Args[0]):
						c.Unk("C07.valuetext", key, ret.Pos(), "FormatFloat with non-constant precision/size or another operand")
					case prec != -1:
						c.Bad("C07.valuetext", key, ret.Pos(), fmt.Sprintf("precision %d: the text is rounded to that many digits, the literal no longer carries the bound float", prec))
					case bits != 64:
						c.Bad("C07.valuetext", key, ret.Pos(), fmt.Sprintf("bit size %d: the text is the shortest that identifies a float%d, so a bound float64 is rounded to float%d precision", bits, bits, bits))
					default:
						c.OK("C07.valuetext", key, ret.Pos(), "FormatFloat(v, _, -1, 64): shortest exact text")
					}
				case "strconv.FormatInt":
					base, okB := constInt(x.Call.Args[1])
					switch {
					case !okB || !recvOf(x.Call.Args[0]):
						c.Unk("C07.valuetext", key, ret.Pos(), "FormatInt with a non-constant base or another operand")
					case base != 10:
						c.Bad("C07.valuetext", key, ret.Pos(), fmt.Sprintf("base %d: the parser reads the digits in base 10", base))
					default:
						c.OK("C07.valuetext", key, ret.Pos(), "FormatInt(v, 10)")
					}
				default:
					viaRecv := false
					for _, a := range x.Call.Args {
						if recvOf(a) {
							viaRecv = true
						}
						// a variadic call: the receiver stored into the argument slice
						if sl, ok := a.(*ssa.Slice); ok {
							if al, ok := sl.X.(*ssa.Alloc); ok {
								for _, ref := range *al.Referrers() {
									if ia, ok := ref.(*ssa.IndexAddr); ok {
										for _, r2 := range *ia.Referrers() {
											if st, ok := r2.(*ssa.Store); ok && recvOf(st.Val) {
												viaRecv = true
											}
										}
									}
								}
							}
						}
					}
					if ub != nil && ub.Kind() == types.String && viaRecv {
						c.Bad("C07.valuetext", key, ret.Pos(), "the text of a string-kind value is passed through "+name+" before it is handed to the parser: the token is substituted after lexing, so quotes or escapes added here end up inside the name or string itself")
					} else {
						c.Unk("C07.valuetext", key, ret.Pos(), "rendered by a function this rule has no exactness argument for")
					}
				}
			default:
				c.Unk("C07.valuetext", key, ret.Pos(), "a form of result this rule does not classify")
			}
		}
	}
	c.Floor("C07.valuetext", n, 7)
}

// regexKindC07: parseRegex yields a RegexLiteral only for a REGEX token.
func regexKindC07(c *Ctx, tt *tokenTable) {
	p := c.P
	c.Rule("C07.regexkind", "parseRegex, evaluated by constant propagation with the scanned token bound to each token in turn (the probe Scan and the ScanRegex that follows see the same token), returns a RegexLiteral only for REGEX: a value bound as a string, name or number is never re-typed as a regular expression where the grammar probes for one")
	f := p.SSAFunc(p.Method("Parser", "parseRegex"))
	scan := p.SSAFunc(p.Method("Parser", "Scan"))
	scanRe := p.SSAFunc(p.Method("Parser", "ScanRegex"))
	if f == nil || scan == nil || scanRe == nil {
		c.Unk("C07.regexkind", "parseRegex", 0, "anchor not found")
		return
	}
	var names []string
	for n := range tt.ByName {
		names = append(names, n)
	}
	sort.Strings(names)
	nScan := 0
	for _, b := range f.Blocks {
		for _, in := range b.Instrs {
			if call, ok := in.(*ssa.Call); ok {
				if cal := call.Call.StaticCallee(); cal == scan || cal == scanRe {
					nScan++
				}
			}
		}
	}
	if nScan == 0 {
		c.Unk("C07.regexkind", "parseRegex: scans", f.Pos(), "parseRegex does not scan a token itself")
		return
	}
	var wrong, erring []string
	regexOK := false
	peek := p.SSAFunc(p.Method("Parser", "peekRune"))
	for _, name := range names {
		s := p.newSCCP()
		tv := tt.cv(name)
		s.hook = func(call *ssa.Call, args []cval) ([]cval, bool) {
			if cal := call.Call.StaticCallee(); cal == scan || cal == scanRe {
				return []cval{tv, cTop, cTop}, true
			}
			return nil, false
		}
		// behind a `$` the function only probes: a parameter that is not a
		// regex must come back as "no regex here", not as an error
		if peek != nil && name != "REGEX" && name != "BOUNDPARAM" {
			s2 := p.newSCCP()
			s2.hook = func(call *ssa.Call, args []cval) ([]cval, bool) {
				switch call.Call.StaticCallee() {
				case scan, scanRe:
					return []cval{tv, cTop, cTop}, true
				case peek:
					return []cval{cConst(constant.MakeInt64('$'))}, true
				}
				// the look-ahead may sit in a helper method: evaluate it under the
				// same bindings
				if cal := call.Call.StaticCallee(); cal != nil && cal != f && cal.Pkg == p.SPkg && len(cal.Blocks) > 0 && callsDirectly(cal, peek) {
					rets := s2.Eval(cal, nil)
					if len(rets) > 0 {
						res := make([]cval, len(rets[0].Results))
						for _, rp := range rets {
							for i := range res {
								if i < len(rp.Results) {
									res[i] = cmeet(res[i], rp.Results[i])
								}
							}
						}
						for i := range res {
							if res[i].k == 0 {
								res[i] = cTop
							}
						}
						return res, true
					}
				}
				return nil, false
			}
			for _, rp := range s2.Eval(f, nil) {
				if len(rp.Results) == 2 && !rp.Results[1].nilc {
					erring = append(erring, name)
					break
				}
			}
		}
		for _, rp := range s.Eval(f, nil) {
			if len(rp.Results) != 2 || rp.Results[0].nilc {
				continue
			}
			if name == "REGEX" {
				regexOK = true
			} else {
				wrong = append(wrong, name)
			}
		}
	}
	c.Check(regexOK, "C07.regexkind", "parseRegex: REGEX token", f.Pos(), "a REGEX token must yield a RegexLiteral")
	if peek == nil {
		c.Unk("C07.regexkind", "parseRegex: probe behind `$`", f.Pos(), "peekRune not found")
	} else if len(erring) == 0 {
		c.OK("C07.regexkind", "parseRegex: probe behind `$`", f.Pos(), "a parameter of another kind is passed over without error")
	} else {
		c.Bad("C07.regexkind", "parseRegex: probe behind `$`", f.Pos(), "where the grammar only probes for a regex, a parameter bound to "+joinShort(erring)+" ends in an error instead of being left to the expression parser: the statement fails though the literal written out parses")
	}
	if len(wrong) == 0 {
		c.OK("C07.regexkind", "parseRegex: other tokens", f.Pos(), fmt.Sprintf("%d other tokens yield no literal", len(names)-1))
	} else {
		c.Bad("C07.regexkind", "parseRegex: other tokens", f.Pos(), "a RegexLiteral is also built for "+joinShort(wrong)+": a parameter bound to such a value is compiled as a regular expression where the grammar probes for a regex (call arguments, FROM, WITH KEY)")
	}
}

func callsDirectly(f, callee *ssa.Function) bool {
	for _, b := range f.Blocks {
		for _, in := range b.Instrs {
			if call, ok := in.(*ssa.Call); ok && call.Call.StaticCallee() == callee {
				return true
			}
		}
	}
	return false
}

// paramNameC07: the name a placeholder is looked up under is its text minus
// exactly one leading `$`.
func paramNameC07(c *Ctx) {
	p := c.P
	c.Rule("C07.name", "every lookup in the parser's parameter map uses as key the placeholder's literal with exactly one leading `$` removed (strings.TrimPrefix(lit, \"$\") or lit[1:]): a helper that strips a run of `$` (TrimLeft, Trim) looks `$\"$v\"` up as v, so an unbound placeholder is substituted with another parameter's value")
	n := 0
	for _, f := range p.allSSAFuncs() {
		if f.Signature.Recv() == nil || !strings.HasSuffix(f.Signature.Recv().Type().String(), ".Parser") {
			continue
		}
		for _, b := range f.Blocks {
			for _, in := range b.Instrs {
				lk, ok := in.(*ssa.Lookup)
				if !ok {
					continue
				}
				if _, fld, ok := fieldRef(lk.X); !ok || fld != "params" {
					continue
				}
				n++
				key := fmt.Sprintf("%s: parameter lookup #%d", ssaFuncName(f), n)
				switch x := lk.Index.(type) {
				case *ssa.Call:
					cal := x.Call.StaticCallee()
					name := ""
					if cal != nil {
						name = cal.String()
					}
					cut := ""
					if len(x.Call.Args) == 2 {
						if k, ok := x.Call.Args[1].(*ssa.Const); ok && k.Value != nil && k.Value.Kind() == constant.String {
							cut = constant.StringVal(k.Value)
						}
					}
					switch {
					case name == "strings.TrimPrefix" && cut == "$":
						c.OK("C07.name", key, lk.Pos(), "TrimPrefix(lit, \"$\")")
					case name == "strings.TrimLeft" || name == "strings.Trim" || name == "strings.TrimLeftFunc" || name == "strings.ReplaceAll" || name == "strings.Replace":
						c.Bad("C07.name", key, lk.Pos(), "the key is computed by "+name+": more than the one leading `$` can be removed, so a placeholder whose own name starts with `$` is looked up under another name")
					default:
						c.Unk("C07.name", key, lk.Pos(), "the key is computed by a function this rule does not classify")
					}
				case *ssa.Slice:
					lo, okLo := x.Low.(*ssa.Const)
					if x.High == nil && okLo && lo.Value != nil && lo.Value.String() == "1" {
						c.OK("C07.name", key, lk.Pos(), "lit[1:]")
					} else {
						c.Unk("C07.name", key, lk.Pos(), "the key is a slice of the literal other than [1:]")
					}
				default:
					c.Unk("C07.name", key, lk.Pos(), "the key is not computed from the literal in a recognised way")
				}
			}
		}
	}
	c.Floor("C07.name", n, 1)
}
