// ivq — static checker for the twenty influxql properties (see /verif/DESIGN.md).
//
// Every invocation re-loads /repo's working tree from source. Exit codes:
// 0 = every obligation discharged (or a listed known finding); 1 = at least
// one VIOLATION line was printed; 2 = the machinery itself failed.
package main

import (
	"encoding/json"
	"flag"
	"fmt"
	"os"
	"runtime/debug"
	"sort"
	"time"
)

type ruleFn func(c *Ctx)

type propSpec struct {
	rules []ruleFn
}

var registry = map[string]*propSpec{}

func register(prop string, fns ...ruleFn) {
	if registry[prop] == nil {
		registry[prop] = &propSpec{}
	}
	registry[prop].rules = append(registry[prop].rules, fns...)
}

func main() {
	if len(os.Args) < 2 {
		usage()
	}
	switch os.Args[1] {
	case "check":
		os.Exit(cmdCheck(os.Args[2:]))
	case "explain":
		os.Exit(cmdExplain(os.Args[2:]))
	case "list":
		var ids []string
		for id := range registry {
			ids = append(ids, id)
		}
		sort.Strings(ids)
		for _, id := range ids {
			fmt.Println(id)
		}
	case "selftest":
		os.Exit(cmdSelftest(os.Args[2:]))
	default:
		usage()
	}
}

func usage() {
	fmt.Fprintln(os.Stderr, "usage: ivq check -p <Cxx> [-tier quick|thorough] | ivq explain <replay.json> | ivq list | ivq selftest -p <Cxx>")
	os.Exit(2)
}

func cmdCheck(args []string) (code int) {
	fs := flag.NewFlagSet("check", flag.ExitOnError)
	prop := fs.String("p", "", "property id")
	tier := fs.String("tier", "", "quick or thorough")
	only := fs.String("rule", "", "run only this rule id (for explain)")
	fs.Parse(args)
	if *tier == "" {
		*tier = os.Getenv("VERIF_TIER")
	}
	if *tier != "thorough" {
		*tier = "quick"
	}
	spec := registry[*prop]
	if spec == nil {
		fmt.Fprintf(os.Stderr, "ivq: unknown property %q\n", *prop)
		return 2
	}
	start := time.Now()
	defer func() {
		if r := recover(); r != nil {
			// a panic in the checker is a defect of the machinery: exit 2.
			fmt.Fprintf(os.Stderr, "ivq: internal error: %v\n%s\n", r, debug.Stack())
			code = 2
		}
	}()
	configs := []string{""}
	if *tier == "thorough" {
		configs = append(configs, "verif")
	}
	var c *Ctx
	extra := map[string]any{}
	for _, tags := range configs {
		p, err := Load(repoDir(), tags)
		if err != nil {
			// the tree does not type-check or cannot be loaded: the property
			// cannot be established on it.
			fmt.Fprintf(os.Stderr, "ivq: %v\n", err)
			if c == nil {
				c = NewCtx(&Program{Dir: repoDir()}, *prop, *tier)
			}
			fmt.Printf("VIOLATION property=%s replay=%s\n", *prop, "/dev/null")
			return 1
		}
		if c == nil {
			c = NewCtx(p, *prop, *tier)
		} else {
			c.P = p
		}
		c.only = *only
		for _, r := range spec.rules {
			r(c)
		}
	}
	extra["load_configurations"] = configs
	if *tier == "thorough" {
		st := runSelfTests(*prop, c)
		extra["selftest"] = st
		code := c.Finish(start, extra)
		// a violation on the tree is reported first; a self-test failure on a
		// clean tree is a defect of the machinery (exit 2, no VIOLATION line)
		if code == 0 && st != nil && st.Failed > 0 {
			fmt.Fprintf(os.Stderr, "ivq: checker self-test failed for %s (%d of %d variants): machinery defect\n", *prop, st.Failed, st.Run)
			return 2
		}
		return code
	}
	return c.Finish(start, extra)
}

func cmdExplain(args []string) int {
	if len(args) != 1 {
		usage()
	}
	b, err := os.ReadFile(args[0])
	if err != nil {
		fmt.Fprintln(os.Stderr, err)
		return 2
	}
	var r struct{ Property, Rule, Key, Pos, Kind, Detail string }
	if err := json.Unmarshal(b, &r); err != nil {
		fmt.Fprintln(os.Stderr, err)
		return 2
	}
	spec := registry[r.Property]
	if spec == nil {
		return 2
	}
	p, err := Load(repoDir(), "")
	if err != nil {
		fmt.Fprintln(os.Stderr, err)
		return 2
	}
	c := NewCtx(p, r.Property, "quick")
	for _, f := range spec.rules {
		f(c)
	}
	for _, o := range c.Obls {
		if o.Rule == r.Rule && o.Key == r.Key {
			fmt.Printf("%s [%s] %s: %s — %s\nrule: %s\n", o.Pos, o.Rule, o.Status, o.Key, o.Detail, c.RuleText[o.Rule])
			if o.st != Discharged {
				return 1
			}
			return 0
		}
	}
	fmt.Printf("obligation %s %s no longer exists on this tree\n", r.Rule, r.Key)
	return 0
}
