package main

// E6 — write effects, freshness and sharing, on SSA.
//
// Every pointer-like SSA value gets a set of origins:
//   F:<site>  allocated by this activation at <site> (Alloc, make, composite
//             literal, closure, or the fresh result of a callee)
//   P:<i>     parameter i (receiver = 0) or anything reachable from it
//   G:<name>  package-level variable <name> or anything reachable from it
//   V:<k>     captured variable k of a closure
//   U         unknown (result of user code, reflection, ...)
// Fresh objects carry field-insensitive contents. Per-function summaries
// (writes, flows, result origins, callbacks) are iterated to a package-wide
// fixpoint. Higher-order helpers are summarised parametrically in their
// function-typed or interface-typed parameters (callbacks).

import (
	"fmt"
	"go/token"
	"go/types"
	"sort"
	"strconv"
	"strings"

	"golang.org/x/tools/go/ssa"
)

type oset map[string]bool

func (s oset) add(k string) bool {
	if s[k] {
		return false
	}
	s[k] = true
	return true
}

func (s oset) addAll(o oset) bool {
	ch := false
	for k := range o {
		if !s[k] {
			s[k] = true
			ch = true
		}
	}
	return ch
}

func (s oset) keys() []string {
	var out []string
	for k := range s {
		out = append(out, k)
	}
	sort.Strings(out)
	return out
}

type writeSite struct {
	Pos  token.Pos
	What string
}

type callback struct {
	param  int    // index of the function- or interface-typed parameter
	method string // "" for a direct call of a func value
	args   []oset // origins (in terms of this function) of the arguments, receiver excluded
	pos    token.Pos
}

func (c callback) key() string {
	var parts []string
	for _, a := range c.args {
		parts = append(parts, strings.Join(a.keys(), ","))
	}
	return fmt.Sprintf("%d.%s(%s)", c.param, c.method, strings.Join(parts, ";"))
}

type fnSummary struct {
	fn          *ssa.Function
	writes      map[string][]writeSite // non-fresh origin -> where
	flows       map[string]oset        // non-fresh target -> sources stored into it
	ret         []oset                 // per result; fresh collapsed to "F"
	retContents []oset                 // non-fresh origins reachable from fresh results
	callbacks   map[string]callback
	userCalls   []writeSite // calls into user-supplied code (assumption sites)
	shallow     []writeSite // whole-struct copies of pointer-carrying structs
}

type effects struct {
	p    *Program
	ts   *typeSets
	sums map[*ssa.Function]*fnSummary
	// immutable leaf types: never tracked
	immutable func(t types.Type) bool
	// methods by (name) for CHA on sealed interfaces
	byMethod map[string][]*ssa.Function
	changed  bool
}

var immutableNamed = map[string]bool{
	"regexp.Regexp": true, "time.Location": true, "time.Time": true, "strings.Replacer": true,
	"regexp/syntax.Regexp": false,
}

func (e *effects) tracked(t types.Type) bool {
	return e.trackedRec(t, map[types.Type]bool{})
}

func (e *effects) trackedRec(t types.Type, seen map[types.Type]bool) bool {
	if t == nil || seen[t] {
		return false
	}
	seen[t] = true
	if n, ok := t.(*types.Named); ok {
		if n.Obj().Pkg() != nil && immutableNamed[n.Obj().Pkg().Path()+"."+n.Obj().Name()] {
			return false
		}
	}
	switch u := t.Underlying().(type) {
	case *types.Pointer:
		if n, ok := u.Elem().(*types.Named); ok && n.Obj().Pkg() != nil && immutableNamed[n.Obj().Pkg().Path()+"."+n.Obj().Name()] {
			return false
		}
		return true
	case *types.Slice, *types.Map, *types.Chan, *types.Interface, *types.Signature:
		return true
	case *types.Struct:
		for i := 0; i < u.NumFields(); i++ {
			if e.trackedRec(u.Field(i).Type(), seen) {
				return true
			}
		}
	case *types.Array:
		return e.trackedRec(u.Elem(), seen)
	case *types.Tuple:
		for i := 0; i < u.Len(); i++ {
			if e.trackedRec(u.At(i).Type(), seen) {
				return true
			}
		}
	}
	return false
}

func (p *Program) newEffects() *effects {
	e := &effects{p: p, ts: p.newTypeSets(), sums: map[*ssa.Function]*fnSummary{}, byMethod: map[string][]*ssa.Function{}}
	fns := p.allSSAFuncs()
	for _, f := range fns {
		n := f.Signature.Results().Len()
		s := &fnSummary{fn: f, writes: map[string][]writeSite{}, flows: map[string]oset{}, callbacks: map[string]callback{}}
		s.ret = make([]oset, n)
		s.retContents = make([]oset, n)
		for i := 0; i < n; i++ {
			s.ret[i], s.retContents[i] = oset{}, oset{}
		}
		e.sums[f] = s
		if f.Signature.Recv() != nil {
			e.byMethod[f.Name()] = append(e.byMethod[f.Name()], f)
		}
	}
	for round := 0; round < 50; round++ {
		e.changed = false
		for _, f := range fns {
			e.analyse(f)
		}
		if !e.changed {
			break
		}
	}
	return e
}

// ---- per-function analysis ----

type fstate struct {
	e        *effects
	f        *ssa.Function
	sum      *fnSummary
	orig     map[ssa.Value]oset
	contents map[string]oset
	ch       bool
}

func siteKey(v ssa.Value) string { return "F:" + v.Name() + "@" + strconv.Itoa(int(v.Pos())) }

func (e *effects) analyse(f *ssa.Function) {
	st := &fstate{e: e, f: f, sum: e.sums[f], orig: map[ssa.Value]oset{}, contents: map[string]oset{}}
	for i := 0; i < 200; i++ {
		st.ch = false
		for _, b := range f.Blocks {
			for _, in := range b.Instrs {
				st.instr(in)
			}
		}
		if !st.ch {
			break
		}
	}
}

func (st *fstate) get(v ssa.Value) oset {
	if o, ok := st.orig[v]; ok {
		return o
	}
	o := oset{}
	switch x := v.(type) {
	case *ssa.Parameter:
		if st.e.tracked(x.Type()) {
			for i, p := range st.f.Params {
				if p == x {
					o.add("P:" + strconv.Itoa(i))
				}
			}
		}
	case *ssa.FreeVar:
		for i, fv := range st.f.FreeVars {
			if fv == x {
				o.add("V:" + strconv.Itoa(i))
			}
		}
	case *ssa.Global:
		o.add("G:" + x.Name())
	case *ssa.Const, *ssa.Function, *ssa.Builtin:
	}
	st.orig[v] = o
	return o
}

func (st *fstate) set(v ssa.Value, add oset) {
	o := st.get(v)
	if o.addAll(add) {
		st.ch = true
	}
}

// deref: what a load through these origins yields.
func (st *fstate) deref(os oset) oset {
	out := oset{}
	for k := range os {
		if strings.HasPrefix(k, "F:") {
			out.addAll(st.contents[k])
		} else {
			out.add(k)
		}
	}
	return out
}

// reach: os plus everything reachable through fresh contents.
func (st *fstate) reach(os oset) oset {
	out := oset{}
	var walk func(k string)
	walk = func(k string) {
		if !out.add(k) {
			return
		}
		if strings.HasPrefix(k, "F:") {
			for c := range st.contents[k] {
				walk(c)
			}
		}
	}
	for k := range os {
		walk(k)
	}
	return out
}

func (st *fstate) addContents(site string, vals oset) {
	c := st.contents[site]
	if c == nil {
		c = oset{}
		st.contents[site] = c
	}
	if c.addAll(vals) {
		st.ch = true
	}
}

// store records a write of vals through an address with origins addr.
func (st *fstate) store(addr oset, vals oset, pos token.Pos, what string) {
	for k := range addr {
		if strings.HasPrefix(k, "F:") {
			st.addContents(k, vals)
			continue
		}
		st.recordWrite(k, vals, pos, what)
	}
}

func (st *fstate) recordWrite(k string, vals oset, pos token.Pos, what string) {
	ws := st.sum.writes[k]
	dup := false
	for _, w := range ws {
		if w.Pos == pos && w.What == what {
			dup = true
		}
	}
	if !dup && len(ws) < 8 {
		st.sum.writes[k] = append(ws, writeSite{pos, what})
		st.e.changed = true
	} else if len(ws) == 0 {
		st.sum.writes[k] = append(ws, writeSite{pos, what})
		st.e.changed = true
	}
	fl := st.sum.flows[k]
	if fl == nil {
		fl = oset{}
		st.sum.flows[k] = fl
	}
	for v := range st.reach(vals) {
		if strings.HasPrefix(v, "F:") {
			v = "F"
		}
		if fl.add(v) {
			st.e.changed = true
		}
	}
}

func (st *fstate) instr(in ssa.Instruction) {
	e := st.e
	switch x := in.(type) {
	case *ssa.Alloc:
		st.set(x, oset{siteKey(x): true})
	case *ssa.MakeSlice:
		st.set(x, oset{siteKey(x): true})
	case *ssa.MakeMap:
		st.set(x, oset{siteKey(x): true})
	case *ssa.MakeChan:
		st.set(x, oset{siteKey(x): true})
	case *ssa.MakeClosure:
		k := siteKey(x)
		st.set(x, oset{k: true})
		for _, b := range x.Bindings {
			st.addContents(k, st.get(b))
		}
	case *ssa.FieldAddr:
		st.set(x, st.get(x.X))
	case *ssa.IndexAddr:
		st.set(x, st.get(x.X))
	case *ssa.Field:
		if e.tracked(x.Type()) {
			st.set(x, st.get(x.X))
		}
	case *ssa.Index:
		if e.tracked(x.Type()) {
			st.set(x, st.deref(st.get(x.X)))
		}
	case *ssa.Lookup:
		if e.tracked(x.Type()) {
			st.set(x, st.deref(st.get(x.X)))
		}
	case *ssa.UnOp:
		if x.Op == token.MUL {
			if !e.tracked(x.Type()) {
				return
			}
			if _, isStruct := x.Type().Underlying().(*types.Struct); isStruct {
				// whole-struct copy: checked separately (C14.overwrite)
				if _, fromLocal := x.X.(*ssa.Alloc); !fromLocal {
					st.noteShallow(x)
				} else {
					st.set(x, st.deref(st.get(x.X)))
				}
				return
			}
			st.set(x, st.deref(st.get(x.X)))
		} else if x.Op == token.ARROW {
			st.set(x, oset{"U": true})
		}
	case *ssa.Phi:
		for _, ed := range x.Edges {
			st.set(x, st.get(ed))
		}
	case *ssa.ChangeType:
		st.set(x, st.get(x.X))
	case *ssa.Convert:
		if e.tracked(x.Type()) {
			st.set(x, st.get(x.X))
		}
	case *ssa.ChangeInterface:
		st.set(x, st.get(x.X))
	case *ssa.MakeInterface:
		if e.tracked(x.X.Type()) {
			st.set(x, st.get(x.X))
		}
	case *ssa.Slice:
		st.set(x, st.get(x.X))
	case *ssa.SliceToArrayPointer:
		st.set(x, st.get(x.X))
	case *ssa.TypeAssert:
		st.set(x, st.get(x.X))
	case *ssa.Extract:
		switch t := x.Tuple.(type) {
		case *ssa.Call:
			// handled by call (per-index results stored under the Extract)
			st.callResult(t, x.Index, x)
		case *ssa.TypeAssert:
			if x.Index == 0 {
				st.set(x, st.get(t))
			}
		case *ssa.Next:
			if e.tracked(x.Type()) {
				st.set(x, st.deref(st.get(t.Iter)))
			}
		case *ssa.Lookup:
			if x.Index == 0 && e.tracked(x.Type()) {
				st.set(x, st.get(t))
			}
		case *ssa.UnOp:
			if x.Index == 0 {
				st.set(x, oset{"U": true})
			}
		default:
			st.set(x, st.get(t))
		}
	case *ssa.Range:
		st.set(x, st.get(x.X))
	case *ssa.Next:
	case *ssa.Store:
		vals := oset{}
		if e.tracked(x.Val.Type()) {
			vals = st.get(x.Val)
		}
		st.store(st.get(x.Addr), vals, x.Pos(), "store to "+describeAddr(x.Addr))
	case *ssa.MapUpdate:
		vals := oset{}
		if e.tracked(x.Value.Type()) {
			vals.addAll(st.get(x.Value))
		}
		if e.tracked(x.Key.Type()) {
			vals.addAll(st.get(x.Key))
		}
		st.store(st.get(x.Map), vals, x.Pos(), "map update "+x.Map.Name())
	case *ssa.Call:
		st.call(x, &x.Call, x.Pos())
		if x.Type() != nil {
			if _, isTuple := x.Type().(*types.Tuple); !isTuple {
				st.callResult(x, 0, x)
			}
		}
	case *ssa.Defer:
		st.call(nil, &x.Call, x.Pos())
	case *ssa.Go:
		st.call(nil, &x.Call, x.Pos())
	case *ssa.Return:
		for i, r := range x.Results {
			if i >= len(st.sum.ret) || !e.tracked(r.Type()) {
				continue
			}
			for k := range st.get(r) {
				if strings.HasPrefix(k, "F:") {
					if st.sum.ret[i].add("F") {
						e.changed = true
					}
					for c := range st.reach(oset{k: true}) {
						if !strings.HasPrefix(c, "F:") {
							if st.sum.retContents[i].add(c) {
								e.changed = true
							}
						}
					}
				} else if st.sum.ret[i].add(k) {
					e.changed = true
				}
			}
		}
	}
}

func (st *fstate) noteShallow(x *ssa.UnOp) {
	for _, s := range st.sum.shallow {
		if s.Pos == x.Pos() {
			return
		}
	}
	st.sum.shallow = append(st.sum.shallow, writeSite{x.Pos(), st.e.p.TypeStr(x.Type())})
}

func describeAddr(a ssa.Value) string {
	switch x := a.(type) {
	case *ssa.FieldAddr:
		st := x.X.Type().Underlying().(*types.Pointer).Elem().Underlying().(*types.Struct)
		return describeAddr(x.X) + "." + st.Field(x.Field).Name()
	case *ssa.IndexAddr:
		return describeAddr(x.X) + "[i]"
	case *ssa.UnOp:
		return describeAddr(x.X)
	case *ssa.Parameter:
		return x.Name()
	case *ssa.Global:
		return x.Name()
	case *ssa.FreeVar:
		return x.Name()
	case *ssa.Alloc:
		if x.Comment != "" {
			return x.Comment
		}
	}
	return a.Name()
}
