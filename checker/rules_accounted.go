package main

import (
	"strings"
	"go/ast"
	"fmt"
	"go/token"
	"go/types"

	"golang.org/x/tools/go/ssa"
)

// accountedRule: in the sub-scanners, a rune taken from the reader is not
// forgotten: before the reader moves again (or the function returns) the rune
// is written to the token text, pushed back, or known exactly from an
// equality test (a delimiter the token kind implies).
func accountedRule(c *Ctx, rule string) {
	p := c.P
	c.Rule(rule, "in every sub-scanner of Scanner (the methods that return token text; Scan itself is covered by the consume table, the comment skippers discard by design) each rune obtained from reader.read is, on every path to the next movement of the reader or to the return, written to the token text, pushed back with unread, or pinned by an equality test with a constant: a rune that only passed a class test (isDigit, isLetter) and is then dropped is in no token — the text no longer tiles")
	read := p.SSAFunc(p.Method("reader", "read"))
	unread := p.SSAFunc(p.Method("reader", "unread"))
	if read == nil || unread == nil {
		c.Unk(rule, "anchors", 0, "reader.read / reader.unread not found")
		return
	}
	// functions that move the reader forward
	moves := map[*ssa.Function]int{} // 0 unknown, 1 yes, 2 no, 3 in progress
	var reads func(f *ssa.Function) bool
	reads = func(f *ssa.Function) bool {
		if f == read {
			return true
		}
		switch moves[f] {
		case 1:
			return true
		case 2, 3:
			return false
		}
		moves[f] = 3
		res := false
		for _, b := range f.Blocks {
			for _, in := range b.Instrs {
				if call, ok := in.(*ssa.Call); ok {
					if cal := call.Call.StaticCallee(); cal != nil && cal.Pkg == f.Pkg && cal != unread && reads(cal) {
						res = true
					}
				}
			}
		}
		if res {
			moves[f] = 1
		} else {
			moves[f] = 2
		}
		return res
	}
	n := 0
	for _, fn := range p.SrcFuncs() {
		o, ok := fn.Object().(*types.Func)
		if !ok || recvTypeName(o) != "Scanner" || fn.Name() == "Scan" {
			continue
		}
		// a scanner that returns no text (the comment and whitespace skippers
		// discard what they read by design) has nothing to account for
		hasText := false
		for i := 0; i < fn.Signature.Results().Len(); i++ {
			if bt, ok := fn.Signature.Results().At(i).Type().Underlying().(*types.Basic); ok && bt.Kind() == types.String {
				hasText = true
			}
		}
		if !hasText {
			continue
		}
		ord := 0
		for _, b := range fn.Blocks {
			for i, in := range b.Instrs {
				call, ok := in.(*ssa.Call)
				if !ok || call.Call.StaticCallee() != read {
					continue
				}
				ord++
				n++
				key := fmt.Sprintf("%s: read #%d", ssaFuncName(fn), ord)
				// the rune value
				var v ssa.Value
				for _, r := range *call.Referrers() {
					if ex, ok := r.(*ssa.Extract); ok && ex.Index == 0 {
						v = ex
					}
				}
				isV := func(x ssa.Value) bool {
					if v == nil {
						return false
					}
					if x == v {
						return true
					}
					if ph, ok := x.(*ssa.Phi); ok {
						for _, e := range ph.Edges {
							if e == v {
								return true
							}
						}
					}
					return false
				}
				type st struct {
					b   *ssa.BasicBlock
					acc bool
				}
				seen := map[st]bool{}
				bad := token.NoPos
				badWhat := ""
				var walk func(b *ssa.BasicBlock, from int, acc bool)
				walk = func(b *ssa.BasicBlock, from int, acc bool) {
					if from == 0 {
						if seen[st{b, acc}] {
							return
						}
						seen[st{b, acc}] = true
					}
					for j := from; j < len(b.Instrs); j++ {
						switch x := b.Instrs[j].(type) {
						case *ssa.Call:
							cal := x.Call.StaticCallee()
							switch {
							case cal == unread:
								acc = true
							case cal != nil && (cal.Name() == "WriteRune" || cal.Name() == "WriteString" || cal.Name() == "WriteByte"):
								arg := x.Call.Args[len(x.Call.Args)-1]
								if isV(arg) {
									acc = true
								} else if cv, ok := arg.(*ssa.Convert); ok && isV(cv.X) {
									acc = true
								}
							case cal != nil && cal.Pkg == fn.Pkg && reads(cal):
								if !acc && bad == token.NoPos {
									bad, badWhat = x.Pos(), "the reader moves on ("+cal.Name()+")"
								}
								return
							}
						case *ssa.Return:
							if !acc && bad == token.NoPos {
								bad, badWhat = x.Pos(), "the function returns"
							}
							return
						case *ssa.If:
							tAcc, fAcc := acc, acc
							if bo, ok := x.Cond.(*ssa.BinOp); ok && (bo.Op == token.EQL || bo.Op == token.NEQ) {
								_, cy := bo.Y.(*ssa.Const)
								_, cx := bo.X.(*ssa.Const)
								if (isV(bo.X) && cy) || (isV(bo.Y) && cx) {
									if bo.Op == token.EQL {
										tAcc = true
									} else {
										fAcc = true
									}
								}
							}
							walk(b.Succs[0], 0, tAcc)
							walk(b.Succs[1], 0, fAcc)
							return
						}
					}
					for _, s := range b.Succs {
						walk(s, 0, acc)
					}
				}
				walk(b, i+1, false)
				if bad != token.NoPos {
					c.Bad(rule, key, bad, "on a path from this read "+badWhat+" while the rune is neither written, pushed back nor pinned by an equality test: that character is in no token")
				} else {
					c.OK(rule, key, call.Pos(), "written, pushed back or pinned on every path")
				}
			}
		}
	}
	c.Floor(rule, n, 7)
}

// rawReadRule: the input is consumed only through reader.read.
func rawReadRule(c *Ctx, rule string) {
	p := c.P
	c.Rule(rule, "the only function that calls a method of the underlying input (the value in reader's own field, or a *bufio.Reader directly) is reader.read: a rune taken from the input anywhere else (a byte-order mark dropped in NewScanner, a look-ahead in the parser) passes no position accounting and is in no token — every later column is off by the runes taken")
	read := p.SSAFunc(p.Method("reader", "read"))
	// helpers that nothing but reader.read (or another such helper) calls are part of it
	callers := map[*ssa.Function]map[*ssa.Function]bool{}
	for _, fn := range p.allSSAFuncs() {
		for _, b := range fn.Blocks {
			for _, in := range b.Instrs {
				for _, op := range in.Operands(nil) {
					if callee, ok := (*op).(*ssa.Function); ok && callee.Pkg == fn.Pkg {
						top := fn
						for top.Parent() != nil {
							top = top.Parent()
						}
						if callers[callee] == nil {
							callers[callee] = map[*ssa.Function]bool{}
						}
						callers[callee][top] = true
					}
				}
			}
		}
	}
	onlyFrom := map[*ssa.Function]bool{}
	for changed := true; changed; {
		changed = false
		for callee, cs := range callers {
			if onlyFrom[callee] || callee == read || len(cs) == 0 || callee.Object() == nil || callee.Object().Exported() {
				continue
			}
			all := true
			for cr := range cs {
				if cr != read && !onlyFrom[cr] && cr != callee {
					all = false
				}
			}
			if all {
				onlyFrom[callee] = true
				changed = true
			}
		}
	}
	n := 0
	var visit func(fn *ssa.Function)
	visit = func(fn *ssa.Function) {
		ord := 0
		for _, b := range fn.Blocks {
			for _, in := range b.Instrs {
				call, ok := in.(*ssa.Call)
				if !ok {
					continue
				}
				name := ""
				if call.Call.IsInvoke() {
					// a method of the interface value stored in reader's own field
					if u, ok := call.Call.Value.(*ssa.UnOp); ok {
						if fa, ok := u.X.(*ssa.FieldAddr); ok && p.TypeStr(fa.X.Type()) == "*reader" {
							name = "reader." + fieldName(fa) + "." + call.Call.Method.Name()
						}
					}
				} else if cal := call.Call.StaticCallee(); cal != nil && cal.Pkg != nil && cal.Pkg.Pkg.Path() == "bufio" && cal.Signature.Recv() != nil && p.TypeStr(cal.Signature.Recv().Type()) == "*bufio.Reader" {
					name = "bufio.Reader." + cal.Name()
				}
				if name == "" {
					continue
				}
				ord++
				n++
				key := fmt.Sprintf("%s: %s #%d", ssaFuncName(fn), name, ord)
				top := fn
				for top.Parent() != nil {
					top = top.Parent()
				}
				if top == read || onlyFrom[top] {
					c.OK(rule, key, call.Pos(), "inside reader.read (or a helper only it calls)")
				} else {
					c.Bad(rule, key, call.Pos(), "the underlying reader is touched outside reader.read: what is consumed here has no position and belongs to no token")
				}
			}
		}
		for _, an := range fn.AnonFuncs {
			visit(an)
		}
	}
	for _, fn := range p.SrcFuncs() {
		visit(fn)
	}
	c.Floor(rule, n, 2)
}

// everyCharRule: the function named fname looks at every character of its
// string parameter.
func everyCharRule(c *Ctx, rule, fname string) {
	p := c.P
	c.Rule(rule, fname+" applies its continuation test to every character of the name: the loop over the name is a `range` over it that no break or continue cuts short before the test, or an index loop whose condition is `i < len(name)`; a loop that stops one short (`i < len(name)-1`) never looks at the last character, and a name ending in a space, a dash or a quote is written bare")
	fn := p.Func(fname)
	fd := p.FuncDecls[fn]
	if fd == nil || fd.Body == nil || fd.Type.Params == nil || len(fd.Type.Params.List) == 0 || len(fd.Type.Params.List[0].Names) == 0 {
		c.Unk(rule, fname, 0, "anchor not found")
		return
	}
	param := p.Info.Defs[fd.Type.Params.List[0].Names[0]]
	isParam := func(e ast.Expr) bool {
		id := identOf(e)
		return id != nil && p.Info.ObjectOf(id) == param
	}
	n := 0
	ast.Inspect(fd.Body, func(nd ast.Node) bool {
		switch x := nd.(type) {
		case *ast.RangeStmt:
			src := x.X
			if call, ok := ast.Unparen(src).(*ast.CallExpr); ok && len(call.Args) == 1 {
				if tv, ok := p.Info.Types[call.Fun]; ok && tv.IsType() {
					src = call.Args[0] // []rune(name), []byte(name)
				}
			}
			if !isParam(src) {
				return true
			}
			n++
			key := fmt.Sprintf("%s: loop #%d over the name", fname, n)
			// a bare continue/break as a top-level statement of the body, before any test
			cut := token.NoPos
			for _, st := range x.Body.List {
				if br, ok := st.(*ast.BranchStmt); ok && (br.Tok == token.BREAK || br.Tok == token.CONTINUE) {
					cut = br.Pos()
				}
			}
			if cut != token.NoPos {
				c.Bad(rule, key, cut, "the loop body is cut short unconditionally")
			} else {
				c.OK(rule, key, x.Pos(), "range over the whole name")
			}
		case *ast.ForStmt:
			be, ok := ast.Unparen(x.Cond).(*ast.BinaryExpr)
			if x.Cond == nil || !ok {
				return true
			}
			// i < len(name) [± k]
			mentions := false
			ast.Inspect(be, func(m ast.Node) bool {
				if call, ok := m.(*ast.CallExpr); ok && len(call.Args) == 1 {
					if id, ok := call.Fun.(*ast.Ident); ok && id.Name == "len" && isParam(call.Args[0]) {
						mentions = true
					}
				}
				return true
			})
			if !mentions {
				return true
			}
			n++
			key := fmt.Sprintf("%s: loop #%d over the name", fname, n)
			bound := ast.Unparen(be.Y)
			if call, ok := bound.(*ast.CallExpr); ok && be.Op == token.LSS {
				if id, ok := call.Fun.(*ast.Ident); ok && id.Name == "len" && isParam(call.Args[0]) {
					c.OK(rule, key, x.Pos(), "i < len(name)")
					return true
				}
			}
			if sub, ok := bound.(*ast.BinaryExpr); ok && sub.Op == token.SUB && be.Op == token.LSS {
				if k, isC := p.Info.Types[sub.Y]; isC && k.Value != nil && k.Value.ExactString() != "0" {
					c.Bad(rule, key, be.Pos(), "the loop stops at "+types.ExprString(bound)+": the last character of the name is never tested")
					return true
				}
			}
			c.Unk(rule, key, be.Pos(), "loop bound "+types.ExprString(x.Cond)+" is not one of the recognised forms")
		}
		return true
	})
	c.Floor(rule, n, 1)
}

// regexConfigRule: compiled patterns are only ever matched with, never
// reconfigured.
func regexConfigRule(c *Ctx, rule string) {
	p := c.P
	c.Rule(rule, "no function of the package (initialisation excepted) calls (*regexp.Regexp).Longest: it is the one method of a compiled pattern that changes it in place and is documented as not safe for concurrent use; called on a package-level pattern (or a copy of the pointer) it changes, from then on and for every goroutine, where that pattern's matches end")
	n := 0
	var visit func(fn *ssa.Function)
	visit = func(fn *ssa.Function) {
		ord := 0
		for _, b := range fn.Blocks {
			for _, in := range b.Instrs {
				call, ok := in.(*ssa.Call)
				if !ok {
					continue
				}
				cal := call.Call.StaticCallee()
				if cal == nil || cal.Signature.Recv() == nil || p.TypeStr(cal.Signature.Recv().Type()) != "*regexp.Regexp" {
					continue
				}
				ord++
				n++
				key := fmt.Sprintf("%s: Regexp.%s #%d", ssaFuncName(fn), cal.Name(), ord)
				if cal.Name() == "Longest" {
					c.Bad(rule, key, call.Pos(), "reconfigures a compiled pattern in place")
				} else {
					c.OK(rule, key, call.Pos(), "a read-only method")
				}
			}
		}
		for _, an := range fn.AnonFuncs {
			visit(an)
		}
	}
	for _, fn := range p.SrcFuncs() {
		if isInitFunc(fn.Name()) {
			continue
		}
		visit(fn)
	}
	c.Floor(rule, n, 3)
}

// allMatchesRule: every occurrence of a pattern is treated.
func allMatchesRule(c *Ctx, rule, fname string) {
	p := c.P
	c.Rule(rule, fname+" applies each of its patterns to every occurrence in the text: the pattern is used through a FindAll*/ReplaceAll* method (with n = -1 where there is a count); a Find*/Replace first-match method redacts the first statement of `create user a with password 'x'; create user b with password 'y'` and leaves the second password in the log")
	f := p.SSAFunc(p.Func(fname))
	if f == nil {
		c.Unk(rule, fname, 0, "anchor not found")
		return
	}
	n := 0
	for _, b := range f.Blocks {
		for _, in := range b.Instrs {
			call, ok := in.(*ssa.Call)
			if !ok {
				continue
			}
			cal := call.Call.StaticCallee()
			if cal == nil || cal.Signature.Recv() == nil || p.TypeStr(cal.Signature.Recv().Type()) != "*regexp.Regexp" {
				continue
			}
			name := cal.Name()
			if !strings.HasPrefix(name, "Find") && !strings.HasPrefix(name, "Replace") && !strings.HasPrefix(name, "Match") {
				continue
			}
			n++
			key := fmt.Sprintf("%s: Regexp.%s #%d", fname, name, n)
			switch {
			case strings.HasPrefix(name, "FindAll"):
				last := call.Call.Args[len(call.Call.Args)-1]
				if k, ok := last.(*ssa.Const); ok && k.Value != nil && k.Value.ExactString() == "-1" {
					c.OK(rule, key, call.Pos(), "all matches")
				} else if ok && k.Value != nil {
					c.Bad(rule, key, call.Pos(), "at most "+k.Value.ExactString()+" matches are treated")
				} else {
					c.Unk(rule, key, call.Pos(), "match count is not a constant")
				}
			case strings.HasPrefix(name, "ReplaceAll"):
				c.OK(rule, key, call.Pos(), "all matches")
			case strings.HasPrefix(name, "Match"):
				c.OK(rule, key, call.Pos(), "a yes/no test")
			case blockInCycle(b):
				c.Unk(rule, key, call.Pos(), "a first-match method inside a loop: whether the loop resumes after each match until none is left is not evaluated")
			default:
				c.Bad(rule, key, call.Pos(), "only the first match is treated: later occurrences keep their password")
			}
		}
	}
	c.Floor(rule, n, 2)
}

// blockInCycle: b can reach itself.
func blockInCycle(b *ssa.BasicBlock) bool {
	seen := map[*ssa.BasicBlock]bool{}
	var walk func(x *ssa.BasicBlock) bool
	walk = func(x *ssa.BasicBlock) bool {
		for _, s := range x.Succs {
			if s == b {
				return true
			}
			if !seen[s] {
				seen[s] = true
				if walk(s) {
					return true
				}
			}
		}
		return false
	}
	return walk(b)
}
