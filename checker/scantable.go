package main

// Dispatch table of Scanner.Scan, extracted by constant propagation: the
// first rune read (and, where the code looks at one, the second) is bound to
// each candidate constant; with every branch condition constant the executable
// region is a single path, on which the reads and unreads are counted.

import (
	"go/constant"
	"sort"

	"golang.org/x/tools/go/ssa"
)

type scanRow struct {
	c0, c1   rune
	twoRunes bool   // the path reads a second rune
	kind     string // "token", "delegate", "none"
	tok      int64  // for kind token (-1 when not constant)
	lit      string // constant literal ("" when empty), "?" when not constant
	callee   string // for kind delegate
	consumed int    // reads - unreads executed in Scan itself before the return
	pos      ssa.Instruction
}

var scanSecondRunesBase = []rune{'=', '~', '>', '<', '-', '*', '/', ':', '5', 'x', ' ', 0, '!', '.', '"'}

func (p *Program) scanSecondRunes() []rune {
	out := append([]rune{}, scanSecondRunesBase...)
	if e := p.eofRune(); e != 0 {
		out = append(out, e)
	}
	return out
}

func (p *Program) scanCandidates() []rune {
	var out []rune
	if e := p.eofRune(); e < 0 || e >= 128 {
		out = append(out, e)
	}
	for c := rune(0); c < 128; c++ {
		out = append(out, c)
	}
	out = append(out, 0xB5, 0xE9, 0x2028, 0xFFFD)
	return out
}

func (p *Program) scanTable() ([]scanRow, string) {
	f := p.SSAFunc(p.Method("Scanner", "Scan"))
	read := p.SSAFunc(p.Method("reader", "read"))
	unread := p.SSAFunc(p.Method("reader", "unread"))
	if f == nil || read == nil || unread == nil {
		return nil, "Scanner.Scan / reader.read / reader.unread not found"
	}
	var firstRead *ssa.Call
	for _, in := range f.Blocks[0].Instrs {
		if call, ok := in.(*ssa.Call); ok && call.Call.StaticCallee() == read {
			firstRead = call
			break
		}
	}
	if firstRead == nil {
		return nil, "Scan does not start by reading a rune"
	}
	var rows []scanRow
	runOne := func(c0, c1 rune) scanRow {
		s := p.newSCCP()
		s.maxDepth = 3
		s.hook = func(call *ssa.Call, args []cval) ([]cval, bool) {
			if call.Parent() != f {
				return nil, false
			}
			switch call.Call.StaticCallee() {
			case read:
				if call == firstRead {
					return []cval{cConst(constant.MakeInt64(int64(c0))), cTop}, true
				}
				return []cval{cConst(constant.MakeInt64(int64(c1))), cTop}, true
			}
			return nil, false
		}
		r := s.run(f, nil, 0)
		row := scanRow{c0: c0, c1: c1, kind: "none", tok: -1}
		nRet := 0
		for _, b := range f.Blocks {
			if !r.execB[b.Index] {
				continue
			}
			for _, in := range b.Instrs {
				switch x := in.(type) {
				case *ssa.Call:
					switch x.Call.StaticCallee() {
					case read:
						row.consumed++
						if x != firstRead {
							row.twoRunes = true
						}
					case unread:
						row.consumed--
					}
				case *ssa.Return:
					nRet++
					row.pos = x
					// delegation: return of a call's results
					if ex, ok := x.Results[0].(*ssa.Extract); ok {
						if call, ok := ex.Tuple.(*ssa.Call); ok && call.Call.StaticCallee() != nil && call.Call.StaticCallee() != read {
							// $ident: tok from scanIdent but overridden; treat by constant below
							if tv := r.get(x.Results[0]); !tv.isPlain() {
								row.kind = "delegate"
								row.callee = call.Call.StaticCallee().Name()
								continue
							}
						}
					}
					row.kind = "token"
					if tv := r.get(x.Results[0]); tv.isPlain() {
						row.tok, _ = constant.Int64Val(constant.ToInt(tv.v))
					}
					row.lit = "?"
					if lv := r.get(x.Results[2]); lv.isPlain() && lv.v.Kind() == constant.String {
						row.lit = constant.StringVal(lv.v)
					}
				}
			}
		}
		if nRet != 1 {
			row.kind = "none"
		}
		return row
	}
	for _, c0 := range p.scanCandidates() {
		first := runOne(c0, 'x')
		if !first.twoRunes {
			rows = append(rows, first)
			continue
		}
		for _, c1 := range p.scanSecondRunes() {
			rows = append(rows, runOne(c0, c1))
		}
	}
	sort.SliceStable(rows, func(i, j int) bool {
		if rows[i].c0 != rows[j].c0 {
			return rows[i].c0 < rows[j].c0
		}
		return rows[i].c1 < rows[j].c1
	})
	return rows, ""
}
