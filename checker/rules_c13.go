package main

import (
	"go/types"

	"golang.org/x/tools/go/ssa"
)

var parserTypes = map[string]bool{"Parser": true, "Scanner": true, "bufScanner": true, "reader": true, "ParseTree": true}

func init() {
	register("C13", func(c *Ctx) {
		t := &totality{c: c, prop: "C13", inScope: func(fb funcBody) bool {
			return !parserTypes[recvTypeName(fb.Decl)]
		}}
		t.run()
		t.asserts(func(f *ssa.Function) bool {
			for f.Parent() != nil {
				f = f.Parent()
			}
			o, ok := f.Object().(*types.Func)
			return ok && !parserTypes[recvTypeName(o)]
		})
		t.rewriters()
		t.panics(nil)
		nilLocRule(c, "C13.nilloc")
		typedNilRule(c, "C13.typednil")
		nilErrRule(c, "C13.nilerr")
		handedMapRule(c, "C13.handedmap")
		nilReceiverRule(c, "C13.nilrecv")
		c.Floor("C13.bounds", c.CountRule("C13.bounds"), 40)
		c.Floor("C13.divzero", c.CountRule("C13.divzero"), 10)
		c.Floor("C13.okdrop", c.CountRule("C13.okdrop"), 40)
		c.Floor("C13.assert", c.CountRule("C13.assert"), 14)
		c.Floor("C13.switch", c.CountRule("C13.switch"), 2)
		c.Floor("C13.panics", c.CountRule("C13.panics"), 2)
	})
}
