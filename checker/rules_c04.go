package main

import (
	"fmt"
	"go/ast"
	"go/constant"
	"go/token"
	"go/types"
	"sort"
	"strings"

	"golang.org/x/tools/go/ssa"
)

func init() { register("C04", rulesC04) }

func rulesC04(c *Ctx) {
	p := c.P
	tt := p.tokenTable()
	refs := p.refGraph()
	// everything the parser can run: the entry points, every method of the
	// parser's own types (statement parsers are reached through the handler
	// table built at init, which the reference graph does not follow) and
	// whatever those reference (validate, Normalize, ... on the nodes they build)
	roots := p.parserEntryPoints()
	for _, f := range p.SortedFuncs() {
		if parserTypes[recvTypeName(f)] {
			roots = append(roots, f)
		}
	}
	reach := reachable(refs, roots)
	c.Assume("a token that is pushed back and scanned again is the same token (the ring replays it; C04.tokring bounds the depth)")

	// ---- panic constructs in everything parsing can reach ----
	t := &totality{c: c, prop: "C04", inScope: func(fb funcBody) bool {
		return parserTypes[recvTypeName(fb.Decl)] || reach[fb.Decl]
	}}
	t.switchReach = func(fb funcBody, ts *ast.TypeSwitchStmt, missing []string) (int, string) {
		return signBranchReach(c, tt, fb, ts, missing)
	}
	t.run()
	t.asserts(func(f *ssa.Function) bool {
		for f.Parent() != nil {
			f = f.Parent()
		}
		o, ok := f.Object().(*types.Func)
		return ok && (parserTypes[recvTypeName(o)] || reach[o])
	})
	t.panics(nil)
	c.Floor("C04.bounds", c.CountRule("C04.bounds"), 15)
	c.Floor("C04.panics", c.CountRule("C04.panics"), 4)

	// ---- a bound parameter is never the nil interface ----
	bindNonNilRule(c, "C04.bindnil")
	// ---- comment skippers end at end of input ----
	commentsRule(c, "C04.comments")
	// ---- nil tests that cannot succeed ----
	typedNilC04(c)
	nilErrRule(c, "C04.nilerr")
	revisitRule(c, "C04.revisit")
	nilReceiverRule(c, "C04.nilrecv")
	// ---- token ring ----
	tokringC04(c)
	// ---- rune ring ----
	runeringRule(c, "C04.runering")
	// ---- loops exit at end of input ----
	eofexitC04(c, tt)
	bareProgressC04(c)
	reprintC04(c)
	// ---- statement parsers return a node or an error ----
	errshapeC04(c)
}

// signBranchReach discharges parseUnaryExpr's `unexpected literal` panic: for
// each token the enclosing case admits, the types the recursive call can
// return are computed by constant propagation + dynamic-type sets and must be
// among the type switch's cases.
func signBranchReach(c *Ctx, tt *tokenTable, fb funcBody, ts *ast.TypeSwitchStmt, missing []string) (int, string) {
	p := c.P
	if fb.Lit != nil || FuncName(fb.Decl) != "(*Parser).parseUnaryExpr" || tt == nil {
		return 0, ""
	}
	// the enclosing case clause's token list
	var toks []int64
	ast.Inspect(fb.Body, func(n ast.Node) bool {
		cc, ok := n.(*ast.CaseClause)
		if !ok {
			return true
		}
		inside := false
		ast.Inspect(cc, func(m ast.Node) bool {
			if m == ast.Node(ts) {
				inside = true
			}
			return true
		})
		if !inside {
			return true
		}
		var cand []int64
		for _, e := range cc.List {
			tv := p.Info.Types[e]
			if tv.Value == nil || !types.Identical(p.Info.TypeOf(e), tt.Type) {
				cand = nil
				break
			}
			v, _ := constant.Int64Val(constant.ToInt(tv.Value))
			cand = append(cand, v)
		}
		if len(cand) > 0 {
			toks = cand // innermost wins (Inspect is pre-order)
		}
		return true
	})
	if len(toks) == 0 {
		return 0, ""
	}
	// the clause must belong to a switch over a token scanned *after* the sign
	// (a nested switch), not to the function's own dispatch switch
	nest := 0
	var walk func(n ast.Node, depth int) bool
	walk = func(n ast.Node, depth int) bool {
		found := false
		ast.Inspect(n, func(m ast.Node) bool {
			if found {
				return false
			}
			if m == ast.Node(ts) {
				found = true
				nest = depth
				return false
			}
			if sw, ok := m.(*ast.SwitchStmt); ok && m != n {
				if sw.Tag != nil && types.Identical(p.Info.TypeOf(sw.Tag), tt.Type) {
					if walk(sw.Body, depth+1) {
						found = true
					}
					return false
				}
			}
			return true
		})
		return found
	}
	walk(fb.Body, 0)
	if nest < 2 {
		return 0, ""
	}
	f := p.SSAFunc(fb.Decl)
	tag := switchTag(f, 8)
	scanWS := p.SSAFunc(p.Method("Parser", "ScanIgnoreWhitespace"))
	if f == nil || tag == nil || scanWS == nil {
		return 0, ""
	}
	var first *ssa.Call
	for _, in := range f.Blocks[0].Instrs {
		if call, ok := in.(*ssa.Call); ok && call.Call.StaticCallee() == scanWS {
			first = call
			break
		}
	}
	tsets := p.newTypeSets()
	got := map[string]bool{}
	for _, tv := range toks {
		s := p.newSCCP()
		s.override = map[ssa.Value]cval{tag: cConst(constant.MakeInt64(tv))}
		s.hook = func(call *ssa.Call, args []cval) ([]cval, bool) {
			if call == first {
				return []cval{cConst(constant.MakeInt64(tv)), cTop, cTop}, true
			}
			return nil, false
		}
		for _, rp := range s.Eval(f, nil) {
			if len(rp.Results) != 2 || rp.Results[0].nilc {
				continue
			}
			set := tsets.of(rp.Instr.Results[0], map[ssa.Value]bool{})
			if set.top {
				return 0, ""
			}
			for n := range set.types {
				got[n] = true
			}
		}
	}
	handled := assertedAway(p, fb, ts)
	var reachMissing []string
	for _, m := range missing {
		if got[m] && !handled[m] {
			reachMissing = append(reachMissing, m)
		}
	}
	names := make([]string, 0, len(got))
	for n := range got {
		names = append(names, n)
	}
	sort.Strings(names)
	if len(reachMissing) > 0 {
		return -1, "parseUnaryExpr can return " + strings.Join(reachMissing, ", ") + " for an operand after a sign, and the switch has no case for it"
	}
	var tn []string
	for _, v := range toks {
		tn = append(tn, tt.Name[v])
	}
	return 1, fmt.Sprintf("after a sign the operand starts with one of %s, for which parseUnaryExpr can only return %s — all handled by the switch", strings.Join(tn, ", "), strings.Join(names, ", "))
}

func tokringC04(c *Ctx) {
	p := c.P
	c.Rule("C04.tokring", "the token push-back depth, tracked as a bounded counter through every parse function (summaries split by nil / non-nil error result, iterated to a fixpoint over the mutually recursive parser), never exceeds the ring's slots on any path from any exported parser entry point")
	unscanP := p.SSAFunc(p.Method("Parser", "Unscan"))
	scanP := p.SSAFunc(p.Method("Parser", "Scan"))
	scanRe := p.SSAFunc(p.Method("Parser", "ScanRegex"))
	if unscanP == nil || scanP == nil || scanRe == nil {
		c.Unk("C04.tokring", "Parser.Scan/Unscan", 0, "anchors not found")
		return
	}
	spec := &pbSpec{p: p, cap: ringCap(p, "bufScanner"), inc: map[*ssa.Function]bool{unscanP: true}, dec: map[*ssa.Function]bool{scanP: true, scanRe: true},
		incInvoke: map[string]bool{}, decInvoke: map[string]bool{}, scope: map[*ssa.Function]bool{}, bySig: map[string][]*ssa.Function{}}
	if spec.cap == 0 {
		c.Unk("C04.tokring", "bufScanner ring", 0, "ring capacity not found")
		return
	}
	var entries []*ssa.Function
	for _, f := range p.allSSAFuncs() {
		if spec.inc[f] || spec.dec[f] {
			continue
		}
		root := f
		for root.Parent() != nil {
			root = root.Parent()
		}
		o, _ := root.Object().(*types.Func)
		if o == nil {
			continue
		}
		rn := recvTypeName(o)
		if rn == "Parser" && o.Name() != "scan" && o.Name() != "peekRune" || rn == "ParseTree" || isInitFunc(root.Name()) && f.Parent() != nil {
			spec.scope[f] = true
			sig := sigKey(f.Signature)
			if f.Parent() != nil {
				spec.bySig[sig] = append(spec.bySig[sig], f)
			}
			if rn == "Parser" && o.Exported() && f.Parent() == nil {
				entries = append(entries, f)
			}
		}
	}
	a := newPB(spec)
	a.run()
	depth := a.closure(entries)
	key := fmt.Sprintf("bufScanner: maximum push-back depth within the ring of %d", spec.cap)
	if depth > spec.cap {
		c.Bad("C04.tokring", key, 0, fmt.Sprintf("a path can push back %d tokens into a ring of %d slots (first overflow: %s): a stale token is replayed", depth, spec.cap, a.overAt))
	} else {
		c.OK("C04.tokring", key, 0, fmt.Sprintf("maximum depth %d over %d parse functions from %d entry points", depth, len(spec.scope), len(entries)))
	}
	c.Floor("C04.tokring", len(spec.scope), 100)
}

// eofexitC04: every loop that reads input exits when the input is exhausted.
func eofexitC04(c *Ctx, tt *tokenTable) {
	p := c.P
	c.Rule("C04.eofexit", "every loop of the lexer and parser that reads input (directly or through a callee) cannot take its back edge once every read primitive reports end of input — checked by constant propagation with reads bound to EOF; loops that read nothing are range or counting loops over data already in memory")
	may := p.mayScan()
	read := p.SSAFunc(p.Method("reader", "read"))
	eofTok := tt.cv("EOF")
	readsInput := func(f *ssa.Function, blocks map[int]bool) bool {
		for _, b := range f.Blocks {
			if !blocks[b.Index] {
				continue
			}
			for _, in := range b.Instrs {
				call, ok := in.(*ssa.Call)
				if !ok {
					continue
				}
				if call.Call.IsInvoke() {
					if n := call.Call.Method.Name(); n == "ReadRune" {
						return true
					}
					continue
				}
				callee := call.Call.StaticCallee()
				if callee == nil {
					if _, isB := call.Call.Value.(*ssa.Builtin); !isB {
						// dynamic call (statement handler): may scan
						if strings.Contains(call.Call.Signature().String(), "Parser") {
							return true
						}
					}
					continue
				}
				if callee == read {
					return true
				}
				if o, ok := callee.Object().(*types.Func); ok {
					if may[o] {
						return true
					}
					switch o.Name() {
					case "ScanDelimited", "ScanString", "ScanBareIdent", "scanDigits", "scanWhitespace", "skipUntilNewline", "skipUntilEndComment", "ReadRune":
						return true
					}
				}
			}
		}
		return false
	}
	n := 0
	loopNo := map[string]int{}
	for _, f := range p.allSSAFuncs() {
		root := f
		for root.Parent() != nil {
			root = root.Parent()
		}
		o, _ := root.Object().(*types.Func)
		if o == nil {
			continue
		}
		rn := recvTypeName(o)
		if !(parserTypes[rn] || o.Name() == "ScanDelimited" || o.Name() == "ScanString" || o.Name() == "ScanBareIdent") {
			continue
		}
		// back edges: succ dominates block
		type edge struct{ from, to *ssa.BasicBlock }
		var backs []edge
		for _, b := range f.Blocks {
			for _, s := range b.Succs {
				if s.Dominates(b) {
					backs = append(backs, edge{b, s})
				}
			}
		}
		if len(backs) == 0 {
			continue
		}
		s := p.newSCCP()
		s.maxDepth = 2
		s.hook = func(call *ssa.Call, args []cval) ([]cval, bool) {
			if call.Call.IsInvoke() {
				switch call.Call.Method.Name() {
				case "ReadRune":
					return []cval{cConst(constant.MakeInt64(0)), cTop, cSym("io.EOF")}, true
				}
				return nil, false
			}
			callee := call.Call.StaticCallee()
			if callee == nil {
				return nil, false
			}
			switch callee {
			case read:
				return []cval{cConst(constant.MakeInt64(int64(p.eofRune()))), cTop}, true
			}
			if fo, ok := callee.Object().(*types.Func); ok && recvTypeName(fo) == "Parser" {
				switch fo.Name() {
				case "Scan", "ScanRegex", "ScanIgnoreWhitespace":
					return []cval{eofTok, cTop, cConst(constant.MakeString(""))}, true
				case "peekRune":
					return []cval{cConst(constant.MakeInt64(int64(p.eofRune())))}, true
				}
			}
			if fo, ok := callee.Object().(*types.Func); ok && (recvTypeName(fo) == "bufScanner" || recvTypeName(fo) == "Scanner") {
				switch fo.Name() {
				case "Scan", "ScanRegex", "scanFunc":
					return []cval{eofTok, cTop, cConst(constant.MakeString(""))}, true
				}
			}
			return nil, false
		}
		r := s.run(f, nil, 0)
		for _, e := range backs {
			// loop body = blocks dominated by the header from which the latch is reachable (approximate: dominated by header)
			body := map[int]bool{}
			for _, b := range f.Blocks {
				if e.to.Dominates(b) && reaches(b, e.from, map[int]bool{}) {
					body[b.Index] = true
				}
			}
			n++
			loopNo[ssaFuncName(f)]++
			key := fmt.Sprintf("%s: loop #%d (%s)", ssaFuncName(f), loopNo[ssaFuncName(f)], e.to.Comment)
			if isDataLoop(f, e.to) {
				c.OK("C04.eofexit", key, e.to.Instrs[0].Pos(), "bounded by data in memory (range / index < len)")
				continue
			}
			if !readsInput(f, body) {
				if why, ok := finiteLoops[ssaFuncName(f)]; ok {
					c.OK("C04.eofexit", key, e.to.Instrs[0].Pos(), why)
				} else {
					c.Unk("C04.eofexit", key, e.to.Instrs[0].Pos(), "a loop that neither reads input nor is a recognised range/counting loop")
				}
				continue
			}
			if ssaFuncName(f) == "(*ParseTree).Parse" && r.execE[[2]int{e.from.Index, e.to.Index}] {
				// the loop continues only into a registered sub-tree; EOF is never registered
				if bad := eofRegistered(p, tt); bad == "" {
					c.OK("C04.eofexit", key, e.to.Instrs[0].Pos(), "continues only for a token with a registered sub-tree; no Group/Handle call registers EOF (all registration tokens are keyword constants)")
				} else {
					c.Bad("C04.eofexit", key, e.to.Instrs[0].Pos(), bad)
				}
				continue
			}
			if r.execE[[2]int{e.from.Index, e.to.Index}] {
				// the back edge is taken, but the header's own test, with the loop
				// variables as that edge delivers them, leaves the loop
				if ifi, ok := e.to.Instrs[len(e.to.Instrs)-1].(*ssa.If); ok {
					predIdx := -1
					for i, pb := range e.to.Preds {
						if pb == e.from {
							predIdx = i
						}
					}
					cond := ifi.Cond
					neg := false
					if u, ok := cond.(*ssa.UnOp); ok && u.Op == token.NOT {
						cond, neg = u.X, true
					}
					if phi, ok := cond.(*ssa.Phi); ok && phi.Block() == e.to && predIdx >= 0 {
						if bv, isB := isBoolConst(r.get(phi.Edges[predIdx])); isB {
							if neg {
								bv = !bv
							}
							next := e.to.Succs[1]
							if bv {
								next = e.to.Succs[0]
							}
							if !body[next.Index] {
								c.OK("C04.eofexit", key, e.to.Instrs[0].Pos(), "at end of input the latch hands the loop test a value with which it leaves the loop")
								continue
							}
						}
					}
				}
				dyn := false
				for _, lb := range f.Blocks {
					if !body[lb.Index] || len(lb.Instrs) == 0 {
						continue
					}
					if ifi, ok := lb.Instrs[len(lb.Instrs)-1].(*ssa.If); ok {
						cond := ifi.Cond
						if u, ok := cond.(*ssa.UnOp); ok && u.Op == token.NOT {
							cond = u.X
						}
						if call, ok := cond.(*ssa.Call); ok && call.Call.StaticCallee() == nil {
							dyn = true
						}
					}
				}
				if dyn {
					c.Unk("C04.eofexit", key, e.from.Instrs[len(e.from.Instrs)-1].Pos(), "the loop is left on the answer of a function value (a predicate passed in): what it answers for the end marker is decided at its call sites, not here")
					continue
				}
				c.Bad("C04.eofexit", key, e.from.Instrs[len(e.from.Instrs)-1].Pos(), "with every read reporting end of input the loop can still take its back edge: it spins forever on truncated input")
			} else {
				c.OK("C04.eofexit", key, e.to.Instrs[0].Pos(), "back edge is dead at end of input")
			}
		}
	}
	c.Floor("C04.eofexit", n, 25)
}

func reaches(from, to *ssa.BasicBlock, seen map[int]bool) bool {
	if from == to {
		return true
	}
	if seen[from.Index] {
		return false
	}
	seen[from.Index] = true
	for _, s := range from.Succs {
		if reaches(s, to, seen) {
			return true
		}
	}
	return false
}

func isDataLoop(f *ssa.Function, header *ssa.BasicBlock) bool {
	// range over map/string: Next; range over slice / counting loop: index compared with len or a bound
	for _, b := range f.Blocks {
		if !header.Dominates(b) && b != header {
			continue
		}
		for _, in := range b.Instrs {
			switch x := in.(type) {
			case *ssa.Next:
				return true
			case *ssa.If:
				if b != header {
					continue
				}
				if bo, ok := x.Cond.(*ssa.BinOp); ok {
					for _, side := range []ssa.Value{bo.X, bo.Y} {
						if call, ok := side.(*ssa.Call); ok {
							if bi, ok := call.Call.Value.(*ssa.Builtin); ok && bi.Name() == "len" {
								return true
							}
						}
						if _, ok := side.(*ssa.Const); ok {
							return true
						}
					}
				}
			}
		}
	}
	return false
}

// errshapeC04: a statement parser that reports success returns a statement.
func errshapeC04(c *Ctx) {
	p := c.P
	c.Rule("C04.errshape", "every return of a statement-level parse function carries either a nil error together with a node built on that path (never a nil pointer, which would become a non-nil Statement holding nil and panic when printed) or an error")
	stmtIface := p.Named("Statement")
	n := 0
	for _, f := range p.SortedFuncs() {
		if recvTypeName(f) != "Parser" || !strings.HasPrefix(f.Name(), "parse") || !strings.HasSuffix(f.Name(), "Statement") {
			continue
		}
		sf := p.SSAFunc(f)
		if sf == nil || sf.Signature.Results().Len() != 2 {
			continue
		}
		rt := sf.Signature.Results().At(0).Type()
		if stmtIface != nil && !types.Implements(rt, stmtIface.Underlying().(*types.Interface)) {
			continue
		}
		n++
		bad := ""
		for _, b := range sf.Blocks {
			ret, ok := b.Instrs[len(b.Instrs)-1].(*ssa.Return)
			if !ok {
				continue
			}
			if errClass(ret) == 1 {
				continue
			}
			if k, ok := ret.Results[0].(*ssa.Const); ok && k.IsNil() {
				bad = p.Pos(ret.Pos())
			}
		}
		if bad != "" {
			c.Bad("C04.errshape", FuncName(f), f.Pos(), "returns a nil statement with a possibly nil error at "+bad)
		} else {
			c.OK("C04.errshape", FuncName(f), f.Pos(), "success returns carry a statement")
		}
	}
	c.Floor("C04.errshape", n, 40)
}

// finiteLoops: loops that read no input and are not range/counting loops,
// with the reason they terminate.
var finiteLoops = map[string]string{
	"(*Parser).ParseExpr": "descends the right spine of the expression tree built so far: one step per existing BinaryExpr, and the tree is finite and acyclic because every node is freshly allocated by this loop",
}

// eofRegistered returns "" when no Group/Handle registration uses a token
// that end of input could produce.
func eofRegistered(p *Program, tt *tokenTable) string {
	bad := ""
	n := 0
	for _, fb := range p.funcBodies() {
		ast.Inspect(fb.Body, func(nd ast.Node) bool {
			call, ok := nd.(*ast.CallExpr)
			if !ok {
				return true
			}
			sel, ok := call.Fun.(*ast.SelectorExpr)
			if !ok || (sel.Sel.Name != "Group" && sel.Sel.Name != "Handle") {
				return true
			}
			if s := p.Info.Selections[sel]; s == nil || strings.TrimPrefix(p.TypeStr(s.Recv()), "*") != "ParseTree" {
				return true
			}
			for _, a := range call.Args {
				if t := p.Info.TypeOf(a); t == nil || !types.Identical(t, tt.Type) {
					continue
				}
				n++
				tv := p.Info.Types[a]
				if tv.Value == nil {
					// forwarded parameter inside ParseTree's own helpers
					if recvTypeName(fb.Decl) != "ParseTree" {
						bad = "a registration with a non-constant token at " + p.Pos(a.Pos())
					}
					continue
				}
				v, _ := constant.Int64Val(constant.ToInt(tv.Value))
				if !(v > tt.ByName["keywordBeg"] && v < tt.ByName["keywordEnd"]) {
					bad = "the non-keyword token " + tt.Name[v] + " is registered at " + p.Pos(a.Pos())
				}
			}
			return true
		})
	}
	if n < 40 && bad == "" {
		bad = fmt.Sprintf("only %d registration tokens found", n)
	}
	return bad
}

// typedNilC04: a nil test on an interface value that was just built from a
// concrete pointer never succeeds; the code believes the value can be absent
// (it tests for it) and then uses it as present.
func typedNilC04(c *Ctx) { typedNilRule(c, "C04.typednil") }

func typedNilRule(c *Ctx, rule string) {
	p := c.P
	c.Rule(rule, "no comparison with nil is made on an interface value that on every incoming path was converted from a concrete pointer (the comparison is false even when the pointer is nil): the `missing operand` guards of the parser must test the pointer itself")
	n := 0
	var onlyBoxed func(v ssa.Value, depth int) (boxed bool, from ssa.Value)
	onlyBoxed = func(v ssa.Value, depth int) (bool, ssa.Value) {
		if depth > 4 {
			return false, nil
		}
		switch x := v.(type) {
		case *ssa.MakeInterface:
			if _, ok := x.X.Type().Underlying().(*types.Pointer); ok {
				if _, isAlloc := x.X.(*ssa.Alloc); !isAlloc {
					return true, x.X
				}
			}
		case *ssa.Phi:
			var from ssa.Value
			for _, e := range x.Edges {
				ok, f := onlyBoxed(e, depth+1)
				if !ok {
					return false, nil
				}
				from = f
			}
			return from != nil, from
		}
		return false, nil
	}
	for _, fn := range p.SrcFuncs() {
		fns := append([]*ssa.Function{fn}, fn.AnonFuncs...)
		for _, f := range fns {
			for _, b := range f.Blocks {
				for _, in := range b.Instrs {
					bo, ok := in.(*ssa.BinOp)
					if !ok || (bo.Op != token.EQL && bo.Op != token.NEQ) {
						continue
					}
					if _, ok := bo.X.Type().Underlying().(*types.Interface); !ok {
						continue
					}
					var other ssa.Value
					if k, ok := bo.Y.(*ssa.Const); ok && k.Value == nil {
						other = bo.X
					} else if k, ok := bo.X.(*ssa.Const); ok && k.Value == nil {
						other = bo.Y
					}
					if other == nil {
						continue
					}
					n++
					if boxed, from := onlyBoxed(other, 0); boxed {
						key := fmt.Sprintf("%s: nil test of a boxed %s", f.Name(), p.TypeStr(from.Type()))
						c.Bad(rule, key, bo.Pos(), "the tested interface value always holds a (possibly nil) "+p.TypeStr(from.Type())+": the test never reports a missing value, and the nil pointer is handed on as if present")
					}
				}
			}
		}
	}
	c.OK(rule, "interface nil tests examined", 0, fmt.Sprintf("%d comparisons of an interface value with nil; none is on a freshly boxed pointer", n))
	c.Floor(rule, n, 40)
}

// assertedAway lists the types a statement before the type switch ts already
// took out of play: `if x, ok := op.(*T); ok { ...return }` with the bare ok as
// its whole condition. A condition that adds anything lets *T through.
func assertedAway(p *Program, fb funcBody, ts *ast.TypeSwitchStmt) map[string]bool {
	out := map[string]bool{}
	op := identOf(typeSwitchOperand(ts))
	if op == nil {
		return out
	}
	opObj := p.Info.ObjectOf(op)
	ast.Inspect(fb.Body, func(n ast.Node) bool {
		blk, ok := n.(*ast.BlockStmt)
		if !ok {
			return true
		}
		k := indexOf(blk.List, ts)
		if k < 0 {
			return true
		}
		for _, st := range blk.List[:k] {
			is, ok := st.(*ast.IfStmt)
			if !ok || is.Init == nil || is.Else != nil {
				continue
			}
			as, ok := is.Init.(*ast.AssignStmt)
			if !ok || len(as.Lhs) != 2 || len(as.Rhs) != 1 {
				continue
			}
			ta, ok := ast.Unparen(as.Rhs[0]).(*ast.TypeAssertExpr)
			if !ok || ta.Type == nil {
				continue
			}
			x := identOf(ta.X)
			okID := identOf(as.Lhs[1])
			cond := identOf(is.Cond)
			if x == nil || okID == nil || cond == nil || p.Info.ObjectOf(x) != opObj || p.Info.ObjectOf(cond) != p.Info.ObjectOf(okID) {
				continue
			}
			if len(is.Body.List) == 0 {
				continue
			}
			if _, isRet := is.Body.List[len(is.Body.List)-1].(*ast.ReturnStmt); !isRet {
				continue
			}
			out[p.TypeStr(p.Info.TypeOf(ta.Type))] = true
		}
		return true
	})
	return out
}

// bareProgressC04: the bare-identifier reader consumes what it is entered for.
func bareProgressC04(c *Ctx) {
	p := c.P
	c.Rule("C04.progress", "ScanBareIdent, evaluated with its reader delivering one and the same identifier character for ever (a letter, a digit, an underscore), has no reachable return: it never stops in front of a character for which scanIdent's loop re-enters it, so that loop always advances (a reader that refuses, say, a leading digit returns at once with nothing consumed and the scanner spins on `$1`)")
	f := p.SSAFunc(p.Func("ScanBareIdent"))
	isIC := p.Func("isIdentChar")
	if f == nil || isIC == nil {
		c.Unk("C04.progress", "ScanBareIdent", 0, "anchor not found")
		return
	}
	s0 := p.newSCCP()
	n := 0
	for _, ch := range []rune{'a', 'Z', '_', '0', '7'} {
		if ok, dec := s0.evalConstBool(isIC, cConst(constant.MakeInt64(int64(ch)))); !dec || !ok {
			continue
		}
		n++
		s := p.newSCCP()
		s.hook = func(call *ssa.Call, args []cval) ([]cval, bool) {
			if call.Call.IsInvoke() && call.Call.Method.Name() == "ReadRune" {
				return []cval{cConst(constant.MakeInt64(int64(ch))), cTop, cNil()}, true
			}
			return nil, false
		}
		key := fmt.Sprintf("ScanBareIdent: fed %q for ever", ch)
		if rets := s.Eval(f, nil); len(rets) == 0 {
			c.OK("C04.progress", key, f.Pos(), "keeps consuming")
		} else {
			c.Bad("C04.progress", key, rets[0].Pos, "can return while an identifier character is waiting: the caller's loop re-enters it without progress")
		}
	}
	c.Floor("C04.progress", n, 3)
}

// reprintC04: a printer renders each child once.
func reprintC04(c *Ctx) {
	p := c.P
	c.Rule("C04.reprint", "no String method of an AST node renders the same child twice on one path (two String() calls on the same field of the receiver, one dominating the other): for a node that can nest in itself — a parenthesised group — the cost doubles with every level, and a few dozen nested parentheses no longer finish printing (parseFill prints its argument while parsing)")
	n, bad := 0, 0
	for _, t := range p.Implementers("Node") {
		tn := strings.TrimPrefix(p.TypeStr(t), "*")
		f := p.SSAFunc(p.Method(tn, "String"))
		if f == nil || len(f.Params) == 0 {
			continue
		}
		type site struct {
			call *ssa.Call
			fld  string
		}
		var sites []site
		for _, b := range f.Blocks {
			for _, in := range b.Instrs {
				call, ok := in.(*ssa.Call)
				if !ok {
					continue
				}
				var recv ssa.Value
				name := ""
				if call.Call.IsInvoke() {
					name, recv = call.Call.Method.Name(), call.Call.Value
				} else if cal := call.Call.StaticCallee(); cal != nil && cal.Signature.Recv() != nil && len(call.Call.Args) > 0 {
					name, recv = cal.Name(), call.Call.Args[0]
				}
				if name != "String" || recv == nil {
					continue
				}
				if base, fld, ok := fieldRef(recv); ok && base == f.Params[0].Name() {
					sites = append(sites, site{call, fld})
				}
			}
		}
		n += len(sites)
		for i, a := range sites {
			for j, b := range sites {
				if i >= j || a.fld != b.fld {
					continue
				}
				ab, bb := a.call.Block(), b.call.Block()
				if ab == bb || ab.Dominates(bb) || bb.Dominates(ab) {
					bad++
					c.Bad("C04.reprint", fmt.Sprintf("%s.String: %s rendered twice", tn, a.fld), b.call.Pos(), "the child is printed twice on one path: the time to print (and, through parseFill, to parse) nested "+tn+" nodes is exponential in the depth")
				}
			}
		}
	}
	c.OK("C04.reprint", "child renderings examined", 0, fmt.Sprintf("%d String() calls on receiver fields, %d repeated", n, bad))
	c.Floor("C04.reprint", n, 40)
}
