package main

import (
	"fmt"
	"go/ast"
	"go/constant"
	"go/token"
	"go/types"
	"sort"
	"strings"

	"golang.org/x/tools/go/ssa"
	"golang.org/x/tools/go/types/typeutil"
)

// unit multipliers as the property states them (nanoseconds).
var unitSpec = map[string]int64{
	"ns": 1, "u": 1e3, "µ": 1e3, "ms": 1e6, "s": 1e9, "m": 60e9, "h": 3600e9, "d": 86400e9, "w": 604800e9,
}

func init() { register("C08", rulesC08) }

func rulesC08(c *Ctx) {
	p := c.P
	pd := p.Func("ParseDuration")
	fdur := p.Func("FormatDuration")
	if pd == nil || fdur == nil {
		c.Unk("C08.units", "anchors", 0, "ParseDuration/FormatDuration not found")
		return
	}
	parseTable := unitsC08(c, p.SSAFunc(pd))
	ladderC08(c, p.SSAFunc(fdur), parseTable)
	formatEvalC08(c, p.SSAFunc(fdur))
	overflowC08(c, p.SSAFunc(pd))
	digitsC08(c, p.SSAFunc(pd))
	pureC08(c)
	slotsC08(c)
	runeIndexC08(c, p.SSAFunc(pd))
	distinctStoreC08(c)
	// a duration literal node is built anew for every occurrence: a node kept by
	// the parser and handed out twice is negated in place by the unary minus
	parseFreshRule(c, "C08.parsefresh")
	strconvRule(c, "C08.strconv")
	charWidthRule(c, "C08.charwidth")
}

// runeIndexC08: positions in the rune slice are moved by rune counts.
func runeIndexC08(c *Ctx, f *ssa.Function) {
	c.Rule("C08.runeindex", "in ParseDuration no byte length (len of a string) is added to a position in the rune slice the text was converted to: `µ` is one rune and two bytes, so the component after it would be entered one rune late")
	n := 0
	for _, b := range f.Blocks {
		for _, in := range b.Instrs {
			add, ok := in.(*ssa.BinOp)
			if !ok || add.Op != token.ADD || !isIntegerType(add.Type()) {
				continue
			}
			for _, pair := range [][2]ssa.Value{{add.X, add.Y}, {add.Y, add.X}} {
				call, ok := pair[0].(*ssa.Call)
				if !ok {
					continue
				}
				bi, ok := call.Call.Value.(*ssa.Builtin)
				if !ok || bi.Name() != "len" || !isStringType(call.Call.Args[0].Type()) {
					continue
				}
				// is the other operand (or the sum) used as an index into a []rune?
				indexesRunes := false
				var uses func(v ssa.Value, d int)
				seen := map[ssa.Value]bool{}
				uses = func(v ssa.Value, d int) {
					if d > 4 || seen[v] || v.Referrers() == nil {
						return
					}
					seen[v] = true
					for _, ref := range *v.Referrers() {
						switch r := ref.(type) {
						case *ssa.IndexAddr:
							if sl, ok := r.X.Type().Underlying().(*types.Slice); ok && r.Index == v {
								if bt, ok := sl.Elem().Underlying().(*types.Basic); ok && bt.Kind() == types.Int32 {
									indexesRunes = true
								}
							}
						case *ssa.Phi:
							uses(r, d+1)
						case *ssa.BinOp:
							uses(r, d+1)
						}
					}
				}
				uses(add, 0)
				uses(pair[1], 0)
				n++
				key := fmt.Sprintf("ParseDuration: position + len(string) #%d", n)
				if indexesRunes {
					c.Bad("C08.runeindex", key, add.Pos(), "a position in the rune slice is advanced by the byte length of a string")
				} else {
					c.OK("C08.runeindex", key, add.Pos(), "not used as a rune index")
				}
			}
		}
	}
	c.OK("C08.runeindex", "ParseDuration: byte lengths added to positions", f.Pos(), fmt.Sprintf("%d", n))
}

// digitsC08: the numeric part of a component is read as a decimal 64-bit integer.
// digitCapC08: a test of the number of digits of a component that ends in an
// error must admit 19 digits — 9223372036854775807ns is a duration.
func digitCapC08(c *Ctx, f *ssa.Function) {
	isErrBlock := func(b *ssa.BasicBlock) bool {
		ret, ok := b.Instrs[len(b.Instrs)-1].(*ssa.Return)
		if !ok || len(ret.Results) != 2 {
			return false
		}
		k, isC := ret.Results[1].(*ssa.Const)
		return !(isC && k.IsNil())
	}
	n := 0
	for _, b := range f.Blocks {
		ifi, ok := b.Instrs[len(b.Instrs)-1].(*ssa.If)
		if !ok {
			continue
		}
		cmp, ok := ifi.Cond.(*ssa.BinOp)
		if !ok || (cmp.Op != token.GTR && cmp.Op != token.GEQ) || !isErrBlock(b.Succs[0]) {
			continue
		}
		k, ok := cmp.Y.(*ssa.Const)
		if !ok || k.Value == nil || !isIntegerType(cmp.X.Type()) {
			continue
		}
		// the count: a difference of two positions, or the length of a slice of the text
		count := false
		switch x := cmp.X.(type) {
		case *ssa.BinOp:
			if x.Op == token.SUB {
				_, c1 := x.X.(*ssa.Const)
				_, c2 := x.Y.(*ssa.Const)
				count = !c1 && !c2
			}
		case *ssa.Call:
			if bi, ok := x.Call.Value.(*ssa.Builtin); ok && bi.Name() == "len" {
				_, isSlice := x.Call.Args[0].(*ssa.Slice)
				count = isSlice
			}
		}
		if !count {
			continue
		}
		lim, _ := constant.Int64Val(constant.ToInt(k.Value))
		if cmp.Op == token.GEQ {
			lim--
		}
		if lim < 2 {
			continue
		}
		n++
		key := fmt.Sprintf("ParseDuration: digit-count limit #%d", n)
		if lim >= 19 {
			c.OK("C08.digits", key, cmp.Pos(), fmt.Sprintf("admits %d digits", lim))
		} else {
			c.Bad("C08.digits", key, cmp.Pos(), fmt.Sprintf("a component of more than %d digits is rejected, but a 19-digit count of nanoseconds (what FormatDuration prints for the largest durations) fits in int64", lim))
		}
	}
}

func digitsC08(c *Ctx, f *ssa.Function) {
	c.Rule("C08.digits", "ParseDuration converts the digits of each component with strconv.ParseInt in base 10 and 64 bits (the digits it collects are decimal digits; another or an auto-detected base reads 010m as 8m)")
	digitCapC08(c, f)
	n := 0
	for _, b := range f.Blocks {
		for _, in := range b.Instrs {
			call, ok := in.(*ssa.Call)
			if !ok || call.Call.StaticCallee() == nil {
				continue
			}
			switch call.Call.StaticCallee().String() {
			case "strconv.ParseInt":
				n++
				base, okB := call.Call.Args[1].(*ssa.Const)
				bits, okS := call.Call.Args[2].(*ssa.Const)
				key := fmt.Sprintf("ParseDuration: ParseInt #%d", n)
				switch {
				case !okB || !okS || base.Value == nil || bits.Value == nil:
					c.Unk("C08.digits", key, call.Pos(), "base or size is not a constant")
				case base.Value.String() != "10":
					c.Bad("C08.digits", key, call.Pos(), "base "+base.Value.String()+": a component with a leading zero is read in another base or rejected")
				case bits.Value.String() != "64":
					c.Bad("C08.digits", key, call.Pos(), "size "+bits.Value.String()+": components above that size are rejected though their total fits")
				default:
					c.OK("C08.digits", key, call.Pos(), "base 10, 64 bits")
				}
			case "strconv.Atoi", "strconv.ParseUint", "strconv.ParseFloat":
				n++
				c.Unk("C08.digits", fmt.Sprintf("ParseDuration: %s #%d", call.Call.StaticCallee().Name(), n), call.Pos(), "digits converted by a function this rule has no exactness argument for")
			}
		}
	}
	if n == 0 {
		// no library conversion: digits accumulated by hand
		for _, b := range f.Blocks {
			for _, in := range b.Instrs {
				mul, ok := in.(*ssa.BinOp)
				if !ok || mul.Op != token.MUL || !isIntegerType(mul.Type()) {
					continue
				}
				k, ok := mul.Y.(*ssa.Const)
				if !ok || k.Value == nil || k.Value.String() != "10" {
					continue
				}
				acc, isPhi := mul.X.(*ssa.Phi)
				if !isPhi {
					continue
				}
				n++
				// what guards the accumulator? only comparisons of it with 0 cannot
				// see a wrap past 2^64
				onlySign, any := true, false
				var scan func(v ssa.Value, d int)
				seenV := map[ssa.Value]bool{}
				inLoop := func(b *ssa.BasicBlock) bool {
					// b is on a cycle through the accumulator's block
					seenB := map[*ssa.BasicBlock]bool{}
					var reach func(x *ssa.BasicBlock) bool
					reach = func(x *ssa.BasicBlock) bool {
						for _, nx := range x.Succs {
							if nx == acc.Block() {
								return true
							}
							if nx != acc.Block() && nx.Dominates(acc.Block()) {
								continue // leaves the innermost loop through an enclosing header
							}
							if !seenB[nx] {
								seenB[nx] = true
								if reach(nx) {
									return true
								}
							}
						}
						return false
					}
					return acc.Block().Dominates(b) && reach(b)
				}
				scan = func(v ssa.Value, d int) {
					if seenV[v] || d > 4 {
						return
					}
					seenV[v] = true
					for _, ref := range *v.Referrers() {
						if !inLoop(ref.Block()) {
							continue
						}
						switch r := ref.(type) {
						case *ssa.BinOp:
							switch r.Op {
							case token.LSS, token.LEQ, token.GTR, token.GEQ:
								any = true
								other := r.Y
								if other == v {
									other = r.X
								}
								if kk, ok := other.(*ssa.Const); !ok || kk.Value == nil || constant.Sign(kk.Value) != 0 {
									onlySign = false
								}
							case token.ADD, token.MUL:
								scan(r, d+1)
							case token.QUO:
								onlySign, any = false, true
							}
						case *ssa.Phi:
							scan(r, d+1)
						}
					}
				}
				scan(acc, 0)
				key := "ParseDuration: digits accumulated as n*10 + digit"
				switch {
				case !any:
					c.Bad("C08.digits", key, mul.Pos(), "no overflow test on the accumulated number: a component of 2^63 or more wraps")
				case onlySign:
					c.Bad("C08.digits", key, mul.Pos(), "the only overflow test is the sign of the accumulated number: a component of 2^64 or more wraps past the sign bit to a small non-negative value (18446744073709551617ns parses as 1ns)")
				default:
					c.Unk("C08.digits", key, mul.Pos(), "hand-written accumulation with a bound test this rule does not evaluate")
				}
			}
		}
	}
	c.Floor("C08.digits", n, 1)
}

// pureC08: the result depends on the argument only.
func pureC08(c *Ctx) {
	c.Rule("C08.pure", "ParseDuration and FormatDuration (and the in-package functions they call) read no package-level variable other than error values that nothing outside init assigns: the same spelling always yields the same duration, whatever was parsed before")
	pureRule(c, "C08.pure", "ParseDuration", "FormatDuration")
}

// pureRule: the named functions and their in-package callees touch no
// package-level state that anything could have changed since initialisation.
func pureRule(c *Ctx, rule string, names ...string) {
	p := c.P
	for _, name := range names {
		var root *ssa.Function
		if i := strings.Index(name, "."); i > 0 {
			root = p.SSAFunc(p.Method(name[:i], name[i+1:]))
		} else {
			root = p.SSAFunc(p.Func(name))
		}
		if root == nil {
			continue
		}
		seen := map[*ssa.Function]bool{}
		globals := map[*ssa.Global]token.Pos{}
		var visit func(f *ssa.Function)
		visit = func(f *ssa.Function) {
			if seen[f] || f.Pkg != p.SPkg {
				return
			}
			seen[f] = true
			for _, b := range f.Blocks {
				for _, in := range b.Instrs {
					for _, op := range in.Operands(nil) {
						if g, ok := (*op).(*ssa.Global); ok && g.Pkg == p.SPkg {
							if _, has := globals[g]; !has {
								globals[g] = in.Pos()
							}
						}
					}
					if call, ok := in.(*ssa.Call); ok {
						if cal := call.Call.StaticCallee(); cal != nil {
							visit(cal)
						}
					}
				}
			}
		}
		visit(root)
		for g, pos := range globals {
			key := name + ": reads " + g.Name()
			errT := types.Universe.Lookup("error").Type()
			if types.Identical(g.Type().(*types.Pointer).Elem(), errT) && !assignedOutsideInit(p, g) {
				c.OK(rule, key, pos, "an error value assigned only at initialisation")
			} else if !assignedOutsideInit(p, g) && !hasSyncType(g.Type(), 0) && !elementWritten(p, g) {
				c.OK(rule, key, pos, "a table that nothing outside initialisation assigns or writes into")
			} else {
				c.Bad(rule, key, pos, "mutable package-level state on the way from the argument to the result: the result can depend on earlier calls")
			}
		}
		c.OK(rule, name+": package-level variables examined", root.Pos(), fmt.Sprintf("%d functions, %d variables", len(seen), len(globals)))
	}
}

func assignedOutsideInit(p *Program, g *ssa.Global) bool {
	initOnly := p.initOnlyFuncs()
	for _, fn := range p.SrcFuncs() {
		if isInitFunc(fn.Name()) || initOnly[fn] {
			continue
		}
		for _, f := range append([]*ssa.Function{fn}, fn.AnonFuncs...) {
			for _, b := range f.Blocks {
				for _, in := range b.Instrs {
					if st, ok := in.(*ssa.Store); ok && st.Addr == ssa.Value(g) {
						return true
					}
				}
			}
		}
	}
	return false
}

// runeLoads finds the switch tag (a rune load compared with >= 5 constants)
// and the look-ahead loads compared with 's'.
func runeLoads(f *ssa.Function) (tag ssa.Value, consts []int64, look []ssa.Value) {
	cmp := map[ssa.Value][]int64{}
	for _, b := range f.Blocks {
		for _, in := range b.Instrs {
			bo, ok := in.(*ssa.BinOp)
			if !ok || (bo.Op != token.EQL && bo.Op != token.NEQ) {
				continue
			}
			k, isC := bo.Y.(*ssa.Const)
			if !isC || k.Value == nil || !isIntegerType(bo.X.Type()) {
				continue
			}
			if _, isLoad := bo.X.(*ssa.UnOp); !isLoad {
				continue
			}
			if n, ok := constant.Int64Val(k.Value); ok {
				cmp[bo.X] = append(cmp[bo.X], n)
			}
		}
	}
	for v, ks := range cmp {
		if len(ks) >= 5 {
			tag, consts = v, ks
		}
	}
	for v, ks := range cmp {
		if v != tag && len(ks) == 1 && ks[0] == 's' {
			look = append(look, v)
		}
	}
	return
}

// unitsC08 extracts (unit char, next char is 's') -> multiplier from ParseDuration.
func unitsC08(c *Ctx, f *ssa.Function) map[string]int64 {
	p := c.P
	c.Rule("C08.units", "the unit table of ParseDuration, extracted by constant propagation with the unit rune (and the look-ahead rune) bound to each constant it is compared with, is exactly ns,u,µ,ms,s,m,h,d,w with the multipliers the property states; any other unit is an error")
	tag, consts, look := runeLoads(f)
	if tag == nil {
		c.Unk("C08.units", "ParseDuration: unit switch", f.Pos(), "no rune compared with >= 5 constants: the unit table has a shape this rule cannot extract")
		return nil
	}
	// component sites: total + component, where component is Duration(n)
	// times constants (possibly none, possibly a phi of constants)
	type site struct {
		add  *ssa.BinOp
		comp ssa.Value
	}
	var sites []site
	var isComp func(v ssa.Value, depth int) bool
	isComp = func(v ssa.Value, depth int) bool {
		if depth > 6 {
			return false
		}
		switch x := v.(type) {
		case *ssa.ChangeType:
			return isIntegerType(x.X.Type()) && p.TypeStr(x.Type()) == "time.Duration"
		case *ssa.Convert:
			return isIntegerType(x.X.Type()) && p.TypeStr(x.Type()) == "time.Duration"
		case *ssa.BinOp:
			return x.Op == token.MUL && (isComp(x.X, depth+1) || isComp(x.Y, depth+1))
		}
		return false
	}
	for _, b := range f.Blocks {
		for _, in := range b.Instrs {
			bo, ok := in.(*ssa.BinOp)
			if !ok || bo.Op != token.ADD || p.TypeStr(bo.Type()) != "time.Duration" {
				continue
			}
			if isComp(bo.Y, 0) {
				sites = append(sites, site{bo, bo.Y})
			} else if isComp(bo.X, 0) {
				sites = append(sites, site{bo, bo.X})
			}
		}
	}
	if len(sites) == 0 {
		c.Unk("C08.units", "ParseDuration: accumulation", f.Pos(), "no total + Duration(n)*multiplier site: the component arithmetic has a shape this rule cannot extract")
		return nil
	}
	mulPos := sites[0].add.Pos()
	// multipliers(r, v): constant factors of a component in run r
	var multipliers func(r *sccpRun, v ssa.Value) (map[int64]bool, bool)
	constSet := func(r *sccpRun, v ssa.Value) (map[int64]bool, bool) {
		out := map[int64]bool{}
		var srcs []ssa.Value
		if phi, ok := v.(*ssa.Phi); ok {
			for i, e := range phi.Edges {
				if r.execE[[2]int{phi.Block().Preds[i].Index, phi.Block().Index}] {
					srcs = append(srcs, e)
				}
			}
		} else {
			srcs = []ssa.Value{v}
		}
		for _, e := range srcs {
			m := r.get(e)
			if !m.isPlain() {
				return nil, false
			}
			n, _ := constant.Int64Val(constant.ToInt(m.v))
			out[n] = true
		}
		return out, true
	}
	multipliers = func(r *sccpRun, v ssa.Value) (map[int64]bool, bool) {
		switch x := v.(type) {
		case *ssa.ChangeType, *ssa.Convert:
			return map[int64]bool{1: true}, true
		case *ssa.BinOp:
			inner, other := x.X, x.Y
			if !isComp(inner, 0) {
				inner, other = x.Y, x.X
			}
			a, ok1 := multipliers(r, inner)
			b, ok2 := constSet(r, other)
			if !ok1 || !ok2 {
				return nil, false
			}
			out := map[int64]bool{}
			for m := range a {
				for n := range b {
					out[m*n] = true
				}
			}
			return out, true
		}
		return nil, false
	}
	// vals[la][ch] = set of constant multipliers that can reach the
	// multiplication when the unit rune is ch and the look-ahead rune is la
	vals := map[int64]map[int64]map[int64]bool{'s': {}, 'x': {}}
	seen := map[int64]bool{}
	cands := append([]int64{}, consts...)
	cands = append(cands, 'x', '1', 'S', 'N')
	sort.Slice(cands, func(i, j int) bool { return cands[i] < cands[j] })
	undecided := false
	for _, ch := range cands {
		if seen[ch] {
			continue
		}
		seen[ch] = true
		for _, la := range []int64{'s', 'x'} {
			s := p.newSCCP()
			s.override = map[ssa.Value]cval{tag: cConst(constant.MakeInt64(ch))}
			for _, l := range look {
				s.override[l] = cConst(constant.MakeInt64(la))
			}
			r := s.run(f, nil, 0)
			set := map[int64]bool{}
			reached := false
			for _, st := range sites {
				if !r.execB[st.add.Block().Index] {
					continue
				}
				reached = true
				ms, ok := multipliers(r, st.comp)
				if !ok {
					undecided = true
					continue
				}
				for m := range ms {
					set[m] = true
				}
			}
			if !reached {
				continue // error on every path
			}
			vals[la][ch] = set
		}
	}
	if undecided {
		c.Unk("C08.units", "ParseDuration: multiplier", mulPos, "a multiplier that is not a constant reaches the multiplication")
	}
	table := map[string]int64{}
	for ch := range seen {
		X, S := vals['x'][ch], vals['s'][ch]
		for v := range X {
			if len(X) == 1 {
				table[string(rune(ch))] = v
			} else {
				c.Unk("C08.units", "ParseDuration: unit "+string(rune(ch)), mulPos, "more than one multiplier for a one-rune unit")
			}
		}
		var extra []int64
		for v := range S {
			if !X[v] {
				extra = append(extra, v)
			}
		}
		if len(extra) == 1 {
			table[string(rune(ch))+"s"] = extra[0]
		} else if len(extra) > 1 {
			c.Unk("C08.units", "ParseDuration: unit "+string(rune(ch))+"s", mulPos, "more than one multiplier for a two-rune unit")
		}
	}
	for u, want := range unitSpec {
		key := "ParseDuration: unit " + u
		if v, ok := table[u]; !ok {
			c.Bad("C08.units", key, mulPos, "unit is rejected (or not reachable) but the property lists it")
		} else if v != want {
			c.Bad("C08.units", key, mulPos, fmt.Sprintf("multiplier %d, the property states %d", v, want))
		} else {
			c.OK("C08.units", key, mulPos, fmt.Sprintf("%d ns", v))
		}
	}
	for u, v := range table {
		if _, ok := unitSpec[u]; !ok {
			c.Bad("C08.units", "ParseDuration: unit "+u, mulPos, fmt.Sprintf("accepted with multiplier %d but not a unit the property lists", v))
		}
	}
	return table
}

// ladderC08 extracts FormatDuration's rungs.
func ladderC08(c *Ctx, f *ssa.Function, parse map[string]int64) {
	c.Rule("C08.ladder", "FormatDuration is a ladder: zero prints 0s; then for strictly descending units, if d % U == 0 it prints d / U with the suffix whose multiplier in ParseDuration's table is U; the last rung prints nanoseconds unconditionally. Descending order is 'largest unit that divides'; agreement with the parse table is necessary for Parse(Format(d)) = d")
	if f == nil || len(f.Params) != 1 {
		c.Unk("C08.ladder", "FormatDuration", 0, "anchor not found")
		return
	}
	d := f.Params[0]
	// divisibility and quotients are integer facts: nothing about d is decided
	// in floating point
	for _, b := range f.Blocks {
		for _, in := range b.Instrs {
			switch x := in.(type) {
			case *ssa.Call:
				if cal := x.Call.StaticCallee(); cal != nil {
					switch cal.String() {
					case "(time.Duration).Hours", "(time.Duration).Minutes", "(time.Duration).Seconds":
						c.Bad("C08.ladder", "FormatDuration: "+cal.Name()+"() in floating point", x.Pos(), "whether the unit divides d is decided on a float64: a long duration with a small remainder (5000h + 1ns) rounds to a whole number of units and prints as if it were one")
					}
				}
			case *ssa.Convert:
				fb, ok1 := x.X.Type().Underlying().(*types.Basic)
				tb, ok2 := x.Type().Underlying().(*types.Basic)
				if ok1 && ok2 && fb.Info()&types.IsInteger != 0 && tb.Info()&types.IsFloat != 0 {
					c.Bad("C08.ladder", "FormatDuration: duration converted to "+tb.Name(), x.Pos(), "the duration is taken through floating point: beyond 2^53 ns the printed value is a neighbour of d")
				}
			}
		}
	}
	constOf := func(v ssa.Value) (int64, bool) {
		k, ok := v.(*ssa.Const)
		if !ok || k.Value == nil {
			return 0, false
		}
		return constant.Int64Val(constant.ToInt(k.Value))
	}
	// format string and divisor of a "return Sprintf(fmt, d / D)" block
	describeReturn := func(b *ssa.BasicBlock) (suffix string, div int64, ok bool) {
		div = 1
		hasQuo := false
		for _, in := range b.Instrs {
			switch x := in.(type) {
			case *ssa.BinOp:
				if x.Op == token.QUO && x.X == d {
					if n, ok := constOf(x.Y); ok {
						div, hasQuo = n, true
					}
				}
			case *ssa.Call:
				if callee := x.Call.StaticCallee(); callee != nil && callee.Name() == "Sprintf" && len(x.Call.Args) > 0 {
					if k, isC := x.Call.Args[0].(*ssa.Const); isC && k.Value != nil {
						fs := constant.StringVal(k.Value)
						if strings.HasPrefix(fs, "%d") {
							suffix, ok = fs[2:], true
						}
					}
				}
			case *ssa.Return:
				if k, isC := x.Results[0].(*ssa.Const); isC && k.Value != nil && k.Value.Kind() == constant.String {
					suffix, ok = "="+constant.StringVal(k.Value), true
				}
			}
		}
		_ = hasQuo
		return
	}
	b := f.Blocks[0]
	prev := int64(1 << 62)
	rungs := 0
	for steps := 0; steps < 40; steps++ {
		last := b.Instrs[len(b.Instrs)-1]
		ifi, isIf := last.(*ssa.If)
		if !isIf {
			// final rung
			suffix, div, ok := describeReturn(b)
			key := "FormatDuration: final rung"
			if ok && suffix == "ns" && div == 1 {
				c.OK("C08.ladder", key, last.Pos(), "unconditional nanoseconds")
			} else if !ok || rungs == 0 || strings.Contains(suffix, "%") {
				c.Unk("C08.ladder", key, last.Pos(), "the formatter is not an if-ladder of divisibility tests that each return their own text (the unit may be chosen into locals and formatted once); its rungs are not extracted")
			} else {
				c.Bad("C08.ladder", key, last.Pos(), fmt.Sprintf("the ladder ends with suffix %q divisor %d; it must end with plain nanoseconds", suffix, div))
			}
			break
		}
		cond, ok := ifi.Cond.(*ssa.BinOp)
		if !ok || cond.Op != token.EQL {
			c.Unk("C08.ladder", fmt.Sprintf("FormatDuration: rung %d", rungs), ifi.Pos(), "a rung that is not an `== 0` test: the formatter no longer has the shape 'largest unit that divides'")
			return
		}
		// d.Round(u) == d is not "u divides d": Round saturates at the largest
		// duration, which therefore passes every such test
		roundOf := func(a, other ssa.Value) (string, bool) {
			call, ok := a.(*ssa.Call)
			if !ok || other != d || len(call.Call.Args) != 2 || call.Call.Args[0] != d {
				return "", false
			}
			cal := call.Call.StaticCallee()
			if cal == nil || cal.Pkg == nil || cal.Pkg.Pkg.Path() != "time" {
				return "", false
			}
			return cal.Name(), true
		}
		if nm, ok := roundOf(cond.X, cond.Y); !ok {
			nm, ok = roundOf(cond.Y, cond.X)
			if ok && nm == "Round" {
				c.Bad("C08.ladder", fmt.Sprintf("FormatDuration: rung %d", rungs), cond.Pos(), "divisibility is tested as d.Round(unit) == d: Round saturates, so the largest (and smallest) duration passes the test for every unit and is printed as a truncated quotient")
				return
			}
		} else if nm == "Round" {
			c.Bad("C08.ladder", fmt.Sprintf("FormatDuration: rung %d", rungs), cond.Pos(), "divisibility is tested as d.Round(unit) == d: Round saturates, so the largest (and smallest) duration passes the test for every unit and is printed as a truncated quotient")
			return
		}
		if z, ok := constOf(cond.Y); !ok || z != 0 {
			c.Unk("C08.ladder", fmt.Sprintf("FormatDuration: rung %d", rungs), ifi.Pos(), "a rung that does not compare with zero")
			return
		}
		tb := b.Succs[0]
		suffix, div, okRet := describeReturn(tb)
		if cond.X == d {
			key := "FormatDuration: zero"
			if okRet && suffix == "=0s" {
				c.OK("C08.ladder", key, cond.Pos(), "zero prints 0s")
			} else {
				c.Bad("C08.ladder", key, cond.Pos(), "zero must print exactly 0s")
			}
		} else if rem, ok := cond.X.(*ssa.BinOp); ok && rem.Op == token.REM && rem.X == d {
			mod, _ := constOf(rem.Y)
			key := fmt.Sprintf("FormatDuration: rung %%%s", suffix)
			switch {
			case !okRet:
				c.Unk("C08.ladder", key, cond.Pos(), "rung does not return a %d<suffix> format")
			case mod != div:
				c.Bad("C08.ladder", key, cond.Pos(), fmt.Sprintf("tests divisibility by %d but divides by %d", mod, div))
			case parse != nil && parse[suffix] != div:
				c.Bad("C08.ladder", key, cond.Pos(), fmt.Sprintf("prints suffix %q for %d ns but ParseDuration reads %q as %d ns", suffix, div, suffix, parse[suffix]))
			case mod >= prev:
				c.Bad("C08.ladder", key, cond.Pos(), fmt.Sprintf("unit %d after %d: the ladder is not strictly descending, so a larger dividing unit is skipped", mod, prev))
			default:
				c.OK("C08.ladder", key, cond.Pos(), fmt.Sprintf("d %% %d == 0 -> d / %d %s", mod, div, suffix))
			}
			prev = mod
			rungs++
		} else {
			c.Unk("C08.ladder", fmt.Sprintf("FormatDuration: rung %d", rungs), ifi.Pos(), "a condition that is neither the zero test nor a divisibility test of d")
			return
		}
		b = b.Succs[1]
	}
	c.Floor("C08.ladder", rungs, 7)
}

// dependsOn: does v's operand tree (through arithmetic and conversions) reach target?
func dependsOn(v ssa.Value, target ssa.Value, depth int, seen map[ssa.Value]bool) bool {
	if v == target {
		return true
	}
	if depth > 8 || seen[v] {
		return false
	}
	seen[v] = true
	switch x := v.(type) {
	case *ssa.BinOp:
		return dependsOn(x.X, target, depth+1, seen) || dependsOn(x.Y, target, depth+1, seen)
	case *ssa.UnOp:
		return dependsOn(x.X, target, depth+1, seen)
	case *ssa.Convert:
		return dependsOn(x.X, target, depth+1, seen)
	case *ssa.ChangeType:
		return dependsOn(x.X, target, depth+1, seen)
	case *ssa.Phi:
		for _, e := range x.Edges {
			if dependsOn(e, target, depth+1, seen) {
				return true
			}
		}
	}
	return false
}

func overflowC08(c *Ctx, f *ssa.Function) {
	p := c.P
	c.Rule("C08.overflow", "every multiplication and accumulation of a parsed component in ParseDuration is protected by a test, on an error-returning branch, whose condition depends on all three of the parsed number, the multiplier and the running total: a test that leaves one out cannot bound their combination")
	n := 0
	for _, b := range f.Blocks {
		for _, in := range b.Instrs {
			add, ok := in.(*ssa.BinOp)
			if !ok || add.Op != token.ADD || p.TypeStr(add.Type()) != "time.Duration" {
				continue
			}
			// accumulator + component
			var acc ssa.Value
			var comp *ssa.BinOp
			if m, ok := add.Y.(*ssa.BinOp); ok && m.Op == token.MUL {
				acc, comp = add.X, m
			} else if m, ok := add.X.(*ssa.BinOp); ok && m.Op == token.MUL {
				acc, comp = add.Y, m
			}
			if comp == nil {
				// d += Duration(n) with no multiplier
				for _, side := range []ssa.Value{add.X, add.Y} {
					if ct, ok := side.(*ssa.ChangeType); ok && isIntegerType(ct.X.Type()) {
						_ = ct
						n++
						c.Bad("C08.overflow", "ParseDuration: "+add.String(), add.Pos(), "a parsed component is added to the total with no overflow test that involves the total")
					}
				}
				continue
			}
			n++
			num := comp.X
			mult := comp.Y
			if ct, ok := num.(*ssa.ChangeType); ok {
				num = ct.X
			} else if cv, ok := num.(*ssa.Convert); ok {
				num = cv.X
			}
			key := "ParseDuration: total + number*multiplier"
			found := ""
			var foundIf *ssa.If
			errOnTrue := false
			for _, b2 := range f.Blocks {
				ifi, ok := b2.Instrs[len(b2.Instrs)-1].(*ssa.If)
				if !ok {
					continue
				}
				dn := dependsOn(ifi.Cond, num, 0, map[ssa.Value]bool{})
				dm := dependsOn(ifi.Cond, mult, 0, map[ssa.Value]bool{})
				da := dependsOn(ifi.Cond, acc, 0, map[ssa.Value]bool{})
				if dn && dm && da {
					// one branch must return an error
					for _, s := range b2.Succs {
						if r, ok := s.Instrs[len(s.Instrs)-1].(*ssa.Return); ok && len(r.Results) == 2 {
							if k, isC := r.Results[1].(*ssa.Const); !isC || !k.IsNil() {
								found = p.Pos(ifi.Pos())
								foundIf, errOnTrue = ifi, s == b2.Succs[0]
							}
						}
					}
				} else if dn && dm && !da && found == "" {
					found = "!partial:" + p.Pos(ifi.Pos())
				}
			}
			switch {
			case strings.HasPrefix(found, "!partial:"):
				c.Bad("C08.overflow", key, add.Pos(), "the only overflow test ("+found[9:]+") bounds number*multiplier but ignores the running total: a multi-component duration can still wrap")
			case found == "":
				c.Bad("C08.overflow", key, add.Pos(), "no test on an error-returning branch depends on number, multiplier and running total: overflow wraps silently")
			default:
				c.OK("C08.overflow", key, add.Pos(), "guarded by the test at "+found+" which involves number, multiplier and total")
				exactGuardC08(c, foundIf, errOnTrue, num, mult, acc)
			}
		}
	}
	c.Floor("C08.overflow", n, 1)
}

// slotsC08: durations are printed through FormatDuration only.
func slotsC08(c *Ctx) {
	p := c.P
	c.Rule("C08.slots", "no printer writes a time.Duration through Go's own formatting (Duration.String or a fmt verb): every duration that reaches printed text goes through FormatDuration, whose output the parser reads back")
	n := 0
	isDur := func(t types.Type) bool {
		if t == nil {
			return false
		}
		if pt, ok := t.(*types.Pointer); ok {
			t = pt.Elem()
		}
		return p.TypeStr(t) == "time.Duration"
	}
	for _, fb := range p.funcBodies() {
		if fb.Lit != nil || fb.Decl.Name() != "String" {
			continue
		}
		fb := fb
		ast.Inspect(fb.Body, func(nd ast.Node) bool {
			call, ok := nd.(*ast.CallExpr)
			if !ok {
				return true
			}
			callee, _ := typeutil.Callee(p.Info, call).(*types.Func)
			if callee == nil {
				return true
			}
			full := callee.FullName()
			if full == "(time.Duration).String" {
				n++
				c.Bad("C08.slots", fb.Name+": "+types.ExprString(call), call.Pos(), "Go's Duration.String prints text such as 1h0m0s or 1.5s that is not an InfluxQL duration literal")
				return true
			}
			if callee.Pkg() != nil && callee.Pkg().Path() == "fmt" {
				for _, a := range call.Args {
					if isDur(p.Info.TypeOf(a)) {
						n++
						c.Bad("C08.slots", fb.Name+": "+types.ExprString(a)+" in fmt call", a.Pos(), "a time.Duration handed to a fmt verb is printed in Go syntax, not through FormatDuration")
					}
				}
			}
			if callee == p.Func("FormatDuration") {
				n++
				c.OK("C08.slots", fb.Name+": "+types.ExprString(call), call.Pos(), "printed through FormatDuration")
			}
			return true
		})
	}
	c.Floor("C08.slots", n, 12)
}

// formatEvalC08 evaluates FormatDuration by constant propagation on
// representative durations (every unit's multiples, negative values, mixed
// sums) and compares with "the largest unit that divides d".
func formatEvalC08(c *Ctx, f *ssa.Function) {
	p := c.P
	c.Rule("C08.formateval", "FormatDuration, evaluated by constant propagation on representative durations of either sign, prints d in the largest unit that divides it (0 as 0s)")
	units := []struct {
		suffix string
		ns     int64
	}{{"w", 604800e9}, {"d", 86400e9}, {"h", 3600e9}, {"m", 60e9}, {"s", 1e9}, {"ms", 1e6}, {"u", 1e3}, {"ns", 1}}
	want := func(d int64) string {
		if d == 0 {
			return "0s"
		}
		for _, u := range units {
			if d%u.ns == 0 {
				return fmt.Sprintf("%d%s", d/u.ns, u.suffix)
			}
		}
		return ""
	}
	var samples []int64
	samples = append(samples, 0)
	for _, u := range units {
		samples = append(samples, u.ns, 3*u.ns, -u.ns, -5*u.ns, u.ns+1, 7*u.ns+u.ns/1000)
	}
	samples = append(samples, 90e9, -90e9, 1500e6, 36*3600e9, 999, -999, 1001)
	n, undecided := 0, 0
	for _, d := range samples {
		s := p.newSCCP()
		r := s.run(f, []cval{cConst(constant.MakeInt64(d))}, 0)
		var rets []*ssa.Return
		for _, b := range f.Blocks {
			if r.execB[b.Index] {
				if ret, ok := b.Instrs[len(b.Instrs)-1].(*ssa.Return); ok {
					rets = append(rets, ret)
				}
			}
		}
		key := fmt.Sprintf("FormatDuration(%d)", d)
		if len(rets) != 1 {
			undecided++
			continue
		}
		got, ok := "", false
		res := rets[0].Results[0]
		if v := r.get(res); v.isPlain() && v.v.Kind() == constant.String {
			got, ok = constant.StringVal(v.v), true
		} else if call, isCall := res.(*ssa.Call); isCall && call.Call.StaticCallee() != nil && call.Call.StaticCallee().Name() == "Sprintf" {
			fv := r.get(call.Call.Args[0])
			args := varargsOf(call)
			if fv.isPlain() && len(args) == 1 {
				a := args[0]
				if mi, isMI := a.(*ssa.MakeInterface); isMI {
					a = mi.X
				}
				av := r.get(a)
				if av.isPlain() {
					num, _ := constant.Int64Val(constant.ToInt(av.v))
					format := constant.StringVal(fv.v)
					if strings.Count(format, "%") == 1 && strings.HasPrefix(format, "%d") {
						got, ok = fmt.Sprintf(format, num), true
					}
				}
			}
		}
		if !ok {
			undecided++
			continue
		}
		n++
		if got != want(d) {
			c.Bad("C08.formateval", key, f.Pos(), fmt.Sprintf("prints %q; the largest unit that divides it gives %q", got, want(d)))
		} else {
			c.OK("C08.formateval", key, f.Pos(), got)
		}
	}
	if undecided > 0 {
		c.Unk("C08.formateval", "FormatDuration: samples not evaluated", f.Pos(), fmt.Sprintf("%d of %d sample durations could not be evaluated by constant propagation (the formatter has a shape it cannot follow)", undecided, len(samples)))
	}
	_ = n
}

// exactGuardC08: total + n*mult fits iff n <= floor((Max-total)/mult); a guard
// written as a comparison of n with that quotient must reject exactly the
// complement — `>=` also rejects the largest representable component.
func exactGuardC08(c *Ctx, ifi *ssa.If, errOnTrue bool, num, mult, acc ssa.Value) {
	key := "ParseDuration: overflow test rejects only what does not fit"
	bo, ok := ifi.Cond.(*ssa.BinOp)
	if !ok {
		c.Unk("C08.overflow", key, ifi.Pos(), "the test is not a single comparison")
		return
	}
	strip := func(v ssa.Value) ssa.Value {
		for {
			switch x := v.(type) {
			case *ssa.Convert:
				v = x.X
			case *ssa.ChangeType:
				v = x.X
			default:
				return v
			}
		}
	}
	isQuot := func(v ssa.Value) bool {
		q, ok := strip(v).(*ssa.BinOp)
		if !ok || q.Op != token.QUO || strip(q.Y) != strip(mult) {
			return false
		}
		sub, ok := strip(q.X).(*ssa.BinOp)
		if !ok || sub.Op != token.SUB || strip(sub.Y) != strip(acc) {
			return false
		}
		k, ok := strip(sub.X).(*ssa.Const)
		return ok && k.Value != nil && k.Value.String() == "9223372036854775807"
	}
	op := bo.Op
	var lhsNum bool
	switch {
	case strip(bo.X) == strip(num) && isQuot(bo.Y):
		lhsNum = true
	case strip(bo.Y) == strip(num) && isQuot(bo.X):
		lhsNum = false
	default:
		c.Unk("C08.overflow", key, ifi.Pos(), "the test is not `number <cmp> (MaxInt64 - total) / multiplier`")
		return
	}
	if !lhsNum { // mirror to number <op> quotient
		op = map[token.Token]token.Token{token.GTR: token.LSS, token.LSS: token.GTR, token.GEQ: token.LEQ, token.LEQ: token.GEQ}[op]
	}
	if !errOnTrue { // negate
		op = map[token.Token]token.Token{token.GTR: token.LEQ, token.LEQ: token.GTR, token.GEQ: token.LSS, token.LSS: token.GEQ}[op]
	}
	switch op {
	case token.GTR:
		c.OK("C08.overflow", key, bo.Pos(), "error exactly when number > (MaxInt64 - total) / multiplier")
	case token.GEQ:
		c.Bad("C08.overflow", key, bo.Pos(), "error already when number == (MaxInt64 - total) / multiplier: the largest component that still fits (2562047h, 9223372036s, ...) is rejected")
	default:
		c.Bad("C08.overflow", key, bo.Pos(), "the comparison does not reject components above (MaxInt64 - total) / multiplier")
	}
}

// hasSyncType: the type contains a type of package sync or sync/atomic.
func hasSyncType(t types.Type, depth int) bool {
	if depth > 5 {
		return false
	}
	switch x := t.(type) {
	case *types.Named:
		if x.Obj().Pkg() != nil && (x.Obj().Pkg().Path() == "sync" || x.Obj().Pkg().Path() == "sync/atomic") {
			return true
		}
		// immutable once built: their internal sync.Once / pools only make a
		// lazily built automaton, never a different answer
		if x.Obj().Pkg() != nil && (x.Obj().Pkg().Path() == "strings" && x.Obj().Name() == "Replacer" || x.Obj().Pkg().Path() == "regexp" && x.Obj().Name() == "Regexp") {
			return false
		}
		return hasSyncType(x.Underlying(), depth+1)
	case *types.Pointer:
		return hasSyncType(x.Elem(), depth+1)
	case *types.Slice:
		return hasSyncType(x.Elem(), depth+1)
	case *types.Array:
		return hasSyncType(x.Elem(), depth+1)
	case *types.Map:
		return hasSyncType(x.Elem(), depth+1)
	case *types.Struct:
		for i := 0; i < x.NumFields(); i++ {
			if hasSyncType(x.Field(i).Type(), depth+1) {
				return true
			}
		}
	}
	return false
}

// elementWritten: some function outside init stores through an address
// derived from the global (element, field) or updates it as a map.
func elementWritten(p *Program, g *ssa.Global) bool {
	var rooted func(v ssa.Value, depth int) bool
	rooted = func(v ssa.Value, depth int) bool {
		if depth > 6 {
			return false
		}
		switch x := v.(type) {
		case *ssa.Global:
			return x == g
		case *ssa.UnOp:
			return rooted(x.X, depth+1)
		case *ssa.IndexAddr:
			return rooted(x.X, depth+1)
		case *ssa.FieldAddr:
			return rooted(x.X, depth+1)
		case *ssa.Slice:
			return rooted(x.X, depth+1)
		}
		return false
	}
	initOnly := p.initOnlyFuncs()
	for _, fn := range p.SrcFuncs() {
		if isInitFunc(fn.Name()) || initOnly[fn] {
			continue
		}
		for _, f := range append([]*ssa.Function{fn}, fn.AnonFuncs...) {
			for _, b := range f.Blocks {
				for _, in := range b.Instrs {
					switch x := in.(type) {
					case *ssa.Store:
						if x.Addr != ssa.Value(g) && rooted(x.Addr, 0) {
							return true
						}
					case *ssa.MapUpdate:
						if rooted(x.Map, 0) {
							return true
						}
					}
				}
			}
		}
	}
	return false
}

// distinctStoreC08: two optional clauses never share one variable.
func distinctStoreC08(c *Ctx) {
	p := c.P
	c.Rule("C08.distinctstore", "in every parse function the addresses stored into different pointer fields of the node being built are addresses of different variables: two optional durations that point at the same slot of a shared block overwrite each other, so `SHARD DURATION 1h PAST LIMIT 30m` comes back with a 30m shard duration")
	n := 0
	for _, f := range p.allSSAFuncs() {
		if f.Signature.Recv() == nil || !strings.HasSuffix(f.Signature.Recv().Type().String(), ".Parser") {
			continue
		}
		type slot struct {
			base ssa.Value
			idx  string
		}
		used := map[slot]map[string]token.Pos{}
		for _, b := range f.Blocks {
			for _, in := range b.Instrs {
				st, ok := in.(*ssa.Store)
				if !ok {
					continue
				}
				fa, ok := st.Addr.(*ssa.FieldAddr)
				if !ok {
					continue
				}
				if _, isPtr := st.Val.Type().Underlying().(*types.Pointer); !isPtr {
					continue
				}
				var s slot
				switch x := st.Val.(type) {
				case *ssa.IndexAddr:
					k, ok := x.Index.(*ssa.Const)
					if !ok || k.Value == nil {
						continue
					}
					s = slot{x.X, k.Value.String()}
				case *ssa.Alloc:
					s = slot{x, ""}
				default:
					continue
				}
				n++
				if used[s] == nil {
					used[s] = map[string]token.Pos{}
				}
				used[s][fieldNameOf(fa)] = st.Pos()
			}
		}
		for s, fields := range used {
			if len(fields) < 2 {
				continue
			}
			var names []string
			var pos token.Pos
			for nm, ps := range fields {
				names = append(names, nm)
				if ps > pos {
					pos = ps
				}
			}
			sort.Strings(names)
			_ = s
			c.Bad("C08.distinctstore", ssaFuncName(f)+": "+strings.Join(names, " and ")+" share one variable", pos, "the same address is stored into both fields: whichever clause is parsed later overwrites the other's value")
		}
	}
	c.OK("C08.distinctstore", "address stores examined", 0, fmt.Sprintf("%d", n))
	c.Floor("C08.distinctstore", n, 8)
}
