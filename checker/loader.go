package main

import (
	"fmt"
	"go/ast"
	"go/token"
	"go/types"
	"os"
	"path/filepath"
	"sort"
	"strings"

	"golang.org/x/tools/go/packages"
	"golang.org/x/tools/go/ssa"
	"golang.org/x/tools/go/ssa/ssautil"
)

const pkgPath = "github.com/influxdata/influxql"

// Program is the resolved view of /repo's current working tree.
type Program struct {
	initOnlyMemo map[*ssa.Function]bool
	Dir          string
	Tags         string
	Fset         *token.FileSet
	Pkg          *packages.Package // the influxql package
	All          []*packages.Package
	SSA          *ssa.Program
	SPkg         *ssa.Package
	Info         *types.Info
	Types        *types.Package

	// FuncDecls maps a function/method object to its declaration.
	FuncDecls map[*types.Func]*ast.FuncDecl
	// files by base name
	Files map[string]*ast.File

	nFiles, nFuncs int
}

func repoDir() string {
	if d := os.Getenv("IVQ_REPO"); d != "" {
		return d
	}
	return "/repo"
}

// Load type-checks the repository from source. It never executes any of it.
func Load(dir, tags string) (*Program, error) {
	fset := token.NewFileSet()
	cfg := &packages.Config{
		Mode:  packages.LoadAllSyntax,
		Dir:   dir,
		Fset:  fset,
		Tests: false,
		Env: append(os.Environ(), "GOFLAGS=-mod=mod", "GOPROXY=off", "GOSUMDB=off",
			"GOTOOLCHAIN=local", "GOWORK=off"),
	}
	if tags != "" {
		cfg.BuildFlags = []string{"-tags", tags}
	}
	pkgs, err := packages.Load(cfg, "./...")
	if err != nil {
		return nil, fmt.Errorf("load: %v", err)
	}
	if len(pkgs) == 0 {
		return nil, fmt.Errorf("load: zero packages under %s", dir)
	}
	var errs []string
	packages.Visit(pkgs, nil, func(p *packages.Package) {
		for _, e := range p.Errors {
			errs = append(errs, e.Error())
		}
	})
	if len(errs) > 0 {
		return nil, fmt.Errorf("load: type/parse errors: %s", strings.Join(errs, "; "))
	}
	p := &Program{Dir: dir, Tags: tags, Fset: fset, All: pkgs}
	for _, pk := range pkgs {
		if pk.PkgPath == pkgPath {
			p.Pkg = pk
		}
	}
	if p.Pkg == nil {
		return nil, fmt.Errorf("load: package %s not found under %s", pkgPath, dir)
	}
	p.Info = p.Pkg.TypesInfo
	p.Types = p.Pkg.Types
	prog, _ := ssautil.AllPackages(pkgs, ssa.BuilderMode(0))
	prog.Build()
	p.SSA = prog
	p.SPkg = prog.Package(p.Pkg.Types)
	if p.SPkg == nil {
		return nil, fmt.Errorf("load: no SSA package for %s", pkgPath)
	}
	p.FuncDecls = map[*types.Func]*ast.FuncDecl{}
	p.Files = map[string]*ast.File{}
	for _, f := range p.Pkg.Syntax {
		name := filepath.Base(fset.Position(f.Pos()).Filename)
		p.Files[name] = f
		p.nFiles++
		for _, d := range f.Decls {
			if fd, ok := d.(*ast.FuncDecl); ok {
				if obj, ok := p.Info.Defs[fd.Name].(*types.Func); ok {
					p.FuncDecls[obj] = fd
					p.nFuncs++
				}
			}
		}
	}
	return p, nil
}

// Pos renders a position relative to the repository root.
func (p *Program) Pos(pos token.Pos) string {
	if !pos.IsValid() {
		return "-"
	}
	ps := p.Fset.Position(pos)
	rel, err := filepath.Rel(p.Dir, ps.Filename)
	if err != nil || strings.HasPrefix(rel, "..") {
		rel = ps.Filename
	}
	return fmt.Sprintf("%s:%d", rel, ps.Line)
}

// Func resolves a package-level function by name; nil if absent.
func (p *Program) Func(name string) *types.Func {
	if o, ok := p.Types.Scope().Lookup(name).(*types.Func); ok {
		return o
	}
	return nil
}

// Named resolves a package-level named type.
func (p *Program) Named(name string) *types.Named {
	if o, ok := p.Types.Scope().Lookup(name).(*types.TypeName); ok {
		if n, ok := o.Type().(*types.Named); ok {
			return n
		}
	}
	return nil
}

// Method resolves method `name` on named type `typ` (value or pointer receiver).
func (p *Program) Method(typ, name string) *types.Func {
	n := p.Named(typ)
	if n == nil {
		return nil
	}
	for i := 0; i < n.NumMethods(); i++ {
		if m := n.Method(i); m.Name() == name {
			return m
		}
	}
	return nil
}

// Global resolves a package-level variable.
func (p *Program) Global(name string) *types.Var {
	if o, ok := p.Types.Scope().Lookup(name).(*types.Var); ok {
		return o
	}
	return nil
}

// Const resolves a package-level constant.
func (p *Program) Const(name string) *types.Const {
	if o, ok := p.Types.Scope().Lookup(name).(*types.Const); ok {
		return o
	}
	return nil
}

// SSAFunc returns the SSA function for a types.Func of the package.
func (p *Program) SSAFunc(f *types.Func) *ssa.Function {
	if f == nil {
		return nil
	}
	return p.SSA.FuncValue(f)
}

// FuncName renders a function or method as "(*T).M" / "T.M" / "F".
func FuncName(f *types.Func) string {
	if f == nil {
		return "<nil>"
	}
	sig := f.Type().(*types.Signature)
	if r := sig.Recv(); r != nil {
		t := r.Type()
		ptr := false
		if pt, ok := t.(*types.Pointer); ok {
			t = pt.Elem()
			ptr = true
		}
		name := "?"
		if n, ok := t.(*types.Named); ok {
			name = n.Obj().Name()
		}
		if ptr {
			return "(*" + name + ")." + f.Name()
		}
		return name + "." + f.Name()
	}
	return f.Name()
}

// SortedFuncs returns all declared functions of the package in a stable order.
func (p *Program) SortedFuncs() []*types.Func {
	var fs []*types.Func
	for f := range p.FuncDecls {
		fs = append(fs, f)
	}
	sort.Slice(fs, func(i, j int) bool { return fs[i].Pos() < fs[j].Pos() })
	return fs
}

// Implementers lists the package's named types (as T or *T, whichever
// implements) that satisfy the sealed interface `iface`.
func (p *Program) Implementers(iface string) []types.Type {
	in := p.Named(iface)
	if in == nil {
		return nil
	}
	it, ok := in.Underlying().(*types.Interface)
	if !ok {
		return nil
	}
	var out []types.Type
	sc := p.Types.Scope()
	for _, n := range sc.Names() {
		tn, ok := sc.Lookup(n).(*types.TypeName)
		if !ok || tn.IsAlias() {
			continue
		}
		nt, ok := tn.Type().(*types.Named)
		if !ok {
			continue
		}
		if _, isIface := nt.Underlying().(*types.Interface); isIface {
			continue
		}
		if types.Implements(nt, it) {
			out = append(out, nt)
		} else if pt := types.NewPointer(nt); types.Implements(pt, it) {
			out = append(out, pt)
		}
	}
	return out
}

// TypeStr renders a type relative to the package.
func (p *Program) TypeStr(t types.Type) string {
	return types.TypeString(t, func(pk *types.Package) string {
		if pk == p.Types {
			return ""
		}
		return pk.Name()
	})
}

// ExprStr renders an expression with literals kept (types.ExprString elides some).
func (p *Program) ExprStr(e ast.Expr) string {
	return types.ExprString(e)
}

// SrcFuncs returns the SSA functions of every declared function and method
// of the package, in a stable order.
func (p *Program) SrcFuncs() []*ssa.Function {
	var out []*ssa.Function
	for _, f := range p.SortedFuncs() {
		if sf := p.SSAFunc(f); sf != nil && len(sf.Blocks) > 0 {
			out = append(out, sf)
		}
	}
	return out
}
