package main

import (
	"fmt"
	"go/constant"
	"go/token"
	"go/types"
	"sort"
	"strings"

	"golang.org/x/tools/go/ssa"
)

func init() { register("C16", rulesC16) }

func invokeName(call *ssa.Call) string {
	if call.Call.IsInvoke() {
		return call.Call.Method.Name()
	}
	if callee := call.Call.StaticCallee(); callee != nil {
		return callee.Name()
	}
	return ""
}

// skipsetRule: ScanIgnoreWhitespace skips exactly WS and COMMENT.
func skipsetRule(c *Ctx, rule string, tt *tokenTable) {
	p := c.P
	c.Rule(rule, "ScanIgnoreWhitespace, evaluated with the scanned token bound to every token constant, loops exactly on WS and COMMENT and returns every other token unchanged: a comment is skipped wherever whitespace is")
	f := p.SSAFunc(p.Method("Parser", "ScanIgnoreWhitespace"))
	if f == nil {
		c.Unk(rule, "(*Parser).ScanIgnoreWhitespace", 0, "anchor not found")
		return
	}
	n := 0
	for _, v := range tt.Values {
		name := tt.Name[v]
		if _, isTok := tt.Spelling[v]; !isTok && name != "COMMENT" && name != "BOUNDPARAM" && name != "INTEGER" && name != "BADREGEX" {
			continue // marker constants
		}
		n++
		s := p.newSCCP()
		s.hook = func(call *ssa.Call, args []cval) ([]cval, bool) {
			if invokeName(call) == "Scan" {
				return []cval{cConst(constant.MakeInt64(v)), cTop, cTop}, true
			}
			return nil, false
		}
		rets := s.Eval(f, nil)
		returns := len(rets) > 0
		want := name != "WS" && name != "COMMENT"
		key := "(*Parser).ScanIgnoreWhitespace: " + name
		if returns != want {
			c.Bad(rule, key, f.Pos(), fmt.Sprintf("returned to the parser=%v, must be %v", returns, want))
			continue
		}
		if returns {
			same := true
			for _, rp := range rets {
				if !rp.Results[0].isPlain() {
					same = false
					continue
				}
				g, _ := constant.Int64Val(constant.ToInt(rp.Results[0].v))
				if g != v {
					same = false
				}
			}
			c.Check(same, rule, key, f.Pos(), "the token is returned changed")
		} else {
			c.OK(rule, key, f.Pos(), "skipped")
		}
	}
	c.Floor(rule, n, 100)
}

// crfoldRule: reader.read folds CR and CRLF to one LF.
func crfoldRule(c *Ctx, rule string) {
	p := c.P
	c.Rule(rule, "reader.read, evaluated with the runes of the underlying reader bound to constants: after a CR it looks at one more rune and pushes it back exactly when it is not LF, and the rune it stores is LF — CR, CRLF and LF are the same single line break and no following character is swallowed")
	f := p.SSAFunc(p.Method("reader", "read"))
	if f == nil {
		c.Unk(rule, "(*reader).read", 0, "anchor not found")
		return
	}
	var reads, unreads []*ssa.Call
	for _, b := range f.Blocks {
		for _, in := range b.Instrs {
			if call, ok := in.(*ssa.Call); ok && call.Call.IsInvoke() {
				switch call.Call.Method.Name() {
				case "ReadRune":
					reads = append(reads, call)
				case "UnreadRune":
					unreads = append(unreads, call)
				}
			}
		}
	}
	sort.Slice(reads, func(i, j int) bool { return reads[i].Pos() < reads[j].Pos() })
	if len(reads) != 2 || len(unreads) != 1 {
		if len(reads) >= 2 && len(unreads) == 0 {
			c.Bad(rule, "(*reader).read: look-ahead", f.Pos(), fmt.Sprintf("the underlying reader is read ahead (%d ReadRune sites) but never pushed back: the rune after a lone carriage return belongs to no token", len(reads)))
			return
		}
		c.Unk(rule, "(*reader).read: look-ahead", f.Pos(), fmt.Sprintf("expected two ReadRune and one UnreadRune on the underlying reader, found %d and %d", len(reads), len(unreads)))
		return
	}
	// the rune stored into the ring
	var store *ssa.Store
	for _, b := range f.Blocks {
		for _, in := range b.Instrs {
			if st, ok := in.(*ssa.Store); ok {
				if fa, ok := st.Addr.(*ssa.FieldAddr); ok {
					sty, ok := fa.X.Type().Underlying().(*types.Pointer).Elem().Underlying().(*types.Struct)
					if ok && sty.Field(fa.Field).Name() == "ch" {
						store = st
					}
				}
			}
		}
	}
	type sc struct {
		first, second int64
		wantUnread    bool
		wantStored    int64
		label         string
	}
	scen := []sc{
		{'\r', '\n', false, '\n', "CR LF"},
		{'\r', ' ', true, '\n', "CR space"},
		{'\r', '\t', true, '\n', "CR tab"},
		{'\r', 'a', true, '\n', "CR letter"},
		{'\r', '\r', true, '\n', "CR CR"},
		{'\n', 0, false, '\n', "LF"},
		{'a', 0, false, 'a', "letter"},
	}
	for _, x := range scen {
		s := p.newSCCP()
		// no push-back pending: bind loads of r.n to 0
		s.override = map[ssa.Value]cval{}
		for _, l := range fieldLoads(f, "n") {
			s.override[l] = cConst(constant.MakeInt64(0))
		}
		s.hook = func(call *ssa.Call, args []cval) ([]cval, bool) {
			switch call {
			case reads[0]:
				return []cval{cConst(constant.MakeInt64(x.first)), cTop, cNil()}, true
			case reads[1]:
				return []cval{cConst(constant.MakeInt64(x.second)), cTop, cNil()}, true
			}
			return nil, false
		}
		r := s.run(f, nil, 0)
		key := "(*reader).read: " + x.label
		unread := r.execB[unreads[0].Block().Index]
		if unread != x.wantUnread {
			c.Bad(rule, key, f.Pos(), fmt.Sprintf("look-ahead rune pushed back=%v, must be %v (a swallowed rune belongs to no token and shifts every later column)", unread, x.wantUnread))
			continue
		}
		if store != nil {
			got := r.get(store.Val)
			if !got.isPlain() {
				c.Unk(rule, key, store.Pos(), "stored rune is not a constant in this scenario")
				continue
			}
			g, _ := constant.Int64Val(constant.ToInt(got.v))
			if g != x.wantStored {
				c.Bad(rule, key, store.Pos(), fmt.Sprintf("stores rune %q, must store %q", rune(g), rune(x.wantStored)))
				continue
			}
		}
		c.OK(rule, key, f.Pos(), fmt.Sprintf("pushed back=%v", unread))
	}
}

func rulesC16(c *Ctx) {
	p := c.P
	tt := p.tokenTable()
	if tt == nil {
		c.Unk("C16.skipset", "Token", 0, "token table not found")
		return
	}
	skipsetRule(c, "C16.skipset", tt)
	crfoldRule(c, "C16.crfold")
	commentsRule(c, "C16.comments")
	openersRule(c, "C16.openers")
	// the lexer's dispatch must enter a comment body after both runes of its opener
	importRules(c, rulesC05, "C05.", "C16.lexer-", func(r string) bool { return r == "C05.consume" || r == "C05.rawread" })
	peekDepthRule(c, "C16.peekdepth")
	wsRunRule(c, "C16.wsrun")
	parserStateRule(c, "C16.parserstate")
	afterWSRule(c, tt)
	parseFreshRule(c, "C16.parsefresh")
	regexGapRule(c)
	rawScanRule(c, "C16.rawscan", tt)
	regexStartRule(c, tt)
	n := probeBalance(c, "C16.noleak")
	c.Floor("C16.noleak", n, 120)

	// ---- whitespace class ----
	c.Rule("C16.wsclass", "isWhitespace holds exactly for space, tab and line feed (carriage returns are folded to line feeds by the reader first)")
	isWS := p.Func("isWhitespace")
	s := p.newSCCP()
	if isWS == nil {
		c.Unk("C16.wsclass", "isWhitespace", 0, "anchor not found")
	} else {
		for _, ch := range []rune{' ', '\t', '\n', '\r', '\f', '\v', 0, 'a', '-', '/', 0xA0, 0x2028} {
			got, ok := s.evalConstBool(isWS, cConst(constant.MakeInt64(int64(ch))))
			want := ch == ' ' || ch == '\t' || ch == '\n'
			key := fmt.Sprintf("isWhitespace(%q)", ch)
			if !ok {
				c.Unk("C16.wsclass", key, isWS.Pos(), "not a constant function of the rune")
			} else {
				c.Check(got == want, "C16.wsclass", key, isWS.Pos(), fmt.Sprintf("is %v, must be %v", got, want))
			}
		}
	}

	// ---- separator state machine ----
	c.Rule("C16.separator", "ParseQuery, evaluated over (next token: EOF / ; / other) x (separator seen: yes / no): EOF returns the collected statements; `;` sets the flag; another token without the flag is an error; with the flag it is pushed back, one statement is parsed, and the flag is cleared; the flag starts set. Hence empty statements and a trailing `;` are ignored and a missing `;` is an error")
	pq := p.SSAFunc(p.Method("Parser", "ParseQuery"))
	if pq == nil {
		c.Unk("C16.separator", "(*Parser).ParseQuery", 0, "anchor not found")
		return
	}
	var semi *ssa.Phi
	for _, b := range pq.Blocks {
		for _, in := range b.Instrs {
			if phi, ok := in.(*ssa.Phi); ok {
				if bt, ok := phi.Type().Underlying().(*types.Basic); ok && bt.Kind() == types.Bool {
					semi = phi
				}
			}
		}
	}
	if semi == nil {
		// separators counted instead of remembered: a loop-carried integer that
		// only ever grows (initial constant, itself, itself + constant) and feeds
		// the test in front of the missing-separator error
		for _, b := range pq.Blocks {
			for _, in := range b.Instrs {
				phi, ok := in.(*ssa.Phi)
				if !ok || !isIntegerType(phi.Type()) {
					continue
				}
				grows, other := false, false
				for _, e := range phi.Edges {
					switch x := e.(type) {
					case *ssa.Const:
					case *ssa.Phi:
						if x != phi {
							// the value carried round the loop through a join
							for _, e2 := range x.Edges {
								if bo, ok := e2.(*ssa.BinOp); ok && bo.Op == token.ADD && bo.X == ssa.Value(phi) {
									grows = true
								} else if e2 != ssa.Value(phi) {
									other = true
								}
							}
						}
					case *ssa.BinOp:
						if x.Op == token.ADD && x.X == ssa.Value(phi) {
							grows = true
						} else {
							other = true
						}
					default:
						other = true
					}
				}
				if !grows || other {
					continue
				}
				// a snapshot of the counter taken after each statement turns it back
				// into "a separator since then": not this case
				snapshot := false
				for _, b2 := range pq.Blocks {
					for _, in2 := range b2.Instrs {
						if p2, ok := in2.(*ssa.Phi); ok && p2 != phi && isIntegerType(p2.Type()) {
							for _, e := range p2.Edges {
								if e == ssa.Value(phi) {
									snapshot = true
								}
							}
						}
					}
				}
				if snapshot {
					continue
				}
				for _, b2 := range pq.Blocks {
					ifi, ok := b2.Instrs[len(b2.Instrs)-1].(*ssa.If)
					if !ok || !dependsOn(ifi.Cond, phi, 0, map[ssa.Value]bool{}) {
						continue
					}
					for _, sc := range b2.Succs {
						if ret, ok := sc.Instrs[len(sc.Instrs)-1].(*ssa.Return); ok && len(ret.Results) == 2 {
							if k, isC := ret.Results[1].(*ssa.Const); !isC || !k.IsNil() {
								c.Bad("C16.separator", "(*Parser).ParseQuery: separator flag", ifi.Cond.Pos(), "separators are counted in a variable that only grows and the missing-separator test compares against the count: two separators in a row (an empty statement) pay for a later statement that has none in front of it")
								return
							}
						}
					}
				}
			}
		}
		c.Unk("C16.separator", "(*Parser).ParseQuery: separator flag", pq.Pos(), "no boolean loop variable found")
		return
	}
	// initial value: whatever the flag starts as is the "a statement may
	// follow" state (the name and polarity of the flag are the code's choice)
	open, haveInit := false, false
	for i, e := range semi.Edges {
		if semi.Block().Preds[i].Index == 0 {
			if k, ok := e.(*ssa.Const); ok && k.Value != nil {
				open, haveInit = constant.BoolVal(k.Value), true
			}
		}
	}
	if !haveInit {
		c.Unk("C16.separator", "(*Parser).ParseQuery: separator flag", pq.Pos(), "the loop flag has no constant initial value")
		return
	}
	c.OK("C16.separator", "(*Parser).ParseQuery: flag starts set", semi.Pos(), fmt.Sprintf("initial state %v is taken as `a statement may follow`; the scenarios below decide that it does", open))
	var unscan, parseStmt *ssa.Call
	for _, b := range pq.Blocks {
		for _, in := range b.Instrs {
			if call, ok := in.(*ssa.Call); ok {
				switch invokeName(call) {
				case "Unscan":
					unscan = call
				case "ParseStatement":
					parseStmt = call
				}
			}
		}
	}
	run := func(tok string, flag bool) (*sccpRun, []retPath) {
		s := p.newSCCP()
		s.override = map[ssa.Value]cval{semi: cConst(constant.MakeBool(flag))}
		s.hook = func(call *ssa.Call, args []cval) ([]cval, bool) {
			switch invokeName(call) {
			case "ScanIgnoreWhitespace":
				return []cval{tt.cv(tok), cTop, cTop}, true
			case "ParseStatement":
				return []cval{cSym("stmt"), cNil()}, true
			}
			return nil, false
		}
		r := s.run(pq, nil, 0)
		var rets []retPath
		for _, b := range pq.Blocks {
			if r.execB[b.Index] {
				if ret, ok := b.Instrs[len(b.Instrs)-1].(*ssa.Return); ok {
					rp := retPath{Pos: ret.Pos(), Instr: ret}
					for _, x := range ret.Results {
						rp.Results = append(rp.Results, r.get(x))
					}
					rets = append(rets, rp)
				}
			}
		}
		return r, rets
	}
	// value the flag takes on the executable back edges
	nextFlag := func(r *sccpRun) (vals map[string]bool) {
		vals = map[string]bool{}
		for i, e := range semi.Edges {
			pred := semi.Block().Preds[i]
			if pred.Index == 0 || !r.execE[[2]int{pred.Index, semi.Block().Index}] {
				continue
			}
			if k, ok := e.(*ssa.Const); ok && k.Value != nil {
				vals[fmt.Sprint(constant.BoolVal(k.Value))] = true
			} else if e == ssa.Value(semi) {
				vals["unchanged"] = true
			} else {
				vals["?"] = true
			}
		}
		return
	}
	openS, closedS := fmt.Sprint(open), fmt.Sprint(!open)
	for _, flag := range []bool{true, false} {
		name := map[bool]string{true: "separator seen", false: "statement just parsed"}[flag == open]
		_, rets := run("EOF", flag)
		ok := len(rets) == 1 && rets[0].Results[1].nilc && !rets[0].Results[0].nilc
		c.Check(ok, "C16.separator", fmt.Sprintf("(*Parser).ParseQuery: EOF, %s", name), pq.Pos(), "end of input must return the collected statements with no error")
		r, rets := run("SEMICOLON", flag)
		nf := nextFlag(r)
		good := len(rets) == 0 && len(nf) == 1 && (nf[openS] || (nf["unchanged"] && flag == open))
		c.Check(good, "C16.separator", fmt.Sprintf("(*Parser).ParseQuery: `;`, %s", name), pq.Pos(), fmt.Sprintf("a separator must only put the loop into the `statement may follow` state and continue (returns=%d, next flag=%v, want %s)", len(rets), nf, openS))
	}
	{
		r, rets := run("SELECT", !open)
		ok := len(rets) == 1 && rets[0].Results[0].nilc && (parseStmt == nil || !r.execB[parseStmt.Block().Index])
		c.Check(ok, "C16.separator", "(*Parser).ParseQuery: statement without separator", pq.Pos(), "a second statement with no `;` in between must be an error")
	}
	{
		r, rets := run("SELECT", open)
		nf := nextFlag(r)
		okParse := parseStmt != nil && unscan != nil && r.execB[parseStmt.Block().Index] && r.execB[unscan.Block().Index]
		before := false
		if okParse && unscan.Block() == parseStmt.Block() {
			for _, in := range unscan.Block().Instrs {
				if in == ssa.Instruction(unscan) {
					before = true
				}
				if in == ssa.Instruction(parseStmt) {
					break
				}
			}
		} else if okParse {
			before = unscan.Block().Dominates(parseStmt.Block())
		}
		c.Check(okParse && before, "C16.separator", "(*Parser).ParseQuery: statement is parsed from its own first token", pq.Pos(), "the peeked token must be pushed back before the statement parser runs")
		c.Check(len(rets) == 0 && len(nf) == 1 && nf[closedS], "C16.separator", "(*Parser).ParseQuery: flag cleared after a statement", pq.Pos(), fmt.Sprintf("after a statement the next one needs a separator (returns=%d, next flag=%v, want %s)", len(rets), nf, closedS))
	}
	_ = token.EQL
}

// afterWSRule: once the parser has consumed a whitespace token explicitly,
// what follows may still be a comment (or a comment and more whitespace).
func afterWSRule(c *Ctx, tt *tokenTable) {
	p := c.P
	c.Rule("C16.afterws", "on the branch where a raw Parser.Scan returned WS, the next token is not taken by another raw Scan (outside the skipping loop itself): a comment can follow the whitespace, and only ScanIgnoreWhitespace skips it")
	rawScan := p.SSAFunc(p.Method("Parser", "Scan"))
	skip := p.SSAFunc(p.Method("Parser", "ScanIgnoreWhitespace"))
	ws, okWS := tt.ByName["WS"]
	if rawScan == nil || skip == nil || !okWS {
		c.Unk("C16.afterws", "anchors", 0, "Parser.Scan/ScanIgnoreWhitespace/WS not found")
		return
	}
	n := 0
	for _, fn := range p.SrcFuncs() {
		if fn == skip {
			continue
		}
		for _, f := range append([]*ssa.Function{fn}, fn.AnonFuncs...) {
			for _, b := range f.Blocks {
				ifi, ok := b.Instrs[len(b.Instrs)-1].(*ssa.If)
				if !ok {
					continue
				}
				bo, ok := ifi.Cond.(*ssa.BinOp)
				if !ok || (bo.Op != token.EQL && bo.Op != token.NEQ) {
					continue
				}
				k, ok := bo.Y.(*ssa.Const)
				if !ok || k.Value == nil || !types.Identical(k.Type(), tt.Type) {
					continue
				}
				if v, _ := constant.Int64Val(k.Value); v != ws {
					continue
				}
				ex, ok := bo.X.(*ssa.Extract)
				if !ok {
					continue
				}
				call, ok := ex.Tuple.(*ssa.Call)
				if !ok || call.Call.StaticCallee() != rawScan {
					continue
				}
				n++
				wsSucc := b.Succs[0]
				if bo.Op == token.NEQ {
					wsSucc = b.Succs[1]
				}
				key := fmt.Sprintf("%s: after a raw scan returned WS (#%d)", fn.Name(), n)
				bad := token.NoPos
				seen := map[*ssa.BasicBlock]bool{}
				var walk func(bb *ssa.BasicBlock)
				walk = func(bb *ssa.BasicBlock) {
					if seen[bb] || bad != token.NoPos {
						return
					}
					seen[bb] = true
					for _, in := range bb.Instrs {
						if cl, ok := in.(*ssa.Call); ok {
							cal := cl.Call.StaticCallee()
							if cal == rawScan {
								bad = cl.Pos()
								return
							}
							if cal != nil && cal.Signature.Recv() != nil && strings.HasSuffix(p.TypeStr(cal.Signature.Recv().Type()), "Parser") {
								return // another parser routine takes over
							}
						}
					}
					for _, s := range bb.Succs {
						walk(s)
					}
				}
				walk(wsSucc)
				if bad != token.NoPos {
					c.Bad("C16.afterws", key, bad, "the token after the whitespace is taken by a raw Scan: `WS COMMENT token` is rejected here though comments may stand wherever whitespace may")
				} else {
					c.OK("C16.afterws", key, ifi.Cond.Pos(), "next token through ScanIgnoreWhitespace or another parser routine")
				}
			}
		}
	}
	c.Floor("C16.afterws", n, 2)
}

// regexGapRule: the whitespace in front of a regex literal is whatever the
// lexer calls whitespace.
func regexGapRule(c *Ctx) {
	p := c.P
	c.Rule("C16.regexgap", "parseRegex, evaluated by constant propagation with the peeked rune bound to each candidate, consumes the whitespace token in front of a regex literal exactly when the lexer's isWhitespace holds for that rune (space, tab and line feed alike)")
	f := p.SSAFunc(p.Method("Parser", "parseRegex"))
	isWS := p.Func("isWhitespace")
	if f == nil || isWS == nil {
		c.Unk("C16.regexgap", "(*Parser).parseRegex", 0, "anchor not found")
		return
	}
	var consume *ssa.Call
	for _, b := range f.Blocks {
		for _, in := range b.Instrs {
			if call, ok := in.(*ssa.Call); ok && call.Call.StaticCallee() != nil && call.Call.StaticCallee().Name() == "consumeWhitespace" {
				consume = call
			}
		}
	}
	if consume == nil {
		c.Unk("C16.regexgap", "(*Parser).parseRegex: consumeWhitespace", f.Pos(), "no call found")
		return
	}
	n := 0
	for _, ch := range []rune{' ', '\t', '\n', '/', 'a', '\'', 0} {
		want, ok := p.newSCCP().evalConstBool(isWS, cConst(constant.MakeInt64(int64(ch))))
		key := fmt.Sprintf("(*Parser).parseRegex: gap starting with %q", ch)
		if !ok {
			c.Unk("C16.regexgap", key, f.Pos(), "isWhitespace is not a constant function of the rune")
			continue
		}
		s := p.newSCCP()
		s.hook = func(call *ssa.Call, args []cval) ([]cval, bool) {
			if cal := call.Call.StaticCallee(); cal != nil && cal.Name() == "peekRune" {
				return []cval{cConst(constant.MakeInt64(int64(ch)))}, true
			}
			return nil, false
		}
		r := s.run(f, nil, 0)
		got := r.execB[consume.Block().Index]
		n++
		if got != want {
			c.Bad("C16.regexgap", key, consume.Pos(), fmt.Sprintf("whitespace consumed=%v but the lexer's isWhitespace=%v: a regex after this kind of gap is not recognised (or a non-gap is swallowed)", got, want))
		} else {
			c.OK("C16.regexgap", key, consume.Pos(), fmt.Sprintf("consumed=%v", got))
		}
	}
	c.Floor("C16.regexgap", n, 5)
}

// rawScanRule: a raw scan (one that does not skip whitespace and comments) is
// legitimate only where the grammar itself is layout-sensitive.
func rawScanRule(c *Ctx, rule string, tt *tokenTable) {
	p := c.P
	c.Rule(rule, "a token obtained with the raw Parser.Scan is compared only with WS (to detect whitespace) or with a token the grammar requires to be adjacent (`.` between name segments, `::` before a type, `(` after a function name) — or is only peeked and pushed back: a raw scan that expects a separator such as `,` or `)` makes the statement depend on whether the previous clause happened to swallow the whitespace, and rejects a comment there")
	rawScan := p.SSAFunc(p.Method("Parser", "Scan"))
	skip := p.SSAFunc(p.Method("Parser", "ScanIgnoreWhitespace"))
	if rawScan == nil || skip == nil {
		c.Unk(rule, "anchors", 0, "Parser.Scan/ScanIgnoreWhitespace not found")
		return
	}
	adjacent := map[string]bool{"WS": true, "DOT": true, "DOUBLECOLON": true, "LPAREN": true, "COMMENT": true}
	n := 0
	for _, fn := range p.SrcFuncs() {
		if fn == skip || fn == rawScan {
			continue
		}
		i := 0
		for _, b := range fn.Blocks {
			for _, in := range b.Instrs {
				call, ok := in.(*ssa.Call)
				if !ok || call.Call.StaticCallee() != rawScan {
					continue
				}
				i++
				n++
				key := fmt.Sprintf("%s: raw scan #%d", fn.Name(), i)
				// the token value: Extract #0
				var against []string
				for _, ref := range *call.Referrers() {
					ex, ok := ref.(*ssa.Extract)
					if !ok || ex.Index != 0 {
						continue
					}
					var collect func(v ssa.Value, d int)
					seen := map[ssa.Value]bool{}
					collect = func(v ssa.Value, d int) {
						if seen[v] || d > 3 {
							return
						}
						seen[v] = true
						for _, r2 := range *v.Referrers() {
							switch x := r2.(type) {
							case *ssa.BinOp:
								if x.Op != token.EQL && x.Op != token.NEQ {
									continue
								}
								other := x.Y
								if other == v {
									other = x.X
								}
								if k, ok := other.(*ssa.Const); ok && k.Value != nil && types.Identical(k.Type(), tt.Type) {
									tv, _ := constant.Int64Val(k.Value)
									against = append(against, tt.Name[tv])
								}
							case *ssa.Phi:
								collect(x, d+1)
							}
						}
					}
					collect(ex, 0)
				}
				// peeked only: the next parser call in the block pushes it back
				peeked := false
				after := false
				for _, in2 := range b.Instrs {
					if in2 == ssa.Instruction(call) {
						after = true
						continue
					}
					if !after {
						continue
					}
					if c2, ok := in2.(*ssa.Call); ok {
						if cal := c2.Call.StaticCallee(); cal != nil && cal.Signature.Recv() != nil {
							peeked = cal.Name() == "Unscan"
							break
						}
					}
				}
				// the token right after `::` (the type name is adjacent by grammar)
				afterCast := blockAfterToken(b, "DOUBLECOLON", tt)
				// a helper that is only ever called right after `::` was consumed
				if !afterCast {
					if sites := callSitesOf(p, fn); len(sites) > 0 {
						all := true
						for _, site := range sites {
							if !blockAfterToken(site.Block(), "DOUBLECOLON", tt) {
								all = false
							}
						}
						afterCast = all
					}
				}
				var bad []string
				for _, a := range against {
					if !adjacent[a] && !peeked && !afterCast {
						bad = append(bad, a)
					}
				}
				sort.Strings(bad)
				if len(bad) > 0 {
					c.Bad(rule, key, call.Pos(), "the raw token is tested against "+strings.Join(bad, ", ")+": whitespace or a comment in front of it is not skipped here")
				} else {
					c.OK(rule, key, call.Pos(), fmt.Sprintf("compared with %v only", against))
				}
			}
		}
	}
	c.Floor(rule, n, 10)
}

// regexStartRule: the parser's rune-level test for "a regex follows" against
// what the lexer does with the same runes.
func regexStartRule(c *Ctx, tt *tokenTable) {
	p := c.P
	c.Rule("C16.regexstart", "parseRegex decides that a regex follows by peeking one rune; for every rune it accepts, the lexer's scan table must not need a second rune to tell another token apart that may legally stand there: `/` followed by `*` is a block comment, so a one-rune test takes a comment in front of an operand for a regex; and what parseRegex skips in front of the operand (consumeWhitespace) must be the skip set of ScanIgnoreWhitespace, comments included")
	f := p.SSAFunc(p.Method("Parser", "parseRegex"))
	cw := p.SSAFunc(p.Method("Parser", "consumeWhitespace"))
	rows, why := p.scanTable()
	if f == nil || cw == nil || rows == nil {
		c.Unk("C16.regexstart", "(*Parser).parseRegex", 0, "anchors or scan table not found: "+why)
		return
	}
	// runes compared with the peeked rune on the way to ScanRegex
	var starts []rune
	for _, b := range f.Blocks {
		for _, in := range b.Instrs {
			bo, ok := in.(*ssa.BinOp)
			if !ok || (bo.Op != token.EQL && bo.Op != token.NEQ) {
				continue
			}
			call, ok := bo.X.(*ssa.Call)
			if !ok || call.Call.StaticCallee() == nil || call.Call.StaticCallee().Name() != "peekRune" {
				continue
			}
			if k, ok := bo.Y.(*ssa.Const); ok && k.Value != nil {
				n, _ := constant.Int64Val(constant.ToInt(k.Value))
				if n != '$' {
					starts = append(starts, rune(n))
				}
			}
		}
	}
	if len(starts) == 0 {
		c.Unk("C16.regexstart", "(*Parser).parseRegex: start rune", f.Pos(), "no comparison of the peeked rune with a constant found")
	}
	for _, st := range starts {
		key := fmt.Sprintf("(*Parser).parseRegex: %q taken as the start of a regex", st)
		var other []string
		for _, r := range rows {
			if r.c0 == st && r.twoRunes && r.tok >= 0 && tt.Name[r.tok] == "COMMENT" {
				other = append(other, fmt.Sprintf("%q%q is a COMMENT", r.c0, r.c1))
			}
		}
		if len(other) > 0 {
			c.Bad("C16.regexstart", key, f.Pos(), "decided from one rune, but for the lexer "+strings.Join(other, "; ")+": a block comment in front of an operand is scanned as a regex (`SELECT /* c */ v FROM m` is rejected)")
		} else {
			c.OK("C16.regexstart", key, f.Pos(), "no other token that may stand there begins with this rune")
		}
	}
	// consumeWhitespace vs the skip set
	skips := map[string]bool{}
	for _, b := range cw.Blocks {
		for _, in := range b.Instrs {
			if bo, ok := in.(*ssa.BinOp); ok && (bo.Op == token.EQL || bo.Op == token.NEQ) {
				if k, ok := bo.Y.(*ssa.Const); ok && k.Value != nil && types.Identical(k.Type(), tt.Type) {
					tv, _ := constant.Int64Val(k.Value)
					skips[tt.Name[tv]] = true
				}
			}
		}
	}
	key := "(*Parser).consumeWhitespace: skips what ScanIgnoreWhitespace skips"
	if skips["WS"] && !skips["COMMENT"] {
		c.Bad("C16.regexstart", key, cw.Pos(), "skips a WS token only: a comment between an operator and its regex operand (`b =~ -- c\\n /x/`) is not skipped, and the operand is not recognised")
	} else if skips["WS"] && skips["COMMENT"] {
		c.OK("C16.regexstart", key, cw.Pos(), "WS and COMMENT")
	} else {
		c.Unk("C16.regexstart", key, cw.Pos(), "skip set not recognised")
	}
}

// blockAfterToken: b is entered only through the true branch of a test
// `tok == <name>` (b is that successor or dominated by it).
func blockAfterToken(b *ssa.BasicBlock, name string, tt *tokenTable) bool {
	for d := b; d != nil; d = d.Idom() {
		ifi, ok := d.Instrs[len(d.Instrs)-1].(*ssa.If)
		if !ok || d == b {
			continue
		}
		bo, ok := ifi.Cond.(*ssa.BinOp)
		if !ok || (bo.Op != token.EQL && bo.Op != token.NEQ) {
			continue
		}
		succ := d.Succs[0]
		if bo.Op == token.NEQ {
			succ = d.Succs[1]
		}
		if k, ok := bo.Y.(*ssa.Const); ok && k.Value != nil && types.Identical(k.Type(), tt.Type) {
			tv, _ := constant.Int64Val(k.Value)
			if tt.Name[tv] == name && (succ == b || succ.Dominates(b)) {
				return true
			}
		}
	}
	return false
}

// callSitesOf returns the static call sites of fn in the package.
func callSitesOf(p *Program, fn *ssa.Function) []*ssa.Call {
	var out []*ssa.Call
	for _, g := range p.SrcFuncs() {
		for _, f := range append([]*ssa.Function{g}, g.AnonFuncs...) {
			for _, b := range f.Blocks {
				for _, in := range b.Instrs {
					if call, ok := in.(*ssa.Call); ok && call.Call.StaticCallee() == fn {
						out = append(out, call)
					}
				}
			}
		}
	}
	return out
}

// openersRule: `--` and `/*` open a comment whatever follows them.
func openersRule(c *Ctx, rule string) {
	p := c.P
	tt := p.tokenTable()
	c.Rule(rule, "Scanner.Scan, evaluated on the rune pairs `--` and `/*` with every further read bound to a non-blank character, returns COMMENT: the comment markers open a comment whatever follows them (a marker that needs a blank after it makes `--note` two minus signs and the rest of the line part of the statement)")
	rows, why := p.scanTable()
	if rows == nil || tt == nil {
		c.Unk(rule, "scan table", 0, why)
		return
	}
	n := 0
	for _, r := range rows {
		if !((r.c0 == '-' && r.c1 == '-') || (r.c0 == '/' && r.c1 == '*')) {
			continue
		}
		n++
		key := fmt.Sprintf("Scan: %q %q opens a comment", r.c0, r.c1)
		var pos token.Pos
		if r.pos != nil {
			pos = r.pos.Pos()
		}
		switch {
		case r.kind == "token" && tt.Name[r.tok] == "COMMENT":
			c.OK(rule, key, pos, "COMMENT")
		case r.kind == "token" && r.tok >= 0:
			c.Bad(rule, key, pos, "yields "+tt.Name[r.tok]+" when the marker is followed by a character that is not a blank: the marker does not always open a comment")
		case r.c0 == '/':
			// a block comment may also end in ILLEGAL when it is never closed: two
			// returns, which the table does not tell apart; the comment automaton
			// (comments rule) decides that case
			n--
		default:
			c.Unk(rule, key, pos, "the token for this pair is not a constant of the two runes")
		}
	}
	c.Floor(rule, n, 1)
}

// peekDepthRule: the raw one-rune look-ahead is consulted only when no token
// is waiting in the push-back ring.
func peekDepthRule(c *Ctx, rule string) {
	p := c.P
	c.Rule(rule, "Parser.peekRune, which looks at the raw character stream, is called only where the token push-back depth is 0 on every path from every exported entry point: with a token pushed back it reports the character after that token, so a decision taken on it (is a regex coming? a `:`?) is about the wrong place, and whitespace or a comment there changes what the statement means")
	unscanP := p.SSAFunc(p.Method("Parser", "Unscan"))
	scanP := p.SSAFunc(p.Method("Parser", "Scan"))
	scanRe := p.SSAFunc(p.Method("Parser", "ScanRegex"))
	peek := p.SSAFunc(p.Method("Parser", "peekRune"))
	if unscanP == nil || scanP == nil || scanRe == nil || peek == nil {
		c.Unk(rule, "Parser.peekRune", 0, "anchors not found")
		return
	}
	spec := &pbSpec{p: p, cap: ringCap(p, "bufScanner"), inc: map[*ssa.Function]bool{unscanP: true}, dec: map[*ssa.Function]bool{scanP: true, scanRe: true},
		incInvoke: map[string]bool{}, decInvoke: map[string]bool{}, scope: map[*ssa.Function]bool{}, bySig: map[string][]*ssa.Function{}}
	if spec.cap == 0 {
		c.Unk(rule, "bufScanner ring", 0, "ring capacity not found")
		return
	}
	var entries []*ssa.Function
	for _, f := range p.allSSAFuncs() {
		if spec.inc[f] || spec.dec[f] {
			continue
		}
		root := f
		for root.Parent() != nil {
			root = root.Parent()
		}
		o, _ := root.Object().(*types.Func)
		if o == nil {
			continue
		}
		rn := recvTypeName(o)
		if rn == "Parser" && o.Name() != "scan" && o.Name() != "peekRune" || rn == "ParseTree" || isInitFunc(root.Name()) && f.Parent() != nil {
			spec.scope[f] = true
			sig := sigKey(f.Signature)
			if f.Parent() != nil {
				spec.bySig[sig] = append(spec.bySig[sig], f)
			}
			if rn == "Parser" && o.Exported() && f.Parent() == nil {
				entries = append(entries, f)
			}
		}
	}
	a := newPB(spec)
	a.run()
	hits := a.contexts(entries, map[*ssa.Function]bool{peek: true})
	// a look-ahead moved into a boolean predicate with a single caller still
	// belongs to that caller (the finding keeps its name)
	callers := map[*ssa.Function]map[*ssa.Function]bool{}
	for f := range spec.scope {
		for _, b := range f.Blocks {
			for _, in := range b.Instrs {
				if call, ok := in.(*ssa.Call); ok {
					if cal := call.Call.StaticCallee(); cal != nil && spec.scope[cal] {
						if callers[cal] == nil {
							callers[cal] = map[*ssa.Function]bool{}
						}
						callers[cal][f] = true
					}
				}
			}
		}
	}
	owner := func(f *ssa.Function) *ssa.Function {
		for i := 0; i < 3; i++ {
			res := f.Signature.Results()
			if len(callers[f]) != 1 || res.Len() != 1 || !types.Identical(res.At(0).Type(), types.Typ[types.Bool]) {
				break
			}
			for g := range callers[f] {
				f = g
			}
		}
		return f
	}
	type site struct {
		call *ssa.Call
		bits uint32
	}
	var sites []site
	for call, bits := range hits {
		sites = append(sites, site{call, bits})
	}
	sort.Slice(sites, func(i, j int) bool { return sites[i].call.Pos() < sites[j].call.Pos() })
	perFn := map[string]int{}
	for _, s := range sites {
		fn := ssaFuncName(owner(s.call.Parent()))
		perFn[fn]++
		key := fmt.Sprintf("%s: peekRune #%d", fn, perFn[fn])
		if s.bits&^1 == 0 {
			c.OK(rule, key, s.call.Pos(), "push-back depth 0")
		} else {
			var ds []string
			for d := 0; d <= a.over; d++ {
				if s.bits&(1<<uint(d)) != 0 {
					ds = append(ds, fmt.Sprint(d))
				}
			}
			c.Bad(rule, key, s.call.Pos(), "reachable with push-back depth in {"+strings.Join(ds, ",")+"}: the look-ahead skips the pushed-back token")
		}
	}
	c.Floor(rule, len(sites), 4)
}

// wsRunRule: a run of whitespace is one token, however long.
func wsRunRule(c *Ctx, rule string) {
	p := c.P
	c.Rule(rule, "the loop of scanWhitespace is left only on a test of the character just read (end marker, or not whitespace): an exit that depends on anything else (a buffer that is full) cuts a long gap into several WS tokens, and the places that swallow exactly one WS token (before a regex, after a name) then see whitespace where they expect the next token")
	f := p.SSAFunc(p.Method("Scanner", "scanWhitespace"))
	read := p.SSAFunc(p.Method("reader", "read"))
	if f == nil || read == nil {
		c.Unk(rule, "(*Scanner).scanWhitespace", 0, "anchor not found")
		return
	}
	// loop blocks: those on a cycle
	inLoop := map[*ssa.BasicBlock]bool{}
	for _, b := range f.Blocks {
		for _, s := range b.Succs {
			if reaches(s, b, map[int]bool{}) {
				inLoop[b] = true
			}
		}
	}
	var dependsOnRune func(v ssa.Value, d int) bool
	dependsOnRune = func(v ssa.Value, d int) bool {
		if d > 6 {
			return false
		}
		switch x := v.(type) {
		case *ssa.Extract:
			if call, ok := x.Tuple.(*ssa.Call); ok && call.Call.StaticCallee() == read {
				return x.Index == 0
			}
		case *ssa.BinOp:
			return dependsOnRune(x.X, d+1) || dependsOnRune(x.Y, d+1)
		case *ssa.UnOp:
			return dependsOnRune(x.X, d+1)
		case *ssa.Call:
			for _, a := range x.Call.Args {
				if dependsOnRune(a, d+1) {
					return true
				}
			}
		case *ssa.Phi:
			for _, e := range x.Edges {
				if dependsOnRune(e, d+1) {
					return true
				}
			}
		}
		return false
	}
	n := 0
	for _, b := range f.Blocks {
		if !inLoop[b] {
			continue
		}
		ifi, ok := b.Instrs[len(b.Instrs)-1].(*ssa.If)
		if !ok {
			continue
		}
		exits := false
		for _, s := range b.Succs {
			if !inLoop[s] {
				exits = true
			}
		}
		if !exits {
			continue
		}
		n++
		key := fmt.Sprintf("(*Scanner).scanWhitespace: loop exit #%d", n)
		if dependsOnRune(ifi.Cond, 0) {
			c.OK(rule, key, ifi.Cond.Pos(), "decided by the character just read")
		} else {
			c.Bad(rule, key, ifi.Cond.Pos(), "the loop can end while whitespace is still coming: the gap is returned as more than one WS token")
		}
	}
	c.Floor(rule, n, 1)
}

// parserStateRule: parsing keeps no state in the Parser between statements.
func parserStateRule(c *Ctx, rule string) {
	p := c.P
	c.Rule(rule, "no method of Parser other than its constructors and SetParams stores into a field of the Parser: a flag or table set while one statement is parsed is still there for the next statement of the same query, whose result then depends on what came before it")
	n := 0
	for _, f := range p.allSSAFuncs() {
		if f.Signature.Recv() == nil || !strings.HasSuffix(f.Signature.Recv().Type().String(), ".Parser") {
			continue
		}
		if f.Name() == "SetParams" {
			continue
		}
		for _, b := range f.Blocks {
			for _, in := range b.Instrs {
				st, ok := in.(*ssa.Store)
				if !ok {
					continue
				}
				fa, ok := st.Addr.(*ssa.FieldAddr)
				if !ok || len(f.Params) == 0 || fa.X != ssa.Value(f.Params[0]) {
					continue
				}
				n++
				c.Bad(rule, fmt.Sprintf("%s: store into Parser.%s", ssaFuncName(f), fieldNameOf(fa)), st.Pos(), "parser state written while parsing: it outlives the statement")
			}
		}
	}
	c.OK(rule, "stores into Parser fields by parse methods", 0, fmt.Sprintf("%d", n))
}
