package main

import (
	"fmt"
	"go/constant"
	"go/token"
	"go/types"
	"strings"

	"golang.org/x/tools/go/ssa"
)

// The five levels as the property states them, by operator spelling.
var precedenceSpec = map[string]int{
	"*": 5, "/": 5, "%": 5, "&": 5,
	"+": 4, "-": 4, "|": 4, "^": 4,
	"=": 3, "!=": 3, "<": 3, "<=": 3, ">": 3, ">=": 3, "=~": 3, "!~": 3,
	"AND": 2, "OR": 1,
}

func init() { register("C03", rulesC03) }

func rulesC03(c *Ctx) {
	p := c.P
	tt := p.tokenTable()
	if tt == nil {
		c.Unk("C03.table", "Token/tokens", 0, "token enumeration or spelling table not found")
		return
	}
	s := p.newSCCP()
	prec := p.Method("Token", "Precedence")
	isOp := p.Method("Token", "isOperator")
	isRe := p.Func("IsRegexOp")
	c.Rule("C03.table", "Token.Precedence, evaluated by constant propagation for every token constant, equals the five levels the property states (by operator spelling), is 0 for every non-operator, and isOperator holds exactly for the 18 operators; IsRegexOp holds exactly for =~ and !~")
	if prec == nil || isOp == nil || isRe == nil {
		c.Unk("C03.table", "anchors", 0, "Token.Precedence / Token.isOperator / IsRegexOp not found")
		return
	}
	nOps := 0
	for _, v := range tt.Values {
		name := tt.Name[v]
		arg := cConst(constant.MakeInt64(v))
		got, ok := s.evalConstInt(prec, arg)
		key := "Precedence(" + name + ")"
		sp, hasSp := tt.Spelling[v]
		want, isSpecOp := 0, false
		if hasSp {
			want, isSpecOp = precedenceSpec[sp]
		}
		if isSpecOp {
			nOps++
		}
		if !ok {
			c.Unk("C03.table", key, prec.Pos(), "precedence is not a constant function of the token")
			continue
		}
		if int(got) != want {
			c.Bad("C03.table", key, prec.Pos(), fmt.Sprintf("operator %q has precedence %d, the property states %d", sp, got, want))
		} else {
			c.OK("C03.table", key, prec.Pos(), fmt.Sprintf("%q -> %d", sp, got))
		}
		b, ok := s.evalConstBool(isOp, arg)
		key = "isOperator(" + name + ")"
		if !ok {
			c.Unk("C03.table", key, isOp.Pos(), "not a constant function of the token")
		} else if b != isSpecOp {
			c.Bad("C03.table", key, isOp.Pos(), fmt.Sprintf("isOperator=%v but the property lists %q as operator=%v: an operator with precedence 0 sinks to the root, a non-operator ends the expression", b, sp, isSpecOp))
		} else {
			c.OK("C03.table", key, isOp.Pos(), fmt.Sprint(b))
		}
		rb, ok := s.evalConstBool(isRe, arg)
		key = "IsRegexOp(" + name + ")"
		wantRe := sp == "=~" || sp == "!~"
		if !ok {
			c.Unk("C03.table", key, isRe.Pos(), "not a constant function of the token")
		} else if rb != wantRe {
			c.Bad("C03.table", key, isRe.Pos(), fmt.Sprintf("IsRegexOp=%v for %q", rb, sp))
		} else {
			c.OK("C03.table", key, isRe.Pos(), fmt.Sprint(rb))
		}
	}
	if nOps != len(precedenceSpec) {
		c.Bad("C03.table", "operator spellings", 0, fmt.Sprintf("only %d of the %d operator spellings the property lists exist in the tokens table", nOps, len(precedenceSpec)))
	}
	c.Floor("C03.table", len(tt.Values), 100)
	assocC03(c)
	parenC03(c, tt)
	if rows, why := p.scanTable(); rows != nil {
		spellingRule(c, "C03.spelling", rows, tt)
	} else {
		c.Unk("C03.spelling", "Scanner.Scan", 0, why)
	}
}

// parenC03: parentheses become explicit nodes, and regex operators take a
// regex literal.
func parenC03(c *Ctx, tt *tokenTable) {
	p := c.P
	c.Rule("C03.paren", "when the first token of a unary expression is '(' every successful return of parseUnaryExpr is a *ParenExpr (parentheses are kept as explicit nodes)")
	c.Rule("C03.regexrhs", "under a regex operator ParseExpr takes its right operand from parseRegex, never from parseUnaryExpr, and a missing regex never reaches the tree insertion; under any other operator the operand comes from parseUnaryExpr")
	pu := p.SSAFunc(p.Method("Parser", "parseUnaryExpr"))
	pe := p.SSAFunc(p.Method("Parser", "ParseExpr"))
	scanWS := p.SSAFunc(p.Method("Parser", "ScanIgnoreWhitespace"))
	parseRegex := p.SSAFunc(p.Method("Parser", "parseRegex"))
	isRe := p.SSAFunc(p.Func("IsRegexOp"))
	if pu == nil || pe == nil || scanWS == nil || parseRegex == nil || isRe == nil {
		c.Unk("C03.paren", "anchors", 0, "parseUnaryExpr/ParseExpr/ScanIgnoreWhitespace/parseRegex/IsRegexOp not found")
		return
	}
	ts := p.newTypeSets()
	// --- paren ---
	var firstScan *ssa.Call
	for _, in := range pu.Blocks[0].Instrs {
		if call, ok := in.(*ssa.Call); ok && call.Call.StaticCallee() == scanWS {
			firstScan = call
			break
		}
	}
	if firstScan == nil {
		c.Unk("C03.paren", "(*Parser).parseUnaryExpr: first token", pu.Pos(), "the function does not start by scanning a token")
	} else {
		s := p.newSCCP()
		s.hook = func(call *ssa.Call, args []cval) ([]cval, bool) {
			if call == firstScan {
				return []cval{tt.cv("LPAREN"), cTop, cTop}, true
			}
			return nil, false
		}
		rets := s.Eval(pu, nil)
		n := 0
		for _, rp := range rets {
			if len(rp.Results) != 2 || rp.Results[0].nilc {
				continue // error return
			}
			n++
			set := ts.of(rp.Instr.Results[0], map[ssa.Value]bool{})
			key := "(*Parser).parseUnaryExpr: return after '('"
			names := set.names()
			// `return p.helper()`: the helper's (nil, err) answers are error returns
			if ex0, ok := rp.Instr.Results[0].(*ssa.Extract); ok {
				if ex1, ok := rp.Instr.Results[1].(*ssa.Extract); ok && ex0.Tuple == ex1.Tuple {
					var kept []string
					for _, nm := range names {
						if nm != "nil" {
							kept = append(kept, nm)
						}
					}
					names = kept
				}
			}
			if !set.top && len(names) == 1 && names[0] == "*ParenExpr" {
				c.OK("C03.paren", key, rp.Pos, "returns *ParenExpr")
			} else {
				c.Bad("C03.paren", key, rp.Pos, fmt.Sprintf("a parenthesised group can come back as %v: the explicit node is lost and printing regroups", names))
			}
		}
		if n == 0 {
			c.Unk("C03.paren", "(*Parser).parseUnaryExpr: return after '('", pu.Pos(), "no successful return is reachable with a leading '('")
		}
	}
	parenPrintC03(c)
	fmtConstRule(c, "C03.fmtconst")
	keywordLookupRule(c, "C03.kwlookup")
	// --- a whole expression is parsed for an operand only inside parentheses ---
	c.Rule("C03.operandexpr", "every ParseExpr call in parseUnaryExpr has its result stored into a ParenExpr (the group in parentheses): an operand that is parsed as a whole expression without being wrapped takes the rest of the operator chain with it, and the printed text regroups")
	{
		pex := p.SSAFunc(p.Method("Parser", "ParseExpr"))
		n := 0
		for _, b := range pu.Blocks {
			for _, in := range b.Instrs {
				call, ok := in.(*ssa.Call)
				if !ok || call.Call.StaticCallee() != pex {
					continue
				}
				n++
				key := fmt.Sprintf("(*Parser).parseUnaryExpr: ParseExpr #%d", n)
				wrapped, returned := false, false
				for _, ref := range *call.Referrers() {
					ex, ok := ref.(*ssa.Extract)
					if !ok || ex.Index != 0 {
						continue
					}
					for _, r2 := range *ex.Referrers() {
						switch x := r2.(type) {
						case *ssa.Store:
							if fa, ok := x.Addr.(*ssa.FieldAddr); ok && p.TypeStr(fa.X.Type()) == "*ParenExpr" {
								wrapped = true
							}
						case *ssa.Return:
							returned = true
						}
					}
				}
				switch {
				case returned:
					c.Bad("C03.operandexpr", key, call.Pos(), "the expression parsed for an operand is returned bare: `a * +b - c` groups as a * (b - c)")
				case wrapped:
					c.OK("C03.operandexpr", key, call.Pos(), "stored into a ParenExpr")
				default:
					c.Unk("C03.operandexpr", key, call.Pos(), "the result is neither wrapped in a ParenExpr nor returned directly")
				}
			}
		}
		c.Floor("C03.operandexpr", n, 1)
	}
	binPrintC03(c, "C03.binprint")
	// the grouping a text denotes survives printing only if every operand
	// position holds a single operand
	operandShapeRule(c, "C03.operandshape")
	c.Rule("C03.pure", "the package-level parse functions (ParseExpr, ParseStatement, ParseQuery and their Must forms) read no mutable package-level state: the tree a text denotes does not depend on texts parsed before, and two calls never hand out the same tree (a memo of parsed expressions returns a tree that an earlier caller may have rewritten, e.g. stripped of its parentheses)")
	pureRule(c, "C03.pure", "ParseExpr", "ParseStatement", "ParseQuery", "MustParseExpr", "MustParseStatement")
	// --- regex rhs ---
	var insertBlk *ssa.BasicBlock
	binT := p.Named("BinaryExpr")
	for _, b := range pe.Blocks {
		for _, in := range b.Instrs {
			if a, ok := in.(*ssa.Alloc); ok && a.Heap && b.Index != 0 && types.Identical(a.Type().(*types.Pointer).Elem(), binT) {
				insertBlk = b
			}
		}
	}
	calls := func(r *sccpRun, fn *ssa.Function, skipEntry bool) bool {
		for _, b := range pe.Blocks {
			if !r.execB[b.Index] || (skipEntry && b.Index == 0) {
				continue
			}
			for _, in := range b.Instrs {
				if call, ok := in.(*ssa.Call); ok && call.Call.StaticCallee() == fn {
					return true
				}
			}
		}
		return false
	}
	mk := func(isRegex bool, regexNil bool) *sccpRun {
		s := p.newSCCP()
		s.hook = func(call *ssa.Call, args []cval) ([]cval, bool) {
			switch call.Call.StaticCallee() {
			case isRe:
				return []cval{cConst(constant.MakeBool(isRegex))}, true
			case parseRegex:
				if regexNil {
					return []cval{cNil(), cNil()}, true
				}
			}
			return nil, false
		}
		return s.run(pe, nil, 0)
	}
	if insertBlk == nil {
		c.Unk("C03.regexrhs", "(*Parser).ParseExpr: insertion point", pe.Pos(), "no BinaryExpr is built in the loop")
		return
	}
	// helper form: ParseExpr hands the operator to one Parser method that
	// chooses between parseRegex and parseUnaryExpr.
	direct := false
	var helper *ssa.Function
	nHelpers := 0
	for _, b := range pe.Blocks {
		for _, in := range b.Instrs {
			call, ok := in.(*ssa.Call)
			if !ok {
				continue
			}
			callee := call.Call.StaticCallee()
			if callee == parseRegex {
				direct = true
			}
			if callee == nil || callee == pe || callee == parseRegex || callee == pu || callee.Pkg == nil || callee.Pkg.Pkg != p.Types {
				continue
			}
			for _, hb := range callee.Blocks {
				for _, hin := range hb.Instrs {
					if hc, ok := hin.(*ssa.Call); ok && hc.Call.StaticCallee() == parseRegex && helper != callee {
						helper = callee
						nHelpers++
					}
				}
			}
		}
	}
	if !direct {
		if nHelpers != 1 {
			c.Unk("C03.regexrhs", "(*Parser).ParseExpr: operand under =~ / !~", pe.Pos(), "parseRegex is not called from ParseExpr or from exactly one helper it calls")
			return
		}
		regexRHSHelper(c, pe, helper, pu, parseRegex, isRe, insertBlk)
		return
	}
	r1 := mk(true, false)
	c.Check(calls(r1, parseRegex, false) && !calls(r1, pu, true), "C03.regexrhs", "(*Parser).ParseExpr: operand under =~ / !~", pe.Pos(), "operand must come from parseRegex only")
	r2 := mk(false, false)
	c.Check(!calls(r2, parseRegex, false) && calls(r2, pu, true), "C03.regexrhs", "(*Parser).ParseExpr: operand under other operators", pe.Pos(), "operand must come from parseUnaryExpr only")
	r3 := mk(true, true)
	c.Check(!r3.execB[insertBlk.Index], "C03.regexrhs", "(*Parser).ParseExpr: missing regex", pe.Pos(), "a nil regex from parseRegex must be rejected before the insertion point")
}

// assocC03 checks the insertion loop of ParseExpr on SSA.
func assocC03(c *Ctx) {
	p := c.P
	pe := p.Method("Parser", "ParseExpr")
	precF := p.SSAFunc(p.Method("Token", "Precedence"))
	c.Rule("C03.assoc", "in ParseExpr's insertion loop the descent along the right spine stops exactly when the right child is not a BinaryExpr or prec(child.Op) >= prec(new op) (left associativity); no other condition leads to the insertion point; the inserted node is BinaryExpr{LHS: old right child, RHS: new operand, Op: new op}; the descent step moves to the right child")
	sf := p.SSAFunc(pe)
	if sf == nil || precF == nil {
		c.Unk("C03.assoc", "(*Parser).ParseExpr", 0, "anchor not found")
		return
	}
	binT := p.Named("BinaryExpr")
	// the comparison of two Precedence() results
	var cmp *ssa.BinOp
	nCmp := 0
	for _, b := range sf.Blocks {
		for _, in := range b.Instrs {
			bo, ok := in.(*ssa.BinOp)
			if !ok {
				continue
			}
			cx, okx := bo.X.(*ssa.Call)
			cy, oky := bo.Y.(*ssa.Call)
			if okx && oky && cx.Call.StaticCallee() == precF && cy.Call.StaticCallee() == precF {
				cmp = bo
				nCmp++
			}
		}
	}
	if nCmp != 1 {
		// one side is a Precedence() result, the other is *computed from* one
		// (adjusted, or chosen per operator): some operator is compared at a
		// level that is not its own
		var derived func(v ssa.Value, depth int) bool
		derived = func(v ssa.Value, depth int) bool {
			if depth > 4 {
				return false
			}
			switch x := v.(type) {
			case *ssa.Call:
				return x.Call.StaticCallee() == precF
			case *ssa.BinOp:
				return derived(x.X, depth+1) || derived(x.Y, depth+1)
			case *ssa.Phi:
				for _, e := range x.Edges {
					if derived(e, depth+1) {
						return true
					}
				}
			}
			return false
		}
		for _, b := range sf.Blocks {
			for _, in := range b.Instrs {
				bo, ok := in.(*ssa.BinOp)
				if !ok || !(bo.Op == token.LSS || bo.Op == token.LEQ || bo.Op == token.GTR || bo.Op == token.GEQ) {
					continue
				}
				cx, okx := bo.X.(*ssa.Call)
				cy, oky := bo.Y.(*ssa.Call)
				xIsPrec := okx && cx.Call.StaticCallee() == precF
				yIsPrec := oky && cy.Call.StaticCallee() == precF
				if xIsPrec != yIsPrec {
					other := bo.Y
					if yIsPrec {
						other = bo.X
					}
					if _, plain := other.(*ssa.Call); !plain && derived(other, 0) {
						c.Bad("C03.assoc", "(*Parser).ParseExpr: precedence comparison", bo.Pos(), "the right child's precedence is compared with a value computed from the new operator's precedence (adjusted or selected per operator), not with that precedence itself: some operator does not group at its own level / to the left")
						return
					}
				}
			}
		}
		// the right child's precedence compared with a value kept in a field of
		// the parser that ParseExpr itself assigns: nested expressions (call
		// arguments, parenthesised groups) run ParseExpr again and overwrite it
		for _, b := range sf.Blocks {
			for _, in := range b.Instrs {
				bo, ok := in.(*ssa.BinOp)
				if !ok || !(bo.Op == token.LSS || bo.Op == token.LEQ || bo.Op == token.GTR || bo.Op == token.GEQ) {
					continue
				}
				for _, pair := range [][2]ssa.Value{{bo.X, bo.Y}, {bo.Y, bo.X}} {
					pc, isCall := pair[0].(*ssa.Call)
					if !isCall || pc.Call.StaticCallee() != precF {
						continue
					}
					ld, isLoad := pair[1].(*ssa.UnOp)
					if !isLoad || ld.Op != token.MUL {
						continue
					}
					fa, isFA := ld.X.(*ssa.FieldAddr)
					if !isFA || len(sf.Params) == 0 || fa.X != ssa.Value(sf.Params[0]) {
						continue
					}
					stored := false
					for _, b2 := range sf.Blocks {
						for _, in2 := range b2.Instrs {
							if st, ok := in2.(*ssa.Store); ok {
								if fa2, ok := st.Addr.(*ssa.FieldAddr); ok && fa2.X == fa.X && fa2.Field == fa.Field {
									stored = true
								}
							}
						}
					}
					if stored {
						c.Bad("C03.assoc", "(*Parser).ParseExpr: precedence comparison", bo.Pos(), "the level the new operator is compared at is read from a field of the parser that ParseExpr assigns: an operand that itself contains an expression (a call argument) runs ParseExpr again and leaves its own operator's level there, so the enclosing operator is placed at the wrong level")
						return
					}
				}
			}
		}
		// a further comparison of two precedences, neither of them the right
		// child's operator, that decides an insertion of its own
		childOp := func(v ssa.Value) bool {
			call, ok := v.(*ssa.Call)
			if !ok || len(call.Call.Args) != 1 {
				return false
			}
			_, fld, ok := fieldRef(call.Call.Args[0])
			return ok && fld == "Op"
		}
		for _, b := range sf.Blocks {
			for _, in := range b.Instrs {
				bo, ok := in.(*ssa.BinOp)
				if !ok {
					continue
				}
				cx, okx := bo.X.(*ssa.Call)
				cy, oky := bo.Y.(*ssa.Call)
				if !okx || !oky || cx.Call.StaticCallee() != precF || cy.Call.StaticCallee() != precF || childOp(bo.X) || childOp(bo.Y) {
					continue
				}
				for _, ref := range *bo.Referrers() {
					ifi, ok := ref.(*ssa.If)
					if !ok {
						continue
					}
					for _, succ := range ifi.Block().Succs {
						for _, d := range sf.Blocks {
							if d != succ && !(succ.Dominates(d) && len(succ.Preds) == 1) {
								continue
							}
							for _, x := range d.Instrs {
								if a, ok := x.(*ssa.Alloc); ok && a.Heap && types.Identical(a.Type().(*types.Pointer).Elem(), binT) {
									c.Bad("C03.assoc", "(*Parser).ParseExpr: precedence comparison", bo.Pos(), "a second comparison of precedences — of the new operator with something other than the right child's operator — decides an insertion of its own: operators are placed by another rule than 'descend the right spine while the child binds looser'")
									return
								}
							}
						}
					}
				}
			}
		}
		c.Unk("C03.assoc", "(*Parser).ParseExpr: precedence comparison", pe.Pos(), fmt.Sprintf("expected exactly one comparison of two Precedence() results, found %d: a different insertion algorithm is not accepted unexamined", nCmp))
		return
	}
	// which operand is the existing child's Op (a load of a .Op field) and which the new op
	isChildOp := func(v ssa.Value) bool {
		call := v.(*ssa.Call)
		if len(call.Call.Args) != 1 {
			return false
		}
		u, ok := call.Call.Args[0].(*ssa.UnOp)
		if !ok || u.Op != token.MUL {
			return false
		}
		fa, ok := u.X.(*ssa.FieldAddr)
		if !ok {
			return false
		}
		st := fa.X.Type().Underlying().(*types.Pointer).Elem().Underlying().(*types.Struct)
		return st.Field(fa.Field).Name() == "Op" && types.Identical(fa.X.Type().(*types.Pointer).Elem(), binT)
	}
	op := cmp.Op
	childLeft := isChildOp(cmp.X)
	childRight := isChildOp(cmp.Y)
	if childLeft == childRight {
		c.Unk("C03.assoc", "(*Parser).ParseExpr: precedence comparison", cmp.Pos(), "cannot tell which side is the existing right child's operator")
		return
	}
	if childRight {
		op = swapOp(op)
	}
	// find the If using cmp and the insertion block
	var ifInstr *ssa.If
	var cur ssa.Value = cmp
	for hops := 0; hops < 4 && ifInstr == nil; hops++ {
		var next ssa.Value
		for _, ref := range *cur.Referrers() {
			switch i := ref.(type) {
			case *ssa.If:
				ifInstr = i
			case *ssa.UnOp:
				if i.Op == token.NOT {
					next = i
				}
			}
		}
		if ifInstr == nil && next != nil {
			op = negateOp(op) // !(a < b) is a >= b
			cur = next
		} else {
			break
		}
	}
	if ifInstr == nil {
		c.Unk("C03.assoc", "(*Parser).ParseExpr: precedence comparison", cmp.Pos(), "comparison does not decide a branch directly")
		return
	}
	blk := ifInstr.Block()
	makesBinary := func(b *ssa.BasicBlock) *ssa.Alloc {
		for _, in := range b.Instrs {
			if a, ok := in.(*ssa.Alloc); ok && a.Heap && types.Identical(a.Type().(*types.Pointer).Elem(), binT) {
				return a
			}
		}
		return nil
	}
	tBlk, fBlk := blk.Succs[0], blk.Succs[1]
	var insert, descend *ssa.BasicBlock
	// normalised: child OP new  (true edge)
	stopOnTrue := false
	switch {
	case makesBinary(tBlk) != nil:
		insert, descend, stopOnTrue = tBlk, fBlk, true
	case makesBinary(fBlk) != nil:
		insert, descend, stopOnTrue = fBlk, tBlk, false
	default:
		c.Unk("C03.assoc", "(*Parser).ParseExpr: insertion point", cmp.Pos(), "neither branch of the precedence comparison builds a BinaryExpr")
		return
	}
	stopCond := op
	if !stopOnTrue {
		stopCond = negateOp(op)
	}
	key := "(*Parser).ParseExpr: stop when prec(child.Op) " + stopCond.String() + " prec(op)"
	if stopCond == token.GEQ {
		c.OK("C03.assoc", key, cmp.Pos(), "descent stops at equal precedence: operators of one level associate to the left")
	} else {
		c.Bad("C03.assoc", key, cmp.Pos(), "the property needs >= (stop at equal precedence); "+stopCond.String()+" changes associativity or precedence grouping")
	}
	// edges into the insertion block
	for _, pred := range insert.Preds {
		pkey := fmt.Sprintf("(*Parser).ParseExpr: edge into insertion from block %s", pred.Comment)
		if pred == blk {
			c.OK("C03.assoc", pkey+" (precedence test)", cmp.Pos(), "the precedence comparison")
			continue
		}
		ok := false
		if pi, isIf := pred.Instrs[len(pred.Instrs)-1].(*ssa.If); isIf {
			// allowed: the comma-ok of node.RHS.(*BinaryExpr), on its false edge
			isOkOfBinary := func(v ssa.Value) bool {
				ex, isEx := v.(*ssa.Extract)
				if !isEx || ex.Index != 1 {
					return false
				}
				ta, isTA := ex.Tuple.(*ssa.TypeAssert)
				return isTA && ta.CommaOk && types.Identical(ta.AssertedType, types.NewPointer(binT))
			}
			cond := pi.Cond
			okCond := isOkOfBinary(cond)
			if phi, isPhi := cond.(*ssa.Phi); isPhi {
				// the ok result carried in a loop variable (child, isBinary = x.RHS.(*BinaryExpr))
				okCond = len(phi.Edges) > 0
				for _, e := range phi.Edges {
					if !isOkOfBinary(e) {
						okCond = false
					}
				}
			}
			if okCond && pred.Succs[1] == insert {
				ok = true
			}
		}
		if ok {
			c.OK("C03.assoc", pkey+" (not a BinaryExpr)", pred.Instrs[len(pred.Instrs)-1].Pos(), "right child is not a BinaryExpr")
		} else {
			c.Bad("C03.assoc", pkey, pred.Instrs[len(pred.Instrs)-1].Pos(), "an additional condition leads to the insertion point: some operators stop the descent regardless of precedence")
		}
	}
	// node shape: stores into the new BinaryExpr
	alloc := makesBinary(insert)
	fields := map[string]string{}
	for _, ref := range *alloc.Referrers() {
		fa, ok := ref.(*ssa.FieldAddr)
		if !ok {
			continue
		}
		fname := binT.Underlying().(*types.Struct).Field(fa.Field).Name()
		for _, r2 := range *fa.Referrers() {
			if st, ok := r2.(*ssa.Store); ok && st.Addr == fa {
				fields[fname] = describeOperand(st.Val, binT)
			}
		}
	}
	want := map[string]string{"LHS": "old right child", "RHS": "new operand", "Op": "new op"}
	for f, w := range want {
		k := "(*Parser).ParseExpr: inserted BinaryExpr." + f
		known := fields[f] == "old right child" || fields[f] == "new operand" || fields[f] == "new op" || strings.HasPrefix(fields[f], "field ")
		if fields[f] == w {
			c.OK("C03.assoc", k, alloc.Pos(), w)
		} else if !known {
			c.Unk("C03.assoc", k, alloc.Pos(), fmt.Sprintf("field %s is set from %q, a value this rule does not classify (the tree may be built through a pointer to the slot being replaced)", f, fields[f]))
		} else {
			c.Bad("C03.assoc", k, alloc.Pos(), fmt.Sprintf("field %s is set from %q, expected the %s: the tree is mirrored or loses an operand", f, fields[f], w))
		}
	}
	_ = descend
}

// describeOperand classifies a value stored into the inserted node.
func describeOperand(v ssa.Value, binT *types.Named) string {
	switch x := v.(type) {
	case *ssa.UnOp:
		if fa, ok := x.X.(*ssa.FieldAddr); ok {
			st := fa.X.Type().Underlying().(*types.Pointer).Elem().Underlying().(*types.Struct)
			if st.Field(fa.Field).Name() == "RHS" {
				return "old right child"
			}
			return "field " + st.Field(fa.Field).Name()
		}
	case *ssa.Phi:
		// the operator scanned at more than one site (loop init and post
		// statement of a three-clause for): every edge is a scanned token
		allOps := len(x.Edges) > 0
		for _, e := range x.Edges {
			if describeOperand(e, binT) != "new op" {
				allOps = false
			}
		}
		if allOps && !isPhiOfPhi(x) {
			return "new op"
		}
		// rhs is a phi of parseRegex / parseUnaryExpr results
		return "new operand"
	case *ssa.Extract:
		if x.Index == 0 {
			if call, ok := x.Tuple.(*ssa.Call); ok {
				if callee := call.Call.StaticCallee(); callee != nil && callee.Name() == "ScanIgnoreWhitespace" {
					return "new op"
				}
				return "new operand"
			}
		}
	case *ssa.MakeInterface:
		return describeOperand(x.X, binT)
	}
	return v.Name()
}

// parenPrintC03: the printer writes an explicit group back as a group.
func parenPrintC03(c *Ctx) {
	p := c.P
	c.Rule("C03.parenprint", "every text ParenExpr.String can return is `(` + the inner expression's text + `)`: a group the parser kept as a node is printed as a group, whatever is inside it")
	f := p.SSAFunc(p.Method("ParenExpr", "String"))
	if f == nil {
		c.Unk("C03.parenprint", "ParenExpr.String", 0, "anchor not found")
		return
	}
	leaf := func(v ssa.Value) (string, bool) {
		call, ok := v.(*ssa.Call)
		if !ok {
			return "", false
		}
		name := ""
		var recv ssa.Value
		if call.Call.IsInvoke() {
			name, recv = call.Call.Method.Name(), call.Call.Value
		} else if cal := call.Call.StaticCallee(); cal != nil && cal.Signature.Recv() != nil && len(call.Call.Args) > 0 {
			name, recv = cal.Name(), call.Call.Args[0]
		}
		if name != "String" {
			return "", false
		}
		if _, fld, ok := fieldRef(recv); ok && fld == "Expr" {
			return "<inner>", true
		}
		// a value obtained from e.Expr by a type assertion
		if derivesFromField(recv, "Expr", 0) {
			return "<inner>", true
		}
		return "<?>", true
	}
	n := 0
	for _, b := range f.Blocks {
		ret, ok := b.Instrs[len(b.Instrs)-1].(*ssa.Return)
		if !ok || len(ret.Results) != 1 {
			continue
		}
		for _, a := range stringTemplates(ret.Results[0], leaf, 0) {
			n++
			key := "ParenExpr.String: returns " + a
			switch {
			case a == "(<inner>)":
				c.OK("C03.parenprint", key, ret.Pos(), "group printed as a group")
			case strings.Contains(a, "<?>"):
				c.Unk("C03.parenprint", key, ret.Pos(), "text built in a way this rule does not expand")
			default:
				c.Bad("C03.parenprint", key, ret.Pos(), "an explicit group is printed without its parentheses (or with something else around it): the text re-parses with different grouping")
			}
		}
	}
	c.Floor("C03.parenprint", n, 1)
}

func derivesFromField(v ssa.Value, field string, depth int) bool {
	if depth > 6 {
		return false
	}
	if _, fld, ok := fieldRef(v); ok && fld == field {
		return true
	}
	switch x := v.(type) {
	case *ssa.TypeAssert:
		return derivesFromField(x.X, field, depth+1)
	case *ssa.Extract:
		return derivesFromField(x.Tuple, field, depth+1)
	case *ssa.MakeInterface:
		return derivesFromField(x.X, field, depth+1)
	case *ssa.ChangeInterface:
		return derivesFromField(x.X, field, depth+1)
	}
	return false
}

// binPrintC03: a binary node prints as its two operands around its operator,
// whatever they are; and no code outside the precedence insertion builds a
// binary node whose operand is a bare binary node.
func binPrintC03(c *Ctx, rule string) {
	p := c.P
	c.Rule(rule, "every text BinaryExpr.String can return is `<left> <op> <right>` (the operands' own texts, the operator's spelling, in that order): a special case that abbreviates some shape (-1 * x as -x) prints text that denotes another tree; and outside ParseExpr's insertion loop no BinaryExpr is built with a *BinaryExpr stored directly as an operand (the printer adds no parentheses, so such a node prints with another grouping)")
	f := p.SSAFunc(p.Method("BinaryExpr", "String"))
	if f == nil {
		c.Unk(rule, "BinaryExpr.String", 0, "anchor not found")
		return
	}
	leaf := func(v ssa.Value) (string, bool) {
		call, ok := v.(*ssa.Call)
		if !ok {
			return "", false
		}
		name := ""
		var recv ssa.Value
		if call.Call.IsInvoke() {
			name, recv = call.Call.Method.Name(), call.Call.Value
		} else if cal := call.Call.StaticCallee(); cal != nil && cal.Signature.Recv() != nil && len(call.Call.Args) > 0 {
			name, recv = cal.Name(), call.Call.Args[0]
		}
		if name != "String" {
			// a helper of the package that renders one operand
			cal := call.Call.StaticCallee()
			if cal == nil || cal.Pkg != p.SPkg || len(cal.Blocks) == 0 {
				return "", false
			}
			for ai, arg := range call.Call.Args {
				for _, fld := range []string{"LHS", "RHS"} {
					if ai < len(cal.Params) && p.TypeStr(arg.Type()) == "Expr" && derivesFromField(arg, fld, 0) {
						switch operandHelperShape(cal, cal.Params[ai]) {
						case "whole":
							return "<" + fld + ">", true
						case "part":
							return "<part of " + fld + ">", true
						}
						return "<?>", true
					}
				}
			}
			return "", false
		}
		for _, fld := range []string{"LHS", "RHS", "Op"} {
			if derivesFromField(recv, fld, 0) {
				return "<" + fld + ">", true
			}
		}
		// the operand taken out of its parentheses first
		if rc, ok := recv.(*ssa.Call); ok && len(rc.Call.Args) == 1 {
			for _, sp := range p.parenStrippers() {
				if rc.Call.StaticCallee() == sp {
					for _, fld := range []string{"LHS", "RHS"} {
						if derivesFromField(rc.Call.Args[0], fld, 0) {
							return "<part of " + fld + ">", true
						}
					}
				}
			}
		}
		return "<?>", true
	}
	n := 0
	for _, b := range f.Blocks {
		ret, ok := b.Instrs[len(b.Instrs)-1].(*ssa.Return)
		if !ok || len(ret.Results) != 1 {
			continue
		}
		for _, a := range stringTemplates(ret.Results[0], leaf, 0) {
			n++
			key := "BinaryExpr.String: returns " + a
			switch {
			case a == "<LHS> <Op> <RHS>":
				c.OK(rule, key, ret.Pos(), "operands around the operator")
			case strings.Contains(a, "<?>"):
				c.Unk(rule, key, ret.Pos(), "text built in a way this rule does not expand")
			default:
				c.Bad(rule, key, ret.Pos(), "a binary node is printed in another form than left, operator, right: the text denotes a different tree (or a single literal) when parsed back")
			}
		}
	}
	c.Floor(rule, n, 1)
	// construction sites outside ParseExpr
	binT := p.Named("BinaryExpr")
	pe := p.SSAFunc(p.Method("Parser", "ParseExpr"))
	nSites := 0
	for _, fn := range p.SrcFuncs() {
		if fn == pe || fn.Signature.Recv() == nil || !strings.HasSuffix(p.TypeStr(fn.Signature.Recv().Type()), "Parser") {
			continue
		}
		for _, b := range fn.Blocks {
			for _, in := range b.Instrs {
				st, ok := in.(*ssa.Store)
				if !ok {
					continue
				}
				fa, ok := st.Addr.(*ssa.FieldAddr)
				if !ok || !types.Identical(fa.X.Type().Underlying().(*types.Pointer).Elem(), binT) {
					continue
				}
				fld := fieldNameOf(fa)
				if fld != "LHS" && fld != "RHS" {
					continue
				}
				nSites++
				v := st.Val
				if mi, ok := v.(*ssa.MakeInterface); ok {
					v = mi.X
				}
				if pt, ok := v.Type().(*types.Pointer); ok && types.Identical(pt.Elem(), binT) {
					c.Bad(rule, fmt.Sprintf("%s: BinaryExpr.%s = a *BinaryExpr", fn.Name(), fld), st.Pos(), "a binary node is stored bare as the operand of another binary node outside the precedence insertion: printed without parentheses it regroups")
				}
			}
		}
	}
	c.OK(rule, "operand stores outside ParseExpr", 0, fmt.Sprintf("%d stores into BinaryExpr operands in other parser methods; none stores a *BinaryExpr", nSites))
}

// regexRHSHelper decides C03.regexrhs when ParseExpr delegates the operand
// choice to one helper method h: the three obligations are decided on h, and
// the missing-regex obligation additionally feeds h's results under a nil
// regex back into ParseExpr.
func regexRHSHelper(c *Ctx, pe, h, pu, parseRegex, isRe *ssa.Function, insertBlk *ssa.BasicBlock) {
	p := c.P
	calls := func(r *sccpRun, fn *ssa.Function) bool {
		for _, b := range h.Blocks {
			if !r.execB[b.Index] {
				continue
			}
			for _, in := range b.Instrs {
				if call, ok := in.(*ssa.Call); ok && call.Call.StaticCallee() == fn {
					return true
				}
			}
		}
		return false
	}
	mk := func(isRegex, regexNil bool) *sccp {
		s := p.newSCCP()
		s.hook = func(call *ssa.Call, args []cval) ([]cval, bool) {
			switch call.Call.StaticCallee() {
			case isRe:
				return []cval{cConst(constant.MakeBool(isRegex))}, true
			case parseRegex:
				if regexNil {
					return []cval{cNil(), cNil()}, true
				}
			}
			return nil, false
		}
		return s
	}
	name := "(*Parser).ParseExpr via " + h.Name()
	r1 := mk(true, false).run(h, nil, 0)
	c.Check(calls(r1, parseRegex) && !calls(r1, pu), "C03.regexrhs", "(*Parser).ParseExpr: operand under =~ / !~", h.Pos(), name+": operand must come from parseRegex only")
	r2 := mk(false, false).run(h, nil, 0)
	c.Check(!calls(r2, parseRegex) && calls(r2, pu), "C03.regexrhs", "(*Parser).ParseExpr: operand under other operators", h.Pos(), name+": operand must come from parseUnaryExpr only")
	rets := mk(true, true).Eval(h, nil)
	ok := len(rets) > 0
	for _, rp := range rets {
		if len(rp.Results) != 2 {
			ok = false
			break
		}
		res := []cval{rp.Results[0], rp.Results[1]}
		if !res[1].isConst() {
			// an error value of unknown identity: non-nil only if the helper
			// built it; treat an opaque one as possibly nil
			if _, isCall := rp.Instr.Results[1].(*ssa.Call); isCall {
				res[1] = cSym("err")
			} else if mi, isMI := rp.Instr.Results[1].(*ssa.MakeInterface); isMI && !isNilConst(mi.X) {
				res[1] = cSym("err")
			}
		}
		s := mk(true, true)
		inner := s.hook
		s.hook = func(call *ssa.Call, args []cval) ([]cval, bool) {
			if call.Call.StaticCallee() == h {
				return res, true
			}
			return inner(call, args)
		}
		if r := s.run(pe, nil, 0); r.execB[insertBlk.Index] {
			ok = false
		}
	}
	c.Check(ok, "C03.regexrhs", "(*Parser).ParseExpr: missing regex", pe.Pos(), name+": a nil regex from parseRegex must be rejected before the insertion point")
}

func isNilConst(v ssa.Value) bool {
	k, ok := v.(*ssa.Const)
	return ok && k.Value == nil
}

// operandHelperShape classifies a helper that renders the operand prm: "whole"
// when every return is prm.String(), "part" when some return prints a value
// taken out of prm (its inner expression, say), "" otherwise.
func operandHelperShape(h *ssa.Function, prm *ssa.Parameter) string {
	var inside func(v ssa.Value, d int) bool
	inside = func(v ssa.Value, d int) bool {
		if d > 8 {
			return false
		}
		switch x := v.(type) {
		case *ssa.Parameter:
			return x == prm
		case *ssa.TypeAssert:
			return inside(x.X, d+1)
		case *ssa.Extract:
			return inside(x.Tuple, d+1)
		case *ssa.UnOp:
			return inside(x.X, d+1)
		case *ssa.FieldAddr:
			return inside(x.X, d+1)
		case *ssa.MakeInterface:
			return inside(x.X, d+1)
		case *ssa.ChangeInterface:
			return inside(x.X, d+1)
		}
		return false
	}
	shape := "whole"
	n := 0
	for _, b := range h.Blocks {
		ret, ok := b.Instrs[len(b.Instrs)-1].(*ssa.Return)
		if !ok || len(ret.Results) != 1 {
			continue
		}
		n++
		call, ok := ret.Results[0].(*ssa.Call)
		if !ok {
			return ""
		}
		var recv ssa.Value
		name := ""
		if call.Call.IsInvoke() {
			name, recv = call.Call.Method.Name(), call.Call.Value
		} else if cal := call.Call.StaticCallee(); cal != nil && cal.Signature.Recv() != nil && len(call.Call.Args) > 0 {
			name, recv = cal.Name(), call.Call.Args[0]
		}
		if name != "String" {
			return ""
		}
		switch {
		case recv == ssa.Value(prm):
		case inside(recv, 0):
			shape = "part"
		default:
			return ""
		}
	}
	if n == 0 {
		return ""
	}
	return shape
}

func isPhiOfPhi(x *ssa.Phi) bool {
	for _, e := range x.Edges {
		if _, ok := e.(*ssa.Phi); ok {
			return true
		}
	}
	return false
}
