package main

import (
	"fmt"
	"go/constant"
	"go/token"
	"go/types"
	"strings"

	"golang.org/x/tools/go/ssa"
)

func init() { register("C10", rulesC10) }

// fieldRef describes v as a read of <base>.<field>: base is a parameter name
// (possibly spilled to a local), field the struct field name.
func fieldRef(v ssa.Value) (base, field string, ok bool) {
	switch x := v.(type) {
	case *ssa.Field:
		st, isS := x.X.Type().Underlying().(*types.Struct)
		if !isS {
			return
		}
		b, _, _ := rootName(x.X)
		return b, st.Field(x.Field).Name(), b != ""
	case *ssa.UnOp:
		if x.Op != token.MUL {
			return
		}
		fa, isFA := x.X.(*ssa.FieldAddr)
		if !isFA {
			return
		}
		st := fa.X.Type().Underlying().(*types.Pointer).Elem().Underlying().(*types.Struct)
		b, _, _ := rootName(fa.X)
		return b, st.Field(fa.Field).Name(), b != ""
	}
	return
}

// rootName names the parameter (or the local it was spilled into) a value is.
func rootName(v ssa.Value) (string, string, bool) {
	switch x := v.(type) {
	case *ssa.Parameter:
		return x.Name(), "", true
	case *ssa.Alloc:
		return x.Comment, "", true
	case *ssa.UnOp:
		if x.Op == token.MUL {
			return rootName(x.X)
		}
	case *ssa.Phi:
		return x.Comment, "", true
	case *ssa.TypeAssert:
		return rootName(x.X)
	case *ssa.Extract:
		return rootName(x.Tuple)
	case *ssa.MakeInterface:
		return rootName(x.X)
	case *ssa.ChangeInterface:
		return rootName(x.X)
	}
	return "", "", false
}

func rulesC10(c *Ctx) {
	p := c.P
	tt := p.tokenTable()
	gtr := p.SSAFunc(p.Func("getTimeRange"))
	ce := p.SSAFunc(p.Func("conditionExpr"))
	if tt == nil || gtr == nil || ce == nil {
		c.Unk("C10.bounds", "anchors", 0, "getTimeRange/conditionExpr/Token not found")
		return
	}
	boundsC10(c, tt, gtr)
	swapC10(c, tt, ce, gtr)
	intersectC10(c)
	passthroughC10(c, ce)
	c.Rule("C10.pure", "ConditionExpr and everything it calls in the package (conditionExpr, getTimeRange, ToTimeLiteral, Reduce, ...) read no mutable package-level state: the range extracted from a condition depends on the condition and the valuer only, not on which conditions were split before")
	pureRule(c, "C10.pure", "ConditionExpr")
	c.Rule("C10.exactint", "getTimeRange takes an integer bound to the instant through integer arithmetic only: no integer is converted to floating point on the way (nanosecond timestamps exceed 2^53, so a float detour moves the bound by up to 128ns)")
	if g := gtr; g != nil {
		n := 0
		for _, b := range g.Blocks {
			for _, in := range b.Instrs {
				if cv, ok := in.(*ssa.Convert); ok {
					fb, ok1 := cv.X.Type().Underlying().(*types.Basic)
					tb, ok2 := cv.Type().Underlying().(*types.Basic)
					if ok1 && ok2 && fb.Info()&types.IsInteger != 0 && tb.Info()&types.IsFloat != 0 {
						n++
						c.Bad("C10.exactint", fmt.Sprintf("getTimeRange: %s -> %s #%d", fb.Name(), tb.Name(), n), cv.Pos(), "an integer bound is converted to floating point before it becomes an instant")
					}
				}
			}
		}
		c.OK("C10.exactint", "getTimeRange: integer-to-float conversions", g.Pos(), fmt.Sprintf("%d", n))
	}
	sentinelsC10(c)
	zoneRulesC10(c)
	nilLocRule(c, "C10.nilloc")
	exactTimeRule(c, "C10.exacttime", "ConditionExpr", "conditionExpr", "reduce")
	residualC10(c, ce)
	parenRangeC10(c, ce)
	nilResidualC10(c, ce)
	noFabricateC10(c, ce)
	zoneSourceC10(c)
	// the residual is built through reduce: its boolean short-cuts decide
	// whether `x OR false`, `true AND x` keep x
	shortcutsC09(c, tt, "C10.reduce")
}

func boundsC10(c *Ctx, tt *tokenTable, f *ssa.Function) {
	p := c.P
	c.Rule("C10.bounds", "getTimeRange, evaluated by constant propagation for every token: > sets Min = v+1ns, >= Min = v, < Max = v-1ns, <= Max = v, = both to v; every other operator ends in an error. The +-1 are the constants passed to Time.Add")
	type want struct{ min, max string }
	spec := map[string]want{">": {"+1", ""}, ">=": {"+0", ""}, "<": {"", "-1"}, "<=": {"", "+0"}, "=": {"+0", "+0"}}
	n := 0
	for _, v := range tt.Values {
		sp, has := tt.Spelling[v]
		if !has {
			continue
		}
		if _, isOp := precedenceSpec[sp]; !isOp {
			continue
		}
		n++
		s := p.newSCCP()
		r := s.run(f, []cval{cConst(constant.MakeInt64(v))}, 0)
		got := want{}
		success := false
		for _, b := range f.Blocks {
			if !r.execB[b.Index] {
				continue
			}
			for _, in := range b.Instrs {
				switch x := in.(type) {
				case *ssa.Store:
					fa, ok := x.Addr.(*ssa.FieldAddr)
					if !ok {
						continue
					}
					st, ok := fa.X.Type().Underlying().(*types.Pointer).Elem().Underlying().(*types.Struct)
					if !ok || p.TypeStr(fa.X.Type().(*types.Pointer).Elem()) != "TimeRange" {
						continue
					}
					delta := "?"
					switch val := x.Val.(type) {
					case *ssa.Phi, *ssa.Extract:
						delta = "+0" // the bound value itself
					case *ssa.Call:
						if callee := val.Call.StaticCallee(); callee != nil && callee.Pkg == f.Pkg {
							delta = "+0" // the value as an in-package helper produced it
						}
						if callee := val.Call.StaticCallee(); callee != nil && callee.Name() == "Add" && len(val.Call.Args) == 2 {
							if k, ok := val.Call.Args[1].(*ssa.Const); ok && k.Value != nil {
								if d, ok := constant.Int64Val(constant.ToInt(k.Value)); ok {
									delta = fmt.Sprintf("%+d", d)
								}
							}
						}
					}
					if st.Field(fa.Field).Name() == "Min" {
						got.min = delta
					} else {
						got.max = delta
					}
				case *ssa.Return:
					if k, ok := x.Results[len(x.Results)-1].(*ssa.Const); ok && k.IsNil() {
						success = true
					}
				}
			}
		}
		key := "getTimeRange: time " + sp + " v"
		w, isCmp := spec[sp]
		switch {
		case !isCmp && success:
			c.Bad("C10.bounds", key, f.Pos(), "operator "+sp+" yields a time range; only = < <= > >= may")
		case !isCmp:
			c.OK("C10.bounds", key, f.Pos(), "error")
		case !success:
			c.Bad("C10.bounds", key, f.Pos(), "comparison is rejected")
		case got.min == "?" || got.max == "?":
			c.Unk("C10.bounds", key, f.Pos(), "a bound is stored from a value this rule does not recognise as the comparison value or value.Add(constant)")
		case got != w:
			c.Bad("C10.bounds", key, f.Pos(), fmt.Sprintf("sets Min=v%s Max=v%s; the property needs Min=v%s Max=v%s (strict bounds move by exactly one nanosecond)", got.min, got.max, w.min, w.max))
		default:
			c.OK("C10.bounds", key, f.Pos(), fmt.Sprintf("Min=v%s Max=v%s", got.min, got.max))
		}
	}
	c.Floor("C10.bounds", n, 18)
}

func swapC10(c *Ctx, tt *tokenTable, ce, gtr *ssa.Function) {
	p := c.P
	c.Rule("C10.swap", "conditionExpr recognises time on either side (case-folded VarRef named time), passes the other operand to getTimeRange, and when time is the right operand maps the operator through the order-reversing involution > <-> <, >= <-> <=, everything else unchanged")
	// loads of <BinaryExpr>.Op in conditionExpr
	var opLoads []ssa.Value
	var sites []*ssa.Call
	for _, b := range ce.Blocks {
		for _, in := range b.Instrs {
			switch x := in.(type) {
			case *ssa.UnOp:
				if _, fld, ok := fieldRef(x); ok && fld == "Op" {
					opLoads = append(opLoads, x)
				}
			case *ssa.Call:
				if x.Call.StaticCallee() == gtr {
					sites = append(sites, x)
				}
			}
		}
	}
	if len(sites) == 0 || len(opLoads) == 0 {
		c.Unk("C10.swap", "conditionExpr: getTimeRange call sites", ce.Pos(), fmt.Sprintf("found %d calls of getTimeRange", len(sites)))
		return
	}
	mirror := map[string]string{">": "<", "<": ">", ">=": "<=", "<=": ">="}
	// the two recognisers: x.LHS.(*VarRef) / x.RHS.(*VarRef), their ok results
	// and the comparisons of the asserted name with "time"
	asserts := map[string]*ssa.TypeAssert{}
	for _, b := range ce.Blocks {
		for _, in := range b.Instrs {
			if ta, ok := in.(*ssa.TypeAssert); ok && p.TypeStr(ta.AssertedType) == "*VarRef" {
				if _, fld, ok := fieldRef(ta.X); ok && (fld == "LHS" || fld == "RHS") && asserts[fld] == nil {
					asserts[fld] = ta
				}
			}
		}
	}
	if asserts["LHS"] == nil || asserts["RHS"] == nil {
		c.Unk("C10.swap", "conditionExpr: recognisers", ce.Pos(), "no *VarRef assertion on both operand fields of the condition")
		return
	}
	okOf := map[string][]ssa.Value{}
	cmpOf := map[string][]ssa.Value{}
	foldedSide := map[string]bool{}
	exactSide := map[string]bool{}
	for side, ta := range asserts {
		for _, ref := range *ta.Referrers() {
			if ex, ok := ref.(*ssa.Extract); ok && ex.Index == 1 {
				okOf[side] = append(okOf[side], ex)
			}
		}
	}
	for _, b := range ce.Blocks {
		for _, in := range b.Instrs {
			bo, ok := in.(*ssa.BinOp)
			if !ok || bo.Op != token.EQL {
				continue
			}
			k, ok := bo.Y.(*ssa.Const)
			if !ok || k.Value == nil || k.Value.Kind() != constant.String || constant.StringVal(k.Value) != "time" {
				continue
			}
			for side, ta := range asserts {
				if call, ok := bo.X.(*ssa.Call); ok {
					if cal := call.Call.StaticCallee(); cal != nil && cal.Name() == "ToLower" && len(call.Call.Args) == 1 && derivesFrom(call.Call.Args[0], ta, 0) {
						cmpOf[side] = append(cmpOf[side], bo)
						foldedSide[side] = true
					}
				} else if derivesFrom(bo.X, ta, 0) {
					cmpOf[side] = append(cmpOf[side], bo)
					exactSide[side] = true
				}
			}
		}
	}
	for _, recog := range []string{"LHS", "RHS"} {
		side := map[string]string{"LHS": "left", "RHS": "right"}[recog]
		key := "conditionExpr: time on the " + side
		other := map[string]string{"LHS": "RHS", "RHS": "LHS"}[recog]
		if len(cmpOf[recog]) == 0 {
			c.Bad("C10.swap", key+": case folding", ce.Pos(), "the name of a variable on the "+side+" is never compared with \"time\": a bound written with time on that side is not recognised")
			continue
		}
		c.Check(foldedSide[recog] && !exactSide[recog], "C10.swap", key+": case folding", cmpOf[recog][0].Pos(), "the name must be compared with \"time\" after strings.ToLower")
		scenario := func(opv int64) *sccpRun {
			s := p.newSCCP()
			s.override = map[ssa.Value]cval{}
			for _, l := range opLoads {
				s.override[l] = cConst(constant.MakeInt64(opv))
			}
			for sd := range asserts {
				on := sd == recog
				for _, v := range okOf[sd] {
					s.override[v] = cConst(constant.MakeBool(on))
				}
				for _, v := range cmpOf[sd] {
					s.override[v] = cConst(constant.MakeBool(on))
				}
			}
			return s.run(ce, nil, 0)
		}
		operandDone := false
		for _, v := range tt.Values {
			sp, has := tt.Spelling[v]
			if _, isOp := precedenceSpec[sp]; !has || !isOp || sp == "AND" || sp == "OR" {
				continue
			}
			r := scenario(v)
			var live []*ssa.Call
			for _, site := range sites {
				if r.execB[site.Block().Index] {
					live = append(live, site)
				}
			}
			k2 := key + ": operator " + sp
			if len(live) != 1 {
				c.Unk("C10.swap", k2, ce.Pos(), fmt.Sprintf("with time only on the %s, %d getTimeRange calls are reachable (expected exactly one)", side, len(live)))
				continue
			}
			site := live[0]
			if !operandDone {
				operandDone = true
				_, operand, ok := fieldRef(site.Call.Args[1])
				if !ok {
					c.Unk("C10.swap", key+": operand", site.Pos(), "second argument is not the LHS/RHS field of the condition")
				} else {
					c.Check(operand == other, "C10.swap", key+": operand", site.Pos(), "time recognised on the "+side+" must pass the other operand ("+other+"), passes "+operand)
				}
			}
			got := r.get(site.Call.Args[0])
			want := sp
			if recog == "RHS" {
				if m, ok := mirror[sp]; ok {
					want = m
				}
			}
			if !got.isPlain() {
				c.Unk("C10.swap", k2, site.Pos(), "operator handed to getTimeRange is not a function of the condition's operator")
				continue
			}
			gv, _ := constant.Int64Val(constant.ToInt(got.v))
			if tt.Spelling[gv] != want {
				c.Bad("C10.swap", k2, site.Pos(), fmt.Sprintf("handed on as %q, must be %q (order-reversing swap keeps strictness)", tt.Spelling[gv], want))
			} else {
				c.OK("C10.swap", k2, site.Pos(), "-> "+want)
			}
		}
	}
	c.Floor("C10.swap", c.CountRule("C10.swap"), 30)
}

// intersectC10 evaluates TimeRange.Intersect over abstract scenarios.
func intersectC10(c *Ctx) {
	p := c.P
	c.Rule("C10.intersect", "TimeRange.Intersect, evaluated over every combination of (other bound unset?, own bound unset?, order of the two bounds), replaces Min exactly when other's is set and (own is unset or other's is later), and Max exactly when other's is set and (own is unset or other's is earlier): max of mins, min of maxes, unset = open")
	f := p.SSAFunc(p.Method("TimeRange", "Intersect"))
	if f == nil || len(f.Params) != 2 {
		c.Unk("C10.intersect", "TimeRange.Intersect", 0, "anchor not found")
		return
	}
	self, other := f.Params[0].Name(), f.Params[1].Name()
	// the rule reads the outcome off stores `own.<bound> = other.<bound>`
	candidates := 0
	for _, b := range f.Blocks {
		for _, in := range b.Instrs {
			if st, ok := in.(*ssa.Store); ok {
				if fa, ok := st.Addr.(*ssa.FieldAddr); ok {
					if vb, vf, ok := fieldRef(st.Val); ok && (vf == "Min" || vf == "Max") && vb == other {
						_ = fa
						candidates++
					}
				}
			}
		}
	}
	if candidates < 2 {
		c.Unk("C10.intersect", "TimeRange.Intersect", f.Pos(), "the bounds are not replaced by field stores of the other range's bounds: the outcome cannot be read off this shape")
		return
	}
	for _, field := range []string{"Min", "Max"} {
		for _, oz := range []bool{false, true} {
			for _, tz := range []bool{false, true} {
				for _, order := range []int{-1, 0, 1} { // sign(other - own)
					s := p.newSCCP()
					undec := ""
					s.hook = func(call *ssa.Call, args []cval) ([]cval, bool) {
						callee := call.Call.StaticCallee()
						if callee == nil || callee.Pkg == nil || callee.Pkg.Pkg.Path() != "time" {
							return nil, false
						}
						b0, f0, ok0 := fieldRef(call.Call.Args[0])
						switch callee.Name() {
						case "IsZero":
							if !ok0 {
								undec = "IsZero on something other than a bound"
								return nil, false
							}
							if f0 != field {
								return []cval{cTop}, true
							}
							if b0 == other {
								return []cval{cConst(constant.MakeBool(oz))}, true
							}
							return []cval{cConst(constant.MakeBool(tz))}, true
						case "After", "Before", "Equal":
							b1, f1, ok1 := fieldRef(call.Call.Args[1])
							if !ok0 || !ok1 || f0 != f1 {
								undec = callee.Name() + " between unrelated values"
								return nil, false
							}
							if f0 != field {
								return []cval{cTop}, true
							}
							o := order // sign(arg0 - arg1) when arg0 is other
							if b0 == self && b1 == other {
								o = -order
							} else if !(b0 == other && b1 == self) {
								undec = "comparison of a bound with itself"
								return nil, false
							}
							res := false
							switch callee.Name() {
							case "After":
								res = o > 0
							case "Before":
								res = o < 0
							case "Equal":
								res = o == 0
							}
							return []cval{cConst(constant.MakeBool(res))}, true
						}
						return nil, false
					}
					r := s.run(f, nil, 0)
					// does a store into own.<field> execute?
					replaced, maybe := false, false
					for _, b := range f.Blocks {
						for _, in := range b.Instrs {
							st, ok := in.(*ssa.Store)
							if !ok {
								continue
							}
							fa, ok := st.Addr.(*ssa.FieldAddr)
							if !ok {
								continue
							}
							sty := fa.X.Type().Underlying().(*types.Pointer).Elem().Underlying().(*types.Struct)
							if sty.Field(fa.Field).Name() != field {
								continue
							}
							if vb, vf, ok := fieldRef(st.Val); !ok || vf != field || vb != other {
								continue
							}
							if r.execB[b.Index] {
								// executable; is it the only way (no TOP branch)?
								replaced = true
								for _, pr := range b.Preds {
									_ = pr
								}
							}
						}
					}
					_ = maybe
					want := !oz && (tz || (field == "Min" && order > 0) || (field == "Max" && order < 0))
					key := fmt.Sprintf("TimeRange.Intersect: %s other-unset=%v own-unset=%v order=%+d", field, oz, tz, order)
					switch {
					case undec != "":
						c.Unk("C10.intersect", key, f.Pos(), undec)
					case replaced != want:
						c.Bad("C10.intersect", key, f.Pos(), fmt.Sprintf("bound replaced=%v, the intersection needs replaced=%v", replaced, want))
					default:
						c.OK("C10.intersect", key, f.Pos(), fmt.Sprintf("replaced=%v", replaced))
					}
				}
			}
		}
	}
}

// sentinelsC10: open ends map to the MinTime/MaxTime sentinels.
func sentinelsC10(c *Ctx) {
	p := c.P
	c.Rule("C10.sentinels", "MinTime/MaxTime/MinTimeNano/MaxTimeNano test their own bound for zero and return the matching sentinel (min for Min*, max for Max*) exactly when it is unset, else the bound itself")
	for _, m := range []string{"MinTime", "MaxTime", "MinTimeNano", "MaxTimeNano"} {
		f := p.SSAFunc(p.Method("TimeRange", m))
		key := "TimeRange." + m
		if f == nil {
			c.Unk("C10.sentinels", key, 0, "anchor not found")
			continue
		}
		field := m[:3]
		for _, zero := range []bool{true, false} {
			s := p.newSCCP()
			tested := ""
			s.hook = func(call *ssa.Call, args []cval) ([]cval, bool) {
				if callee := call.Call.StaticCallee(); callee != nil && callee.Name() == "IsZero" {
					_, tested, _ = fieldRef(call.Call.Args[0])
					return []cval{cConst(constant.MakeBool(zero))}, true
				}
				return nil, false
			}
			rets := s.Eval(f, nil)
			k2 := fmt.Sprintf("%s: bound unset=%v", key, zero)
			if len(rets) != 1 {
				c.Unk("C10.sentinels", k2, f.Pos(), "not exactly one reachable return")
				continue
			}
			desc := describeSentinel(p, rets[0].Instr.Results[0])
			want := "field " + field
			if zero {
				want = "sentinel " + strings.ToLower(field)
			}
			if tested != field {
				c.Bad("C10.sentinels", k2, f.Pos(), "tests "+tested+" for zero, must test "+field)
			} else if desc != want {
				c.Bad("C10.sentinels", k2, f.Pos(), "returns "+desc+", must return "+want)
			} else {
				c.OK("C10.sentinels", k2, f.Pos(), desc)
			}
		}
	}
}

func describeSentinel(p *Program, v ssa.Value) string {
	switch x := v.(type) {
	case *ssa.Const:
		if x.Value != nil {
			for _, n := range []string{"MinTime", "MaxTime"} {
				if k := p.Const(n); k != nil && constant.Compare(constant.ToInt(k.Val()), token.EQL, constant.ToInt(x.Value)) {
					return "sentinel " + strings.ToLower(n[:3])
				}
			}
		}
	case *ssa.UnOp:
		if g, ok := x.X.(*ssa.Global); ok {
			if strings.HasPrefix(g.Name(), "min") {
				return "sentinel min"
			}
			if strings.HasPrefix(g.Name(), "max") {
				return "sentinel max"
			}
		}
		if _, f, ok := fieldRef(x); ok {
			return "field " + f
		}
	case *ssa.Field:
		if _, f, ok := fieldRef(x); ok {
			return "field " + f
		}
	case *ssa.Call:
		if len(x.Call.Args) > 0 {
			return describeSentinel(p, x.Call.Args[0])
		}
	}
	return "?"
}

// residualC10: the AND/OR arm of conditionExpr.
func residualC10(c *Ctx, ce *ssa.Function) {
	p := c.P
	c.Rule("C10.residual", "in the AND/OR arm of conditionExpr a side with no residual yields the other side unchanged, and two residuals yield BinaryExpr{Op: the condition's operator, LHS: left residual, RHS: right residual} (through reduce), with the two time ranges intersected")
	var recs []*ssa.Call
	for _, b := range ce.Blocks {
		for _, in := range b.Instrs {
			if call, ok := in.(*ssa.Call); ok && call.Call.StaticCallee() == ce {
				recs = append(recs, call)
			}
		}
	}
	var lcall, rcall *ssa.Call
	for _, call := range recs {
		if _, f, ok := fieldRef(call.Call.Args[0]); ok {
			if f == "LHS" && lcall == nil {
				lcall = call
			} else if f == "RHS" && rcall == nil {
				rcall = call
			}
		}
	}
	if lcall == nil || rcall == nil {
		c.Unk("C10.residual", "conditionExpr: recursive calls", ce.Pos(), "the AND/OR arm does not recurse on LHS and RHS")
		return
	}
	// every successful return of the arm hands back the intersection of both
	// sides' ranges
	nr := 0
	for _, b := range ce.Blocks {
		ret, ok := b.Instrs[len(b.Instrs)-1].(*ssa.Return)
		if !ok || len(ret.Results) != 3 || !rcall.Block().Dominates(b) {
			continue
		}
		if k, isC := ret.Results[2].(*ssa.Const); !isC || !k.IsNil() {
			continue
		}
		nr++
		key := fmt.Sprintf("conditionExpr: AND/OR arm, successful return #%d: time range", nr)
		side := func(v ssa.Value) string {
			if ex, ok := v.(*ssa.Extract); ok && ex.Index == 1 {
				if ex.Tuple == ssa.Value(lcall) {
					return "L"
				}
				if ex.Tuple == ssa.Value(rcall) {
					return "R"
				}
			}
			return ""
		}
		tr := ret.Results[1]
		if call, ok := tr.(*ssa.Call); ok {
			if cal := call.Call.StaticCallee(); cal != nil && cal.Name() == "Intersect" && len(call.Call.Args) == 2 {
				a, bb := side(call.Call.Args[0]), side(call.Call.Args[1])
				if a != "" && bb != "" && a != bb {
					c.OK("C10.residual", key, ret.Pos(), "Intersect of the left and the right side's ranges")
					continue
				}
			}
		}
		if sd := side(tr); sd != "" {
			c.Bad("C10.residual", key, ret.Pos(), "returns the "+sd+" side's range alone: a bound found on the other side (`(time > a AND true) AND time < b`) is lost")
			continue
		}
		c.Unk("C10.residual", key, ret.Pos(), "the returned range is not recognisably the intersection of both sides' ranges")
	}
	binT := p.Named("BinaryExpr")
	for _, ln := range []bool{true, false} {
		for _, rn := range []bool{true, false} {
			s := p.newSCCP()
			s.hook = func(call *ssa.Call, args []cval) ([]cval, bool) {
				mk := func(isNil bool, id string) []cval {
					v := cSym(id)
					if isNil {
						v = cNil()
					}
					return []cval{v, cTop, cNil()}
				}
				if call == lcall {
					return mk(ln, "L"), true
				}
				if call == rcall {
					return mk(rn, "R"), true
				}
				return nil, false
			}
			// force the AND/OR arm: bind Op loads to AND
			tt := p.tokenTable()
			s.override = map[ssa.Value]cval{}
			for _, b := range ce.Blocks {
				for _, in := range b.Instrs {
					if u, ok := in.(*ssa.UnOp); ok {
						if _, f, ok := fieldRef(u); ok && f == "Op" {
							s.override[u] = tt.cv("AND")
						}
					}
				}
			}
			r := s.run(ce, nil, 0)
			key := fmt.Sprintf("conditionExpr: AND arm, left residual nil=%v right residual nil=%v", ln, rn)
			var okRets []*ssa.Return
			for _, b := range ce.Blocks {
				if !r.execB[b.Index] || !rcall.Block().Dominates(b) {
					continue
				}
				if ret, ok := b.Instrs[len(b.Instrs)-1].(*ssa.Return); ok {
					if k, isC := ret.Results[2].(*ssa.Const); isC && k.IsNil() {
						okRets = append(okRets, ret)
					}
				}
			}
			if len(okRets) != 1 {
				c.Unk("C10.residual", key, ce.Pos(), fmt.Sprintf("%d successful returns reachable, expected one", len(okRets)))
				continue
			}
			res := okRets[0].Results[0]
			got := r.get(res)
			switch {
			case ln && rn:
				c.Check(got.nilc, "C10.residual", key, okRets[0].Pos(), "no residual on either side must give no residual")
			case !ln && rn:
				c.Check(got.sym == "L", "C10.residual", key, okRets[0].Pos(), "must return the left residual unchanged, returns "+got.String())
			case ln && !rn:
				c.Check(got.sym == "R", "C10.residual", key, okRets[0].Pos(), "must return the right residual unchanged, returns "+got.String())
			default:
				// reduce(&BinaryExpr{Op, LHS: L, RHS: R}, nil)
				if ph, isPhi := res.(*ssa.Phi); isPhi {
					// one return fed by an if/else chain: follow the edge taken in this scenario
					for i, pb := range ph.Block().Preds {
						if r.execE[[2]int{pb.Index, ph.Block().Index}] {
							res = ph.Edges[i]
						}
					}
				}
				call, isCall := res.(*ssa.Call)
				desc := map[string]string{}
				if isCall && len(call.Call.Args) > 0 {
					if mi, ok := call.Call.Args[0].(*ssa.MakeInterface); ok {
						if a, ok := mi.X.(*ssa.Alloc); ok && types.Identical(a.Type().(*types.Pointer).Elem(), binT) {
							for _, ref := range *a.Referrers() {
								if fa, ok := ref.(*ssa.FieldAddr); ok {
									fn := binT.Underlying().(*types.Struct).Field(fa.Field).Name()
									for _, r2 := range *fa.Referrers() {
										if st, ok := r2.(*ssa.Store); ok {
											v := r.get(st.Val)
											if v.sym != "" {
												desc[fn] = v.sym
											} else if v.isPlain() {
												n, _ := constant.Int64Val(constant.ToInt(v.v))
												desc[fn] = tt.Spelling[n]
											}
										}
									}
								}
							}
						}
					}
				}
				ok := desc["LHS"] == "L" && desc["RHS"] == "R" && desc["Op"] == "AND"
				if len(desc) == 0 {
					c.Unk("C10.residual", key, okRets[0].Pos(), "the value returned for two residuals is not a call on a freshly built BinaryExpr that this rule can read")
					continue
				}
				c.Check(ok, "C10.residual", key, okRets[0].Pos(), fmt.Sprintf("must build BinaryExpr{Op: cond.Op, LHS: left, RHS: right}; builds %v", desc))
			}
		}
	}
}

// passthroughC10: the exported wrapper hands the extracted range back as is.
func passthroughC10(c *Ctx, ce *ssa.Function) {
	p := c.P
	c.Rule("C10.passthrough", "ConditionExpr returns the time range (and the error) computed by conditionExpr unchanged: it only post-processes the residual expression; a bound adjusted after extraction (clamped, defaulted, widened) no longer describes the timestamps the condition admits")
	f := p.SSAFunc(p.Func("ConditionExpr"))
	if f == nil {
		c.Unk("C10.passthrough", "ConditionExpr", 0, "anchor not found")
		return
	}
	n := 0
	for _, b := range f.Blocks {
		ret, ok := b.Instrs[len(b.Instrs)-1].(*ssa.Return)
		if !ok || len(ret.Results) != 3 {
			continue
		}
		n++
		key := fmt.Sprintf("ConditionExpr: returned range #%d", n)
		v := ret.Results[1]
		fromCall := func(v ssa.Value) bool {
			ex, ok := v.(*ssa.Extract)
			if !ok || ex.Index != 1 {
				return false
			}
			call, ok := ex.Tuple.(*ssa.Call)
			return ok && call.Call.StaticCallee() == ce
		}
		if fromCall(v) {
			c.OK("C10.passthrough", key, ret.Pos(), "the range conditionExpr returned")
			continue
		}
		// spilled to a local because its address is taken
		if ld, ok := v.(*ssa.UnOp); ok {
			if a, ok := ld.X.(*ssa.Alloc); ok {
				okInit, wrote := false, ""
				for _, ref := range *a.Referrers() {
					switch r := ref.(type) {
					case *ssa.Store:
						if r.Addr == ssa.Value(a) {
							if fromCall(r.Val) {
								okInit = true
							} else {
								wrote = "the whole range is overwritten at " + p.Pos(r.Pos())
							}
						}
					case *ssa.FieldAddr:
						for _, ref2 := range *r.Referrers() {
							if st, ok := ref2.(*ssa.Store); ok && st.Addr == ssa.Value(r) {
								wrote = "bound " + fieldNameOf(r) + " is written at " + p.Pos(st.Pos())
							}
						}
					}
				}
				switch {
				case wrote != "":
					c.Bad("C10.passthrough", key, ret.Pos(), wrote+" after extraction: the returned range is not the one the condition denotes")
				case okInit:
					c.OK("C10.passthrough", key, ret.Pos(), "the range conditionExpr returned (held in a local that is only read)")
				default:
					c.Unk("C10.passthrough", key, ret.Pos(), "the local holding the range is not initialised from conditionExpr")
				}
				continue
			}
		}
		c.Unk("C10.passthrough", key, ret.Pos(), "the returned range is not recognisably conditionExpr's")
	}
	c.Floor("C10.passthrough", n, 1)
}

// exactTimeRule: within the package functions reachable from the given roots,
// instants are moved and compared with exact operations only. Calendar or
// rounding arithmetic (AddDate, Truncate, Round, Local) gives a different
// instant than the written `time ± duration` in zones with DST shifts.
func exactTimeRule(c *Ctx, rule string, roots ...string) {
	p := c.P
	c.Rule(rule, "the constant folds and the range extraction move and compare instants with exact operations only (Time.Add/Sub/Equal/Before/After/UTC/In/UnixNano...): `time - 24h` is the instant 86400s earlier, never a calendar day earlier in some zone (AddDate), nor a rounded one (Truncate/Round)")
	exact := map[string]bool{"Add": true, "Sub": true, "Equal": true, "Before": true, "After": true, "UTC": true, "In": true, "UnixNano": true, "Unix": true, "IsZero": true, "Format": true, "Nanosecond": true, "Location": true, "Compare": true, "String": true, "AppendFormat": true}
	inexact := map[string]bool{"AddDate": true, "Truncate": true, "Round": true, "Local": true}
	seen := map[*ssa.Function]bool{}
	n := 0
	counts := map[string]int{}
	nth := func(k string) int { counts[k]++; return counts[k] }
	var visit func(f *ssa.Function)
	visit = func(f *ssa.Function) {
		if f == nil || seen[f] || f.Pkg != p.SPkg {
			return
		}
		seen[f] = true
		for _, a := range f.AnonFuncs {
			visit(a)
		}
		for _, b := range f.Blocks {
			for _, in := range b.Instrs {
				call, ok := in.(*ssa.Call)
				if !ok {
					continue
				}
				cal := call.Call.StaticCallee()
				if cal == nil {
					continue
				}
				visit(cal)
				recv := cal.Signature.Recv()
				if recv == nil || cal.Pkg == nil || cal.Pkg.Pkg.Path() != "time" || !strings.HasSuffix(recv.Type().String(), "time.Time") {
					continue
				}
				n++
				key := fmt.Sprintf("%s: Time.%s #%d", ssaFuncName(f), cal.Name(), nth(ssaFuncName(f)+cal.Name()))
				switch {
				case exact[cal.Name()]:
					c.OK(rule, key, call.Pos(), "exact")
				case inexact[cal.Name()]:
					c.Bad(rule, key, call.Pos(), "calendar/rounding arithmetic on an instant: the folded bound differs from the written one by the zone's DST shift (or the rounding)")
				default:
					c.Unk(rule, key, call.Pos(), "a time.Time method this rule does not classify")
				}
			}
		}
	}
	for _, name := range roots {
		if i := strings.Index(name, "."); i > 0 {
			visit(p.SSAFunc(p.Method(name[:i], name[i+1:])))
		} else {
			visit(p.SSAFunc(p.Func(name)))
		}
	}
	c.Floor(rule, n, 8)
}

// zoneRulesC10: the zone a condition is read in reaches every literal.
func zoneRulesC10(c *Ctx) {
	p := c.P
	c.Rule("C10.zoneparse", "StringLiteral.ToTimeLiteral turns text into an instant only through time.ParseInLocation with its location parameter (defaulted to UTC when nil): a form parsed with time.Parse is read as UTC whatever zone the condition is evaluated in, so the bound is off by the zone offset")
	if f := p.SSAFunc(p.Method("StringLiteral", "ToTimeLiteral")); f == nil {
		c.Unk("C10.zoneparse", "(*StringLiteral).ToTimeLiteral", 0, "anchor not found")
	} else {
		n := 0
		for _, b := range f.Blocks {
			for _, in := range b.Instrs {
				call, ok := in.(*ssa.Call)
				if !ok || call.Call.StaticCallee() == nil {
					continue
				}
				switch call.Call.StaticCallee().String() {
				case "time.Parse":
					n++
					c.Bad("C10.zoneparse", fmt.Sprintf("ToTimeLiteral: parse #%d", n), call.Pos(), "time.Parse reads a zone-less text as UTC; the location parameter is ignored for this form")
				case "time.ParseInLocation":
					n++
					key := fmt.Sprintf("ToTimeLiteral: parse #%d", n)
					fromParam := false
					var walk func(v ssa.Value, d int)
					walk = func(v ssa.Value, d int) {
						if d > 4 {
							return
						}
						switch x := v.(type) {
						case *ssa.Parameter:
							if len(f.Params) == 2 && x == f.Params[1] {
								fromParam = true
							}
						case *ssa.Phi:
							for _, e := range x.Edges {
								walk(e, d+1)
							}
						}
					}
					walk(call.Call.Args[2], 0)
					if fromParam {
						c.OK("C10.zoneparse", key, call.Pos(), "in the caller's location")
					} else {
						c.Bad("C10.zoneparse", key, call.Pos(), "parsed in a location that is not the one the caller asked for")
					}
				}
			}
		}
		c.Floor("C10.zoneparse", n, 3)
	}
	c.Rule("C10.zonefirst", "multiValuer.Zone returns a member's zone only where that zone was tested non-nil (the first member that has one decides): handing back the first zone-aware member's nil makes a later member's zone unreachable, and zone-less literals are read as UTC")
	if f := p.SSAFunc(p.Method("multiValuer", "Zone")); f == nil {
		c.Unk("C10.zonefirst", "multiValuer.Zone", 0, "anchor not found")
	} else {
		n := 0
		for _, b := range f.Blocks {
			ret, ok := b.Instrs[len(b.Instrs)-1].(*ssa.Return)
			if !ok || len(ret.Results) != 1 {
				continue
			}
			if isNilConst(ret.Results[0]) {
				continue
			}
			n++
			key := fmt.Sprintf("multiValuer.Zone: return #%d", n)
			v := ret.Results[0]
			guarded := false
			for d := b; d != nil && !guarded; d = d.Idom() {
				for _, pr := range d.Preds {
					ifi, ok := pr.Instrs[len(pr.Instrs)-1].(*ssa.If)
					if !ok || len(d.Preds) != 1 {
						continue
					}
					bo, ok := ifi.Cond.(*ssa.BinOp)
					if !ok || bo.X != v || !isNilConst(bo.Y) {
						continue
					}
					if (bo.Op == token.NEQ && pr.Succs[0] == d) || (bo.Op == token.EQL && pr.Succs[1] == d) {
						guarded = true
					}
				}
			}
			if guarded {
				c.OK("C10.zonefirst", key, ret.Pos(), "returned only where it is non-nil")
			} else {
				c.Bad("C10.zonefirst", key, ret.Pos(), "a member's zone is returned untested: a zone-aware member without a zone hides the zone of a later member")
			}
		}
		c.Floor("C10.zonefirst", n, 1)
	}
}

// nilLocRule: a location handed to the time package is never a nil pointer
// that came in from a caller.
func nilLocRule(c *Ctx, rule string) {
	p := c.P
	c.Rule(rule, "where a *time.Location parameter of an exported function or method reaches time.ParseInLocation, Time.In or time.Date, it has been replaced by a default or tested non-nil on every path: the time package panics on a nil location, and callers (ConditionExpr under a valuer without a zone) do pass nil")
	n := 0
	for _, f := range p.allSSAFuncs() {
		if f.Parent() != nil {
			continue
		}
		o, _ := f.Object().(*types.Func)
		if o == nil || !o.Exported() {
			continue
		}
		for _, b := range f.Blocks {
			for _, in := range b.Instrs {
				call, ok := in.(*ssa.Call)
				if !ok || call.Call.StaticCallee() == nil {
					continue
				}
				name := call.Call.StaticCallee().String()
				argi := -1
				switch name {
				case "time.ParseInLocation":
					argi = 2
				case "(time.Time).In":
					argi = 1
				case "time.Date":
					argi = 7
				}
				if argi < 0 || argi >= len(call.Call.Args) {
					continue
				}
				prm, ok := call.Call.Args[argi].(*ssa.Parameter)
				if !ok {
					continue // a phi with a default, a field, a package value: not a raw parameter
				}
				n++
				key := fmt.Sprintf("%s: %s with parameter %s", ssaFuncName(f), call.Call.StaticCallee().Name(), prm.Name())
				guarded := false
				for d := b; d != nil && !guarded; d = d.Idom() {
					for _, pr := range d.Preds {
						ifi, ok := pr.Instrs[len(pr.Instrs)-1].(*ssa.If)
						if !ok || len(d.Preds) != 1 {
							continue
						}
						bo, ok := ifi.Cond.(*ssa.BinOp)
						if !ok || bo.X != ssa.Value(prm) || !isNilConst(bo.Y) {
							continue
						}
						if (bo.Op == token.NEQ && pr.Succs[0] == d) || (bo.Op == token.EQL && pr.Succs[1] == d) {
							guarded = true
						}
					}
				}
				if guarded {
					c.OK(rule, key, call.Pos(), "tested non-nil on the way")
				} else {
					c.Bad(rule, key, call.Pos(), "the caller's location is used as it came in: a nil location makes the time package panic")
				}
			}
		}
	}
	c.OK(rule, "location arguments examined", 0, fmt.Sprintf("%d raw parameters handed to the time package", n))
}

// parenRangeC10: a parenthesised group hands on the range found inside it.
func parenRangeC10(c *Ctx, ce *ssa.Function) {
	p := c.P
	c.Rule("C10.parenrange", "in the ParenExpr arm of conditionExpr every successful return carries the time range that the recursive call on the inner expression produced: a short-cut that folds the group and returns an empty range (because some helper saw no time comparison in it) leaves the group's time bounds in the residual and out of the range")
	n := 0
	for _, b := range ce.Blocks {
		for _, in := range b.Instrs {
			ta, ok := in.(*ssa.TypeAssert)
			if !ok || p.TypeStr(ta.AssertedType) != "*ParenExpr" || ta.X != ssa.Value(ce.Params[0]) {
				continue
			}
			// the arm: blocks dominated by the success edge of this assertion
			var arm *ssa.BasicBlock
			if ifi, ok := b.Instrs[len(b.Instrs)-1].(*ssa.If); ok {
				if ex, ok := ifi.Cond.(*ssa.Extract); ok && ex.Tuple == ssa.Value(ta) {
					arm = b.Succs[0]
				}
			}
			if arm == nil {
				continue
			}
			for _, d := range ce.Blocks {
				if d != arm && !arm.Dominates(d) {
					continue
				}
				ret, ok := d.Instrs[len(d.Instrs)-1].(*ssa.Return)
				if !ok || len(ret.Results) != 3 {
					continue
				}
				if k, isC := ret.Results[2].(*ssa.Const); !isC || !k.IsNil() {
					continue
				}
				n++
				key := fmt.Sprintf("conditionExpr: ParenExpr arm, successful return #%d", n)
				fromRec := false
				if ex, ok := ret.Results[1].(*ssa.Extract); ok && ex.Index == 1 {
					if call, ok := ex.Tuple.(*ssa.Call); ok && call.Call.StaticCallee() == ce {
						fromRec = true
					}
				}
				if fromRec {
					c.OK("C10.parenrange", key, ret.Pos(), "the range of the inner expression")
				} else if k, isC := ret.Results[1].(*ssa.Const); isC && k.Value == nil {
					c.Bad("C10.parenrange", key, ret.Pos(), "an empty range is returned for a group whose inner expression was not split: time bounds written with time on the right (`'x' < time`) stay in the residual")
				} else if ld, ok := ret.Results[1].(*ssa.UnOp); ok {
					if _, isAlloc := ld.X.(*ssa.Alloc); isAlloc {
						c.Bad("C10.parenrange", key, ret.Pos(), "an empty range is returned for a group whose inner expression was not split: time bounds written with time on the right (`'x' < time`) stay in the residual")
					} else {
						c.Unk("C10.parenrange", key, ret.Pos(), "the returned range is not the recursive call's")
					}
				} else {
					c.Unk("C10.parenrange", key, ret.Pos(), "the returned range is not the recursive call's")
				}
			}
		}
	}
	c.Floor("C10.parenrange", n, 1)
}

// nilResidualC10: "no residual" is said only of nothing, or of what a
// recursive call already said it of.
func nilResidualC10(c *Ctx, ce *ssa.Function) {
	c.Rule("C10.nilresidual", "a successful return of conditionExpr with a nil residual (and a literal nil error) stands only under `cond == nil` or under a test that the residual of a recursive call was nil; the time-comparison arms return getTimeRange's own error. The AND/OR arm reads a nil side as `nothing to keep` and returns the other side alone — right for a side that was a time bound, wrong for one that merely folded to true: `true OR host = 'a'` is not `host = 'a'`")
	n := 0
	for _, b := range ce.Blocks {
		ret, ok := b.Instrs[len(b.Instrs)-1].(*ssa.Return)
		if !ok || len(ret.Results) != 3 {
			continue
		}
		k0, ok0 := ret.Results[0].(*ssa.Const)
		k2, ok2 := ret.Results[2].(*ssa.Const)
		if !ok0 || !ok2 || !k0.IsNil() || !k2.IsNil() {
			continue
		}
		n++
		key := fmt.Sprintf("conditionExpr: nil residual returned #%d", n)
		why := ""
		for _, d := range ce.Blocks {
			ifi, ok := d.Instrs[len(d.Instrs)-1].(*ssa.If)
			if !ok {
				continue
			}
			bo, ok := ifi.Cond.(*ssa.BinOp)
			if !ok || (bo.Op != token.EQL && bo.Op != token.NEQ) {
				continue
			}
			kc, isC := bo.Y.(*ssa.Const)
			if !isC || !kc.IsNil() {
				continue
			}
			tb := d.Succs[0]
			if bo.Op == token.NEQ {
				tb = d.Succs[1]
			}
			if !(len(tb.Preds) == 1 && (tb == b || tb.Dominates(b))) {
				continue
			}
			switch x := bo.X.(type) {
			case *ssa.Parameter:
				if x == ce.Params[0] {
					why = "the condition itself is nil"
				}
			case *ssa.Extract:
				if call, ok := x.Tuple.(*ssa.Call); ok && call.Call.StaticCallee() == ce && x.Index == 0 {
					why = "the recursive call returned no residual"
				}
			}
		}
		if why != "" {
			c.OK("C10.nilresidual", key, ret.Pos(), why)
		} else {
			c.Bad("C10.nilresidual", key, ret.Pos(), "a nil residual is returned where neither the condition nor a recursive result was tested nil: whatever stood here is dropped from an enclosing OR")
		}
	}
	c.Floor("C10.nilresidual", n, 2)
}

// zoneSourceC10: the valuer's zone is its Location field.
func zoneSourceC10(c *Ctx) {
	p := c.P
	c.Rule("C10.zonesource", "NowValuer.Zone returns the valuer's Location field or nil, nothing computed from the reference time: the zone in which zone-less time strings are read is what the caller set (tz() or nothing, meaning UTC), not whichever zone the clock value happens to carry (a server-local time.Now() would shift every `time > '2000-01-01'` by the server's offset)")
	f := p.SSAFunc(p.Method("NowValuer", "Zone"))
	if f == nil {
		c.Unk("C10.zonesource", "NowValuer.Zone", 0, "anchor not found")
		return
	}
	n := 0
	var origin func(v ssa.Value, depth int) string
	origin = func(v ssa.Value, depth int) string {
		if depth > 4 {
			return "deep"
		}
		switch x := v.(type) {
		case *ssa.Const:
			if x.IsNil() {
				return ""
			}
			return "a constant"
		case *ssa.UnOp:
			if fa, ok := x.X.(*ssa.FieldAddr); ok && fieldName(fa) == "Location" {
				return ""
			}
			return "a load of something else"
		case *ssa.Phi:
			for _, e := range x.Edges {
				if w := origin(e, depth+1); w != "" {
					return w
				}
			}
			return ""
		case *ssa.Call:
			return "the result of " + valueName(x)[len("result of "):]
		}
		return fmt.Sprintf("%T", v)
	}
	for _, b := range f.Blocks {
		ret, ok := b.Instrs[len(b.Instrs)-1].(*ssa.Return)
		if !ok || len(ret.Results) != 1 {
			continue
		}
		n++
		key := fmt.Sprintf("NowValuer.Zone: return #%d", n)
		if w := origin(ret.Results[0], 0); w == "" {
			c.OK("C10.zonesource", key, ret.Pos(), "the Location field or nil")
		} else {
			c.Bad("C10.zonesource", key, ret.Pos(), "returns "+w+": the zone is taken from somewhere other than the valuer's Location")
		}
	}
	c.Floor("C10.zonesource", n, 1)
}
