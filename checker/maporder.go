package main

// E7 — order-sensitivity of map iteration. For every `range` over a map the
// body's effects are classified; an order-sensitive effect (append to a
// slice, write to a builder, early exit, assignment of the loop variables to
// an outer variable) must be neutralised by a sort of the affected slice
// before it leaves the function, or be a listed single-element idiom.

import (
	"go/ast"
	"go/token"
	"go/types"

	"golang.org/x/tools/go/types/typeutil"
)

// mapOrderExceptions: function -> reason.
var mapOrderExceptions = map[string]string{
	"bindObjectValue": "the loop is reached only when len(m) == 1 (the function returns an error otherwise), so there is a single iteration",
	"walkRefs":        "returns the keys unsorted; its only caller ExprNames re-collects them into a set and sorts (checked: no other caller)",
}

func mapOrder(c *Ctx, rule string, only map[*types.Func]bool) int {
	p := c.P
	c.Rule(rule, "no result depends on map iteration order: every range over a map either has only order-insensitive effects (map stores, deletes, set insertion) or appends to a slice that reaches a sort.* call in the same function before it is used; listed single-iteration idioms excepted")
	n := 0
	refs := p.refGraph()
	for _, fb := range p.funcBodies() {
		if fb.Lit != nil {
			continue
		}
		if only != nil && !only[fb.Decl] {
			continue
		}
		fb := fb
		ast.Inspect(fb.Body, func(nd ast.Node) bool {
			rs, ok := nd.(*ast.RangeStmt)
			if !ok {
				return true
			}
			if _, isMap := p.Info.TypeOf(rs.X).Underlying().(*types.Map); !isMap {
				return true
			}
			n++
			key := fb.Name + ": range " + types.ExprString(rs.X)
			if why, ok := mapOrderExceptions[fb.Name]; ok {
				okExc := true
				if fb.Name == "walkRefs" {
					for f, cs := range refs {
						for _, callee := range cs {
							if callee == fb.Decl && f != fb.Decl && f.Name() != "ExprNames" {
								okExc = false
								why = "walkRefs has a caller other than ExprNames: " + FuncName(f)
							}
						}
					}
				}
				if fb.Name == "bindObjectValue" && !lenOneGuard(p, fb.Body, rs) {
					okExc = false
					why = "the len(m) != 1 early return no longer precedes the loop"
				}
				c.Check(okExc, rule, key, rs.Pos(), why)
				return true
			}
			sens, what := orderSensitive(p, fb.Body, rs)
			if sens == nil {
				c.OK(rule, key, rs.Pos(), "body has only order-insensitive effects")
				return true
			}
			allSorted := true
			for _, obj := range sens {
				if obj == nil || !sortedAfter(p, fb.Body, rs, obj) {
					allSorted = false
				}
			}
			if allSorted {
				c.OK(rule, key, rs.Pos(), "appended slice is sorted after the loop: "+what)
			} else if lenOneBefore(p, fb.Body, rs.Pos(), types.ExprString(rs.X)) {
				c.OK(rule, key, rs.Pos(), "the loop is reached only when the map has exactly one entry (len != 1 returns before it)")
			} else if singleEntryCallers(p, fb, rs) {
				c.OK(rule, key, rs.Pos(), "the ranged map is a parameter and every caller returns before the call unless it has exactly one entry")
			} else {
				c.Bad(rule, key, rs.Pos(), "order-sensitive effect not followed by a sort: "+what)
			}
			return true
		})
	}
	return n
}

// singleEntryCallers: rs ranges over a parameter of fb, and each call of fb in
// the package is preceded, in its caller, by `if len(arg) != 1 { return }`.
func singleEntryCallers(p *Program, fb funcBody, rs *ast.RangeStmt) bool {
	id := identOf(rs.X)
	fd := p.FuncDecls[fb.Decl]
	if id == nil || fd == nil || fd.Type.Params == nil {
		return false
	}
	idx, k := -1, 0
	for _, f := range fd.Type.Params.List {
		for _, n := range f.Names {
			if p.Info.Defs[n] == p.Info.ObjectOf(id) {
				idx = k
			}
			k++
		}
	}
	if idx < 0 {
		return false
	}
	calls := 0
	ok := true
	for _, other := range p.funcBodies() {
		if other.Lit != nil {
			continue
		}
		other := other
		ast.Inspect(other.Body, func(n ast.Node) bool {
			call, isCall := n.(*ast.CallExpr)
			if !isCall {
				return true
			}
			if callee, _ := typeutil.Callee(p.Info, call).(*types.Func); callee != fb.Decl || idx >= len(call.Args) {
				return true
			}
			calls++
			if !lenOneBefore(p, other.Body, call.Pos(), types.ExprString(call.Args[idx])) {
				ok = false
			}
			return true
		})
	}
	return calls > 0 && ok
}

// lenOneBefore: an `if len(X) != 1 { ...return }` statement of body precedes pos.
func lenOneBefore(p *Program, body *ast.BlockStmt, pos token.Pos, x string) bool {
	for _, st := range body.List {
		if st.Pos() >= pos {
			break
		}
		is, ok := st.(*ast.IfStmt)
		if !ok {
			continue
		}
		b, ok := ast.Unparen(is.Cond).(*ast.BinaryExpr)
		if !ok || b.Op != token.NEQ {
			continue
		}
		call, ok := b.X.(*ast.CallExpr)
		if !ok || len(call.Args) != 1 {
			continue
		}
		if id := identOf(call.Fun); id == nil || id.Name != "len" {
			continue
		}
		if types.ExprString(call.Args[0]) != x {
			continue
		}
		if lit, ok := b.Y.(*ast.BasicLit); !ok || lit.Value != "1" {
			continue
		}
		if len(is.Body.List) > 0 {
			if _, ok := is.Body.List[len(is.Body.List)-1].(*ast.ReturnStmt); ok {
				return true
			}
		}
	}
	return false
}

// lenOneGuard: an `if len(X) != 1 { return }` on the ranged map precedes rs.
func lenOneGuard(p *Program, body *ast.BlockStmt, rs *ast.RangeStmt) bool {
	found := false
	for _, st := range body.List {
		if st.Pos() >= rs.Pos() {
			break
		}
		is, ok := st.(*ast.IfStmt)
		if !ok {
			continue
		}
		b, ok := ast.Unparen(is.Cond).(*ast.BinaryExpr)
		if !ok || b.Op != token.NEQ {
			continue
		}
		call, ok := b.X.(*ast.CallExpr)
		if !ok || len(call.Args) != 1 {
			continue
		}
		if id := identOf(call.Fun); id == nil || id.Name != "len" {
			continue
		}
		if types.ExprString(call.Args[0]) != types.ExprString(rs.X) {
			continue
		}
		if lit, ok := b.Y.(*ast.BasicLit); !ok || lit.Value != "1" {
			continue
		}
		if len(is.Body.List) > 0 {
			if _, ok := is.Body.List[len(is.Body.List)-1].(*ast.ReturnStmt); ok {
				found = true
			}
		}
	}
	return found
}

// orderSensitive returns the slice variables appended to (nil entry = an
// effect that cannot be sorted away) and a description; nil slice when the
// body is order-insensitive.
func orderSensitive(p *Program, fn *ast.BlockStmt, rs *ast.RangeStmt) ([]types.Object, string) {
	var objs []types.Object
	what := ""
	local := map[types.Object]bool{}
	rootIdent := func(e ast.Expr) *ast.Ident {
		for {
			switch x := ast.Unparen(e).(type) {
			case *ast.Ident:
				return x
			case *ast.SelectorExpr:
				e = x.X
			case *ast.IndexExpr:
				e = x.X
			case *ast.StarExpr:
				e = x.X
			default:
				return nil
			}
		}
	}
	ast.Inspect(rs.Body, func(n ast.Node) bool {
		switch s := n.(type) {
		case *ast.DeclStmt:
			if gd, ok := s.Decl.(*ast.GenDecl); ok {
				for _, sp := range gd.Specs {
					if vs, ok := sp.(*ast.ValueSpec); ok {
						for _, nm := range vs.Names {
							// a value-typed variable declared in the body is fresh per iteration
							if o := p.Info.ObjectOf(nm); o != nil {
								if _, isPtr := o.Type().Underlying().(*types.Pointer); !isPtr {
									local[o] = true
								}
							}
						}
					}
				}
			}
		case *ast.AssignStmt:
			if s.Tok == token.DEFINE {
				for _, l := range s.Lhs {
					if id := identOf(l); id != nil {
						local[p.Info.ObjectOf(id)] = true
					}
				}
				return true
			}
			for i, l := range s.Lhs {
				switch lx := ast.Unparen(l).(type) {
				case *ast.IndexExpr:
					if _, isMap := p.Info.TypeOf(lx.X).Underlying().(*types.Map); isMap {
						continue // map store: insensitive
					}
					// keys[n] = k into a slice variable: as sortable as an append
					if id := identOf(lx.X); id != nil {
						if _, isSlice := p.Info.TypeOf(lx.X).Underlying().(*types.Slice); isSlice {
							objs = append(objs, p.Info.ObjectOf(id))
							what += "indexed store into " + id.Name + "; "
							continue
						}
					}
					objs = append(objs, nil)
					what += "indexed store " + types.ExprString(l) + "; "
				case *ast.Ident:
					obj := p.Info.ObjectOf(lx)
					if local[obj] || lx.Name == "_" {
						continue
					}
					// x = append(x, ...)
					if i < len(s.Rhs) {
						if call, ok := s.Rhs[i].(*ast.CallExpr); ok {
							if id := identOf(call.Fun); id != nil && id.Name == "append" {
								objs = append(objs, obj)
								what += "append to " + lx.Name + "; "
								continue
							}
						}
					}
					if b, ok := p.Info.TypeOf(lx).Underlying().(*types.Basic); ok && b.Info()&types.IsBoolean != 0 {
						continue // boolean accumulation
					}
					objs = append(objs, nil)
					what += "assignment to outer variable " + lx.Name + "; "
				default:
					if sel, ok := lx.(*ast.SelectorExpr); ok {
						// a field of a struct-valued variable declared in this body
						if id := rootIdent(sel); id != nil && local[p.Info.ObjectOf(id)] {
							if _, isStruct := p.Info.TypeOf(id).Underlying().(*types.Struct); isStruct {
								continue
							}
						}
					}
					objs = append(objs, nil)
					what += "store to " + types.ExprString(l) + "; "
				}
			}
		case *ast.ReturnStmt:
			// returning a constant error/false is order-insensitive only if
			// every iteration would return the same; treat any return that
			// mentions a loop variable as sensitive.
			mention := false
			ast.Inspect(s, func(m ast.Node) bool {
				if id, ok := m.(*ast.Ident); ok {
					o := p.Info.ObjectOf(id)
					if (rs.Key != nil && identOf(rs.Key) != nil && o == p.Info.ObjectOf(identOf(rs.Key))) ||
						(rs.Value != nil && identOf(rs.Value) != nil && o == p.Info.ObjectOf(identOf(rs.Value))) {
						mention = true
					}
				}
				return true
			})
			if mention {
				objs = append(objs, nil)
				what += "early return of a loop variable; "
			}
		case *ast.ExprStmt:
			if call, ok := s.X.(*ast.CallExpr); ok {
				if f, ok := typeutil.Callee(p.Info, call).(*types.Func); ok {
					if f.Name() == "WriteString" || f.Name() == "Fprintf" || f.Name() == "WriteByte" || f.Name() == "WriteRune" || f.Name() == "Write" {
						objs = append(objs, nil)
						what += "output written inside the loop; "
					}
				}
			}
		}
		return true
	})
	return objs, what
}

// sortedAfter: after rs, in the same function, sort.X is called on obj
// (possibly through a conversion) before the function's end.
func sortedAfter(p *Program, fn *ast.BlockStmt, rs *ast.RangeStmt, obj types.Object) bool {
	found := false
	ast.Inspect(fn, func(n ast.Node) bool {
		call, ok := n.(*ast.CallExpr)
		if !ok || call.Pos() < rs.End() {
			return true
		}
		f, ok := typeutil.Callee(p.Info, call).(*types.Func)
		if !ok || f.Pkg() == nil || f.Pkg().Path() != "sort" {
			return true
		}
		for _, a := range call.Args {
			ast.Inspect(a, func(m ast.Node) bool {
				if id, ok := m.(*ast.Ident); ok && p.Info.ObjectOf(id) == obj {
					found = true
				}
				return true
			})
		}
		return true
	})
	return found
}
