package main

// E3 — guard dominance. A path-sensitive forward dataflow over go/cfg blocks
// with branch refinement. Facts are keyed by normalised access paths rooted at
// a types.Object (so shadowed names never alias).
//
// must-facts (intersection at joins):
//   lenlb[P] = k      len(P) >= k
//   nonzero[T]        the integer-typed term T is != 0
//   lenOf[v] = P      the integer variable v holds len(P)
//   sameLen[v] = P    the slice variable v was made with len(P)
//   inRange[i] = P    0 <= i < len(P)
//   okOf[ok] = v      the bool `ok` is the comma-ok result that defined v
// may-facts (union at joins):
//   maybeNil[v]       v came from a comma-ok assertion whose ok was not tested

import (
	"fmt"
	"go/ast"
	"go/constant"
	"go/token"
	"go/types"
	"sort"
	"strings"
)

type facts struct {
	lenlb    map[string]int
	nonzero  map[string]bool
	lenOf    map[string]string
	sameLen  map[string]string
	inRange  map[string]string
	okOf     map[string]string
	maybeNil map[string]bool
	ub       map[string]int64  // path < ub
	nonneg   map[string]bool   // path >= 0
	errOf    map[string]string // err variable -> pointer returned alongside it by the same call
	errVal   map[string]bool   // may-fact: pointer whose accompanying error is not known nil here
}

func newFacts() *facts {
	return &facts{map[string]int{}, map[string]bool{}, map[string]string{}, map[string]string{},
		map[string]string{}, map[string]string{}, map[string]bool{}, map[string]int64{}, map[string]bool{},
		map[string]string{}, map[string]bool{}}
}

func (f *facts) clone() *facts {
	g := newFacts()
	for k, v := range f.lenlb {
		g.lenlb[k] = v
	}
	for k := range f.nonzero {
		g.nonzero[k] = true
	}
	for k, v := range f.lenOf {
		g.lenOf[k] = v
	}
	for k, v := range f.sameLen {
		g.sameLen[k] = v
	}
	for k, v := range f.inRange {
		g.inRange[k] = v
	}
	for k, v := range f.okOf {
		g.okOf[k] = v
	}
	for k := range f.maybeNil {
		g.maybeNil[k] = true
	}
	for k, v := range f.ub {
		g.ub[k] = v
	}
	for k := range f.nonneg {
		g.nonneg[k] = true
	}
	for k, v := range f.errOf {
		g.errOf[k] = v
	}
	for k := range f.errVal {
		g.errVal[k] = true
	}
	return g
}

// meet computes the join-point combination of f and g (in place into a copy).
func meet(f, g *facts) *facts {
	if f == nil {
		return g.clone()
	}
	if g == nil {
		return f.clone()
	}
	r := newFacts()
	for k, v := range f.lenlb {
		if w, ok := g.lenlb[k]; ok {
			if w < v {
				v = w
			}
			r.lenlb[k] = v
		}
	}
	for k := range f.nonzero {
		if g.nonzero[k] {
			r.nonzero[k] = true
		}
	}
	for k, v := range f.lenOf {
		if g.lenOf[k] == v {
			r.lenOf[k] = v
		}
	}
	for k, v := range f.sameLen {
		if g.sameLen[k] == v {
			r.sameLen[k] = v
		}
	}
	for k, v := range f.inRange {
		if g.inRange[k] == v {
			r.inRange[k] = v
		}
	}
	for k, v := range f.okOf {
		if g.okOf[k] == v {
			r.okOf[k] = v
		}
	}
	for k := range f.maybeNil {
		r.maybeNil[k] = true
	}
	for k := range g.maybeNil {
		r.maybeNil[k] = true
	}
	for k, v := range f.ub {
		if w, ok := g.ub[k]; ok {
			if w > v {
				v = w
			}
			r.ub[k] = v
		}
	}
	for k := range f.nonneg {
		if g.nonneg[k] {
			r.nonneg[k] = true
		}
	}
	for k, v := range f.errOf {
		if g.errOf[k] == v {
			r.errOf[k] = v
		}
	}
	for k := range f.errVal {
		r.errVal[k] = true
	}
	for k := range g.errVal {
		r.errVal[k] = true
	}
	return r
}

func (f *facts) equal(g *facts) bool {
	if f == nil || g == nil {
		return f == g
	}
	return f.String() == g.String()
}

func (f *facts) String() string {
	var parts []string
	for k, v := range f.lenlb {
		parts = append(parts, fmt.Sprintf("len(%s)>=%d", k, v))
	}
	for k := range f.nonzero {
		parts = append(parts, "nz:"+k)
	}
	for k, v := range f.lenOf {
		parts = append(parts, k+"=len("+v+")")
	}
	for k, v := range f.sameLen {
		parts = append(parts, "samelen:"+k+"~"+v)
	}
	for k, v := range f.inRange {
		parts = append(parts, k+" in "+v)
	}
	for k, v := range f.okOf {
		parts = append(parts, "ok:"+k+"->"+v)
	}
	for k := range f.maybeNil {
		parts = append(parts, "maybenil:"+k)
	}
	for k, v := range f.ub {
		parts = append(parts, fmt.Sprintf("%s<%d", k, v))
	}
	for k := range f.nonneg {
		parts = append(parts, k+">=0")
	}
	sort.Strings(parts)
	return strings.Join(parts, "; ")
}

func hasPrefixPath(k, p string) bool {
	return k == p || strings.HasPrefix(k, p+"+") || strings.HasPrefix(k, p+".") || strings.HasPrefix(k, p+"[") || strings.Contains(k, "("+p+")") || strings.Contains(k, "("+p+".")
}

// kill removes every fact that mentions path p or something below it.
func (f *facts) kill(p string) {
	for k := range f.lenlb {
		if hasPrefixPath(k, p) {
			delete(f.lenlb, k)
		}
	}
	for k := range f.nonzero {
		if hasPrefixPath(k, p) {
			delete(f.nonzero, k)
		}
	}
	for k, v := range f.lenOf {
		if hasPrefixPath(k, p) || hasPrefixPath(v, p) {
			delete(f.lenOf, k)
		}
	}
	for k, v := range f.sameLen {
		if hasPrefixPath(k, p) || hasPrefixPath(v, p) {
			delete(f.sameLen, k)
		}
	}
	for k, v := range f.inRange {
		if hasPrefixPath(k, p) || hasPrefixPath(v, p) {
			delete(f.inRange, k)
		}
	}
	for k, v := range f.okOf {
		if hasPrefixPath(k, p) || hasPrefixPath(v, p) {
			delete(f.okOf, k)
		}
	}
	for k := range f.maybeNil {
		if hasPrefixPath(k, p) {
			delete(f.maybeNil, k)
		}
	}
	for k := range f.ub {
		if hasPrefixPath(k, p) {
			delete(f.ub, k)
		}
	}
	for k := range f.nonneg {
		if hasPrefixPath(k, p) {
			delete(f.nonneg, k)
		}
	}
	for k, v := range f.errOf {
		if hasPrefixPath(k, p) || hasPrefixPath(v, p) {
			delete(f.errOf, k)
		}
	}
	for k := range f.errVal {
		if hasPrefixPath(k, p) {
			delete(f.errVal, k)
		}
	}
}

// killField removes facts whose path goes through a field with this name
// (used for calls whose callee may assign that field on some object).
func (f *facts) killField(name string) {
	has := func(k string) bool {
		return strings.Contains(k, "."+name+".") || strings.HasSuffix(k, "."+name) || strings.Contains(k, "."+name+")")
	}
	for k := range f.lenlb {
		if has(k) {
			delete(f.lenlb, k)
		}
	}
	for k := range f.nonzero {
		if has(k) {
			delete(f.nonzero, k)
		}
	}
	for k, v := range f.lenOf {
		if has(v) {
			delete(f.lenOf, k)
		}
	}
	for k, v := range f.sameLen {
		if has(v) || has(k) {
			delete(f.sameLen, k)
		}
	}
	for k, v := range f.inRange {
		if has(v) {
			delete(f.inRange, k)
		}
	}
}

// ---- paths ----

type pathEnv struct {
	info *types.Info
	// boolDef: boolean locals assigned exactly once from a condition whose
	// operands are not assigned afterwards (`ok := len(x) > 1`): testing the
	// local is testing the condition
	boolDef map[types.Object]ast.Expr
	// rangeKeys: objects that are the key variable of some range statement
	rangeKeys map[types.Object]bool
}

// pathOf normalises a side-effect-free access path: identifiers, field
// selections, dereferences and parentheses. Integer-to-integer conversions are
// transparent; any other conversion is an opaque term of its own.
func (pe pathEnv) pathOf(e ast.Expr) (string, bool) {
	switch e := e.(type) {
	case *ast.ParenExpr:
		return pe.pathOf(e.X)
	case *ast.Ident:
		if e.Name == "_" {
			return "", false
		}
		obj := pe.info.ObjectOf(e)
		if v, ok := obj.(*types.Var); ok {
			return fmt.Sprintf("%s@%d", v.Name(), v.Pos()), true
		}
		return "", false
	case *ast.SelectorExpr:
		sel := pe.info.Selections[e]
		if sel == nil || sel.Kind() != types.FieldVal {
			return "", false
		}
		p, ok := pe.pathOf(e.X)
		if !ok {
			return "", false
		}
		return p + "." + e.Sel.Name, true
	case *ast.StarExpr:
		p, ok := pe.pathOf(e.X)
		if !ok {
			return "", false
		}
		return p, true
	case *ast.CallExpr:
		// conversion?
		if len(e.Args) == 1 {
			if tv, ok := pe.info.Types[e.Fun]; ok && tv.IsType() {
				p, ok := pe.pathOf(e.Args[0])
				if !ok {
					return "", false
				}
				if isIntegerType(tv.Type) && isIntegerType(pe.info.TypeOf(e.Args[0])) {
					return p, true
				}
				return "conv:" + types.TypeString(tv.Type, nil) + "(" + p + ")", true
			}
		}
	}
	return "", false
}

func isIntegerType(t types.Type) bool {
	if t == nil {
		return false
	}
	b, ok := t.Underlying().(*types.Basic)
	return ok && b.Info()&types.IsInteger != 0
}

func isNilable(t types.Type) bool {
	switch t.Underlying().(type) {
	case *types.Pointer, *types.Interface, *types.Map, *types.Slice, *types.Signature, *types.Chan:
		return true
	}
	return false
}

func (pe pathEnv) constInt(e ast.Expr) (int64, bool) {
	tv, ok := pe.info.Types[e]
	if !ok || tv.Value == nil {
		return 0, false
	}
	v := constant.ToInt(tv.Value)
	if v.Kind() != constant.Int {
		return 0, false
	}
	n, exact := constant.Int64Val(v)
	return n, exact
}

// lenArg recognises len(P) (or a variable known to hold len(P)).
func (pe pathEnv) lenArg(e ast.Expr, f *facts) (string, bool) {
	e = ast.Unparen(e)
	if c, ok := e.(*ast.CallExpr); ok && len(c.Args) == 1 {
		if id, ok := c.Fun.(*ast.Ident); ok && id.Name == "len" {
			if _, isBuiltin := pe.info.Uses[id].(*types.Builtin); isBuiltin {
				return pe.pathOf(c.Args[0])
			}
		}
	}
	if p, ok := pe.pathOf(e); ok {
		if q, ok := f.lenOf[p]; ok {
			return q, true
		}
	}
	return "", false
}

func negateOp(op token.Token) token.Token {
	switch op {
	case token.EQL:
		return token.NEQ
	case token.NEQ:
		return token.EQL
	case token.LSS:
		return token.GEQ
	case token.LEQ:
		return token.GTR
	case token.GTR:
		return token.LEQ
	case token.GEQ:
		return token.LSS
	}
	return token.ILLEGAL
}

func swapOp(op token.Token) token.Token {
	switch op {
	case token.LSS:
		return token.GTR
	case token.LEQ:
		return token.GEQ
	case token.GTR:
		return token.LSS
	case token.GEQ:
		return token.LEQ
	}
	return op
}

// refine returns the facts that hold when cond evaluates to `branch`.
// switchTag, when non-nil, turns a bare case expression into tag == cond.
func (pe pathEnv) refine(cond ast.Expr, branch bool, in *facts) *facts {
	f := in.clone()
	pe.refineInto(cond, branch, f)
	return f
}

func (pe pathEnv) refineInto(cond ast.Expr, branch bool, f *facts) {
	switch c := ast.Unparen(cond).(type) {
	case *ast.UnaryExpr:
		if c.Op == token.NOT {
			pe.refineInto(c.X, !branch, f)
		}
	case *ast.Ident:
		if p, ok := pe.pathOf(c); ok {
			if v, ok := f.okOf[p]; ok && branch {
				delete(f.maybeNil, v)
			}
		}
		if pe.boolDef != nil {
			if def, ok := pe.boolDef[pe.info.ObjectOf(c)]; ok {
				pe.refineInto(def, branch, f)
			}
		}
	case *ast.BinaryExpr:
		switch c.Op {
		case token.LAND:
			if branch {
				pe.refineInto(c.X, true, f)
				pe.refineInto(c.Y, true, f)
			} else {
				a := f.clone()
				pe.refineInto(c.X, false, a)
				b := f.clone()
				pe.refineInto(c.X, true, b)
				pe.refineInto(c.Y, false, b)
				*f = *meet(a, b)
			}
		case token.LOR:
			if !branch {
				pe.refineInto(c.X, false, f)
				pe.refineInto(c.Y, false, f)
			} else {
				a := f.clone()
				pe.refineInto(c.X, true, a)
				b := f.clone()
				pe.refineInto(c.X, false, b)
				pe.refineInto(c.Y, true, b)
				*f = *meet(a, b)
			}
		case token.EQL, token.NEQ, token.LSS, token.LEQ, token.GTR, token.GEQ:
			op := c.Op
			if !branch {
				op = negateOp(op)
			}
			pe.refineCmp(c.X, op, c.Y, f)
		}
	}
}

// refineCmp records what `x op y` (known true) says.
func (pe pathEnv) refineCmp(x ast.Expr, op token.Token, y ast.Expr, f *facts) {
	// normalise constant to the right
	if _, ok := pe.constInt(x); ok {
		x, y = y, x
		op = swapOp(op)
	}
	// nil comparisons
	if id, ok := ast.Unparen(y).(*ast.Ident); ok && id.Name == "nil" {
		if p, ok := pe.pathOf(x); ok && op == token.NEQ {
			delete(f.maybeNil, p)
			delete(f.errVal, p)
		}
		if p, ok := pe.pathOf(x); ok && op == token.EQL {
			if v, has := f.errOf[p]; has {
				delete(f.errVal, v) // the error is nil here: its companion is valid
			}
		}
		return
	}
	if id, ok := ast.Unparen(x).(*ast.Ident); ok && id.Name == "nil" {
		if p, ok := pe.pathOf(y); ok && op == token.NEQ {
			delete(f.maybeNil, p)
			delete(f.errVal, p)
		}
		if p, ok := pe.pathOf(y); ok && op == token.EQL {
			if v, has := f.errOf[p]; has {
				delete(f.errVal, v)
			}
		}
		return
	}
	c, isConst := pe.constInt(y)
	if isConst {
		if p, ok := pe.lenArg(x, f); ok {
			lb := -1
			switch op {
			case token.EQL:
				lb = int(c)
			case token.NEQ:
				if c == 0 {
					lb = 1
				}
			case token.GTR:
				lb = int(c) + 1
			case token.GEQ:
				lb = int(c)
			}
			if lb > f.lenlb[p] {
				f.lenlb[p] = lb
			}
		}
		if p, ok := pe.pathOf(x); ok && isIntegerType(pe.info.TypeOf(x)) {
			nz := false
			switch op {
			case token.EQL:
				nz = c != 0
			case token.NEQ:
				nz = c == 0
			case token.GTR:
				nz = c >= 0
			case token.GEQ:
				nz = c >= 1
			case token.LSS:
				nz = c <= 0
			case token.LEQ:
				nz = c <= -1
			}
			if nz {
				f.nonzero[p] = true
			}
			switch op {
			case token.LSS:
				f.ub[p] = c
			case token.LEQ:
				f.ub[p] = c + 1
			case token.EQL:
				f.ub[p] = c + 1
				if c >= 0 {
					f.nonneg[p] = true
				}
			case token.GEQ:
				if c >= 0 {
					f.nonneg[p] = true
				}
			case token.GTR:
				if c >= -1 {
					f.nonneg[p] = true
				}
			}
		}
		return
	}
	// i < len(P), also i+k < len(P) (kept under the key "i+k")
	if p, ok := pe.lenArg(y, f); ok && op == token.LSS {
		if ip, ok := pe.idxKey(x); ok {
			f.inRange[ip] = p
		}
	}
	if p, ok := pe.lenArg(x, f); ok && op == token.GTR {
		if ip, ok := pe.idxKey(y); ok {
			f.inRange[ip] = p
		}
	}
}

// idxKey names an index expression for range facts: a variable's path, or
// "path+k" for variable + small constant.
func (pe pathEnv) idxKey(e ast.Expr) (string, bool) {
	if p, ok := pe.pathOf(e); ok {
		return p, true
	}
	if be, ok := ast.Unparen(e).(*ast.BinaryExpr); ok && be.Op == token.ADD {
		if k, isC := pe.constInt(be.Y); isC && k >= 1 && k <= 4 {
			if p, ok := pe.pathOf(be.X); ok {
				return fmt.Sprintf("%s+%d", p, k), true
			}
		}
	}
	return "", false
}
